// golean: a small Go-to-Lean translator for the pure string / integer functions of go-flags.
//
// It type-checks /repo's library sources (the files the default build selects) and writes
// lean/GoFlags/Generated/Trans.lean: one definition `go_<name>` per function of the list below,
// built from the primitives of GoFlags/GoSem.lean (run-time panics are `none`).  The theorems of
// Props/<id>/Trans.lean state that each `go_<name>` never panics and equals the hand-written
// model's function on every input, so a change to one of these functions is re-checked against
// the model by Lean's kernel on every run — not by sampling.
//
// The subset: parameters and locals of type string, int, bool, byte, rune, []string, []rune,
// [][]int, *string; if / else, return (also of several values), := and =, element assignment,
// `for i, x := range` over slices and strings, len, index and slice expressions, comparison,
// arithmetic and short-circuit logic, conversions []rune(s), append of one element, and calls of a fixed table of
// standard-library functions and of other translated functions.  Anything else makes the
// function `Untranslatable`, which breaks its theorem (reported, never silently skipped).
package main

import (
	"flag"
	"fmt"
	"go/ast"
	"go/build"
	"go/constant"
	"go/importer"
	"go/parser"
	"go/token"
	"go/types"
	"os"
	"strings"
)

// functions to translate, in dependency order; env = the definition takes the oracle record
var wanted = []string{
	"argumentStartsOption", "argumentIsOption", "stripOptionPrefix", "splitOption",
	"formatBase", "isStringFalsy",
	"isPrint", "quoteIfNeeded", "quoteIfNeededV", "quoteV", "unquoteIfPossible", "iniNeedsQuote",
	"levenshtein", "closestChoice",
	"manQuote", "manQuoteLines",
}

type unsupported struct{ why string }

func fail(format string, a ...interface{}) { panic(unsupported{fmt.Sprintf(format, a...)}) }

type tr struct {
	info    *types.Info
	fset    *token.FileSet
	needEnv map[string]bool // translated functions that take the oracle record
	done    map[string]bool
	tmp     int
	usesEnv bool
	retTy   string
	fname   string
	loops   int
	aux     []string
}

func (t *tr) fresh() string { t.tmp++; return fmt.Sprintf("t_%d", t.tmp) }

func leanBytes(s string) string {
	if s == "" {
		return "([] : Bytes)"
	}
	parts := make([]string, len(s))
	for i := 0; i < len(s); i++ {
		parts[i] = fmt.Sprintf("%d", s[i])
	}
	return "([" + strings.Join(parts, ", ") + "] : Bytes)"
}

func (t *tr) leanType(ty types.Type) string {
	switch u := ty.(type) {
	case *types.Basic:
		switch u.Kind() {
		case types.String, types.UntypedString:
			return "Bytes"
		case types.Int, types.Int64, types.UntypedInt:
			return "Int"
		case types.Bool, types.UntypedBool:
			return "Bool"
		case types.Uint8, types.Int32, types.UntypedRune:
			return "Nat"
		}
	case *types.Slice:
		return "(List " + t.leanType(u.Elem()) + ")"
	case *types.Pointer:
		if b, ok := u.Elem().(*types.Basic); ok && b.Kind() == types.String {
			return "(Option Bytes)"
		}
	case *types.Named:
		if u.Obj().Name() == "error" && u.Obj().Pkg() == nil {
			return "(Option Unit)"
		}
	case *types.Tuple:
		parts := []string{}
		for i := 0; i < u.Len(); i++ {
			parts = append(parts, t.leanType(u.At(i).Type()))
		}
		if len(parts) == 0 {
			return "Unit"
		}
		if len(parts) == 1 {
			return parts[0]
		}
		return "(" + strings.Join(parts, " × ") + ")"
	}
	fail("type %s", ty.String())
	return ""
}

func (t *tr) zero(ty types.Type) string {
	switch u := ty.(type) {
	case *types.Basic:
		switch u.Kind() {
		case types.String:
			return "([] : Bytes)"
		case types.Int, types.Int64:
			return "(0 : Int)"
		case types.Bool:
			return "false"
		case types.Uint8, types.Int32:
			return "(0 : Nat)"
		}
	case *types.Slice:
		return "([] : " + t.leanType(ty) + ")"
	case *types.Pointer:
		return "(none : Option Bytes)"
	}
	fail("zero value of %s", ty.String())
	return ""
}

func isNatType(ty types.Type) bool {
	b, ok := ty.Underlying().(*types.Basic)
	return ok && (b.Kind() == types.Uint8 || b.Kind() == types.Int32 || b.Kind() == types.UntypedRune)
}

func ident(name string) string {
	if name == "_" {
		return "_"
	}
	switch name {
	case "prefix", "end", "from", "at", "then", "else", "do", "fun", "let", "match", "with", "open", "in", "have", "show", "by", "Type", "where", "instance":
		return name + "_"
	}
	return name
}

// expr compiles e; pre receives the `let x ← …` lines that must run before the returned atom is used
func (t *tr) expr(e ast.Expr, pre *[]string) string {
	if tv, ok := t.info.Types[e]; ok && tv.Value != nil {
		switch tv.Value.Kind() {
		case constant.Int:
			if isNatType(tv.Type) {
				return "(" + tv.Value.ExactString() + " : Nat)"
			}
			return "(" + tv.Value.ExactString() + " : Int)"
		case constant.String:
			return leanBytes(constant.StringVal(tv.Value))
		case constant.Bool:
			return tv.Value.String()
		}
	}
	switch x := e.(type) {
	case *ast.ParenExpr:
		return t.expr(x.X, pre)
	case *ast.Ident:
		if x.Name == "nil" {
			ty := t.info.Types[e].Type
			_ = ty
			return "none"
		}
		if x.Name == "true" || x.Name == "false" {
			return x.Name
		}
		return ident(x.Name)
	case *ast.BasicLit:
		fail("literal %s", x.Value)
	case *ast.UnaryExpr:
		switch x.Op {
		case token.NOT:
			return "(!" + t.expr(x.X, pre) + ")"
		case token.AND:
			if id, ok := x.X.(*ast.Ident); ok {
				if b, ok := t.info.Types[x.X].Type.(*types.Basic); ok && b.Kind() == types.String {
					return "(some " + ident(id.Name) + ")"
				}
			}
		case token.SUB:
			if !isNatType(t.info.Types[x.X].Type) {
				return "(-" + t.expr(x.X, pre) + ")"
			}
		}
		fail("unary %s", x.Op)
	case *ast.BinaryExpr:
		return t.binary(x, pre)
	case *ast.IndexExpr:
		s := t.expr(x.X, pre)
		i := t.expr(x.Index, pre)
		v := t.fresh()
		*pre = append(*pre, fmt.Sprintf("let %s ← Go.idx %s %s", v, s, i))
		return v
	case *ast.SliceExpr:
		if x.Slice3 {
			fail("3-index slice")
		}
		s := t.expr(x.X, pre)
		v := t.fresh()
		switch {
		case x.Low != nil && x.High != nil:
			*pre = append(*pre, fmt.Sprintf("let %s ← Go.slice %s %s %s", v, s, t.expr(x.Low, pre), t.expr(x.High, pre)))
		case x.Low != nil:
			*pre = append(*pre, fmt.Sprintf("let %s ← Go.sliceFrom %s %s", v, s, t.expr(x.Low, pre)))
		case x.High != nil:
			*pre = append(*pre, fmt.Sprintf("let %s ← Go.sliceTo %s %s", v, s, t.expr(x.High, pre)))
		default:
			return s
		}
		return v
	case *ast.CallExpr:
		return t.call(x, pre)
	case *ast.CompositeLit:
		if len(x.Elts) == 0 {
			if _, ok := t.info.Types[e].Type.(*types.Slice); ok {
				return "([] : " + t.leanType(t.info.Types[e].Type) + ")"
			}
		}
		fail("composite literal")
	}
	fail("expression %T", e)
	return ""
}

func (t *tr) binary(x *ast.BinaryExpr, pre *[]string) string {
	switch x.Op {
	case token.LAND, token.LOR:
		a := t.expr(x.X, pre)
		var bpre []string
		b := t.expr(x.Y, &bpre)
		if len(bpre) == 0 {
			if x.Op == token.LAND {
				return "(" + a + " && " + b + ")"
			}
			return "(" + a + " || " + b + ")"
		}
		// the right operand may panic: it runs only when the left one does not decide
		v := t.fresh()
		inner := "(do " + strings.Join(bpre, "; ") + "; pure " + b + ")"
		if x.Op == token.LAND {
			*pre = append(*pre, fmt.Sprintf("let %s ← if %s then %s else pure false", v, a, inner))
		} else {
			*pre = append(*pre, fmt.Sprintf("let %s ← if %s then pure true else %s", v, a, inner))
		}
		return v
	}
	a := t.expr(x.X, pre)
	b := t.expr(x.Y, pre)
	xt := t.info.Types[x.X].Type
	switch x.Op {
	case token.EQL:
		return "(decide (" + a + " = " + b + "))"
	case token.NEQ:
		return "(decide (" + a + " ≠ " + b + "))"
	case token.LSS:
		return "(decide (" + a + " < " + b + "))"
	case token.LEQ:
		return "(decide (" + a + " ≤ " + b + "))"
	case token.GTR:
		return "(decide (" + a + " > " + b + "))"
	case token.GEQ:
		return "(decide (" + a + " ≥ " + b + "))"
	case token.ADD:
		if bt, ok := xt.Underlying().(*types.Basic); ok && bt.Info()&types.IsString != 0 {
			return "(" + a + " ++ " + b + ")"
		}
		return "(" + a + " + " + b + ")"
	case token.SUB:
		if isNatType(xt) {
			fail("subtraction at byte / rune type")
		}
		return "(" + a + " - " + b + ")"
	case token.MUL:
		return "(" + a + " * " + b + ")"
	}
	fail("operator %s", x.Op)
	return ""
}

func (t *tr) args(x *ast.CallExpr, pre *[]string) []string {
	out := []string{}
	for _, a := range x.Args {
		out = append(out, t.expr(a, pre))
	}
	return out
}

func (t *tr) call(x *ast.CallExpr, pre *[]string) string {
	// conversions
	if tv, ok := t.info.Types[x.Fun]; ok && tv.IsType() {
		if sl, ok := tv.Type.(*types.Slice); ok && len(x.Args) == 1 {
			if b, ok := sl.Elem().(*types.Basic); ok && b.Kind() == types.Int32 {
				if ab, ok := t.info.Types[x.Args[0]].Type.Underlying().(*types.Basic); ok && ab.Info()&types.IsString != 0 {
					return "(Bytes.runes " + t.expr(x.Args[0], pre) + ")"
				}
			}
		}
		if b, ok := tv.Type.(*types.Basic); ok && b.Kind() == types.Int && len(x.Args) == 1 {
			if ab, ok := t.info.Types[x.Args[0]].Type.Underlying().(*types.Basic); ok && ab.Kind() == types.Int64 {
				return t.expr(x.Args[0], pre)
			}
		}
		fail("conversion to %s", tv.Type.String())
	}
	switch f := x.Fun.(type) {
	case *ast.Ident:
		switch f.Name {
		case "len":
			return "(Go.len " + t.expr(x.Args[0], pre) + ")"
		case "append":
			if len(x.Args) != 2 || x.Ellipsis.IsValid() {
				fail("append of other than one element")
			}
			return "(" + t.expr(x.Args[0], pre) + " ++ [" + t.expr(x.Args[1], pre) + "])"
		case "make":
			ty := t.info.Types[x.Args[0]].Type
			sl, ok := ty.(*types.Slice)
			if !ok || len(x.Args) != 2 {
				fail("make of %s", ty.String())
			}
			v := t.fresh()
			*pre = append(*pre, fmt.Sprintf("let %s ← Go.make %s %s", v, t.expr(x.Args[1], pre), t.zero(sl.Elem())))
			return v
		}
		if obj, ok := t.info.Uses[f].(*types.Func); ok && obj.Pkg() != nil && obj.Pkg().Name() == "flags" {
			if !t.done[f.Name] {
				fail("call of %s, which is not translated (before this function)", f.Name)
			}
			a := t.args(x, pre)
			env := ""
			if t.needEnv[f.Name] {
				env = " E"
				t.usesEnv = true
			}
			v := t.fresh()
			*pre = append(*pre, fmt.Sprintf("let %s ← go_%s%s %s", v, f.Name, env, strings.Join(a, " ")))
			return v
		}
	case *ast.SelectorExpr:
		if pkg, ok := f.X.(*ast.Ident); ok {
			if pn, ok := t.info.Uses[pkg].(*types.PkgName); ok {
				full := pn.Imported().Path() + "." + f.Sel.Name
				a := t.args(x, pre)
				switch full {
				case "strings.HasPrefix":
					return "(Go.stringsHasPrefix " + strings.Join(a, " ") + ")"
				case "strings.Index":
					return "(Go.stringsIndex " + strings.Join(a, " ") + ")"
				case "strings.TrimSpace":
					return "(Go.stringsTrimSpace " + a[0] + ")"
				case "unicode/utf8.DecodeRuneInString":
					return "(Go.decodeRuneInString " + a[0] + ")"
				case "strconv.IsPrint":
					t.usesEnv = true
					return "(Go.strconvIsPrint E " + a[0] + ")"
				case "strconv.Quote":
					t.usesEnv = true
					return "(Go.strconvQuote E " + a[0] + ")"
				case "strconv.Unquote":
					return "(Go.strconvUnquote " + a[0] + ")"
				case "strings.Replace":
					// only "every occurrence" (n = -1) of a constant, non-empty old string
					ntv, oldtv := t.info.Types[x.Args[3]], t.info.Types[x.Args[1]]
					if ntv.Value == nil || ntv.Value.ExactString() != "-1" || oldtv.Value == nil || constant.StringVal(oldtv.Value) == "" {
						fail("strings.Replace other than every occurrence of a constant")
					}
					return "(Go.stringsReplaceAll " + a[0] + " " + a[1] + " " + a[2] + ")"
				case "strings.Split":
					septv := t.info.Types[x.Args[1]]
					if septv.Value == nil || len(constant.StringVal(septv.Value)) != 1 {
						fail("strings.Split at other than one constant byte")
					}
					return fmt.Sprintf("(Bytes.splitOn %d %s)", constant.StringVal(septv.Value)[0], a[0])
				case "strings.Join":
					return "(Bytes.join " + a[1] + " " + a[0] + ")"
				}
				fail("call of %s", full)
			}
		}
	}
	fail("call of %s", types.ExprString(x.Fun))
	return ""
}

// assigned collects the variables a statement list assigns that were declared before `before`
func (t *tr) assigned(body *ast.BlockStmt) ([]string, []string) {
	seen := map[string]bool{}
	var out, tys []string
	note := func(e ast.Expr) {
		for {
			if ix, ok := e.(*ast.IndexExpr); ok {
				e = ix.X
				continue
			}
			break
		}
		id, ok := e.(*ast.Ident)
		if !ok || id.Name == "_" {
			return
		}
		obj := t.info.Uses[id]
		if obj == nil {
			return // defined here (:=)
		}
		if obj.Pos() < body.Pos() && !seen[id.Name] {
			seen[id.Name] = true
			out = append(out, ident(id.Name))
			tys = append(tys, t.leanType(obj.Type()))
		}
	}
	ast.Inspect(body, func(n ast.Node) bool {
		switch s := n.(type) {
		case *ast.AssignStmt:
			for _, l := range s.Lhs {
				note(l)
			}
		case *ast.IncDecStmt:
			note(s.X)
		}
		return true
	})
	return out, tys
}

// captured: the variables of the enclosing function a loop body reads (declared before the body, not in `exclude`)
func (t *tr) captured(body *ast.BlockStmt, exclude map[string]bool) (names, tys []string) {
	seen := map[string]bool{}
	ast.Inspect(body, func(n ast.Node) bool {
		id, ok := n.(*ast.Ident)
		if !ok || id.Name == "_" {
			return true
		}
		v, ok := t.info.Uses[id].(*types.Var)
		if !ok || v.IsField() {
			return true
		}
		if v.Pos() >= body.Pos() && v.Pos() <= body.End() {
			return true
		}
		if v.Parent() != nil && v.Parent().Parent() == types.Universe {
			fail("package-level variable %s", id.Name)
		}
		nm := ident(id.Name)
		if exclude[nm] || seen[nm] {
			return true
		}
		seen[nm] = true
		names = append(names, nm)
		tys = append(tys, t.leanType(v.Type()))
		return true
	})
	return
}

func tupleTy(xs []string) string {
	if len(xs) == 0 {
		return "Unit"
	}
	if len(xs) == 1 {
		return xs[0]
	}
	return "(" + strings.Join(xs, " × ") + ")"
}

func tuple(xs []string) string {
	if len(xs) == 0 {
		return "()"
	}
	if len(xs) == 1 {
		return xs[0]
	}
	return "(" + strings.Join(xs, ", ") + ")"
}

type ctx struct {
	ret  func(string) string // how a `return v` is written here
	fall func() []string     // what falling off the end of the statement list means here
}

func ind(lines []string) []string {
	out := make([]string, len(lines))
	for i, l := range lines {
		out[i] = "  " + l
	}
	return out
}

// stmts compiles a statement list into the lines of a `do` block that ends in a value of the
// enclosing block's type; the statements after an `if` are compiled into both of its branches
func (t *tr) stmts(list []ast.Stmt, c ctx) []string {
	if len(list) == 0 {
		return c.fall()
	}
	s, rest := list[0], list[1:]
	var out []string
	switch x := s.(type) {
	case *ast.ReturnStmt:
		vals := []string{}
		if len(x.Results) == 1 {
			if call, ok := x.Results[0].(*ast.CallExpr); ok {
				if _, ok := t.info.Types[call].Type.(*types.Tuple); ok {
					v := t.call(call, &out)
					return append(out, c.ret(v))
				}
			}
		}
		for _, r := range x.Results {
			vals = append(vals, t.expr(r, &out))
		}
		return append(out, c.ret(tuple(vals)))
	case *ast.AssignStmt:
		if x.Tok != token.ASSIGN && x.Tok != token.DEFINE {
			fail("assignment operator %s", x.Tok)
		}
		if len(x.Lhs) > 1 && len(x.Rhs) == 1 {
			v := t.expr(x.Rhs[0], &out)
			names := []string{}
			for _, l := range x.Lhs {
				id, ok := l.(*ast.Ident)
				if !ok {
					fail("destructuring into %T", l)
				}
				names = append(names, ident(id.Name))
			}
			out = append(out, fmt.Sprintf("let %s := %s", tuple(names), v))
			return append(out, t.stmts(rest, c)...)
		}
		if len(x.Lhs) != len(x.Rhs) {
			fail("assignment shape")
		}
		// evaluate all right-hand sides first (Go's order), then bind
		vals := []string{}
		for _, r := range x.Rhs {
			vals = append(vals, t.expr(r, &out))
		}
		if len(x.Lhs) > 1 {
			tmps := []string{}
			for _, v := range vals {
				tv := t.fresh()
				out = append(out, fmt.Sprintf("let %s := %s", tv, v))
				tmps = append(tmps, tv)
			}
			vals = tmps
		}
		for i, l := range x.Lhs {
			switch lx := l.(type) {
			case *ast.Ident:
				out = append(out, fmt.Sprintf("let %s := %s", ident(lx.Name), vals[i]))
			case *ast.IndexExpr:
				switch base := lx.X.(type) {
				case *ast.Ident:
					idx := t.expr(lx.Index, &out)
					out = append(out, fmt.Sprintf("let %s ← Go.setIdx %s %s %s", ident(base.Name), ident(base.Name), idx, vals[i]))
				case *ast.IndexExpr:
					b2, ok := base.X.(*ast.Ident)
					if !ok {
						fail("element assignment depth")
					}
					i1 := t.expr(base.Index, &out)
					i2 := t.expr(lx.Index, &out)
					row, row2 := t.fresh(), t.fresh()
					out = append(out, fmt.Sprintf("let %s ← Go.idx %s %s", row, ident(b2.Name), i1))
					out = append(out, fmt.Sprintf("let %s ← Go.setIdx %s %s %s", row2, row, i2, vals[i]))
					out = append(out, fmt.Sprintf("let %s ← Go.setIdx %s %s %s", ident(b2.Name), ident(b2.Name), i1, row2))
				default:
					fail("element assignment to %T", lx.X)
				}
			default:
				fail("assignment to %T", l)
			}
		}
		return append(out, t.stmts(rest, c)...)
	case *ast.DeclStmt:
		gd, ok := x.Decl.(*ast.GenDecl)
		if !ok || gd.Tok != token.VAR {
			fail("declaration")
		}
		for _, sp := range gd.Specs {
			vs := sp.(*ast.ValueSpec)
			for i, n := range vs.Names {
				if len(vs.Values) > i {
					out = append(out, fmt.Sprintf("let %s := %s", ident(n.Name), t.expr(vs.Values[i], &out)))
				} else {
					out = append(out, fmt.Sprintf("let %s := %s", ident(n.Name), t.zero(t.info.Defs[n].Type())))
				}
			}
		}
		return append(out, t.stmts(rest, c)...)
	case *ast.IfStmt:
		if x.Init != nil {
			fail("if with an init statement")
		}
		cond := t.expr(x.Cond, &out)
		thenL := t.stmts(append(append([]ast.Stmt{}, x.Body.List...), rest...), c)
		var elseL []string
		switch e := x.Else.(type) {
		case nil:
			elseL = t.stmts(rest, c)
		case *ast.BlockStmt:
			elseL = t.stmts(append(append([]ast.Stmt{}, e.List...), rest...), c)
		case *ast.IfStmt:
			elseL = t.stmts(append([]ast.Stmt{e}, rest...), c)
		}
		out = append(out, "if "+cond+" then do")
		out = append(out, ind(thenL)...)
		out = append(out, "else do")
		out = append(out, ind(elseL)...)
		return out
	case *ast.RangeStmt:
		if x.Tok != token.DEFINE && !(x.Key == nil && x.Value == nil) {
			fail("range with =")
		}
		coll := t.expr(x.X, &out)
		key, val := "_", "_"
		if x.Key != nil {
			key = ident(x.Key.(*ast.Ident).Name)
		}
		if x.Value != nil {
			val = ident(x.Value.(*ast.Ident).Name)
		}
		carried, carriedTys := t.assigned(x.Body)
		st := tuple(carried)
		inner := ctx{
			ret:  func(v string) string { return "pure (Go.LoopR.ret " + v + ")" },
			fall: func() []string { return []string{"pure (Go.LoopR.next " + st + ")"} },
		}
		for _, bs := range x.Body.List {
			ast.Inspect(bs, func(n ast.Node) bool {
				if br, ok := n.(*ast.BranchStmt); ok {
					fail("%s inside a loop", br.Tok)
				}
				return true
			})
		}
		// the body becomes a definition of its own (go_<function>_loop<k>), so that theorems can speak about it;
		// the variables of the function it reads are its parameters
		t.loops++
		loopName := fmt.Sprintf("go_%s_loop%d", t.fname, t.loops)
		exclude := map[string]bool{key: true, val: true}
		for _, cn := range carried {
			exclude[cn] = true
		}
		capNames, capTys := t.captured(x.Body, exclude)
		prevEnv := t.usesEnv
		t.usesEnv = false
		body := t.stmts(x.Body.List, inner)
		bodyEnv := t.usesEnv
		t.usesEnv = prevEnv || bodyEnv
		fn := "Go.forRange"
		elemTy := ""
		if b, ok := t.info.Types[x.X].Type.Underlying().(*types.Basic); ok && b.Info()&types.IsString != 0 {
			fn = "Go.forRangeStr"
			elemTy = "Nat"
		} else if sl, ok := t.info.Types[x.X].Type.Underlying().(*types.Slice); ok {
			elemTy = t.leanType(sl.Elem())
		} else {
			fail("range over %s", t.info.Types[x.X].Type.String())
		}
		var def strings.Builder
		pos := t.fset.Position(x.Pos())
		fmt.Fprintf(&def, "/-- the body of the `for … range` loop at line %d of `func %s` -/\n", pos.Line, t.fname)
		params := ""
		if bodyEnv {
			params += " (E : Env)"
		}
		for i, cn := range capNames {
			params += fmt.Sprintf(" (%s : %s)", cn, capTys[i])
		}
		stTy := tupleTy(carriedTys)
		fmt.Fprintf(&def, "def %s%s : Int → %s → %s → Go.M (Go.LoopR %s %s) := fun %s %s %s => do\n", loopName, params, elemTy, stTy, t.retTy, stTy, key, val, st)
		for _, l := range body {
			def.WriteString("  " + l + "\n")
		}
		t.aux = append(t.aux, def.String())
		call := loopName
		if bodyEnv {
			call += " E"
		}
		for _, cn := range capNames {
			call += " " + cn
		}
		r := t.fresh()
		out = append(out, fmt.Sprintf("let %s ← %s (ρ := %s) %s %s (%s)", r, fn, t.retTy, coll, st, call))
		out = append(out, "match "+r+" with")
		out = append(out, "| .ret v_ => "+c.ret("v_"))
		out = append(out, "| .next "+st+" => do")
		out = append(out, ind(t.stmts(rest, c))...)
		return out
	case *ast.BlockStmt:
		return t.stmts(append(append([]ast.Stmt{}, x.List...), rest...), c)
	}
	fail("statement %T", s)
	return nil
}

func (t *tr) function(fd *ast.FuncDecl) (text string, usesEnv bool) {
	obj := t.info.Defs[fd.Name].(*types.Func)
	sig := obj.Type().(*types.Signature)
	t.tmp = 0
	t.usesEnv = false
	t.fname = fd.Name.Name
	t.loops = 0
	t.aux = nil
	t.retTy = t.leanType(sig.Results())
	params := []string{}
	for i := 0; i < sig.Params().Len(); i++ {
		p := sig.Params().At(i)
		name := ident(p.Name())
		if name == "_" || name == "" {
			name = fmt.Sprintf("p_%d", i)
		}
		params = append(params, fmt.Sprintf("(%s : %s)", name, t.leanType(p.Type())))
	}
	var pre []string
	// named results start at their zero values
	for i := 0; i < sig.Results().Len(); i++ {
		r := sig.Results().At(i)
		if r.Name() != "" && r.Name() != "_" {
			pre = append(pre, fmt.Sprintf("let %s := %s", ident(r.Name()), t.zero(r.Type())))
		}
	}
	top := ctx{
		ret: func(v string) string { return "pure " + v },
		fall: func() []string {
			if sig.Results().Len() == 0 {
				return []string{"pure ()"}
			}
			return []string{"none"} // unreachable: the Go compiler demands a terminating statement
		},
	}
	body := append(pre, t.stmts(fd.Body.List, top)...)
	env := ""
	if t.usesEnv {
		env = " (E : Env)"
	}
	pos := t.fset.Position(fd.Pos())
	var b strings.Builder
	for _, a := range t.aux {
		b.WriteString(a + "\n")
	}
	fmt.Fprintf(&b, "/-- %s:%d `func %s` -/\n", pos.Filename[strings.LastIndex(pos.Filename, "/")+1:], pos.Line, fd.Name.Name)
	fmt.Fprintf(&b, "def go_%s%s %s : Go.M %s := do\n", fd.Name.Name, env, strings.Join(params, " "), t.retTy)
	for _, l := range body {
		b.WriteString("  " + l + "\n")
	}
	return b.String(), t.usesEnv
}

func main() {
	repo := flag.String("repo", "/repo", "library source directory")
	out := flag.String("out", "", "Lean file to write")
	flag.Parse()

	bctx := build.Default
	bctx.BuildTags = nil
	pkg, err := bctx.ImportDir(*repo, 0)
	if err != nil {
		fmt.Fprintln(os.Stderr, "import:", err)
		os.Exit(1)
	}
	fset := token.NewFileSet()
	var files []*ast.File
	for _, name := range pkg.GoFiles {
		f, err := parser.ParseFile(fset, *repo+"/"+name, nil, 0)
		if err != nil {
			fmt.Fprintln(os.Stderr, "parse:", err)
			os.Exit(1)
		}
		files = append(files, f)
	}
	info := &types.Info{Types: map[ast.Expr]types.TypeAndValue{}, Defs: map[*ast.Ident]types.Object{}, Uses: map[*ast.Ident]types.Object{}}
	conf := types.Config{Importer: importer.ForCompiler(fset, "source", nil), Error: func(err error) { fmt.Fprintln(os.Stderr, "types:", err) }}
	if _, err := conf.Check(pkg.ImportPath, fset, files, info); err != nil {
		fmt.Fprintln(os.Stderr, "type check failed:", err)
		os.Exit(1)
	}
	decls := map[string]*ast.FuncDecl{}
	for _, f := range files {
		for _, d := range f.Decls {
			if fd, ok := d.(*ast.FuncDecl); ok && fd.Recv == nil && fd.Body != nil {
				decls[fd.Name.Name] = fd
			}
		}
	}
	t := &tr{info: info, fset: fset, needEnv: map[string]bool{}, done: map[string]bool{}}
	var b strings.Builder
	b.WriteString("-- GENERATED by tools/golean from the library sources; regenerated by every check. Do not edit.\n")
	b.WriteString("import GoFlags.GoSem\nset_option linter.unusedVariables false\n\nnamespace GoFlags.Generated\nopen GoFlags Bytes\n\n")
	var names []string
	for _, name := range wanted {
		fd := decls[name]
		text := ""
		func() {
			defer func() {
				if r := recover(); r != nil {
					u, ok := r.(unsupported)
					if !ok {
						panic(r)
					}
					text = fmt.Sprintf("/-- `func %s`: not translated -/\ndef go_%s : Go.Untranslatable := ⟨%q⟩\n", name, name, u.why)
					fmt.Fprintf(os.Stderr, "golean: %s: %s\n", name, u.why)
				}
			}()
			if fd == nil {
				fail("no top-level function of this name")
			}
			var env bool
			text, env = t.function(fd)
			t.needEnv[name] = env
			t.done[name] = true
		}()
		b.WriteString(text + "\n")
		names = append(names, fmt.Sprintf("%q", name))
	}
	fmt.Fprintf(&b, "def translated : List String := [%s]\n\nend GoFlags.Generated\n", strings.Join(names, ", "))
	if *out == "" {
		fmt.Print(b.String())
		return
	}
	if err := os.WriteFile(*out, []byte(b.String()), 0o644); err != nil {
		fmt.Fprintln(os.Stderr, err)
		os.Exit(1)
	}
}
