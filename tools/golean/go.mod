module golean

go 1.23
