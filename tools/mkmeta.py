#!/usr/bin/env python3
"""tools/mkmeta.py <round> <final-results-log>: writes seeded/s-Cnn-<round>/meta.json from the agent's own meta.agent.json,
the confirmation log (bin/trymutant), the first-attempt check result and the final bin/runseeded results."""
import json, os, re, sys
rnd, final_log = sys.argv[1], sys.argv[2]
ORIGIN = {
 "10": "round 10: written by an independent sub-agent that was given only the property text, one-sentence descriptions of the nine earlier changes to avoid, the request for two cooperating sites that each look fine alone, and a scratch worktree",
 "13": "round 13: written by an independent sub-agent that was given only the property text, one-sentence descriptions of the twelve earlier changes to avoid, the request for an error path or a boundary between two features that are each tested alone, and a scratch worktree (/tmp/wt13/Cnn); first attempt and final result through bin/trymutant-private / bin/sweepseeded (harness stages and regenerated ties against a private worktree: the thorough tier was running against /repo)",
 "12": "round 12: written by an independent sub-agent that was given only the property text, one-sentence descriptions of the eleven earlier changes to avoid, the request for something reached through the public API beyond struct tags plus one ParseArgs call (programmatic construction and assignment of public fields, several operations on one parser, a cache that goes stale), and a scratch worktree (/tmp/wt12/Cnn)",
 "11": "round 11: written by an independent sub-agent that was given only the property text, one-sentence descriptions of the ten earlier changes to avoid, the request for an unusual input or declaration (boundary sizes, unusual bytes, unusual-but-legal types and tags, extreme positions) or two cooperating sites, and a scratch worktree (/tmp/wt11/Cnn)",
}
NOTES = json.load(open(os.path.join(os.path.dirname(__file__), "seeded_notes.json")))
final = {}
for l in open(final_log):
    m = re.match(r"(s-C\d+-\d+) (C\d+) seed=(\d+) exit=(\d+) violations=(\d+) no-failing-input=(\d+)", l)
    if m:
        final[m.group(1)] = dict(exit=int(m.group(4)), violation_lines=int(m.group(5)), no_failing_input_found=int(m.group(6)))
    m = re.match(r"(s-C\d+-\d+) (C\d+) seed=(\d+) (concrete|CORRESPONDENCE-ONLY|MISSED)", l)
    if m:
        k = m.group(4)
        final[m.group(1)] = dict(exit=0 if k == "MISSED" else 1, violation_lines=0 if k == "MISSED" else (5 if k == "concrete" else 1), no_failing_input_found=1 if k == "CORRESPONDENCE-ONLY" else 0, by="bin/sweepseeded (harness stages, private worktree)")
for d in sorted(os.listdir("seeded")):
    m = re.match(r"s-(C\d+)-" + rnd + "$", d)
    if not m:
        continue
    pid = m.group(1)
    D = os.path.join("seeded", d)
    a = json.load(open(os.path.join(D, "meta.agent.json")))
    first = {}
    for l in open(os.path.join(D, "confirm.log"), errors="replace"):
        mm = re.match(r"checks: (C\d+):exit=(\d+),violations=(\d+),nofailinginput=(\d+)", l)
        if mm:
            first[mm.group(1)] = dict(exit=int(mm.group(2)), violation_lines=int(mm.group(3)), no_failing_input_found=int(mm.group(4)))
    meta = dict(property=pid, summary=a.get("summary", ""), needs=a.get("needs", ""), files=a.get("files", []), origin=ORIGIN[rnd],
                confirmed=dict(how="bin/trymutant: original code: demo passes; patched: demo fails, full suite passes", log="confirm.log"),
                checks_run_against_repo_with_patch_first_attempt=first,
                checks_run_against_repo_with_patch_now=final.get(d, {}),
                detected_by=[pid], note=NOTES.get(d, ""))
    json.dump(meta, open(os.path.join(D, "meta.json"), "w"), indent=1, ensure_ascii=False)
    print(d, first.get(pid), "->", final.get(d))
