module facts

go 1.23
