package main

import "math/big"

type bigInt struct{ v big.Int }

func (b *bigInt) set(s string) (*bigInt, bool) { _, ok := b.v.SetString(s, 10); return b, ok }
func (b *bigInt) cmp(c *bigInt) int            { return b.v.Cmp(&c.v) }
