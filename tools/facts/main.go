// facts: a small static extractor.  It type-checks /repo's library sources (the files the
// default build selects: no tests, no verif hooks, this platform's option style) and writes
// lean/GoFlags/Generated/Facts.lean: constants by value, the tag keys the scanners consult,
// every place that ranges over a map, every sort call.  Props/Cnn/Facts.lean states, as
// theorems closed by `decide`, that these facts are what the model was written against.
package main

import (
	"flag"
	"fmt"
	"go/ast"
	"go/build"
	"go/constant"
	"go/importer"
	"go/parser"
	"go/token"
	"go/types"
	"os"
	"sort"
	"strings"
)

func leanStr(s string) string {
	var b strings.Builder
	b.WriteByte('"')
	for _, r := range s {
		switch {
		case r == '"':
			b.WriteString("\\\"")
		case r == '\\':
			b.WriteString("\\\\")
		case r == '\n':
			b.WriteString("\\n")
		case r == '\t':
			b.WriteString("\\t")
		case r < 0x20 || r == 0x7f:
			fmt.Fprintf(&b, "\\x%02x", r)
		default:
			b.WriteRune(r)
		}
	}
	b.WriteByte('"')
	return b.String()
}

func strList(xs []string) string {
	q := make([]string, len(xs))
	for i, x := range xs {
		q[i] = leanStr(x)
	}
	return "[" + strings.Join(q, ", ") + "]"
}

func main() {
	repo := flag.String("repo", "/repo", "library source directory")
	out := flag.String("out", "", "Lean file to write")
	flag.Parse()

	ctx := build.Default
	ctx.BuildTags = nil
	pkg, err := ctx.ImportDir(*repo, 0)
	if err != nil {
		fmt.Fprintln(os.Stderr, "import:", err)
		os.Exit(1)
	}
	fset := token.NewFileSet()
	var files []*ast.File
	for _, name := range pkg.GoFiles {
		f, err := parser.ParseFile(fset, *repo+"/"+name, nil, parser.ParseComments)
		if err != nil {
			fmt.Fprintln(os.Stderr, "parse:", err)
			os.Exit(1)
		}
		files = append(files, f)
	}
	info := &types.Info{Types: map[ast.Expr]types.TypeAndValue{}, Defs: map[*ast.Ident]types.Object{}, Uses: map[*ast.Ident]types.Object{}, Selections: map[*ast.SelectorExpr]*types.Selection{}}
	conf := types.Config{Importer: importer.ForCompiler(fset, "source", nil), Error: func(err error) { fmt.Fprintln(os.Stderr, "types:", err) }}
	tp, err := conf.Check(pkg.ImportPath, fset, files, info)
	if err != nil {
		fmt.Fprintln(os.Stderr, "type check failed:", err)
		os.Exit(1)
	}

	// 1. package-level constants, by declared type
	type kv struct {
		name string
		val  string
	}
	byType := map[string][]kv{}
	var intConsts, strConsts []kv
	scope := tp.Scope()
	for _, n := range scope.Names() {
		c, ok := scope.Lookup(n).(*types.Const)
		if !ok {
			continue
		}
		tn := ""
		if named, ok := c.Type().(*types.Named); ok {
			tn = named.Obj().Name()
		}
		switch c.Val().Kind() {
		case constant.Int:
			if tn != "" {
				byType[tn] = append(byType[tn], kv{n, c.Val().ExactString()})
			} else {
				intConsts = append(intConsts, kv{n, c.Val().ExactString()})
			}
		case constant.String:
			strConsts = append(strConsts, kv{n, constant.StringVal(c.Val())})
		}
	}
	// 2. tag keys: first argument (a constant string) of every call of a method named Get / GetMany
	//    whose receiver is *multiTag, with the enclosing function
	// 3. range statements over a value of map type; 4. calls into package sort
	type site struct{ fn, what string }
	var tagSites, mapRanges, sortCalls, panics, exits, stdUses, reflMap, goStmts []site
	keyset := map[string]bool{}
	for _, f := range files {
		for _, d := range f.Decls {
			fd, ok := d.(*ast.FuncDecl)
			if !ok || fd.Body == nil {
				continue
			}
			fn := fd.Name.Name
			if fd.Recv != nil && len(fd.Recv.List) == 1 {
				fn = types.ExprString(fd.Recv.List[0].Type) + "." + fn
				fn = strings.TrimPrefix(fn, "*")
			}
			ast.Inspect(fd.Body, func(n ast.Node) bool {
				switch x := n.(type) {
				case *ast.RangeStmt:
					if t := info.TypeOf(x.X); t != nil {
						if _, ok := t.Underlying().(*types.Map); ok {
							mapRanges = append(mapRanges, site{fn, types.ExprString(x.X)})
						}
					}
				case *ast.GoStmt:
					goStmts = append(goStmts, site{fn, types.ExprString(x.Call.Fun)})
				case *ast.SelectorExpr:
					if id, ok := x.X.(*ast.Ident); ok {
						if pn, ok := info.Uses[id].(*types.PkgName); ok && pn.Imported().Path() == "os" && (x.Sel.Name == "Stdout" || x.Sel.Name == "Stderr" || x.Sel.Name == "Stdin") {
							stdUses = append(stdUses, site{fn, "os." + x.Sel.Name})
						}
					}
				case *ast.CallExpr:
					if id, ok := x.Fun.(*ast.Ident); ok && id.Name == "panic" {
						if _, isBuiltin := info.Uses[id].(*types.Builtin); isBuiltin {
							panics = append(panics, site{fn, "panic"})
						}
					}
					if sel, ok := x.Fun.(*ast.SelectorExpr); ok {
						if id, ok := sel.X.(*ast.Ident); ok {
							if pn, ok := info.Uses[id].(*types.PkgName); ok && pn.Imported().Path() == "sort" {
								sortCalls = append(sortCalls, site{fn, "sort." + sel.Sel.Name})
							}
						}
						if id, ok := sel.X.(*ast.Ident); ok {
							if pn, ok := info.Uses[id].(*types.PkgName); ok && pn.Imported().Path() == "os" && sel.Sel.Name == "Exit" {
								exits = append(exits, site{fn, "os.Exit"})
							}
						}
						if s := info.Selections[sel]; s != nil && (sel.Sel.Name == "MapKeys" || sel.Sel.Name == "MapRange") && strings.HasSuffix(s.Recv().String(), "reflect.Value") {
							reflMap = append(reflMap, site{fn, "reflect.Value." + sel.Sel.Name})
						}
						if s := info.Selections[sel]; s != nil && (sel.Sel.Name == "Get" || sel.Sel.Name == "GetMany") {
							rt := s.Recv().String()
							if strings.HasSuffix(rt, "multiTag") && len(x.Args) == 1 {
								if tv, ok := info.Types[x.Args[0]]; ok && tv.Value != nil && tv.Value.Kind() == constant.String {
									k := constant.StringVal(tv.Value)
									tagSites = append(tagSites, site{fn, k})
									keyset[k] = true
								}
							}
						}
					}
				}
				return true
			})
		}
	}
	var keys []string
	for k := range keyset {
		keys = append(keys, k)
	}
	sort.Strings(keys)
	sortSites := func(s []site) {
		sort.SliceStable(s, func(i, j int) bool {
			if s[i].fn != s[j].fn {
				return s[i].fn < s[j].fn
			}
			return s[i].what < s[j].what
		})
	}
	sortSites(mapRanges)
	sortSites(sortCalls)
	sortSites(panics)
	sortSites(exits)
	sortSites(stdUses)
	sortSites(reflMap)
	sortSites(goStmts)
	// tag keys per function: unique, sorted
	perFn := map[string]map[string]bool{}
	for _, s := range tagSites {
		if perFn[s.fn] == nil {
			perFn[s.fn] = map[string]bool{}
		}
		perFn[s.fn][s.what] = true
	}
	var fns []string
	for fn := range perFn {
		fns = append(fns, fn)
	}
	sort.Strings(fns)

	var b strings.Builder
	b.WriteString("-- GENERATED by tools/facts from the library sources; regenerated by every check. Do not edit.\n")
	b.WriteString("namespace GoFlags.Generated\n\n")
	b.WriteString("def sourceFiles : List String := " + strList(pkg.GoFiles) + "\n\n")
	var tns []string
	for tn := range byType {
		tns = append(tns, tn)
	}
	sort.Strings(tns)
	pairList := func(xs []kv, num bool) string {
		q := make([]string, len(xs))
		for i, x := range xs {
			if num {
				q[i] = "(" + leanStr(x.name) + ", " + x.val + ")"
			} else {
				q[i] = "(" + leanStr(x.name) + ", " + leanStr(x.val) + ")"
			}
		}
		return "[" + strings.Join(q, ", ") + "]"
	}
	byVal := func(xs []kv) {
		sort.SliceStable(xs, func(i, j int) bool {
			a, _ := new(bigInt).set(xs[i].val)
			c, _ := new(bigInt).set(xs[j].val)
			if a.cmp(c) != 0 {
				return a.cmp(c) < 0
			}
			return xs[i].name < xs[j].name
		})
	}
	for _, tn := range tns {
		byVal(byType[tn])
		fmt.Fprintf(&b, "/-- constants of type %s, by value -/\ndef consts_%s : List (String × Int) := %s\n\n", tn, tn, pairList(byType[tn], true))
	}
	fmt.Fprintf(&b, "def typedConstTypes : List String := %s\n\n", strList(tns))
	fmt.Fprintf(&b, "/-- untyped / basic integer and rune constants -/\ndef intConsts : List (String × Int) := %s\n\n", pairList(intConsts, true))
	fmt.Fprintf(&b, "def stringConsts : List (String × String) := %s\n\n", pairList(strConsts, false))
	fmt.Fprintf(&b, "/-- every key some scanner asks the tag for -/\ndef tagKeys : List String := %s\n\n", strList(keys))
	b.WriteString("def tagKeysByFunction : List (String × List String) := [\n")
	for i, fn := range fns {
		var ks []string
		for k := range perFn[fn] {
			ks = append(ks, k)
		}
		sort.Strings(ks)
		sep := ","
		if i == len(fns)-1 {
			sep = ""
		}
		fmt.Fprintf(&b, "  (%s, %s)%s\n", leanStr(fn), strList(ks), sep)
	}
	b.WriteString("]\n\n")
	siteList := func(xs []site) string {
		q := make([]string, len(xs))
		for i, x := range xs {
			q[i] = "(" + leanStr(x.fn) + ", " + leanStr(x.what) + ")"
		}
		if len(q) == 0 {
			return "[]"
		}
		return "[\n  " + strings.Join(q, ",\n  ") + "\n]"
	}
	fmt.Fprintf(&b, "/-- every `for … range m` over a map: (function, ranged expression) -/\ndef mapRanges : List (String × String) := %s\n\n", siteList(mapRanges))
	fmt.Fprintf(&b, "/-- every call into package sort: (function, callee) -/\ndef sortCalls : List (String × String) := %s\n\n", siteList(sortCalls))
	fmt.Fprintf(&b, "/-- every map iteration through reflection -/\ndef reflectMapIterations : List (String × String) := %s\n\n", siteList(reflMap))
	fmt.Fprintf(&b, "/-- every explicit call of the builtin panic -/\ndef panicCalls : List (String × String) := %s\n\n", siteList(panics))
	fmt.Fprintf(&b, "/-- every call of os.Exit -/\ndef exitCalls : List (String × String) := %s\n\n", siteList(exits))
	fmt.Fprintf(&b, "/-- every mention of a standard stream -/\ndef stdStreamUses : List (String × String) := %s\n\n", siteList(stdUses))
	fmt.Fprintf(&b, "/-- every go statement -/\ndef goStatements : List (String × String) := %s\n\n", siteList(goStmts))
	whats := func(xs []site) string {
		var w []string
		for _, x := range xs {
			w = append(w, x.what)
		}
		sort.Strings(w)
		return strList(w)
	}
	b.WriteString("/-! the same sites without the names of the enclosing functions (a renamed function changes nothing) -/\n")
	fmt.Fprintf(&b, "def mapRangeExprs : List String := %s\n", whats(mapRanges))
	fmt.Fprintf(&b, "def reflectMapIterationCallees : List String := %s\n", whats(reflMap))
	fmt.Fprintf(&b, "def sortCallees : List String := %s\n", whats(sortCalls))
	fmt.Fprintf(&b, "def panicCallCount : Nat := %d\n", len(panics))
	fmt.Fprintf(&b, "def exitCallCount : Nat := %d\n", len(exits))
	fmt.Fprintf(&b, "def stdStreams : List String := %s\n\n", whats(stdUses))
	b.WriteString("end GoFlags.Generated\n")
	if *out == "" {
		fmt.Print(b.String())
		return
	}
	if err := os.WriteFile(*out, []byte(b.String()), 0o644); err != nil {
		fmt.Fprintln(os.Stderr, err)
		os.Exit(1)
	}
}
