package main

// C20, whole-parser stage: the message for a missing / unrecognised command, against the model and
// against an independent statement of the rule (own edit distance over characters, first minimum
// over the sorted visible names, suggestion iff twice the distance is less than the byte length of
// the suggested name, else the sorted visible names enumerated; hidden commands never named).

import (
	"fmt"
	"sort"
	"strconv"
	"strings"

	flags "github.com/jessevdk/go-flags"
)

// wordAtDistance derives a word from name by exactly k substitutions at distinct positions with
// characters that occur nowhere in the names (so the distance to `name` is exactly k for k <= len)
func wordAtDistance(c *Ctx, name string, k int) string {
	rs := []rune(name)
	if k > len(rs) {
		k = len(rs)
	}
	perm := c.Rng.Perm(len(rs))
	fresh := []rune("0123456789")
	for i := 0; i < k; i++ {
		rs[perm[i]] = fresh[c.Rng.Intn(len(fresh))]
	}
	return string(rs)
}

func expectedCommandMessage(word string, given bool, visible []string) string {
	names := append([]string{}, visible...)
	sort.Strings(names)
	list := func() string {
		switch len(names) {
		case 0:
			return ""
		case 1:
			return names[0]
		}
		return strings.Join(names[:len(names)-1], ", ") + " or " + names[len(names)-1]
	}
	if !given {
		switch len(names) {
		case 0:
			return ""
		case 1:
			return "Please specify the " + names[0] + " command"
		}
		return "Please specify one command of: " + list()
	}
	best, bd := "", -1
	for _, nm := range names {
		if d := refLevenshtein(word, nm); bd < 0 || d < bd {
			best, bd = nm, d
		}
	}
	msg := "Unknown command `" + word + "'"
	switch {
	case bd >= 0 && len(best) > 0 && 2*bd < len(best):
		return msg + ", did you mean `" + best + "'?"
	case len(names) == 1:
		return msg + ". You should use the " + names[0] + " command"
	case len(names) > 1:
		return msg + ". Please specify one command of: " + list()
	}
	return msg
}

func checkC20Parse(c *Ctx, n int) {
	r := c.Rng
	for i := 0; i < n; i++ {
		// distinct, digit-free names that are not option-like
		seen := map[string]bool{}
		var names []string
		for _, nm := range genNameSet(c) {
			nm = strings.Map(func(x rune) rune {
				if x >= '0' && x <= '9' || x == '%' || x == '-' || x == '"' || x == '\\' || x == '`' {
					return 'q'
				}
				return x
			}, nm)
			// (letter case and characters between 'Z' and 'a' matter to the order of the enumeration)
			switch r.Intn(6) {
			case 0:
				nm = strings.ToUpper(nm[:1]) + nm[1:]
			case 1:
				nm = "_" + nm
			case 2:
				nm = strings.ToUpper(nm)
			}
			if nm != "" && !seen[nm] {
				seen[nm] = true
				names = append(names, nm)
			}
		}
		if len(names) == 0 {
			continue
		}
		sd := &StructDesc{}
		var visible, aliases []string
		for k, nm := range names {
			tag := "command:" + strconv.Quote(nm)
			// half of the commands answer to one or two aliases as well: an alias selects the command, it
			// is never suggested or enumerated, and nearness to an alias means nothing
			for na := r.Intn(3); na > 0 && r.Intn(2) == 0; na-- {
				var al string
				switch rs := []rune(nm); r.Intn(3) {
				case 0:
					al = fmt.Sprintf("al%c%c", 'a'+rune(k%26), 'a'+rune(na))
				case 1:
					al = nm + "x"
				default:
					rs[r.Intn(len(rs))] = 'z'
					al = string(rs)
				}
				if al == "" || seen[al] || strings.HasPrefix(al, "-") || strings.ContainsAny(al, "%\"\\`0123456789") {
					continue
				}
				seen[al] = true
				aliases = append(aliases, al)
				tag += " alias:" + strconv.Quote(al)
			}
			if r.Intn(4) == 0 {
				tag += ` hidden:"true"`
			} else {
				visible = append(visible, nm)
			}
			sd.Fields = append(sd.Fields, FieldDesc{Name: fmt.Sprintf("C%d", k), Exported: true, Tag: tag, Kind: "s", Sub: &StructDesc{}})
		}
		// half of the time the commands are the subcommands of a command one or two levels down, which
		// has siblings (and itself) with names and aliases of their own: those mean nothing here
		var path, outer []string
		for lvl := r.Intn(3); lvl > 0 && r.Intn(2) == 0 || lvl == 2; lvl-- {
			own := fmt.Sprintf("grp%c", 'a'+rune(lvl))
			ownAlias := fmt.Sprintf("g%c", 'a'+rune(lvl))
			sib, sibAlias := fmt.Sprintf("sib%c", 'a'+rune(lvl)), fmt.Sprintf("s%c", 'a'+rune(lvl))
			if seen[own] || seen[ownAlias] || seen[sib] || seen[sibAlias] {
				break
			}
			outer = append(outer, own, ownAlias, sib, sibAlias)
			path = append([]string{own}, path...)
			if r.Intn(3) == 0 {
				path[0] = ownAlias
			}
			sd = &StructDesc{Fields: []FieldDesc{
				{Name: "Sib", Exported: true, Tag: "command:" + strconv.Quote(sib) + " alias:" + strconv.Quote(sibAlias), Kind: "s", Sub: &StructDesc{}},
				{Name: "Grp", Exported: true, Tag: "command:" + strconv.Quote(own) + " alias:" + strconv.Quote(ownAlias), Kind: "s", Sub: sd},
			}}
		}
		cs := &Case{Name: "app", NsDelim: ".", EnvNsDelim: "_"}
		// (a third of the parsers pass everything behind the first non-option through: the diagnostic for a
		// word that is no command is the same)
		if r.Intn(3) == 0 {
			cs.Opts |= flags.PassAfterNonOption
		}
		cs.Build = append(cs.Build, BuildOp{Kind: "addgroup", Target: 1, Short: "Application Options", Struct: sd})
		// the word: missing, at a chosen distance from a name (around the half-length threshold), or arbitrary
		given := true
		word := ""
		target := names[r.Intn(len(names))]
		switch r.Intn(10) {
		case 0:
			given = false
		case 1:
			word = genNearWord(c, names)
		case 4:
			if len(aliases) > 0 {
				// a word near an alias
				word = wordAtDistance(c, aliases[r.Intn(len(aliases))], 1)
				break
			}
			fallthrough
		case 2, 3:
			if len(outer) > 0 {
				// the name or alias of a command of an outer level
				word = outer[r.Intn(len(outer))]
				break
			}
			fallthrough
		default:
			half := (len(target) + 1) / 2
			k := half - 1 + r.Intn(3)
			if k < 0 {
				k = 0
			}
			word = wordAtDistance(c, target, k)
		}
		if given && (word == "" || seen[word] || strings.HasPrefix(word, "-") || strings.Contains(word, "%")) {
			continue
		}
		// (a fifth of the words that are given stand behind the terminator — also a word that IS a visible name:
		// it selects nothing there, and it is its own nearest name)
		behindTerminator := given && r.Intn(5) == 0
		if behindTerminator {
			cs.Opts |= flags.PassDoubleDash
			if r.Intn(2) == 0 && len(visible) > 0 {
				word = visible[r.Intn(len(visible))]
			}
		}
		argv := append([]string{}, path...)
		if behindTerminator {
			argv = append(argv, "--")
		}
		if given {
			argv = append(argv, word)
		}
		cs.Ops = []Op{{Kind: "parse", Args: argv}}
		// a third of the flat command sets: the program hides, shows or renames commands AFTER a first call
		// (which has produced its diagnostic, and a help text); the judged call comes afterwards and must
		// speak about the commands as they are now
		changed := false
		if len(path) == 0 && r.Intn(3) == 0 {
			hiddenNow := map[string]bool{}
			for _, nm := range names {
				hiddenNow[nm] = true
			}
			for _, nm := range visible {
				hiddenNow[nm] = false
			}
			if r.Intn(2) == 0 {
				cs.Ops = append(cs.Ops, Op{Kind: "help", Cols: 80})
			}
			cur := append([]string{}, names...)
			for k := range names {
				switch r.Intn(4) {
				case 0:
					hiddenNow[cur[k]] = !hiddenNow[cur[k]]
					cs.Ops = append(cs.Ops, Op{Kind: "build", B: &BuildOp{Kind: "setcmd", Target: 2 + k, Attr: "hidden", Vals: []string{b01(hiddenNow[cur[k]])}}})
					changed = true
				case 1:
					nn := "zz" + cur[k]
					if r.Intn(2) == 0 {
						nn = "aa" + cur[k]
					}
					if seen[nn] {
						continue
					}
					seen[nn] = true
					hiddenNow[nn] = hiddenNow[cur[k]]
					cur[k] = nn
					cs.Ops = append(cs.Ops, Op{Kind: "build", B: &BuildOp{Kind: "setcmd", Target: 2 + k, Attr: "name", Vals: []string{hx(nn)}}})
					changed = true
				}
			}
			if changed {
				visible = nil
				for _, nm := range cur {
					if !hiddenNow[nm] {
						visible = append(visible, nm)
					}
				}
				names = cur
				if given && (seen[word] && word != "") {
					continue
				}
				cs.Ops = append(cs.Ops, Op{Kind: "parse", Args: argv})
			}
		}
		cs.Description = describeOps(cs)
		c.RunCases([]*Case{cs}, func(cr *CaseResult) {
			c.classifyCase(cr)
			blocks := parseBlocks(cr)
			if changed && len(blocks) > 1 {
				blocks = blocks[len(blocks)-1:]
				c.Class("c20/commands hidden, shown or renamed after an earlier call")
			}
			for _, o := range blocks {
				in := map[string]interface{}{"names": names, "visible": visible, "aliases": aliases, "word": word, "word_given": given, "argv": argv}
				if changed {
					in["case"] = cs.Description
				}
				if len(aliases) > 0 {
					c.Class("c20/with aliases")
				}
				if len(path) > 0 {
					c.Class(fmt.Sprintf("c20/nested depth=%d", len(path)))
				}
				if o.panic != "" {
					in["case_file"] = c.saveCase(cr)
					c.Check("diagnostic-no-panic", false, "C20:diag-panic", in, o.panic, "an error message")
					continue
				}
				want := expectedCommandMessage(word, given, visible)
				wantType := int(flags.ErrUnknownCommand)
				if !given {
					wantType = int(flags.ErrCommandRequired)
				}
				ok := o.errKind == "flags" && o.errType == wantType && o.errMsg == want
				if strings.Contains(want, "did you mean") {
					c.Class("c20/suggests")
				} else {
					c.Class("c20/enumerates")
				}
				if !ok {
					in["case_file"] = c.saveCase(cr)
				}
				c.Check("command-diagnostic-names-the-nearest", ok, "C20:diagnostic", in, fmt.Sprintf("type %d %q", o.errType, o.errMsg), fmt.Sprintf("type %d %q", wantType, want))
			}
		})
	}
}
