package main

// Stages in which the PROGRAM assigns public fields of the model between operations on one parser
// (Group.Namespace, Option.LongName / ShortName / Choices / DefaultMask, …).  The library documents
// these fields as the declaration; what a later call does must follow their current values, whatever
// an earlier call computed from the old ones.

import (
	"strconv"
	"fmt"
	"strings"

	flags "github.com/jessevdk/go-flags"
)

// checkC07Renamed: an option is renamed (its group's namespace, its long name or its short name
// changes) after the parser has been used.  The old spelling is then no option of the parser: unknown,
// handled by the policy; the new spelling reaches the option.
func checkC07Renamed(c *Ctx, n int) { checkRenamed(c, n, "C07") }

// (also judged for C01, C02, C03 and C09: what a renamed option's field holds, its spellings, what is passed
// through under IgnoreUnknown, that nothing runs on an unknown option)
func checkRenamed(c *Ctx, n int, prop string) {
	r := c.Rng
	for i := 0; i < n; i++ {
		root := &StructDesc{Fields: []FieldDesc{
			{Name: "Force", Exported: true, Kind: "v", Ty: "bool", Tag: `short:"f" long:"force"`},
			{Name: "DB", Exported: true, Kind: "s", Tag: `group:"DB" namespace:"old"`, Sub: &StructDesc{Fields: []FieldDesc{
				{Name: "Host", Exported: true, Kind: "v", Ty: "str", Tag: `long:"host" short:"H"`}}}},
		}}
		inCmd := r.Intn(3) == 0
		sd := root
		target, argvPre := 1, []string{}
		if inCmd {
			sd = &StructDesc{Fields: []FieldDesc{{Name: "Cmd", Exported: true, Kind: "s", Tag: `command:"run"`, Sub: root}}}
			target, argvPre = 2, []string{"run"}
		}
		policy := []string{"fail", "ignore", "identity"}[r.Intn(3)]
		cs := &Case{Name: "app", NsDelim: ".", EnvNsDelim: "_"}
		switch policy {
		case "ignore":
			cs.Opts |= flags.IgnoreUnknown
		case "identity":
			cs.Handler = "identity"
		}
		cs.Build = []BuildOp{{Kind: "addgroup", Target: 1, Short: "Application Options", Struct: sd}}
		// group indices within the command that holds the declaration: the command's own group, then
		// (on the parser) "Application Options", then DB
		gForce, gDB := 1, 2
		if inCmd {
			gForce, gDB = 0, 1
		}
		var mut BuildOp
		var oldTok, newTok, oldName string
		switch r.Intn(3) {
		case 0:
			mut = BuildOp{Kind: "setgrp", Target: target, Gi: gDB, Attr: "ns", Vals: []string{hx("db")}}
			oldTok, newTok, oldName = "--old.host=second", "--db.host=second", "old.host"
		case 1:
			mut = BuildOp{Kind: "setopt", Target: target, Gi: gDB, Oi: 0, Attr: "long", Vals: []string{hx("server")}}
			oldTok, newTok, oldName = "--old.host=second", "--old.server=second", "old.host"
		default:
			mut = BuildOp{Kind: "setopt", Target: target, Gi: gForce, Oi: 0, Attr: "short", Vals: []string{hx("o")}}
			oldTok, newTok, oldName = "-f", "-o", "f"
		}
		useOld := r.Intn(2) == 0
		first := append(append([]string{}, argvPre...), "--old.host=first")
		if r.Intn(2) == 0 {
			first = append(first, "-f")
		}
		tok := newTok
		if useOld {
			tok = oldTok
		}
		second := append(append([]string{}, argvPre...), tok, "w")
		cs.Ops = []Op{{Kind: "parse", Args: first}}
		if r.Intn(2) == 0 {
			cs.Ops = append(cs.Ops, Op{Kind: "complete", Args: append(append([]string{}, argvPre...), "--")})
		}
		cs.Ops = append(cs.Ops, Op{Kind: "build", B: &mut}, Op{Kind: "parse", Args: second})
		cs.Description = describeOps(cs)
		c.RunCases([]*Case{cs}, func(cr *CaseResult) {
			c.classifyCase(cr)
			if cr.Real == nil || cr.Real.dead {
				return
			}
			var obs parseObs
			for _, o := range parseBlocks(cr) {
				obs = o
			}
			c.Class(fmt.Sprintf("%s/renamed: %s %s policy=%s old-spelling=%v in-command=%v", strings.ToLower(prop), mut.Kind, mut.Attr, policy, useOld, inCmd))
			in := map[string]interface{}{"case": cs.Description, "earlier_call": first, "judged_call": second, "policy": policy}
			nCalls := 0
			for _, l := range obs.logs {
				if strings.HasPrefix(l, "LOG unknown ") {
					nCalls++
				}
			}
			host := ""
			if fr, ok := cr.Real.fields["Host"]; ok {
				host = fr.val.String()
			}
			got := fmt.Sprintf("%s %s type %d %q remaining %q, %d handler calls, Host=%q", obs.panic, obs.errKind, obs.errType, obs.errMsg, obs.ret, nCalls, host)
			var ok bool
			var want string
			renamedHost := mut.Attr != "short"
			switch {
			case !useOld:
				want = "success, remaining [w], no handler call"
				ok = obs.panic == "" && obs.errKind == "ok" && fmt.Sprintf("%q", obs.ret) == `["w"]` && nCalls == 0
				if renamedHost {
					want += `, Host="second"`
					ok = ok && host == "second"
				}
			case policy == "fail":
				want = "ErrUnknownFlag: unknown flag `" + oldName + "'"
				ok = obs.panic == "" && obs.errKind == "flags" && obs.errType == int(flags.ErrUnknownFlag) && obs.errMsg == "unknown flag `"+oldName+"'"
			case policy == "ignore":
				want = fmt.Sprintf("success, remaining %q", []string{oldTok, "w"})
				ok = obs.panic == "" && obs.errKind == "ok" && fmt.Sprintf("%q", obs.ret) == fmt.Sprintf("%q", []string{oldTok, "w"}) && (!renamedHost || host == "first")
			default:
				want = "one handler call for " + oldName + `, then success with remaining ["w"]`
				ok = obs.panic == "" && obs.errKind == "ok" && nCalls == 1 && fmt.Sprintf("%q", obs.ret) == `["w"]` && (!renamedHost || host == "first")
			}
			if !ok {
				in["case_file"] = c.saveCase(cr)
			}
			c.Check("a-renamed-option-answers-to-its-current-names-only", ok, prop+":renamed", in, got, want)
		})
	}
}

// checkC11ChoicesChanged: Option.Choices is assigned between two calls (same number of choices): the
// later call accepts exactly the choices declared now, and its message lists exactly those.
func checkC11ChoicesChanged(c *Ctx, n int) {
	r := c.Rng
	pool := []string{"cat", "dog", "bird", "fish", "newt"}
	for i := 0; i < n; i++ {
		k := 1 + r.Intn(3)
		perm := r.Perm(len(pool))
		var before, after []string
		for j := 0; j < k; j++ {
			before = append(before, pool[perm[j]])
		}
		after = append([]string{}, before...)
		// replace one element in place (same length), or append / drop one
		how := r.Intn(3)
		switch how {
		case 0:
			after[r.Intn(k)] = pool[perm[k]]
		case 1:
			after = append(after, pool[perm[k]])
		default:
			if k > 1 {
				after = after[:k-1]
			} else {
				after[0] = pool[perm[k]]
			}
		}
		tag := `long:"animal" short:"a"`
		for _, b := range before {
			tag += fmt.Sprintf(` choice:"%s"`, b)
		}
		ty := []string{"str", "Lstr"}[r.Intn(2)]
		root := &StructDesc{Fields: []FieldDesc{{Name: "Animal", Exported: true, Kind: "v", Ty: ty, Tag: tag}}}
		cs := &Case{Name: "app", NsDelim: ".", EnvNsDelim: "_"}
		cs.Build = []BuildOp{{Kind: "addgroup", Target: 1, Short: "Application Options", Struct: root}}
		var vals []string
		for _, a := range after {
			vals = append(vals, hx(a))
		}
		text := pool[r.Intn(len(pool))]
		cs.Ops = []Op{
			{Kind: "parse", Args: []string{"--animal=" + before[0]}},
			{Kind: "build", B: &BuildOp{Kind: "setopt", Target: 1, Gi: 1, Oi: 0, Attr: "choices", Vals: vals}},
			{Kind: "parse", Args: []string{"--animal", text}},
		}
		cs.Description = describeOps(cs)
		c.RunCases([]*Case{cs}, func(cr *CaseResult) {
			c.classifyCase(cr)
			if cr.Real == nil || cr.Real.dead {
				return
			}
			var obs parseObs
			for _, o := range parseBlocks(cr) {
				obs = o
			}
			isChoice := false
			for _, a := range after {
				if a == text {
					isChoice = true
				}
			}
			c.Class(fmt.Sprintf("c11/choices-changed: how=%d value-is-a-choice-now=%v", how, isChoice))
			in := map[string]interface{}{"case": cs.Description, "choices_at_first": before, "choices_now": after, "value": text}
			got := fmt.Sprintf("%s %s type %d %q", obs.panic, obs.errKind, obs.errType, obs.errMsg)
			var ok bool
			want := "success"
			if isChoice {
				ok = obs.panic == "" && obs.errKind == "ok"
			} else {
				allowed := after[0]
				if len(after) > 1 {
					allowed = strings.Join(after[:len(after)-1], ", ") + " or " + after[len(after)-1]
				}
				want = "ErrInvalidChoice: Invalid value `" + text + "' for option `-a, --animal'. Allowed values are: " + allowed
				ok = obs.panic == "" && obs.errKind == "flags" && obs.errType == int(flags.ErrInvalidChoice) && "ErrInvalidChoice: "+obs.errMsg == want
			}
			if !ok {
				in["case_file"] = c.saveCase(cr)
			}
			c.Check("a-value-is-judged-by-the-choices-declared-now", ok, "C11:choices-changed", in, got, want)
		})
	}
}

// checkC16MaskChanged: Option.DefaultMask is assigned after the parser has been used; the help and
// the man page written afterwards show the mask (or nothing, for "-"), never the real default.
func checkC16MaskChanged(c *Ctx, n int) {
	r := c.Rng
	for i := 0; i < n; i++ {
		secret := fmt.Sprintf("s3cr3t%d", r.Intn(1000))
		tag := fmt.Sprintf(`long:"token" description:"API token" default:"%s"`, secret)
		maskBefore := []string{"", "", "old-mask"}[r.Intn(3)]
		if maskBefore != "" {
			tag += fmt.Sprintf(` default-mask:"%s"`, maskBefore)
		}
		root := &StructDesc{Fields: []FieldDesc{
			{Name: "Verbose", Exported: true, Kind: "v", Ty: "bool", Tag: `short:"v" description:"say more"`},
			{Name: "Token", Exported: true, Kind: "v", Ty: "str", Tag: tag}}}
		cs := &Case{Name: "app", NsDelim: ".", EnvNsDelim: "_"}
		cs.Build = []BuildOp{{Kind: "addgroup", Target: 1, Short: "Application Options", Struct: root}}
		maskNow := []string{"****", "-", "", "new-mask"}[r.Intn(4)]
		// (the default shown by the help is computed when ParseArgs starts: a call comes first)
		cs.Ops = []Op{{Kind: "parse", Args: []string{"-v"}}}
		if r.Intn(2) == 0 {
			cs.Ops = append(cs.Ops, Op{Kind: "help", Cols: 80})
		}
		cs.Ops = append(cs.Ops, Op{Kind: "build", B: &BuildOp{Kind: "setopt", Target: 1, Gi: 1, Oi: 1, Attr: "mask", Vals: []string{hx(maskNow)}}},
			Op{Kind: "help", Cols: 80}, Op{Kind: "man"})
		cs.Description = describeOps(cs)
		c.RunCases([]*Case{cs}, func(cr *CaseResult) {
			c.classifyCase(cr)
			if cr.Real == nil || cr.Real.dead {
				return
			}
			c.Class(fmt.Sprintf("c16/mask-changed: before=%q now=%q", maskBefore, maskNow))
			// the LAST help and man blocks
			var help, man string
			for _, l := range cr.Impl {
				if strings.HasPrefix(l, "HELP x") {
					help, _ = unhx(l[5:])
				}
				if strings.HasPrefix(l, "MAN x") {
					man, _ = unhx(l[4:])
				}
			}
			for which, text := range map[string]string{"help": help, "man": man} {
				in := map[string]interface{}{"case": cs.Description, "generator": which, "default": secret, "mask_now": maskNow}
				var ok bool
				var want string
				switch maskNow {
				case "":
					want = "the default " + secret + " shown"
					ok = strings.Contains(text, secret)
				case "-":
					want = "no default shown at all"
					ok = !strings.Contains(text, secret) && !strings.Contains(text, "default:")
				default:
					want = "the mask " + maskNow + " shown, the default " + secret + " not"
					ok = !strings.Contains(text, secret) && strings.Contains(strings.ReplaceAll(text, "\\-", "-"), maskNow)
				}
				if maskBefore != "" && maskBefore != maskNow {
					ok = ok && !strings.Contains(strings.ReplaceAll(text, "\\-", "-"), maskBefore)
				}
				if !ok {
					in["case_file"] = c.saveCase(cr)
					in["text"] = text
				}
				c.Check("the-current-mask-decides-what-is-shown-of-a-default", ok, "C16:mask-changed", in, "see text", want)
			}
		})
	}
}

// checkIniLateSection (C13, C14): one IniParser reads a file that names a section no group or command
// answers to yet (ErrUnknownGroup, or skipped under IgnoreUnknown); the program then declares that group
// or command; the same IniParser reads the file again: the section now denotes the new group / command,
// its entries select its options and store their values (as the flags would), and a faulty line in it
// is reported with its number.
func checkIniLateSection(c *Ctx, n int, prop string) {
	r := c.Rng
	for i := 0; i < n; i++ {
		asCommand := r.Intn(2) == 0
		ignore := r.Intn(2) == 0
		late := &StructDesc{Fields: []FieldDesc{
			{Name: "Level", Exported: true, Kind: "v", Ty: "int", Tag: `long:"level"`},
			{Name: "Tag", Exported: true, Kind: "v", Ty: "Lstr", Tag: `long:"tag"`}}}
		root := &StructDesc{Fields: []FieldDesc{{Name: "Verbose", Exported: true, Kind: "v", Ty: "bool", Tag: `short:"v" long:"verbose"`}}}
		cs := &Case{Name: "app", NsDelim: ".", EnvNsDelim: "_"}
		if ignore {
			cs.Opts |= flags.IgnoreUnknown
		}
		cs.Build = []BuildOp{{Kind: "addgroup", Target: 1, Short: "Application Options", Struct: root},
			{Kind: "setcmd", Target: 1, Attr: "subopt", Vals: []string{"1"}}}
		section := "Plugin"
		add := BuildOp{Kind: "addgroup", Target: 1, Short: "Plugin", Struct: late}
		if asCommand {
			section = "plugin"
			add = BuildOp{Kind: "addcommand", Target: 1, Name: "plugin", Short: "the plugin", Struct: late}
		}
		faulty := r.Intn(4) == 0
		text := "verbose = true\n[" + section + "]\nlevel = 7\ntag = x\ntag = y\n"
		wantLine := 0
		if faulty {
			text = "verbose = true\n[" + section + "]\nlevel = 7\nlevel = 1!2\n"
			wantLine = 4
		}
		asDefaults := r.Intn(3) == 0
		cs.Ops = []Op{{Kind: "iniparse", Text: text, AsDefaults: asDefaults}, {Kind: "build", B: &add}, {Kind: "iniparse", Text: text, AsDefaults: asDefaults}}
		if asDefaults {
			cs.Ops = append(cs.Ops, Op{Kind: "parse", Args: []string{}})
		}
		cs.Description = describeOps(cs)
		c.RunCases([]*Case{cs}, func(cr *CaseResult) {
			c.classifyCase(cr)
			if cr.Real == nil || cr.Real.dead {
				return
			}
			c.Class(fmt.Sprintf("%s/late-section: command=%v ignore-unknown=%v faulty-line=%v as-defaults=%v", strings.ToLower(prop), asCommand, ignore, faulty, asDefaults))
			first, second := nthLine(cr.Impl, "INI ", 0), nthLine(cr.Impl, "INI ", 1)
			in := map[string]interface{}{"case": cs.Description, "text": text, "section_declared_after_the_first_read": section}
			level, tags := int64(-1), ""
			if fr, ok := cr.Real.fields["Level"]; ok {
				level = fr.val.Int()
			}
			if fr, ok := cr.Real.fields["Tag"]; ok {
				tags = fmt.Sprint(fr.val.Interface())
			}
			got := fmt.Sprintf("first read: %s; second read: %s; Level=%d Tag=%s", decodeLine(first), decodeLine(second), level, tags)
			firstOK := (ignore && first == "INI ok") || (!ignore && strings.HasPrefix(first, fmt.Sprintf("INI flags %d ", int(flags.ErrUnknownGroup))))
			var ok bool
			var want string
			if faulty {
				want = fmt.Sprintf("second read: IniError at line %d", wantLine)
				ws := strings.Fields(second + " x x x")
				ok = firstOK && ws[1] == "ini" && ws[3] == fmt.Sprint(wantLine)
			} else {
				want = "second read: success; Level=7 Tag=[x y]"
				ok = firstOK && second == "INI ok" && level == 7 && tags == "[x y]"
			}
			if !ok {
				in["case_file"] = c.saveCase(cr)
			}
			c.Check("a-section-declared-after-an-earlier-read-is-known", ok, prop+":late-section", in, got, want)
		})
	}
}

// checkC05LateBelow: a group declared on a SUBCOMMAND after the parser has been used (a call or an ini
// read).  Its options take part in the next call like any others: defaults and environment apply to
// them, occurrences replace what the program stored.
func checkC05LateBelow(c *Ctx, n int) {
	r := c.Rng
	for i := 0; i < n; i++ {
		envSet := r.Intn(3) == 0
		late := &StructDesc{Fields: []FieldDesc{
			{Name: "Level", Exported: true, Kind: "v", Ty: "int", Tag: `long:"level" default:"3" env:"VF_LATE_LEVEL"`},
			{Name: "Tag", Exported: true, Kind: "v", Ty: "Lstr", Tag: `long:"tag" default:"x" default:"y"`},
		}}
		late.Fields[1].Init = "L[s:" + hx("stored")
		root := &StructDesc{Fields: []FieldDesc{
			{Name: "Verbose", Exported: true, Kind: "v", Ty: "bool", Tag: `short:"v"`},
			{Name: "Cmd", Exported: true, Kind: "s", Tag: `command:"cmd"`, Sub: &StructDesc{Fields: []FieldDesc{
				{Name: "Own", Exported: true, Kind: "v", Ty: "str", Tag: `long:"own" default:"o"`}}}},
		}}
		cs := &Case{Name: "app", NsDelim: ".", EnvNsDelim: "_"}
		if envSet {
			cs.Env = []EnvVar{{"VF_LATE_LEVEL", "7"}}
		}
		cs.Build = []BuildOp{{Kind: "addgroup", Target: 1, Short: "Application Options", Struct: root},
			{Kind: "setcmd", Target: 1, Attr: "subopt", Vals: []string{"1"}}}
		switch r.Intn(3) {
		case 0:
			cs.Ops = []Op{{Kind: "parse", Args: []string{"-v"}}}
		case 1:
			cs.Ops = []Op{{Kind: "parse", Args: []string{"cmd"}}}
		default:
			cs.Ops = []Op{{Kind: "iniparse", Text: "[cmd]\nown = i\n"}}
		}
		cs.Ops = append(cs.Ops, Op{Kind: "build", B: &BuildOp{Kind: "addgroup", Target: 2, Short: "Late Options", Struct: late}})
		given := r.Intn(2) == 0
		argv := []string{"cmd"}
		if r.Intn(3) == 0 {
			argv = []string{}
		}
		wantLevel, wantTag := int64(3), "[x y]"
		if envSet {
			wantLevel = 7
		}
		if given && len(argv) > 0 {
			argv = append(argv, "--tag=a", "--tag", "c", "--level=9")
			wantLevel, wantTag = 9, "[a c]"
		}
		cs.Ops = append(cs.Ops, Op{Kind: "parse", Args: argv})
		cs.Description = describeOps(cs)
		c.RunCases([]*Case{cs}, func(cr *CaseResult) {
			c.classifyCase(cr)
			if cr.Real == nil || cr.Real.dead {
				return
			}
			var obs parseObs
			for _, o := range parseBlocks(cr) {
				obs = o
			}
			c.Class(fmt.Sprintf("c05/late-below: env=%v occurrences=%v command-selected=%v", envSet, given && len(argv) > 1, len(argv) > 0))
			in := map[string]interface{}{"case": cs.Description, "group_added_to_command": "cmd", "judged_call": argv, "environment": cs.Env}
			level, tags := int64(-1), ""
			if fr, ok := cr.Real.fields["Level"]; ok {
				level = fr.val.Int()
			}
			if fr, ok := cr.Real.fields["Tag"]; ok {
				tags = fmt.Sprint(fr.val.Interface())
			}
			ok := obs.panic == "" && obs.errKind == "ok" && level == wantLevel && tags == wantTag
			if !ok {
				in["case_file"] = c.saveCase(cr)
			}
			c.Check("options-declared-after-an-earlier-call-get-their-sources-like-any-other", ok, "C05:late-below", in,
				fmt.Sprintf("%s %s %q Level=%d Tag=%s", obs.panic, obs.errKind, obs.errMsg, level, tags), fmt.Sprintf("success, Level=%d Tag=%s", wantLevel, wantTag))
		})
	}
}

// checkC13CommandCollection: entries for a slice or map option of a COMMAND (section = dotted command
// path) that already holds something - stored by the program, left by an earlier call, or read from an
// earlier file: repeated entries accumulate like repeated flags, and like the first flag the first entry
// of a read REPLACES what the option held.
func checkC13CommandCollection(c *Ctx, n int) {
	r := c.Rng
	for i := 0; i < n; i++ {
		isMap := r.Intn(3) == 0
		ty, init := "Lstr", "L[s:"+hx("stored")
		if isMap {
			ty, init = "Mstr,str", "M[s:"+hx("k0")+"=s:"+hx("stored")
		}
		how := []string{"stored by the program", "left by an earlier call", "read from an earlier file", "nothing held"}[r.Intn(4)]
		f := FieldDesc{Name: "Tag", Exported: true, Kind: "v", Ty: ty, Tag: `long:"tag"`}
		if how == "stored by the program" {
			f.Init = init
		}
		depth := 1 + r.Intn(2)
		sd := &StructDesc{Fields: []FieldDesc{f}}
		path := []string{}
		for l := depth; l >= 1; l-- {
			sd = &StructDesc{Fields: []FieldDesc{{Name: fmt.Sprintf("Cmd%d", l), Exported: true, Kind: "s", Sub: sd, Tag: fmt.Sprintf(`command:"c%d" subcommands-optional:"1"`, l)}}}
			path = append([]string{fmt.Sprintf("c%d", l)}, path...)
		}
		section := strings.Join(path, ".")
		vals := []string{"a", "b"}
		if isMap {
			vals = []string{"k1:a", "k2:b"}
		}
		text := "[" + section + "]\ntag = " + vals[0] + "\ntag = " + vals[1] + "\n"
		argv := append(append([]string{}, path...), "--tag="+vals[0], "--tag="+vals[1])
		mk := func() *Case {
			cs := &Case{Name: "app", NsDelim: ".", EnvNsDelim: "_"}
			cs.Build = []BuildOp{{Kind: "addgroup", Target: 1, Short: "Application Options", Struct: sd},
				{Kind: "setcmd", Target: 1, Attr: "subopt", Vals: []string{"1"}}}
			switch how {
			case "left by an earlier call":
				pre := "p"
				if isMap {
					pre = "k0:p"
				}
				cs.Ops = []Op{{Kind: "parse", Args: append(append([]string{}, path...), "--tag="+pre)}}
			case "read from an earlier file":
				pre := "p"
				if isMap {
					pre = "k0:p"
				}
				cs.Ops = []Op{{Kind: "iniparse", Text: "[" + section + "]\ntag = " + pre + "\n"}}
			}
			return cs
		}
		a, b := mk(), mk()
		a.Ops = append(a.Ops, Op{Kind: "iniparse", Text: text})
		b.Ops = append(b.Ops, Op{Kind: "parse", Args: argv})
		a.Description, b.Description = describeOps(a), describeOps(b)
		var ra, rb *CaseResult
		c.RunCases([]*Case{a, b}, func(cr *CaseResult) {
			if ra == nil {
				ra = cr
			} else {
				rb = cr
			}
		})
		if ra == nil || rb == nil || ra.Real == nil || rb.Real == nil {
			continue
		}
		c.Class(fmt.Sprintf("c13/command-collection: map=%v depth=%d %s", isMap, depth, how))
		show := func(cr *CaseResult) string {
			fr, ok := cr.Real.fields["Tag"]
			if !ok {
				return "?"
			}
			return showVal(ty, fr.val)
		}
		va, vb := show(ra), show(rb)
		want := "L[s:" + hx("a") + ",s:" + hx("b")
		if isMap {
			want = "M[s:" + hx("k1") + "=s:" + hx("a") + ",s:" + hx("k2") + "=s:" + hx("b")
		}
		ok := va == vb && va == want
		in := map[string]interface{}{"ini": text, "argv": argv, "the_option_held_something": how, "case_ini": a.Description, "case_cli": b.Description}
		if !ok {
			in["case_file_ini"] = c.saveCase(ra)
			in["case_file_cli"] = c.saveCase(rb)
		}
		c.Check("entries-of-a-command's-collection-replace-and-accumulate-like-flags", ok, "C13:command-collection", in,
			"ini: "+decodeLine(va)+" / cli: "+decodeLine(vb), decodeLine(want)+" both ways")
	}
}

// checkC08Namespaced: long names that carry a group namespace, across command levels.  An ancestor's
// `--db.host` stays in scope behind a command that declares a plain `--host` (another name); when the
// command declares `--db.host` itself (a namespaced group of its own) the innermost declaration receives
// the value behind the command word, the outer one in front of it.
func checkC08Namespaced(c *Ctx, n int) {
	r := c.Rng
	for i := 0; i < n; i++ {
		innerKind := []string{"plain host", "namespaced host", "nothing"}[r.Intn(3)]
		depth := 1 + r.Intn(2)
		inner := &StructDesc{Fields: []FieldDesc{{Name: "InnerFlag", Exported: true, Kind: "v", Ty: "bool", Tag: `long:"inner-flag"`}}}
		switch innerKind {
		case "plain host":
			inner.Fields = append(inner.Fields, FieldDesc{Name: "InnerHost", Exported: true, Kind: "v", Ty: "str", Tag: `long:"host"`})
		case "namespaced host":
			inner.Fields = append(inner.Fields, FieldDesc{Name: "IDB", Exported: true, Kind: "s", Tag: `group:"Inner DB" namespace:"db"`, Sub: &StructDesc{Fields: []FieldDesc{
				{Name: "InnerHost", Exported: true, Kind: "v", Ty: "str", Tag: `long:"host"`}}}})
		}
		sd := inner
		path := []string{}
		for l := depth; l >= 1; l-- {
			sd = &StructDesc{Fields: []FieldDesc{{Name: fmt.Sprintf("Cmd%d", l), Exported: true, Kind: "s", Sub: sd, Tag: fmt.Sprintf(`command:"c%d"`, l)}}}
			path = append([]string{fmt.Sprintf("c%d", l)}, path...)
		}
		sd.Fields = append([]FieldDesc{{Name: "DB", Exported: true, Kind: "s", Tag: `group:"DB" namespace:"db"`, Sub: &StructDesc{Fields: []FieldDesc{
			{Name: "OuterHost", Exported: true, Kind: "v", Ty: "str", Tag: `long:"host"`}}}}}, sd.Fields...)
		cs := &Case{Name: "app", NsDelim: ".", EnvNsDelim: "_"}
		cs.Build = []BuildOp{{Kind: "addgroup", Target: 1, Short: "Application Options", Struct: sd}}
		// where --db.host=V is typed: in front of the path, between its words, behind it
		at := r.Intn(len(path) + 1)
		var argv []string
		for k, w := range path {
			if k == at {
				argv = append(argv, "--db.host=V")
			}
			argv = append(argv, w)
		}
		if at == len(path) {
			argv = append(argv, "--db.host=V")
		}
		if innerKind == "plain host" && r.Intn(2) == 0 {
			argv = append(argv, "--host=P")
		}
		wantOuter, wantInner := "V", ""
		if innerKind == "namespaced host" && at == len(path) {
			wantOuter, wantInner = "", "V"
		}
		if argv[len(argv)-1] == "--host=P" {
			wantInner = "P"
		}
		cs.Ops = []Op{{Kind: "parse", Args: argv}}
		cs.Description = describeOps(cs)
		c.RunCases([]*Case{cs}, func(cr *CaseResult) {
			c.classifyCase(cr)
			if cr.Real == nil || cr.Real.dead {
				return
			}
			var obs parseObs
			for _, o := range parseBlocks(cr) {
				obs = o
			}
			c.Class(fmt.Sprintf("c08/namespaced: inner=%s depth=%d typed-at=%d", innerKind, depth, at))
			get := func(n string) string {
				if fr, ok := cr.Real.fields[n]; ok {
					return fr.val.String()
				}
				return ""
			}
			outer, in2 := get("OuterHost"), get("InnerHost")
			in := map[string]interface{}{"case": cs.Description, "argv": argv, "the_command_declares": innerKind}
			ok := obs.panic == "" && obs.errKind == "ok" && outer == wantOuter && in2 == wantInner
			if !ok {
				in["case_file"] = c.saveCase(cr)
			}
			c.Check("namespaced-names-are-scoped-like-any-other", ok, "C08:namespaced", in,
				fmt.Sprintf("%s %s %q outer --db.host=%q inner=%q", obs.panic, obs.errKind, obs.errMsg, outer, in2),
				fmt.Sprintf("success, outer --db.host=%q inner=%q", wantOuter, wantInner))
		})
	}
}

// checkC07CommandNamespace: a namespace assigned to a COMMAND (Command.Namespace; there is no tag for
// it) prefixes the long names of everything below it - its subcommands' options, groups attached to it.
// The name with the prefix reaches the option; the bare name is unknown and handled by the policy.
func checkC07CommandNamespace(c *Ctx, n int) {
	r := c.Rng
	for i := 0; i < n; i++ {
		policy := []string{"fail", "ignore", "identity"}[r.Intn(3)]
		cs := &Case{Name: "app", NsDelim: []string{".", "-"}[r.Intn(2)], EnvNsDelim: "_"}
		switch policy {
		case "ignore":
			cs.Opts |= flags.IgnoreUnknown
		case "identity":
			cs.Handler = "identity"
		}
		add := &StructDesc{Fields: []FieldDesc{{Name: "Tags", Exported: true, Kind: "v", Ty: "str", Tag: `long:"tags" short:"t"`}}}
		remote := &StructDesc{Fields: []FieldDesc{
			{Name: "Own", Exported: true, Kind: "v", Ty: "bool", Tag: `long:"own"`},
			{Name: "Add", Exported: true, Kind: "s", Tag: `command:"add"`, Sub: add}}}
		root := &StructDesc{Fields: []FieldDesc{
			{Name: "V", Exported: true, Kind: "v", Ty: "bool", Tag: `short:"v"`},
			{Name: "Remote", Exported: true, Kind: "s", Tag: `command:"remote" subcommands-optional:"1"`, Sub: remote}}}
		cs.Build = []BuildOp{{Kind: "addgroup", Target: 1, Short: "Application Options", Struct: root},
			{Kind: "setcmd", Target: 2, Attr: "ns", Vals: []string{hx("remote")}}}
		lateGroup := r.Intn(2) == 0
		if lateGroup {
			cs.Build = append(cs.Build, BuildOp{Kind: "addgroup", Target: 2, Short: "Late", Struct: &StructDesc{Fields: []FieldDesc{
				{Name: "Depth", Exported: true, Kind: "v", Ty: "str", Tag: `long:"depth"`}}}})
		}
		full := "remote" + cs.NsDelim + "tags"
		bare := "tags"
		argvPre := []string{"remote", "add"}
		field := "Tags"
		if lateGroup && r.Intn(2) == 0 {
			full, bare, argvPre, field = "remote"+cs.NsDelim+"depth", "depth", []string{"remote"}, "Depth"
		}
		useBare := r.Intn(2) == 0
		name := full
		if useBare {
			name = bare
		}
		argv := append(append([]string{}, argvPre...), "--"+name+"=x", "w")
		cs.Ops = []Op{{Kind: "parse", Args: argv}}
		cs.Description = describeOps(cs)
		c.RunCases([]*Case{cs}, func(cr *CaseResult) {
			c.classifyCase(cr)
			if cr.Real == nil || cr.Real.dead {
				return
			}
			var obs parseObs
			for _, o := range parseBlocks(cr) {
				obs = o
			}
			c.Class(fmt.Sprintf("c07/command-namespace: policy=%s bare-name=%v option=%s", policy, useBare, field))
			nCalls := 0
			for _, l := range obs.logs {
				if strings.HasPrefix(l, "LOG unknown ") {
					nCalls++
				}
			}
			val := ""
			if fr, ok := cr.Real.fields[field]; ok {
				val = fr.val.String()
			}
			in := map[string]interface{}{"case": cs.Description, "argv": argv, "command_remote_has_namespace": "remote", "policy": policy}
			got := fmt.Sprintf("%s %s type %d %q remaining %q, %d handler calls, %s=%q", obs.panic, obs.errKind, obs.errType, obs.errMsg, obs.ret, nCalls, field, val)
			var ok bool
			var want string
			switch {
			case !useBare:
				want = fmt.Sprintf("success, remaining [w], %s=\"x\"", field)
				ok = obs.panic == "" && obs.errKind == "ok" && fmt.Sprintf("%q", obs.ret) == `["w"]` && val == "x" && nCalls == 0
			case policy == "fail":
				want = "ErrUnknownFlag: unknown flag `" + bare + "'"
				ok = obs.panic == "" && obs.errKind == "flags" && obs.errType == int(flags.ErrUnknownFlag) && obs.errMsg == "unknown flag `"+bare+"'"
			case policy == "ignore":
				want = fmt.Sprintf("success, remaining %q", []string{"--" + bare + "=x", "w"})
				ok = obs.panic == "" && obs.errKind == "ok" && fmt.Sprintf("%q", obs.ret) == fmt.Sprintf("%q", []string{"--" + bare + "=x", "w"}) && val == ""
			default:
				want = `one handler call, then success with remaining ["w"]`
				ok = obs.panic == "" && obs.errKind == "ok" && nCalls == 1 && fmt.Sprintf("%q", obs.ret) == `["w"]` && val == ""
			}
			if !ok {
				in["case_file"] = c.saveCase(cr)
			}
			c.Check("a-command's-namespace-prefixes-the-names-below-it", ok, "C07:command-namespace", in, got, want)
		})
	}
}

// checkC07DigitOption: a token such as -5 or -2.5 whose first letter is no short option of the parser is
// an unknown option like any other - also when the next positional field is a (signed) number that the
// token would convert to.  (A negative number is a VALUE only as the argument of a signed numeric option.)
func checkC07DigitOption(c *Ctx, n int) {
	r := c.Rng
	for i := 0; i < n; i++ {
		policy := []string{"fail", "ignore", "identity"}[r.Intn(3)]
		cs := &Case{Name: "app", NsDelim: ".", EnvNsDelim: "_"}
		switch policy {
		case "ignore":
			cs.Opts |= flags.IgnoreUnknown
		case "identity":
			cs.Handler = "identity"
		}
		firstTy := []string{"int", "f64", "i8"}[r.Intn(3)]
		root := &StructDesc{Fields: []FieldDesc{
			{Name: "V", Exported: true, Kind: "v", Ty: "bool", Tag: `short:"v"`},
			{Name: "One", Exported: true, Kind: "v", Ty: "bool", Tag: `short:"1"`},
			{Name: "Args", Exported: true, Kind: "s", Tag: `positional-args:"yes"`, Sub: &StructDesc{Fields: []FieldDesc{
				{Name: "Count", Exported: true, Kind: "v", Ty: firstTy}, {Name: "Rest", Exported: true, Kind: "v", Ty: "Lint"}}}}}}
		cs.Build = []BuildOp{{Kind: "addgroup", Target: 1, Short: "Application Options", Struct: root}}
		tokn := []string{"-5", "-7", "-25"}[r.Intn(3)]
		if firstTy == "f64" && r.Intn(2) == 0 {
			tokn = "-2.5"
		}
		pre := r.Intn(2) // words in front of the token (0: it meets Count, 1: it meets Rest)
		argv := []string{}
		if r.Intn(2) == 0 {
			argv = append(argv, "-v")
		}
		for j := 0; j < pre; j++ {
			argv = append(argv, "3")
		}
		argv = append(argv, tokn)
		cs.Ops = []Op{{Kind: "parse", Args: argv}}
		cs.Description = describeOps(cs)
		uname := string([]rune(tokn)[1])
		c.RunCases([]*Case{cs}, func(cr *CaseResult) {
			c.classifyCase(cr)
			var obs parseObs
			for _, o := range parseBlocks(cr) {
				obs = o
			}
			c.Class(fmt.Sprintf("c07/digit-option: policy=%s first-field=%s meets=%d", policy, firstTy, pre))
			nCalls := 0
			for _, l := range obs.logs {
				if strings.HasPrefix(l, "LOG unknown ") {
					nCalls++
				}
			}
			in := map[string]interface{}{"case": cs.Description, "argv": argv, "policy": policy}
			got := fmt.Sprintf("%s %s type %d %q remaining %q, %d handler calls", obs.panic, obs.errKind, obs.errType, obs.errMsg, obs.ret, nCalls)
			var ok bool
			var want string
			switch policy {
			case "fail":
				want = "ErrUnknownFlag: unknown flag `" + uname + "'"
				ok = obs.panic == "" && obs.errKind == "flags" && obs.errType == int(flags.ErrUnknownFlag) && obs.errMsg == "unknown flag `"+uname+"'"
			case "ignore":
				want = "the token is passed through (to the positional field): no handler call"
				ok = obs.panic == "" && nCalls == 0 && (obs.errKind == "ok" || obs.errKind == "foreign")
			default:
				want = "exactly one handler call for " + uname
				ok = obs.panic == "" && nCalls == 1
			}
			if !ok {
				in["case_file"] = c.saveCase(cr)
			}
			c.Check("a-digit-option-that-is-not-declared-is-unknown", ok, "C07:digit-option", in, got, want)
		})
	}
}

// checkC09MissingValue: a value-taking option as the LAST word (long, short, last of a cluster) lacks its
// value: ErrExpectedArgument, and nothing runs - whatever the option's type would make of "".
func checkC09MissingValue(c *Ctx, n int) {
	r := c.Rng
	for i := 0; i < n; i++ {
		ty := []string{"str", "Lstr", "int", "c0"}[r.Intn(4)]
		leaf := &StructDesc{Fields: []FieldDesc{
			{Name: "Name", Exported: true, Kind: "v", Ty: ty, Tag: `long:"name" short:"n"`},
			{Name: "V", Exported: true, Kind: "v", Ty: "bool", Tag: `short:"v"`}}}
		// (the command is declared by tag; what runs is observed through the CommandHandler)
		cs := &Case{Name: "app", NsDelim: ".", EnvNsDelim: "_", CmdHandler: true}
		cs.Build = []BuildOp{
			{Kind: "addgroup", Target: 1, Short: "Application Options", Struct: &StructDesc{Fields: []FieldDesc{
				{Name: "Top", Exported: true, Kind: "v", Ty: "str", Tag: `long:"label"`},
				{Name: "Leaf", Exported: true, Kind: "s", Tag: `command:"leaf"`, Sub: leaf}}}},
		}
		last := []string{"--name", "-n", "-vn", "--label"}[r.Intn(4)]
		argv := []string{"leaf"}
		if r.Intn(2) == 0 {
			argv = append(argv, "a")
		}
		given := r.Intn(4) == 0
		argv = append(argv, last)
		if given {
			argv = append(argv, map[string]string{"int": "7"}[ty]+map[bool]string{true: "", false: "x"}[ty == "int"])
		}
		cs.Ops = []Op{{Kind: "parse", Args: argv}}
		cs.Description = describeOps(cs)
		c.RunCases([]*Case{cs}, func(cr *CaseResult) {
			c.classifyCase(cr)
			var obs parseObs
			for _, o := range parseBlocks(cr) {
				obs = o
			}
			c.Class(fmt.Sprintf("c09/missing-value: type=%s last=%s value-given=%v", ty, last, given))
			runs := 0
			for _, l := range obs.logs {
				if strings.HasPrefix(l, "LOG exec ") || strings.HasPrefix(l, "LOG cmdhandler ") {
					runs++
				}
			}
			in := map[string]interface{}{"case": cs.Description, "argv": argv}
			got := fmt.Sprintf("%s %s type %d %q, %d runs", obs.panic, obs.errKind, obs.errType, obs.errMsg, runs)
			var ok bool
			want := "ErrExpectedArgument, nothing runs"
			if given {
				want = "success, the command runs"
				ok = obs.panic == "" && obs.errKind == "ok" && runs >= 1
			} else {
				ok = obs.panic == "" && obs.errKind == "flags" && obs.errType == int(flags.ErrExpectedArgument) && runs == 0
			}
			if !ok {
				in["case_file"] = c.saveCase(cr)
			}
			c.Check("a-missing-value-is-an-error-and-nothing-runs", ok, "C09:missing-value", in, got, want)
		})
	}
}

// checkC13CommandNamespace: a namespace assigned to a COMMAND (Command.Namespace) is part of the long names of the
// options below it — `--remote.tags=x` on the command line.  An INI entry naming the option by that namespaced long
// name, in the section of the command (or of a group attached to it), stores the same value as the flag; the
// field name and the short name keep working.
func checkC13CommandNamespace(c *Ctx, n int) {
	r := c.Rng
	for i := 0; i < n; i++ {
		delim := []string{".", "-"}[r.Intn(2)]
		cs := &Case{Name: "app", NsDelim: delim, EnvNsDelim: "_"}
		add := &StructDesc{Fields: []FieldDesc{{Name: "Tags", Exported: true, Kind: "v", Ty: []string{"str", "Lstr"}[r.Intn(2)], Tag: `long:"tags" short:"t"`}}}
		remote := &StructDesc{Fields: []FieldDesc{
			{Name: "Own", Exported: true, Kind: "v", Ty: "bool", Tag: `long:"own"`},
			{Name: "Add", Exported: true, Kind: "s", Tag: `command:"add"`, Sub: add}}}
		root := &StructDesc{Fields: []FieldDesc{
			{Name: "V", Exported: true, Kind: "v", Ty: "bool", Tag: `short:"v"`},
			{Name: "Remote", Exported: true, Kind: "s", Tag: `command:"remote" subcommands-optional:"1"`, Sub: remote}}}
		cs.Build = []BuildOp{{Kind: "addgroup", Target: 1, Short: "Application Options", Struct: root},
			{Kind: "setcmd", Target: 1, Attr: "subopt", Vals: []string{"1"}},
			{Kind: "setcmd", Target: 2, Attr: "ns", Vals: []string{hx("remote")}},
			{Kind: "addgroup", Target: 2, Short: "Late", Struct: &StructDesc{Fields: []FieldDesc{
				{Name: "Depth", Exported: true, Kind: "v", Ty: "str", Tag: `long:"depth" short:"d"`}}}}}
		section, full, field, short := "remote.add", "remote"+delim+"tags", "Tags", "t"
		if r.Intn(2) == 0 {
			section, full, field, short = "remote.Late", "remote"+delim+"depth", "Depth", "d"
		}
		name := full
		how := r.Intn(4)
		switch how {
		case 1:
			name = field
		case 2:
			name = short
		}
		asDefaults := r.Intn(3) == 0
		text := "[" + section + "]\n" + name + " = x\n"
		cs.Ops = []Op{{Kind: "iniparse", Text: text, AsDefaults: asDefaults}}
		if asDefaults {
			cs.Ops = append(cs.Ops, Op{Kind: "parse", Args: []string{}})
		}
		cs.Description = describeOps(cs)
		c.RunCases([]*Case{cs}, func(cr *CaseResult) {
			c.classifyCase(cr)
			if cr.Real == nil || cr.Real.dead {
				return
			}
			c.Class(fmt.Sprintf("c13/command-namespace: option=%s named-by=%d as-defaults=%v", field, how, asDefaults))
			first := nthLine(cr.Impl, "INI ", 0)
			val := ""
			if fr, ok := cr.Real.fields[field]; ok {
				val = fmt.Sprint(fr.val.Interface())
			}
			in := map[string]interface{}{"case": cs.Description, "text": text, "command_remote_has_namespace": "remote", "flag_of_the_same_meaning": "--" + full + "=x"}
			got := fmt.Sprintf("read: %s; %s=%s", decodeLine(first), field, val)
			ok := first == "INI ok" && (val == "x" || val == "[x]")
			if !ok {
				in["case_file"] = c.saveCase(cr)
			}
			c.Check("an-entry-under-a-command's-namespace-means-what-the-flag-means", ok, "C13:command-namespace", in, got, "read: ok; "+field+"=x")
		})
	}
}

// lastBlock: the text of the last observation line with that prefix ("HELP x", "MAN x")
func lastBlock(lines []string, prefix string) string {
	out := ""
	for _, l := range lines {
		if strings.HasPrefix(l, prefix) {
			out, _ = unhx(l[len(prefix)-1:])
		}
	}
	return out
}

// checkC16DefaultChanged: Option.Default is assigned after the parser was used (a call; a help text was written):
// the help written after the next call shows the default declared NOW, as the man page does and as the call applies.
func checkC16DefaultChanged(c *Ctx, n int) {
	r := c.Rng
	for i := 0; i < n; i++ {
		before, after := fmt.Sprintf("80%d", r.Intn(90)+10), fmt.Sprintf("90%d", r.Intn(90)+10)
		tag := `long:"port" description:"port to listen on"`
		if r.Intn(3) != 0 {
			tag += fmt.Sprintf(` default:"%s"`, before)
		} else {
			before = ""
		}
		root := &StructDesc{Fields: []FieldDesc{
			{Name: "Verbose", Exported: true, Kind: "v", Ty: "bool", Tag: `short:"v" description:"say more"`},
			{Name: "Port", Exported: true, Kind: "v", Ty: []string{"int", "str", "Lint"}[r.Intn(3)], Tag: tag}}}
		cs := &Case{Name: "app", NsDelim: ".", EnvNsDelim: "_"}
		cs.Build = []BuildOp{{Kind: "addgroup", Target: 1, Short: "Application Options", Struct: root}}
		cs.Ops = []Op{{Kind: "parse", Args: []string{"-v"}}}
		if r.Intn(2) == 0 {
			cs.Ops = append(cs.Ops, Op{Kind: "help", Cols: 80})
		}
		cs.Ops = append(cs.Ops, Op{Kind: "build", B: &BuildOp{Kind: "setopt", Target: 1, Gi: 1, Oi: 1, Attr: "default", Vals: []string{hx(after)}}},
			Op{Kind: "parse", Args: []string{}}, Op{Kind: "help", Cols: 80}, Op{Kind: "man"})
		cs.Description = describeOps(cs)
		c.RunCases([]*Case{cs}, func(cr *CaseResult) {
			c.classifyCase(cr)
			if cr.Real == nil || cr.Real.dead {
				return
			}
			c.Class(fmt.Sprintf("c16/default-changed: declared-at-first=%v", before != ""))
			help, man := lastBlock(cr.Impl, "HELP x"), lastBlock(cr.Impl, "MAN x")
			for which, text := range map[string]string{"help": help, "man": man} {
				ok := strings.Contains(text, after) && (before == "" || !strings.Contains(text, before))
				in := map[string]interface{}{"case": cs.Description, "generator": which, "default_at_first": before, "default_now": after}
				if !ok {
					in["case_file"] = c.saveCase(cr)
					in["text"] = text
				}
				c.Check("the-default-shown-is-the-default-declared-now", ok, "C16:default-changed", in, "see text", "default "+after+" shown, "+before+" not")
			}
		})
	}
}

// checkC18HiddenChanged: Command.Hidden is assigned after the parser was used (a completion of command words, a
// help text, the missing-command diagnostic): the next completion offers exactly the commands visible NOW.
func checkC18HiddenChanged(c *Ctx, n int) {
	r := c.Rng
	for i := 0; i < n; i++ {
		names := []string{"add", "purge", "remove"}
		hiddenAt := r.Intn(4) // which one the declaration hides (3: none)
		root := &StructDesc{Fields: []FieldDesc{{Name: "V", Exported: true, Kind: "v", Ty: "bool", Tag: `short:"v"`}}}
		for j, nm := range names {
			tag := fmt.Sprintf(`command:"%s"`, nm)
			if j == hiddenAt {
				tag += ` hidden:"yes"`
			}
			root.Fields = append(root.Fields, FieldDesc{Name: fmt.Sprintf("C%d", j), Exported: true, Kind: "s", Sub: &StructDesc{}, Tag: tag})
		}
		cs := &Case{Name: "app", NsDelim: ".", EnvNsDelim: "_"}
		cs.Build = []BuildOp{{Kind: "addgroup", Target: 1, Short: "Application Options", Struct: root}}
		switch r.Intn(3) {
		case 0:
			cs.Ops = append(cs.Ops, Op{Kind: "complete", Args: []string{""}})
		case 1:
			cs.Ops = append(cs.Ops, Op{Kind: "parse", Args: []string{"-v"}}, Op{Kind: "help", Cols: 80})
		case 2:
			cs.Ops = append(cs.Ops, Op{Kind: "parse", Args: []string{}})
		}
		toggled := r.Intn(3)
		nowHidden := map[int]bool{hiddenAt: true}
		nowHidden[toggled] = !nowHidden[toggled]
		val := "0"
		if nowHidden[toggled] {
			val = "1"
		}
		cs.Ops = append(cs.Ops, Op{Kind: "build", B: &BuildOp{Kind: "setcmd", Target: 2 + toggled, Attr: "hidden", Vals: []string{val}}})
		partial := []string{"", "p", "r"}[r.Intn(3)]
		cs.Ops = append(cs.Ops, Op{Kind: "complete", Args: []string{partial}})
		cs.Description = describeOps(cs)
		c.RunCases([]*Case{cs}, func(cr *CaseResult) {
			c.classifyCase(cr)
			if cr.Real == nil || cr.Real.dead {
				return
			}
			c.Class(fmt.Sprintf("c18/hidden-changed: hidden-now=%v", nowHidden[toggled]))
			compL := ""
			for _, l := range cr.Impl {
				if strings.HasPrefix(l, "COMP") {
					compL = l
				}
			}
			ws := strings.Fields(compL)
			var items []string
			for j := 2; j < len(ws); j += 2 {
				s, _ := unhx(ws[j])
				items = append(items, s)
			}
			var want []string
			for j, nm := range names {
				if !nowHidden[j] && strings.HasPrefix(nm, partial) {
					want = append(want, nm)
				}
			}
			ok := fmt.Sprint(items) == fmt.Sprint(want) || (len(items) == 0 && len(want) == 0)
			in := map[string]interface{}{"case": cs.Description, "partial_word": partial}
			if !ok {
				in["case_file"] = c.saveCase(cr)
			}
			c.Check("completion-offers-the-commands-visible-now", ok, "C18:hidden-changed", in, fmt.Sprintf("%q", items), fmt.Sprintf("%q", want))
		})
	}
}

// checkC13SectionRenamed: Group.ShortDescription is assigned after an INI file was read (every section lookup walks
// the groups): a file read afterwards addresses the group by its description NOW; the former one denotes nothing.
func checkC13SectionRenamed(c *Ctx, n int, prop string) {
	r := c.Rng
	for i := 0; i < n; i++ {
		db := &StructDesc{Fields: []FieldDesc{{Name: "Host", Exported: true, Kind: "v", Ty: "str", Tag: `long:"host"`}}}
		root := &StructDesc{Fields: []FieldDesc{
			{Name: "Verbose", Exported: true, Kind: "v", Ty: "bool", Tag: `short:"v" long:"verbose"`},
			{Name: "DB", Exported: true, Kind: "s", Sub: db, Tag: `group:"Database"`}}}
		cs := &Case{Name: "app", NsDelim: ".", EnvNsDelim: "_"}
		cs.Build = []BuildOp{{Kind: "addgroup", Target: 1, Short: "Application Options", Struct: root}}
		useOld := r.Intn(3) == 0
		section := "Storage"
		if useOld {
			section = "Database"
		}
		if r.Intn(2) == 0 {
			section = strings.ToLower(section)
		}
		cs.Ops = []Op{{Kind: "iniparse", Text: "[Database]\nhost = first\n"},
			{Kind: "build", B: &BuildOp{Kind: "setgrp", Target: 1, Gi: 2, Attr: "shortdesc", Vals: []string{hx("Storage")}}},
			{Kind: "iniparse", Text: "[" + section + "]\nhost = second\n"}}
		cs.Description = describeOps(cs)
		c.RunCases([]*Case{cs}, func(cr *CaseResult) {
			c.classifyCase(cr)
			if cr.Real == nil || cr.Real.dead {
				return
			}
			c.Class(fmt.Sprintf("%s/section-renamed: former-name=%v", strings.ToLower(prop), useOld))
			second := nthLine(cr.Impl, "INI ", 1)
			host := ""
			if fr, ok := cr.Real.fields["Host"]; ok {
				host = fr.val.String()
			}
			got := fmt.Sprintf("second read: %s; Host=%q", decodeLine(second), host)
			var ok bool
			want := "second read: ok; Host=\"second\""
			if useOld {
				want = "second read: ErrUnknownGroup; Host=\"first\""
				ok = strings.HasPrefix(second, fmt.Sprintf("INI flags %d ", int(flags.ErrUnknownGroup))) && host == "first"
			} else {
				ok = second == "INI ok" && host == "second"
			}
			in := map[string]interface{}{"case": cs.Description, "group_described_now_as": "Storage", "section": section}
			if !ok {
				in["case_file"] = c.saveCase(cr)
			}
			c.Check("a-section-denotes-the-group-described-so-now", ok, prop+":section-renamed", in, got, want)
		})
	}
}

// checkC05EnvNamespaceChanged: EnvNamespace of an ENCLOSING group (or the delimiter) is assigned after the parser was
// used: the option that does not occur takes the variable its key names NOW; the variable under the former key is
// nothing to it.
func checkC05EnvNamespaceChanged(c *Ctx, n int) {
	r := c.Rng
	for i := 0; i < n; i++ {
		inner := &StructDesc{Fields: []FieldDesc{{Name: "Host", Exported: true, Kind: "v", Ty: []string{"str", "Lstr"}[r.Intn(2)], Tag: `long:"host" env:"HOST" default:"localhost"`}}}
		outer := &StructDesc{Fields: []FieldDesc{{Name: "DB", Exported: true, Kind: "s", Sub: inner, Tag: `group:"Database" env-namespace:"DB"`}}}
		root := &StructDesc{Fields: []FieldDesc{
			{Name: "Verbose", Exported: true, Kind: "v", Ty: "bool", Tag: `short:"v" description:"x"`},
			{Name: "Outer", Exported: true, Kind: "s", Sub: outer, Tag: `group:"Outer"`}}}
		cs := &Case{Name: "app", NsDelim: ".", EnvNsDelim: "_"}
		cs.Env = []EnvVar{{"DB_HOST", "old-key"}, {"APP_DB_HOST", "new-key"}}
		cs.Build = []BuildOp{{Kind: "addgroup", Target: 1, Short: "Application Options", Struct: root}}
		switch r.Intn(3) {
		case 0:
			cs.Ops = append(cs.Ops, Op{Kind: "parse", Args: []string{"-v"}})
		case 1:
			cs.Ops = append(cs.Ops, Op{Kind: "parse", Args: []string{}}, Op{Kind: "help", Cols: 80})
		case 2:
			cs.Ops = append(cs.Ops, Op{Kind: "man"})
		}
		// (Gi 2 is the group "Outer": it encloses "Database", the option's own group)
		cs.Ops = append(cs.Ops, Op{Kind: "build", B: &BuildOp{Kind: "setgrp", Target: 1, Gi: 2, Attr: "envns", Vals: []string{hx("APP")}}},
			Op{Kind: "parse", Args: []string{}})
		cs.Description = describeOps(cs)
		c.RunCases([]*Case{cs}, func(cr *CaseResult) {
			c.classifyCase(cr)
			if cr.Real == nil || cr.Real.dead {
				return
			}
			c.Class("c05/env-namespace-changed")
			host := ""
			if fr, ok := cr.Real.fields["Host"]; ok {
				host = fmt.Sprint(fr.val.Interface())
			}
			ok := host == "new-key" || host == "[new-key]"
			in := map[string]interface{}{"case": cs.Description, "environment": "DB_HOST=old-key APP_DB_HOST=new-key", "env_namespace_of_the_enclosing_group_now": "APP"}
			if !ok {
				in["case_file"] = c.saveCase(cr)
			}
			c.Check("the-variable-named-by-the-namespaces-as-they-are-now-is-taken", ok, "C05:env-namespace-changed", in, host, "new-key")
		})
	}
}

// checkC10AfterHelp: the help text was written (WriteHelp, or an earlier call that asked for --help) before the
// observed call: the positional fields — an undescribed one in front of described ones — still bind in
// declaration order.
func checkC10AfterHelp(c *Ctx, n int) {
	r := c.Rng
	for i := 0; i < n; i++ {
		pos := &StructDesc{Fields: []FieldDesc{
			{Name: "Src", Exported: true, Kind: "v", Ty: "str"},
			{Name: "Dst", Exported: true, Kind: "v", Ty: []string{"str", "int"}[r.Intn(2)], Tag: `description:"where to"`},
			{Name: "More", Exported: true, Kind: "v", Ty: "Lstr", Tag: `description:"the rest"`}}}
		if r.Intn(3) == 0 {
			pos.Fields[0], pos.Fields[1] = pos.Fields[1], pos.Fields[0]
		}
		holder := &StructDesc{Fields: []FieldDesc{
			{Name: "V", Exported: true, Kind: "v", Ty: "bool", Tag: `short:"v"`},
			{Name: "Args", Exported: true, Kind: "s", Sub: pos, Tag: `positional-args:"yes"`}}}
		root := holder
		pre := []string{}
		if r.Intn(2) == 0 {
			root = &StructDesc{Fields: []FieldDesc{{Name: "Run", Exported: true, Kind: "s", Sub: holder, Tag: `command:"run"`}}}
			pre = []string{"run"}
		}
		cs := &Case{Name: "app", NsDelim: ".", EnvNsDelim: "_", Opts: flags.HelpFlag | flags.PassDoubleDash}
		cs.Build = []BuildOp{{Kind: "addgroup", Target: 1, Short: "Application Options", Struct: root}}
		how := r.Intn(3)
		switch how {
		case 0:
			cs.Ops = append(cs.Ops, Op{Kind: "parse", Args: append(append([]string{}, pre...), "--help")})
		case 1:
			cs.Ops = append(cs.Ops, Op{Kind: "parse", Args: append(append([]string{}, pre...), "1", "2")}, Op{Kind: "help", Cols: 80})
		}
		words := []string{"11", "22", "33", "44"}[:2+r.Intn(3)]
		argv := append([]string{}, pre...)
		for j, w := range words {
			if j == 1 && r.Intn(2) == 0 {
				argv = append(argv, "-v")
			}
			argv = append(argv, w)
		}
		cs.Ops = append(cs.Ops, Op{Kind: "parse", Args: argv})
		cs.Description = describeOps(cs)
		c.RunCases([]*Case{cs}, func(cr *CaseResult) {
			c.classifyCase(cr)
			if cr.Real == nil || cr.Real.dead {
				return
			}
			c.Class(fmt.Sprintf("c10/after-help: how=%d words=%d", how, len(words)))
			val := func(name string) string {
				if fr, ok := cr.Real.fields[name]; ok {
					return fmt.Sprint(fr.val.Interface())
				}
				return "?"
			}
			got := fmt.Sprintf("%s=%s %s=%s More=%s", pos.Fields[0].Name, val(pos.Fields[0].Name), pos.Fields[1].Name, val(pos.Fields[1].Name), val("More"))
			want := fmt.Sprintf("%s=%s %s=%s More=%v", pos.Fields[0].Name, words[0], pos.Fields[1].Name, words[1], words[2:])
			in := map[string]interface{}{"case": cs.Description, "argv": argv, "help_written_before": []string{"an earlier call with --help", "WriteHelp after an earlier call", "no"}[how]}
			if got != want {
				in["case_file"] = c.saveCase(cr)
			}
			c.Check("positional-fields-bind-in-declaration-order-after-the-help-was-written", got == want, "C10:after-help", in, got, want)
		})
	}
}

// checkC11DefaultChanged: Option.Default is assigned between two calls: the later call converts and checks the
// default declared NOW — the exact value is stored, a text the type or the choices reject is ErrMarshal /
// ErrInvalidChoice.
func checkC11DefaultChanged(c *Ctx, n int) {
	r := c.Rng
	for i := 0; i < n; i++ {
		ty := []string{"u8", "int", "i8"}[r.Intn(3)]
		withChoices := r.Intn(4) == 0
		tag := `long:"level" default:"3"`
		if withChoices {
			ty = "str"
			tag = `long:"level" default:"fast" choice:"fast" choice:"slow"`
		}
		root := &StructDesc{Fields: []FieldDesc{
			{Name: "V", Exported: true, Kind: "v", Ty: "bool", Tag: `short:"v"`},
			{Name: "Level", Exported: true, Kind: "v", Ty: ty, Tag: tag}}}
		cs := &Case{Name: "app", NsDelim: ".", EnvNsDelim: "_"}
		cs.Build = []BuildOp{{Kind: "addgroup", Target: 1, Short: "Application Options", Struct: root}}
		now := []string{"100", "7", "256", "-200", "x1"}[r.Intn(5)]
		if withChoices {
			now = []string{"slow", "fas", "fast"}[r.Intn(3)]
		}
		cs.Ops = []Op{{Kind: "parse", Args: []string{"-v"}},
			{Kind: "build", B: &BuildOp{Kind: "setopt", Target: 1, Gi: 1, Oi: 1, Attr: "default", Vals: []string{hx(now)}}},
			{Kind: "parse", Args: []string{}}}
		cs.Description = describeOps(cs)
		c.RunCases([]*Case{cs}, func(cr *CaseResult) {
			c.classifyCase(cr)
			if cr.Real == nil || cr.Real.dead {
				return
			}
			c.Class(fmt.Sprintf("c11/default-changed: type=%s choices=%v", ty, withChoices))
			var obs parseObs
			for _, o := range parseBlocks(cr) {
				obs = o
			}
			held := ""
			if fr, ok := cr.Real.fields["Level"]; ok {
				held = fmt.Sprint(fr.val.Interface())
			}
			wantErr := 0
			if withChoices {
				if now == "fas" {
					wantErr = int(flags.ErrInvalidChoice)
				}
			} else {
				v, err := strconv.ParseInt(now, 10, 64)
				lo, hi := int64(-1<<63), int64(1<<63-1)
				switch ty {
				case "u8":
					lo, hi = 0, 255
				case "i8":
					lo, hi = -128, 127
				}
				if err != nil || v < lo || v > hi {
					wantErr = int(flags.ErrMarshal)
				}
			}
			got := fmt.Sprintf("%s %s type %d, Level=%s", obs.panic, obs.errKind, obs.errType, held)
			var ok bool
			want := "success, Level=" + now
			if wantErr != 0 {
				want = fmt.Sprintf("*flags.Error of type %d", wantErr)
				ok = obs.panic == "" && obs.errKind == "flags" && obs.errType == wantErr
			} else {
				ok = obs.panic == "" && obs.errKind == "ok" && held == now
			}
			in := map[string]interface{}{"case": cs.Description, "default_declared_now": now, "type": ty}
			if !ok {
				in["case_file"] = c.saveCase(cr)
			}
			c.Check("the-default-declared-now-is-converted-exactly-or-rejected", ok, "C11:default-changed", in, got, want)
		})
	}
}

// checkC06IniSupplied: a required option (of the parser or of the command the line names) receives its value from an
// INI file read as defaults; the call that follows does not repeat it: it is supplied — success, the command runs;
// a required option that nothing supplies is named alone.
func checkC06IniSupplied(c *Ctx, n int) {
	r := c.Rng
	for i := 0; i < n; i++ {
		onCmd := r.Intn(2) == 0
		req := []FieldDesc{{Name: "Token", Exported: true, Kind: "v", Ty: "str", Tag: `long:"token" required:"yes"`},
			{Name: "Other", Exported: true, Kind: "v", Ty: "str", Tag: `long:"other" required:"yes"`}}
		cmd := &StructDesc{Fields: []FieldDesc{{Name: "F", Exported: true, Kind: "v", Ty: "bool", Tag: `long:"force"`}}}
		root := &StructDesc{Fields: []FieldDesc{{Name: "V", Exported: true, Kind: "v", Ty: "bool", Tag: `short:"v"`}}}
		section := "Application Options"
		if onCmd {
			cmd.Fields = append(cmd.Fields, req...)
			section = "run"
		} else {
			root.Fields = append(root.Fields, req...)
		}
		root.Fields = append(root.Fields, FieldDesc{Name: "Run", Exported: true, Kind: "s", Sub: cmd, Tag: `command:"run"`})
		cs := &Case{Name: "app", NsDelim: ".", EnvNsDelim: "_", CmdHandler: true}
		cs.Build = []BuildOp{{Kind: "addgroup", Target: 1, Short: "Application Options", Struct: root}}
		otherGiven := r.Intn(2) == 0
		argv := []string{"run"}
		if otherGiven {
			argv = append(argv, "--other=o")
		}
		cs.Ops = []Op{{Kind: "iniparse", Text: "[" + section + "]\ntoken = from-file\n", AsDefaults: true}, {Kind: "parse", Args: argv}}
		cs.Description = describeOps(cs)
		c.RunCases([]*Case{cs}, func(cr *CaseResult) {
			c.classifyCase(cr)
			if cr.Real == nil || cr.Real.dead {
				return
			}
			c.Class(fmt.Sprintf("c06/ini-supplied: on-command=%v other-given=%v", onCmd, otherGiven))
			var obs parseObs
			for _, o := range parseBlocks(cr) {
				obs = o
			}
			nHandler := 0
			for _, l := range obs.logs {
				if strings.HasPrefix(l, "LOG cmdhandler ") {
					nHandler++
				}
			}
			got := fmt.Sprintf("%s %s type %d %q, %d CommandHandler calls", obs.panic, obs.errKind, obs.errType, obs.errMsg, nHandler)
			var ok bool
			want := "success, one CommandHandler call"
			if otherGiven {
				ok = obs.panic == "" && obs.errKind == "ok" && nHandler == 1
			} else {
				want = "ErrRequired: the required flag `--other' was not specified; no CommandHandler call"
				ok = obs.panic == "" && obs.errKind == "flags" && obs.errType == int(flags.ErrRequired) && nHandler == 0 && obs.errMsg == "the required flag `--other' was not specified"
			}
			in := map[string]interface{}{"case": cs.Description, "argv": argv}
			if !ok {
				in["case_file"] = c.saveCase(cr)
			}
			c.Check("an-option-supplied-by-an-ini-file-read-as-defaults-is-supplied", ok, "C06:ini-supplied", in, got, want)
		})
	}
}

// checkHelpAfterWidening (C17; C04 for the crash): a help text was written; the program then makes an option's row
// longer than every row measured before (a longer LongName, a ValueName, through the public fields; a namespace on
// the command, a group added to it) and asks for the help again: no crash, and the description of that row starts
// in the common column — two blanks behind the longest option part.
func checkHelpAfterWidening(c *Ctx, n int, prop string) {
	r := c.Rng
	for i := 0; i < n; i++ {
		root := &StructDesc{Fields: []FieldDesc{
			{Name: "V", Exported: true, Kind: "v", Ty: "bool", Tag: `short:"v" long:"verbose" description:"MARKV say more"`},
			{Name: "Out", Exported: true, Kind: "v", Ty: "str", Tag: `short:"o" long:"out" description:"MARKO where to write"`},
			{Name: "Remote", Exported: true, Kind: "s", Tag: `command:"remote" subcommands-optional:"1"`, Sub: &StructDesc{Fields: []FieldDesc{
				{Name: "Own", Exported: true, Kind: "v", Ty: "bool", Tag: `long:"own" description:"MARKW own"`}}}}}}
		cs := &Case{Name: "app", NsDelim: ".", EnvNsDelim: "_", Opts: flags.HelpFlag}
		cs.Build = []BuildOp{{Kind: "addgroup", Target: 1, Short: "Application Options", Struct: root}}
		how := r.Intn(3)
		var pre []string
		var mut []BuildOp
		switch how {
		case 0:
			mut = []BuildOp{{Kind: "setopt", Target: 1, Gi: 1, Oi: 1, Attr: "long", Vals: []string{hx("output-file-name-that-is-rather-long")}}}
		case 1:
			pre = []string{"remote"}
			mut = []BuildOp{{Kind: "setopt", Target: 2, Gi: 0, Oi: 0, Attr: "long", Vals: []string{hx("own-remote-with-a-much-longer-name")}}}
		case 2:
			pre = []string{"remote"}
			mut = []BuildOp{{Kind: "setcmd", Target: 2, Attr: "ns", Vals: []string{hx("a-long-remote-namespace")}},
				{Kind: "addgroup", Target: 2, Short: "Late", Struct: &StructDesc{Fields: []FieldDesc{
					{Name: "Depth", Exported: true, Kind: "v", Ty: "str", Tag: `long:"depth" description:"MARKD how deep"`}}}}}
		}
		// the help is asked for through ParseArgs (--help) — or written directly (WriteHelp) both times, with no
		// call between the change and the second text
		direct := r.Intn(3) == 0
		if direct {
			cs.Ops = []Op{{Kind: "parse", Args: pre}, {Kind: "help", Cols: 80}}
		} else {
			cs.Ops = []Op{{Kind: "parse", Args: append(append([]string{}, pre...), "--help")}}
		}
		for k := range mut {
			cs.Ops = append(cs.Ops, Op{Kind: "build", B: &mut[k]})
		}
		if direct {
			cs.Ops = append(cs.Ops, Op{Kind: "help", Cols: 80})
		} else {
			cs.Ops = append(cs.Ops, Op{Kind: "parse", Args: append(append([]string{}, pre...), "--help")})
		}
		cs.Description = describeOps(cs)
		c.RunCases([]*Case{cs}, func(cr *CaseResult) {
			c.classifyCase(cr)
			if cr.Real == nil || cr.Real.dead {
				return
			}
			c.Class(fmt.Sprintf("%s/help-after-widening: how=%d", strings.ToLower(prop), how))
			var obs parseObs
			for _, o := range parseBlocks(cr) {
				obs = o
			}
			if direct {
				// (the text of the last WriteHelp; a crash is reported by the panic oracle of every stage)
				text := lastBlock(cr.Impl, "HELP x")
				pan := ""
				for _, l := range cr.Impl {
					if strings.HasPrefix(l, "PANIC") {
						pan = decodeLine(l)
					}
				}
				obs = parseObs{errKind: "flags", errType: int(flags.ErrHelp), errMsg: text, panic: pan}
				if text == "" && pan == "" {
					obs.panic = "no help text"
				}
			}
			// every marked description starts in one column
			cols := map[int]bool{}
			for _, line := range strings.Split(obs.errMsg, "\n") {
				if k := strings.Index(line, "MARK"); k >= 0 {
					cols[len([]rune(line[:k]))] = true
				}
			}
			ok := obs.panic == "" && obs.errKind == "flags" && obs.errType == int(flags.ErrHelp) && len(cols) == 1
			got := fmt.Sprintf("%s %s type %d, description columns %v", obs.panic, obs.errKind, obs.errType, cols)
			in := map[string]interface{}{"case": cs.Description}
			if !ok {
				in["case_file"] = c.saveCase(cr)
				in["help"] = obs.errMsg
			}
			c.Check("help-is-laid-out-for-the-rows-as-they-are-now", ok, prop+":help-after-widening", in, got, "ErrHelp, every description in one column")
		})
	}
}

// checkC12DefaultChanged: Option.Default is assigned after a call and the values are written WITHOUT another call
// between: whether an option "equals its default" is judged by the default declared NOW.  A fresh parser over the
// same declaration (the same Default assigned) reads the text: every option has the value it was written from.
func checkC12DefaultChanged(c *Ctx, n int) {
	r := c.Rng
	for i := 0; i < n; i++ {
		root := &StructDesc{Fields: []FieldDesc{
			{Name: "V", Exported: true, Kind: "v", Ty: "bool", Tag: `short:"v"`},
			{Name: "Port", Exported: true, Kind: "v", Ty: "int", Tag: `long:"port" default:"8080"`},
			{Name: "Peers", Exported: true, Kind: "v", Ty: "Lstr", Tag: `long:"peer" default:"a" default:"b"`}}}
		bits := []uint{0, 8, 2 | 4, 2 | 4 | 8, 2}[r.Intn(5)] // IniNone, comments, commented defaults (+comments), defaults included
		m1 := BuildOp{Kind: "setopt", Target: 1, Gi: 1, Oi: 1, Attr: "default", Vals: []string{hx("9090")}}
		m2 := BuildOp{Kind: "setopt", Target: 1, Gi: 1, Oi: 2, Attr: "default", Vals: []string{hx("x")}}
		a := &Case{Name: "app", NsDelim: ".", EnvNsDelim: "_"}
		a.Build = []BuildOp{{Kind: "addgroup", Target: 1, Short: "Application Options", Struct: root}}
		a.Ops = []Op{{Kind: "parse", Args: []string{"-v"}}, {Kind: "build", B: &m1}, {Kind: "build", B: &m2}, {Kind: "iniwrite", Bits: bits}}
		a.Description = describeOps(a)
		var resA *CaseResult
		c.RunCases([]*Case{a}, func(cr *CaseResult) { resA = cr; c.classifyCase(cr) })
		if resA == nil || resA.Real == nil || resA.Real.dead {
			continue
		}
		iniw := firstLine(resA.Impl, "INIW ")
		if iniw == "" {
			continue
		}
		text, _ := unhx(strings.Fields(iniw)[1])
		b := &Case{Name: "app", NsDelim: ".", EnvNsDelim: "_"}
		b.Build = []BuildOp{{Kind: "addgroup", Target: 1, Short: "Application Options", Struct: root}, m1, m2}
		b.Ops = []Op{{Kind: "iniparse", Text: text}, {Kind: "parse", Args: []string{}}}
		b.Description = describeOps(b)
		c.RunCases([]*Case{b}, func(cr *CaseResult) {
			c.classifyCase(cr)
			if cr.Real == nil || cr.Real.dead {
				return
			}
			c.Class(fmt.Sprintf("c12/default-changed: write-options=%d", bits))
			port, peers := "?", "?"
			if fr, ok := cr.Real.fields["Port"]; ok {
				port = fmt.Sprint(fr.val.Interface())
			}
			if fr, ok := cr.Real.fields["Peers"]; ok {
				peers = fmt.Sprint(fr.val.Interface())
			}
			got := fmt.Sprintf("Port=%s Peers=%s", port, peers)
			want := "Port=8080 Peers=[a b]"
			in := map[string]interface{}{"write_case": a.Description, "written_text": text, "read_case": b.Description, "ini_options": bits}
			if got != want {
				in["case_file_write"] = c.saveCase(resA)
				in["case_file_read"] = c.saveCase(cr)
			}
			c.Check("round-trip-reproduces-value-when-the-default-was-assigned-after-a-call", got == want, "C12:default-changed", in, got, want)
		})
	}
}

// checkC08PartialClash: a command declares again only ONE of the two names of an outer option (the short name with
// another long name, or the long name without the short one).  Behind the command word the clashing name reaches the
// command's option; the outer option's OTHER name still reaches the outer option — `app -V add` and `app add -V`
// are the same.
func checkC08PartialClash(c *Ctx, n int) {
	r := c.Rng
	for i := 0; i < n; i++ {
		clashShort := r.Intn(2) == 0
		innerTag := `short:"v" long:"value"`
		if !clashShort {
			innerTag = `long:"verbose"`
		}
		add := &StructDesc{Fields: []FieldDesc{
			{Name: "Inner", Exported: true, Kind: "v", Ty: "Lbool", Tag: innerTag},
			{Name: "X", Exported: true, Kind: "v", Ty: "bool", Tag: `short:"x"`}}}
		mid := add
		path := []string{"add"}
		if r.Intn(2) == 0 {
			mid = &StructDesc{Fields: []FieldDesc{{Name: "Add", Exported: true, Kind: "s", Sub: add, Tag: `command:"add"`}}}
			path = []string{"remote", "add"}
		}
		root := &StructDesc{Fields: []FieldDesc{
			{Name: "Outer", Exported: true, Kind: "v", Ty: "Lbool", Tag: `short:"v" long:"verbose"`},
			{Name: "Cmd", Exported: true, Kind: "s", Sub: mid, Tag: fmt.Sprintf(`command:"%s"`, path[0])}}}
		cs := &Case{Name: "app", NsDelim: ".", EnvNsDelim: "_"}
		cs.Build = []BuildOp{{Kind: "addgroup", Target: 1, Short: "Application Options", Struct: root}}
		// the outer option's name that does NOT clash, and the one that does
		free, clash := "--verbose", "-v"
		if !clashShort {
			free, clash = "-v", "--verbose"
		}
		argv := append([]string{}, path...)
		wantOuter, wantInner := 0, 0
		for k := 1 + r.Intn(3); k > 0; k-- {
			if r.Intn(2) == 0 {
				argv = append(argv, free)
				wantOuter++
			} else {
				argv = append(argv, clash)
				wantInner++
			}
		}
		if r.Intn(2) == 0 {
			argv = append([]string{free}, argv...)
			wantOuter++
		}
		cs.Ops = []Op{{Kind: "parse", Args: argv}}
		cs.Description = describeOps(cs)
		c.RunCases([]*Case{cs}, func(cr *CaseResult) {
			c.classifyCase(cr)
			if cr.Real == nil || cr.Real.dead {
				return
			}
			c.Class(fmt.Sprintf("c08/partial-clash: short-clashes=%v depth=%d", clashShort, len(path)))
			var obs parseObs
			for _, o := range parseBlocks(cr) {
				obs = o
			}
			count := func(name string) int {
				if fr, ok := cr.Real.fields[name]; ok {
					return fr.val.Len()
				}
				return -1
			}
			got := fmt.Sprintf("%s %s type %d %q, outer=%d inner=%d", obs.panic, obs.errKind, obs.errType, obs.errMsg, count("Outer"), count("Inner"))
			want := fmt.Sprintf(" ok type 0 \"\", outer=%d inner=%d", wantOuter, wantInner)
			in := map[string]interface{}{"case": cs.Description, "argv": argv, "outer_option": "-v, --verbose", "command_declares": innerTag}
			if got != want {
				in["case_file"] = c.saveCase(cr)
			}
			c.Check("an-outer-option-stays-accepted-under-the-name-the-command-does-not-redeclare", got == want, "C08:partial-clash", in, got, want)
		})
	}
}

// checkC02DigitFlag: the declaration has a flag whose short name is a DIGIT (`-5`, a compression level) and a signed
// numeric option.  The negative number `-5` given to that option is its argument in every spelling — also as a
// separate token, where it spells the flag: a negative number given to a signed numeric option is documented to bind.
func checkC02DigitFlag(c *Ctx, n int) {
	r := c.Rng
	for i := 0; i < n; i++ {
		ty := []string{"int", "i8", "f64", "Lint"}[r.Intn(4)]
		root := &StructDesc{Fields: []FieldDesc{
			{Name: "Five", Exported: true, Kind: "v", Ty: "bool", Tag: `short:"5"`},
			{Name: "V", Exported: true, Kind: "v", Ty: "bool", Tag: `short:"v"`},
			{Name: "Num", Exported: true, Kind: "v", Ty: ty, Tag: `short:"n" long:"num"`}}}
		holder := root
		pre := []string{}
		if r.Intn(3) == 0 {
			holder = &StructDesc{Fields: []FieldDesc{
				{Name: "Five", Exported: true, Kind: "v", Ty: "bool", Tag: `short:"5"`},
				{Name: "Run", Exported: true, Kind: "s", Tag: `command:"run"`, Sub: &StructDesc{Fields: root.Fields[1:]}}}}
			pre = []string{"run"}
		}
		val := []string{"-5", "-5", "-7", "-55"}[r.Intn(4)]
		forms := [][]string{{"-n" + val}, {"-n=" + val}, {"-n", val}, {"--num=" + val}, {"--num", val}, {"-vn", val}}
		labels := []string{"-xV", "-x=V", "-x V", "--name=V", "--name V", "-ax V"}
		var cases []*Case
		for j, f := range forms {
			cc := &Case{Name: "app", NsDelim: ".", EnvNsDelim: "_"}
			cc.Build = []BuildOp{{Kind: "addgroup", Target: 1, Short: "Application Options", Struct: holder}}
			argv := append(append([]string{}, pre...), f...)
			if j == 5 {
				argv = append(append([]string{}, pre...), f...)
			}
			cc.Ops = []Op{{Kind: "parse", Args: argv}}
			cc.Description = fmt.Sprintf("digit flag -5 declared, spelling %s: %q", labels[j], argv)
			cases = append(cases, cc)
		}
		var results []*CaseResult
		c.RunCases(cases, func(cr *CaseResult) { results = append(results, cr) })
		c.Class(fmt.Sprintf("c02/digit-flag: type=%s value=%s in-command=%v", ty, val, len(pre) > 0))
		for j, cr := range results {
			if cr.Real == nil || cr.Real.dead {
				continue
			}
			var obs parseObs
			for _, o := range parseBlocks(cr) {
				obs = o
			}
			held, five := "?", "?"
			if fr, ok := cr.Real.fields["Num"]; ok {
				held = fmt.Sprint(fr.val.Interface())
			}
			if fr, ok := cr.Real.fields["Five"]; ok {
				five = fmt.Sprint(fr.val.Interface())
			}
			wantHeld := val
			if ty == "Lint" {
				wantHeld = "[" + val + "]"
			}
			got := fmt.Sprintf("%s %s type %d %q Num=%s Five=%s", obs.panic, obs.errKind, obs.errType, obs.errMsg, held, five)
			want := fmt.Sprintf(" ok type 0 \"\" Num=%s Five=false", wantHeld)
			in := map[string]interface{}{"case": cr.Case.Description, "spelling": labels[j]}
			if got != want {
				in["case_file"] = c.saveCase(cr)
			}
			c.Check("a-negative-number-is-the-argument-of-a-signed-numeric-option-in-every-spelling", got == want, "C02:digit-flag:"+labels[j], in, got, want)
		}
	}
}

// checkC10OuterWord: a command has been entered; a later plain word spells a command of an OUTER level (a sibling of
// the entered command, the entered command itself).  It is a word like any other: under PassAfterNonOption it ends
// option recognition (everything behind it goes to the positional fields verbatim), and where the entered command has
// optional subcommands and no free field it is a remaining argument — it never selects anything.
func checkC10OuterWord(c *Ctx, n int) {
	r := c.Rng
	for i := 0; i < n; i++ {
		run := &StructDesc{Fields: []FieldDesc{
			{Name: "Verbose", Exported: true, Kind: "v", Ty: "bool", Tag: `short:"v" long:"verbose"`},
			{Name: "Args", Exported: true, Kind: "s", Tag: `positional-args:"yes"`, Sub: &StructDesc{Fields: []FieldDesc{
				{Name: "Words", Exported: true, Kind: "v", Ty: "Lstr"}}}}}}
		test := &StructDesc{Fields: []FieldDesc{{Name: "T", Exported: true, Kind: "v", Ty: "bool", Tag: `long:"t"`}}}
		root := &StructDesc{Fields: []FieldDesc{
			{Name: "Run", Exported: true, Kind: "s", Sub: run, Tag: `command:"run" alias:"r"`},
			{Name: "Test", Exported: true, Kind: "s", Sub: test, Tag: `command:"test"`}}}
		cs := &Case{Name: "app", NsDelim: ".", EnvNsDelim: "_", Opts: flags.PassAfterNonOption}
		cs.Build = []BuildOp{{Kind: "addgroup", Target: 1, Short: "Application Options", Struct: root}}
		word := []string{"test", "run", "r", "other"}[r.Intn(4)]
		flagsBefore := r.Intn(2) == 0
		argv := []string{"run"}
		if flagsBefore {
			argv = append(argv, "-v")
		}
		tail := []string{word, "-v", "--verbose", "x"}
		argv = append(argv, tail...)
		cs.Ops = []Op{{Kind: "parse", Args: argv}}
		cs.Description = describeOps(cs)
		c.RunCases([]*Case{cs}, func(cr *CaseResult) {
			c.classifyCase(cr)
			if cr.Real == nil || cr.Real.dead {
				return
			}
			c.Class(fmt.Sprintf("c10/outer-word: word=%s", word))
			var obs parseObs
			for _, o := range parseBlocks(cr) {
				obs = o
			}
			words, verbose := "?", "?"
			if fr, ok := cr.Real.fields["Words"]; ok {
				words = fmt.Sprintf("%q", fr.val.Interface())
			}
			if fr, ok := cr.Real.fields["Verbose"]; ok {
				verbose = fmt.Sprint(fr.val.Interface())
			}
			got := fmt.Sprintf("%s %s type %d Words=%s Verbose=%s remaining %q", obs.panic, obs.errKind, obs.errType, words, verbose, obs.ret)
			want := fmt.Sprintf(" ok type 0 Words=%q Verbose=%v remaining []", tail, flagsBefore)
			in := map[string]interface{}{"case": cs.Description, "argv": argv}
			if got != want {
				in["case_file"] = c.saveCase(cr)
			}
			c.Check("a-word-spelling-an-outer-command-is-a-word", got == want, "C10:outer-word", in, got, want)
		})
	}
}

// checkC11EmptyAttached: an option with an optional argument AND an optional-value is given an attached EMPTY
// argument (`--level=`, `-l=`): the empty text is the argument — converted and checked like any other (ErrMarshal
// for a number, "" for a string, ErrInvalidChoice where "" is no choice); the optional-value is for the bare option.
func checkC11EmptyAttached(c *Ctx, n int) {
	r := c.Rng
	for i := 0; i < n; i++ {
		kind := r.Intn(3)
		ty, tag := "i8", `short:"l" long:"level" optional:"yes" optional-value:"3"`
		switch kind {
		case 1:
			ty, tag = "str", `short:"l" long:"level" optional:"yes" optional-value:"anonymous"`
		case 2:
			ty, tag = "str", `short:"l" long:"level" optional:"yes" optional-value:"fast" choice:"fast" choice:"slow"`
		}
		root := &StructDesc{Fields: []FieldDesc{
			{Name: "V", Exported: true, Kind: "v", Ty: "bool", Tag: `short:"v"`},
			{Name: "Level", Exported: true, Kind: "v", Ty: ty, Tag: tag}}}
		cs := &Case{Name: "app", NsDelim: ".", EnvNsDelim: "_"}
		cs.Build = []BuildOp{{Kind: "addgroup", Target: 1, Short: "Application Options", Struct: root}}
		form := r.Intn(4)
		argv := [][]string{{"--level="}, {"-l="}, {"--level"}, {"-v", "--level=", "w"}}[form]
		cs.Ops = []Op{{Kind: "parse", Args: argv}}
		cs.Description = describeOps(cs)
		c.RunCases([]*Case{cs}, func(cr *CaseResult) {
			c.classifyCase(cr)
			if cr.Real == nil || cr.Real.dead {
				return
			}
			c.Class(fmt.Sprintf("c11/empty-attached: kind=%d form=%d", kind, form))
			var obs parseObs
			for _, o := range parseBlocks(cr) {
				obs = o
			}
			held := "?"
			if fr, ok := cr.Real.fields["Level"]; ok {
				held = fmt.Sprint(fr.val.Interface())
			}
			got := fmt.Sprintf("%s %s type %d Level=%q", obs.panic, obs.errKind, obs.errType, held)
			var want string
			bare := form == 2
			switch {
			case bare:
				want = fmt.Sprintf(" ok type 0 Level=%q", map[int]string{0: "3", 1: "anonymous", 2: "fast"}[kind])
			case kind == 0:
				want = fmt.Sprintf(" flags type %d Level=\"0\"", int(flags.ErrMarshal))
			case kind == 1:
				want = " ok type 0 Level=\"\""
			default:
				want = fmt.Sprintf(" flags type %d Level=\"\"", int(flags.ErrInvalidChoice))
			}
			in := map[string]interface{}{"case": cs.Description, "argv": argv, "declaration": tag}
			if got != want {
				in["case_file"] = c.saveCase(cr)
			}
			c.Check("an-attached-empty-argument-is-converted-like-any-other", got == want, "C11:empty-attached", in, got, want)
		})
	}
}

// miniParse runs one hand-built case and hands the last parse observation to judge
func miniParse(c *Ctx, cs *Case, class string, judge func(cr *CaseResult, obs parseObs)) {
	cs.Description = describeOps(cs)
	c.RunCases([]*Case{cs}, func(cr *CaseResult) {
		c.classifyCase(cr)
		if cr.Real == nil || cr.Real.dead {
			return
		}
		c.Class(class)
		var obs parseObs
		for _, o := range parseBlocks(cr) {
			obs = o
		}
		judge(cr, obs)
	})
}

func fieldText(cr *CaseResult, name string) string {
	if fr, ok := cr.Real.fields[name]; ok {
		return fmt.Sprint(fr.val.Interface())
	}
	return "?"
}

// checkC01ClusterWithUnknown: under IgnoreUnknown (or an accepting handler) a cluster of known flags that ends in an
// undeclared letter is passed through / handed over — and the known flags in front of the letter HAVE occurred:
// their fields say so, their callbacks ran.
func checkC01ClusterWithUnknown(c *Ctx, n int) {
	r := c.Rng
	for i := 0; i < n; i++ {
		root := &StructDesc{Fields: []FieldDesc{
			{Name: "Verbose", Exported: true, Kind: "v", Ty: "Lbool", Tag: `short:"v"`},
			{Name: "Quiet", Exported: true, Kind: "v", Ty: "bool", Tag: `short:"q"`},
			{Name: "Force", Exported: true, Kind: "v", Ty: "bool", Tag: `short:"f"`}}}
		cs := &Case{Name: "app", NsDelim: ".", EnvNsDelim: "_"}
		handler := r.Intn(2) == 0
		if handler {
			cs.Handler = "identity"
		} else {
			cs.Opts |= flags.IgnoreUnknown
		}
		cs.Build = []BuildOp{{Kind: "addgroup", Target: 1, Short: "Application Options", Struct: root}}
		nv := 1 + r.Intn(3)
		q := r.Intn(2) == 0
		cluster := "-" + strings.Repeat("v", nv)
		if q {
			cluster += "q"
		}
		cluster += []string{"x", "Z", "é"}[r.Intn(3)]
		argv := []string{cluster, "w"}
		if r.Intn(2) == 0 {
			argv = []string{"-f", cluster, "w"}
		}
		cs.Ops = []Op{{Kind: "parse", Args: argv}}
		miniParse(c, cs, fmt.Sprintf("c01/cluster-with-unknown: handler=%v", handler), func(cr *CaseResult, obs parseObs) {
			wantV := "[" + strings.TrimSpace(strings.Repeat("true ", nv)) + "]"
			got := fmt.Sprintf("%s %s Verbose=%s Quiet=%s", obs.panic, obs.errKind, fieldText(cr, "Verbose"), fieldText(cr, "Quiet"))
			want := fmt.Sprintf(" ok Verbose=%s Quiet=%v", wantV, q)
			in := map[string]interface{}{"case": cs.Description, "argv": argv}
			if got != want {
				in["case_file"] = c.saveCase(cr)
			}
			c.Check("flags-in-front-of-an-ignored-letter-have-occurred", got == want, "C01:cluster-with-unknown", in, got, want)
		})
	}
}

// checkC03HandlerTakesLast: an unknown-option handler takes the option's detached value off the arguments; when that
// value is the LAST word, what it returns is empty — and that is what is parsed next: nothing.  The consumed word is
// not among the remaining arguments.
func checkC03HandlerTakesLast(c *Ctx, n int) {
	r := c.Rng
	for i := 0; i < n; i++ {
		root := &StructDesc{Fields: []FieldDesc{{Name: "V", Exported: true, Kind: "v", Ty: "bool", Tag: `short:"v"`}}}
		cs := &Case{Name: "app", NsDelim: ".", EnvNsDelim: "_", Handler: "dropnext"}
		cs.Build = []BuildOp{{Kind: "addgroup", Target: 1, Short: "Application Options", Struct: root}}
		argv := []string{"-v", "keep"}
		if r.Intn(2) == 0 {
			argv = []string{"keep"}
		}
		argv = append(argv, []string{"--colour", "-c"}[r.Intn(2)], "red")
		trailing := r.Intn(3) == 0
		want := []string{"keep"}
		if trailing {
			argv = append(argv, "more")
			want = append(want, "more")
		}
		cs.Ops = []Op{{Kind: "parse", Args: argv}}
		miniParse(c, cs, fmt.Sprintf("c03/handler-takes-last: trailing=%v", trailing), func(cr *CaseResult, obs parseObs) {
			got := fmt.Sprintf("%s %s remaining %q", obs.panic, obs.errKind, obs.ret)
			wantS := fmt.Sprintf(" ok remaining %q", want)
			in := map[string]interface{}{"case": cs.Description, "argv": argv, "handler": "takes the word behind the unknown option as its value and returns the rest"}
			if got != wantS {
				in["case_file"] = c.saveCase(cr)
			}
			c.Check("a-word-the-handler-consumed-is-not-a-remaining-argument", got == wantS, "C03:handler-takes-last", in, got, wantS)
		})
	}
}

// checkC06BadDefaultFirst: one option's environment value does not convert; a REQUIRED option declared behind it is
// supplied by its default tag (or its own variable).  The call fails with ErrMarshal about the first — never with
// ErrRequired naming an option that is not missing.
func checkC06BadDefaultFirst(c *Ctx, n int) {
	r := c.Rng
	for i := 0; i < n; i++ {
		reqTag := `long:"name" required:"yes" default:"anonymous"`
		env := []EnvVar{{"VFC06_PORT", "abc"}}
		if r.Intn(2) == 0 {
			reqTag = `long:"name" required:"yes" env:"VFC06_NAME"`
			env = append(env, EnvVar{"VFC06_NAME", "n"})
		}
		fields := []FieldDesc{
			{Name: "Port", Exported: true, Kind: "v", Ty: "int", Tag: `long:"port" env:"VFC06_PORT"`},
			{Name: "Name", Exported: true, Kind: "v", Ty: "str", Tag: reqTag}}
		root := &StructDesc{Fields: fields}
		argv := []string{}
		if r.Intn(2) == 0 {
			root = &StructDesc{Fields: []FieldDesc{{Name: "Run", Exported: true, Kind: "s", Sub: &StructDesc{Fields: fields}, Tag: `command:"run"`}}}
			argv = []string{"run"}
		}
		cs := &Case{Name: "app", NsDelim: ".", EnvNsDelim: "_", Env: env, CmdHandler: true}
		cs.Build = []BuildOp{{Kind: "addgroup", Target: 1, Short: "Application Options", Struct: root}}
		cs.Ops = []Op{{Kind: "parse", Args: argv}}
		miniParse(c, cs, "c06/bad-default-first", func(cr *CaseResult, obs parseObs) {
			ok := obs.panic == "" && obs.errKind == "flags" && obs.errType == int(flags.ErrMarshal) && !strings.Contains(obs.errMsg, "name")
			got := fmt.Sprintf("%s %s type %d %q", obs.panic, obs.errKind, obs.errType, obs.errMsg)
			in := map[string]interface{}{"case": cs.Description, "argv": argv}
			if !ok {
				in["case_file"] = c.saveCase(cr)
			}
			c.Check("an-option-its-default-supplies-is-never-named-missing", ok, "C06:bad-default-first", in, got, "ErrMarshal about --port")
		})
	}
}

// checkC07OptionalMidCluster: a short option with an optional argument stands in the middle of a cluster, an
// undeclared letter behind it: the letter is an unknown option — named by the error, passed through, or handed over.
func checkC07OptionalMidCluster(c *Ctx, n int) {
	r := c.Rng
	for i := 0; i < n; i++ {
		root := &StructDesc{Fields: []FieldDesc{
			{Name: "F", Exported: true, Kind: "v", Ty: "bool", Tag: `short:"f"`},
			{Name: "L", Exported: true, Kind: "v", Ty: "str", Tag: `short:"l" optional:"yes" optional-value:"dflt"`}}}
		policy := r.Intn(3)
		cs := &Case{Name: "app", NsDelim: ".", EnvNsDelim: "_"}
		switch policy {
		case 1:
			cs.Opts |= flags.IgnoreUnknown
		case 2:
			cs.Handler = "identity"
		}
		cs.Build = []BuildOp{{Kind: "addgroup", Target: 1, Short: "Application Options", Struct: root}}
		letter := []string{"x", "Z"}[r.Intn(2)]
		argv := []string{"-fl" + letter, "w"}
		cs.Ops = []Op{{Kind: "parse", Args: argv}}
		miniParse(c, cs, fmt.Sprintf("c07/optional-mid-cluster: policy=%d", policy), func(cr *CaseResult, obs parseObs) {
			nCalls := 0
			for _, l := range obs.logs {
				if strings.HasPrefix(l, "LOG unknown ") {
					nCalls++
				}
			}
			got := fmt.Sprintf("%s %s type %d %q remaining %q, %d handler calls, L=%q", obs.panic, obs.errKind, obs.errType, obs.errMsg, obs.ret, nCalls, fieldText(cr, "L"))
			var ok bool
			var want string
			switch policy {
			case 0:
				want = "ErrUnknownFlag: unknown flag `" + letter + "'"
				ok = obs.errKind == "flags" && obs.errType == int(flags.ErrUnknownFlag) && obs.errMsg == "unknown flag `"+letter+"'"
			case 1:
				want = "success, the token passed through"
				ok = obs.errKind == "ok" && fmt.Sprintf("%q", obs.ret) == fmt.Sprintf("%q", argv)
			default:
				want = "one handler call, then success with remaining [w]"
				ok = obs.errKind == "ok" && nCalls == 1 && fmt.Sprintf("%q", obs.ret) == `["w"]`
			}
			ok = ok && obs.panic == "" && fieldText(cr, "L") != letter
			in := map[string]interface{}{"case": cs.Description, "argv": argv}
			if !ok {
				in["case_file"] = c.saveCase(cr)
			}
			c.Check("an-undeclared-letter-behind-an-optional-argument-option-is-unknown", ok, "C07:optional-mid-cluster", in, got, want)
		})
	}
}

// checkC13SameKeyNextSection: the last key of one section is spelled like the first key of the next, and names a
// different option there: each entry goes to the option ITS section's name denotes, as the flags would.
func checkC13SameKeyNextSection(c *Ctx, n int, prop string) {
	r := c.Rng
	for i := 0; i < n; i++ {
		add := &StructDesc{Fields: []FieldDesc{{Name: "AddTag", Exported: true, Kind: "v", Ty: "Lstr", Tag: `long:"tag"`}}}
		rem := &StructDesc{Fields: []FieldDesc{{Name: "RemTag", Exported: true, Kind: "v", Ty: "Lstr", Tag: `long:"tag"`}}}
		root := &StructDesc{Fields: []FieldDesc{
			{Name: "Add", Exported: true, Kind: "s", Sub: add, Tag: `command:"add"`},
			{Name: "Remove", Exported: true, Kind: "s", Sub: rem, Tag: `command:"remove"`}}}
		cs := &Case{Name: "app", NsDelim: ".", EnvNsDelim: "_"}
		cs.Build = []BuildOp{{Kind: "addgroup", Target: 1, Short: "Application Options", Struct: root},
			{Kind: "setcmd", Target: 1, Attr: "subopt", Vals: []string{"1"}}}
		k := 1 + r.Intn(2)
		text := "[add]\n"
		var wantAdd []string
		for j := 0; j < k; j++ {
			text += fmt.Sprintf("tag = a%d\n", j)
			wantAdd = append(wantAdd, fmt.Sprintf("a%d", j))
		}
		if r.Intn(2) == 0 {
			text += "; comment\n\n"
		}
		text += "[remove]\ntag = r1\n"
		asDefaults := r.Intn(3) == 0
		cs.Ops = []Op{{Kind: "iniparse", Text: text, AsDefaults: asDefaults}}
		if asDefaults {
			cs.Ops = append(cs.Ops, Op{Kind: "parse", Args: []string{}})
		}
		miniParse(c, cs, fmt.Sprintf("%s/same-key-next-section: as-defaults=%v", strings.ToLower(prop), asDefaults), func(cr *CaseResult, obs parseObs) {
			got := fmt.Sprintf("read: %s; add.tag=%s remove.tag=%s", decodeLine(nthLine(cr.Impl, "INI ", 0)), fieldText(cr, "AddTag"), fieldText(cr, "RemTag"))
			want := fmt.Sprintf("read: INI ok; add.tag=%v remove.tag=[r1]", wantAdd)
			in := map[string]interface{}{"case": cs.Description, "text": text}
			if got != want {
				in["case_file"] = c.saveCase(cr)
			}
			c.Check("an-entry-goes-to-the-option-its-own-section-denotes", got == want, prop+":same-key-next-section", in, got, want)
		})
	}
}

// checkC14NumberAfterLongLine: a line longer than a reader's buffer (a comment or a value of 5 000 … 70 000 bytes)
// stands in front of the faulty line: the error still carries the 1-based number of the faulty LINE.
func checkC14NumberAfterLongLine(c *Ctx, n int) {
	r := c.Rng
	for i := 0; i < n; i++ {
		root := &StructDesc{Fields: []FieldDesc{
			{Name: "Name", Exported: true, Kind: "v", Ty: "str", Tag: `long:"name"`},
			{Name: "Port", Exported: true, Kind: "v", Ty: "int", Tag: `long:"port"`}}}
		cs := &Case{Name: "app", NsDelim: ".", EnvNsDelim: "_"}
		cs.Build = []BuildOp{{Kind: "addgroup", Target: 1, Short: "Application Options", Struct: root}}
		size := []int{4095, 4096, 4097, 5000, 8193, 70000}[r.Intn(6)]
		long := strings.Repeat("x", size)
		lines := []string{"[Application Options]"}
		if r.Intn(2) == 0 {
			lines = append(lines, "; "+long)
		} else {
			lines = append(lines, "name = "+long)
		}
		if r.Intn(2) == 0 {
			lines = append(lines, "port = 1")
		}
		bad := []string{"port = eighty", "no equals sign here", "nosuch = 1", "name = \"unterminated"}[r.Intn(4)]
		lines = append(lines, bad)
		wantLine := len(lines)
		text := strings.Join(lines, "\n") + "\nport = 2\n"
		cs.Ops = []Op{{Kind: "iniparse", Text: text}}
		miniParse(c, cs, fmt.Sprintf("c14/number-after-long-line: size=%d", size), func(cr *CaseResult, obs parseObs) {
			first := nthLine(cr.Impl, "INI ", 0)
			ws := strings.Fields(first + " x x x")
			ok := ws[1] == "ini" && ws[3] == fmt.Sprint(wantLine)
			in := map[string]interface{}{"case": "a line of " + fmt.Sprint(size) + " bytes in front of the faulty line " + fmt.Sprintf("%q", bad), "faulty_line_number": wantLine}
			if !ok {
				in["case_file"] = c.saveCase(cr)
			}
			c.Check("an-error-carries-the-number-of-the-faulty-line", ok, "C14:number-after-long-line", in, cutText(decodeLine(first), 200), fmt.Sprintf("IniError at line %d", wantLine))
		})
	}
}

func cutText(s string, n int) string {
	if len(s) > n {
		return s[:n]
	}
	return s
}
