package main

// A real terminal width for getTerminalColumns(): a pty whose window size we set, installed
// as fd 0 around one operation (no source hook needed).

import (
	"fmt"
	"os"

	"golang.org/x/sys/unix"
)

var ptyBroken = false

// currentCols: what the library's ioctl on fd 0 reports right now (80 if fd 0 is no terminal).
func currentCols() int {
	ws, err := unix.IoctlGetWinsize(0, unix.TIOCGWINSZ)
	if err != nil {
		return 80
	}
	return int(ws.Col)
}

// withCols runs f with fd 0 being a pty of the given width; returns the width in effect.
func withCols(cols int, f func()) int {
	if ptyBroken {
		f()
		return currentCols()
	}
	master, err := os.OpenFile("/dev/ptmx", os.O_RDWR|unix.O_NOCTTY, 0)
	if err != nil {
		ptyBroken = true
		f()
		return currentCols()
	}
	defer master.Close()
	if err := unix.IoctlSetPointerInt(int(master.Fd()), unix.TIOCSPTLCK, 0); err != nil {
		ptyBroken = true
		f()
		return currentCols()
	}
	n, err := unix.IoctlGetInt(int(master.Fd()), unix.TIOCGPTN)
	if err != nil {
		ptyBroken = true
		f()
		return currentCols()
	}
	slave, err := os.OpenFile(fmt.Sprintf("/dev/pts/%d", n), os.O_RDWR|unix.O_NOCTTY, 0)
	if err != nil {
		ptyBroken = true
		f()
		return currentCols()
	}
	defer slave.Close()
	if err := unix.IoctlSetWinsize(int(slave.Fd()), unix.TIOCSWINSZ, &unix.Winsize{Row: 24, Col: uint16(cols)}); err != nil {
		ptyBroken = true
		f()
		return currentCols()
	}
	saved, err := unix.Dup(0)
	if err != nil {
		ptyBroken = true
		f()
		return currentCols()
	}
	defer func() {
		unix.Dup2(saved, 0)
		unix.Close(saved)
	}()
	if err := unix.Dup2(int(slave.Fd()), 0); err != nil {
		ptyBroken = true
		f()
		return currentCols()
	}
	got := currentCols()
	f()
	return got
}

// probePty: can a terminal width be imposed in this environment?
func probePty() bool {
	got := withCols(37, func() {})
	return got == 37 && !ptyBroken
}

var ptyOK = true

// effCols: the width a help operation will really run under.
func effCols(want int) int {
	if ptyOK {
		return want
	}
	return currentCols()
}
