package main

// Function-level correspondence (model vs implementation through the verif hooks) and
// model-independent property oracles for the leaf functions.

import (
	"fmt"
	"math/big"
	"os"
	"reflect"
	"runtime/debug"
	"sort"
	"strconv"
	"strings"
	"unicode"
	"unicode/utf8"

	flags "github.com/jessevdk/go-flags"
)

func b01(b bool) string {
	if b {
		return "1"
	}
	return "0"
}

// safe runs f and reports a panic as a value.
func safe(f func()) (pan interface{}) {
	defer func() {
		if r := recover(); r != nil {
			pan = r
			if os.Getenv("VERIF_TRACE") != "" {
				os.WriteFile("/verif/build/trace.txt", debug.Stack(), 0o644)
			}
		}
	}()
	f()
	return nil
}

// ---------------------------------------------------------------- stdlib model validation

// checkStdlibModel compares the Lean re-implementations of standard-library functions with
// the standard library itself (these are "modelled rather than verified", DESIGN 2.6).
func checkStdlibModel(c *Ctx, n int) {
	r := c.Rng
	for i := 0; i < n; i++ {
		s := genAny(r, 24)
		if r.Intn(4) == 0 {
			s = " \t" + s + string(pick(r, []rune("  \u0085 　\n"))) + " "
		}
		c.Class("stdlib")
		c.Fn("trimspace "+hx(s), hx(strings.TrimSpace(s)), "strings.TrimSpace")
		var rs []string
		for _, rn := range s {
			rs = append(rs, strconv.Itoa(int(rn)))
		}
		c.Fn("runes "+hx(s), strings.Join(rs, " "), "range over string")
		c.Fn("validutf8 "+hx(s), b01(utf8.ValidString(s)), "utf8.ValidString")
		c.Fn("quote "+hx(s), hx(strconv.Quote(s)), "strconv.Quote")
		// unquote: valid literals, mutated literals, arbitrary
		var q string
		switch r.Intn(4) {
		case 0:
			q = strconv.Quote(s)
		case 1:
			q = strconv.Quote(s)
			if len(q) > 2 {
				j := 1 + r.Intn(len(q)-1)
				q = q[:j] + string("\\\"xuU07n'\n"[r.Intn(10)]) + q[j:]
			}
		case 2:
			q = "\"" + genEscapes(r) + "\""
		default:
			q = "\"" + s
		}
		u, err := strconv.Unquote(q)
		if err != nil {
			c.Fn("unquote "+hx(q), "err", "strconv.Unquote")
		} else {
			c.Fn("unquote "+hx(q), "ok "+hx(u), "strconv.Unquote")
		}
		rn := rune(r.Intn(0x110000 + 100))
		if r.Intn(2) == 0 {
			rn = rune(r.Intn(0x900))
		}
		c.Fn("encoderune "+strconv.Itoa(int(rn)), hx(string(rn)), "string(rune)")
	}
}

func genEscapes(r interface{ Intn(int) int }) string {
	parts := []string{`\n`, `\t`, `\\`, `\"`, `\x41`, `\xff`, `\x4`, `é`, `\ud800`, `\U0001F600`, `\U00110000`, `\101`, `\400`, `\8`, `\'`, `a`, `é`, "\xff", `\`, `"`, `\u12`, " "}
	n := r.Intn(5)
	var b strings.Builder
	for i := 0; i < n; i++ {
		b.WriteString(parts[r.Intn(len(parts))])
	}
	return b.String()
}

// ---------------------------------------------------------------- C20: closest.go

func refLevenshtein(a, b string) int {
	s, t := []rune(a), []rune(b)
	prev := make([]int, len(t)+1)
	for j := range prev {
		prev[j] = j
	}
	for i := 1; i <= len(s); i++ {
		cur := make([]int, len(t)+1)
		cur[0] = i
		for j := 1; j <= len(t); j++ {
			cost := 1
			if s[i-1] == t[j-1] {
				cost = 0
			}
			cur[j] = minInt(minInt(prev[j]+1, cur[j-1]+1), prev[j-1]+cost)
		}
		prev = cur
	}
	return prev[len(t)]
}

func genNameSet(c *Ctx) []string {
	r := c.Rng
	n := 1 + r.Intn(6)
	names := make([]string, 0, n)
	for i := 0; i < n; i++ {
		utf := 0.0
		if r.Intn(4) == 0 {
			utf = 0.4
		}
		names = append(names, genWord(r, 1, 10, utf))
	}
	return names
}

func genNearWord(c *Ctx, names []string) string {
	r := c.Rng
	switch r.Intn(8) {
	case 0:
		return genWord(r, 0, 3, 0.2)
	case 1:
		return genWord(r, 8, 16, 0.2)
	case 2:
		return ""
	case 3:
		return genBytes(r, 6)
	default:
		w := names[r.Intn(len(names))]
		k := r.Intn(4)
		for i := 0; i < k; i++ {
			w = mutate(r, w)
		}
		return w
	}
}

func checkC20Fn(c *Ctx) {
	for i := 0; i < c.N; i++ {
		names := genNameSet(c)
		w := genNearWord(c, names)
		t := names[c.Rng.Intn(len(names))]
		var d, dsym int
		if p := safe(func() { d = flags.VerifLevenshtein(w, t); dsym = flags.VerifLevenshtein(t, w) }); p != nil {
			c.Check("levenshtein-no-panic", false, "C20:lev-panic", map[string]interface{}{"s": w, "t": t}, fmt.Sprint(p), "no panic")
			continue
		}
		c.Class(fmt.Sprintf("lev/dist=%d", minInt(d, 6)))
		c.Distinct("lev|" + w + "|" + t)
		c.Sample(map[string]interface{}{"op": "levenshtein", "s": w, "t": t, "impl": d})
		c.Fn("lev "+hx(w)+" "+hx(t), strconv.Itoa(d), "levenshtein")
		in := map[string]interface{}{"s": w, "t": t, "s_hex": hx(w), "t_hex": hx(t)}
		c.Check("levenshtein=true-edit-distance", d == refLevenshtein(w, t), "C20:lev-wrong", in, strconv.Itoa(d), strconv.Itoa(refLevenshtein(w, t)))
		c.Check("levenshtein-symmetric", d == dsym, "C20:lev-asymmetric", in, strconv.Itoa(d), strconv.Itoa(dsym))
		if utf8.ValidString(w) && utf8.ValidString(t) {
			c.Check("levenshtein-zero-iff-equal", (d == 0) == (w == t), "C20:lev-zero", in, strconv.Itoa(d), "0 iff equal")
		}
		// closestChoice: first minimum
		var best string
		var bd int
		if p := safe(func() { best, bd = flags.VerifClosestChoice(w, names) }); p != nil {
			c.Check("closest-no-panic", false, "C20:closest-panic", map[string]interface{}{"w": w, "names": names}, fmt.Sprint(p), "no panic")
			continue
		}
		c.Fn("closest "+hx(w)+" "+hxs(names), hx(best)+" "+strconv.Itoa(bd), "closestChoice")
		wantBest, wantD := "", -1
		for _, nm := range names {
			dd := refLevenshtein(w, nm)
			if wantD < 0 || dd < wantD {
				wantBest, wantD = nm, dd
			}
		}
		c.Check("closest-is-first-minimum", best == wantBest && bd == wantD, "C20:closest-wrong",
			map[string]interface{}{"w": w, "names": names}, fmt.Sprintf("%q,%d", best, bd), fmt.Sprintf("%q,%d", wantBest, wantD))
	}
}

func hxs(ss []string) string {
	out := make([]string, len(ss))
	for i, s := range ss {
		out[i] = hx(s)
	}
	return strings.Join(out, " ")
}

// ---------------------------------------------------------------- C17: wrapText

func nonSpaceRunes(s string) []rune {
	var out []rune
	for _, r := range s {
		if !strings.ContainsRune(" \t\n\v\f\r\u0085                 　", r) {
			out = append(out, r)
		}
	}
	return out
}

// wrapOracles: model-free geometry checks of one wrapText result.
func wrapOracles(c *Ctx, s string, l int, prefix string, out string) {
	in := map[string]interface{}{"s": s, "l": l, "prefix": prefix, "s_hex": hx(s)}
	eff := l
	if eff < 10 {
		eff = 10
	}
	if utf8.ValidString(s) {
		c.Check("wrap-valid-utf8", utf8.ValidString(out), "C17:wrap-invalid-utf8", in, hx(out), "valid UTF-8")
	}
	lines := strings.Split(out, "\n")
	for i, ln := range lines {
		body := ln
		if i > 0 && ln != "" {
			if !strings.HasPrefix(ln, prefix) {
				c.Check("wrap-continuation-indent", false, "C17:wrap-indent", in, ln, "line starts with prefix")
				continue
			}
			body = ln[len(prefix):]
			// ... and with nothing more: the text starts right after the prefix
			if first, _ := utf8.DecodeRuneInString(body); body != "" && unicode.IsSpace(first) {
				c.Check("wrap-continuation-indent", false, "C17:wrap-indent", in, fmt.Sprintf("line %d: %q", i, ln), "the text starts right after the prefix")
				continue
			}
			c.Check("wrap-continuation-indent", true, "", nil, "", "")
		}
		if utf8.RuneCountInString(body) > eff {
			c.Check("wrap-line-width", false, "C17:wrap-width", in, fmt.Sprintf("line %d has %d characters: %q", i, utf8.RuneCountInString(body), body), fmt.Sprintf("<= %d", eff))
		} else {
			c.Check("wrap-line-width", true, "", nil, "", "")
		}
	}
	// words preserved: input non-space runes are a subsequence of the output's, extras are '-' only
	a, b := nonSpaceRunes(s), nonSpaceRunes(strings.ReplaceAll(out, "\n"+prefix, "\n"))
	i, extra, bad := 0, 0, false
	for _, rn := range b {
		if i < len(a) && a[i] == rn {
			i++
		} else if rn == '-' {
			extra++
		} else {
			bad = true
			break
		}
	}
	ok := !bad && i == len(a) && extra <= len(lines)
	c.Check("wrap-words-preserved", ok, "C17:wrap-words", in, string(b), string(a))
}

func checkC17Wrap(c *Ctx) {
	r := c.Rng
	for i := 0; i < c.N; i++ {
		utf := 0.0
		if r.Intn(2) == 0 {
			utf = 0.5
		}
		s := genText(r, 14, utf)
		if r.Intn(20) == 0 {
			s = genBytes(r, 60)
		}
		l := r.Intn(40) - 4
		if r.Intn(5) == 0 {
			l = 10 + r.Intn(4)
		}
		prefix := strings.Repeat(" ", r.Intn(8))
		var out string
		if p := safe(func() { out = flags.VerifWrapText(s, l, prefix) }); p != nil {
			c.Check("wrap-no-panic", false, "C17:wrap-panic", map[string]interface{}{"s": s, "l": l, "prefix": prefix}, fmt.Sprint(p), "no panic")
			continue
		}
		c.Class(fmt.Sprintf("wrap/lines=%d,utf=%v", minInt(strings.Count(out, "\n"), 5), utf > 0))
		if strings.Contains(out, "\n") {
			c.Distinct("wrap|" + s + "|" + strconv.Itoa(l))
		}
		c.Sample(map[string]interface{}{"op": "wrapText", "s": s, "l": l, "prefix": prefix, "impl": out})
		c.Fn(fmt.Sprintf("wrap %s %d %s", hx(s), l, hx(prefix)), hx(out), "wrapText")
		wrapOracles(c, s, l, prefix, out)
	}
}

// ---------------------------------------------------------------- C19: tag scanner

type kv struct{ k, v string }

func genTagPairs(c *Ctx) []kv {
	r := c.Rng
	keys := []string{"long", "short", "description", "default", "choice", "env", "required", "alias", "x-y", "k", "é"}
	n := r.Intn(7)
	out := make([]kv, 0, n)
	for i := 0; i < n; i++ {
		k := keys[r.Intn(len(keys))]
		if r.Intn(10) == 0 {
			k = genWord(r, 0, 4, 0.2)
		}
		k = strings.Map(func(rn rune) rune {
			if rn == ' ' || rn == ':' || rn == '"' {
				return '_'
			}
			return rn
		}, k)
		out = append(out, kv{k, genAny(r, 12)})
	}
	return out
}

func renderTag(c *Ctx, kvs []kv) string {
	r := c.Rng
	var b strings.Builder
	b.WriteString(strings.Repeat(" ", r.Intn(3)))
	for i, p := range kvs {
		if i > 0 {
			b.WriteString(strings.Repeat(" ", r.Intn(3))) // zero blanks between pairs is legal for this scanner
		}
		b.WriteString(p.k)
		b.WriteString(":")
		b.WriteString(strconv.Quote(p.v))
	}
	b.WriteString(strings.Repeat(" ", r.Intn(3)))
	return b.String()
}

func canonTag(m map[string][]string) string {
	keys := make([]string, 0, len(m))
	for k := range m {
		keys = append(keys, k)
	}
	sort.Strings(keys)
	var flat []string
	for _, k := range keys {
		for _, v := range m[k] {
			flat = append(flat, k, v)
		}
	}
	return "ok " + hxList(flat)
}

func checkC19Scan(c *Ctx) {
	r := c.Rng
	for i := 0; i < c.N; i++ {
		kvs := genTagPairs(c)
		tag := renderTag(c, kvs)
		wellFormed := true
		// keys that need quoting cannot be expressed; newline in a quoted value is escaped by Quote
		switch r.Intn(3) {
		case 0: // mutate at a random byte position
			wellFormed = false
			if len(tag) > 0 {
				j := r.Intn(len(tag))
				switch r.Intn(4) {
				case 0:
					tag = tag[:j] + tag[j+1:]
				case 1:
					tag = tag[:j] + string("\"\\: \n\x00é"[r.Intn(7)]) + tag[j:]
				case 2:
					tag = tag[:j]
				default:
					tag = tag[:j] + genBytes(r, 3) + tag[j:]
				}
			}
		}
		var m map[string][]string
		var err error
		if p := safe(func() { m, err = flags.VerifScanTag(tag) }); p != nil {
			c.Check("scan-no-panic", false, "C19:scan-panic", map[string]interface{}{"tag": tag, "tag_hex": hx(tag)}, fmt.Sprint(p), "typed error or pairs")
			continue
		}
		in := map[string]interface{}{"tag": tag, "tag_hex": hx(tag)}
		if err != nil {
			fe, ok := err.(*flags.Error)
			c.Check("scan-error-typed", ok && fe.Type == flags.ErrTag, "C19:scan-untyped-error", in, fmt.Sprintf("%T %v", err, err), "*flags.Error ErrTag")
			c.Class("scan/error")
			c.Fn("scantag "+hx(tag), "err "+hx(err.Error()), "multiTag.scan")
			if wellFormed {
				c.Check("scan-accepts-wellformed", false, "C19:scan-rejects-wellformed", in, err.Error(), "accepted")
			}
			c.Distinct("scanerr|" + tag)
			continue
		}
		c.Class(fmt.Sprintf("scan/ok pairs=%d", minInt(len(kvs), 6)))
		c.Distinct("scan|" + tag)
		c.Sample(map[string]interface{}{"op": "scanTag", "tag": tag, "impl": m})
		c.Fn("scantag "+hx(tag), canonTag(m), "multiTag.scan")
		if wellFormed {
			want := map[string][]string{}
			for _, p := range kvs {
				want[p.k] = append(want[p.k], p.v)
			}
			if len(want) == 0 {
				want = map[string][]string{}
			}
			c.Check("scan-roundtrip", reflect.DeepEqual(normMap(m), normMap(want)), "C19:scan-roundtrip", in, fmt.Sprint(m), fmt.Sprint(want))
		}
	}
}

func normMap(m map[string][]string) map[string][]string {
	if m == nil {
		return map[string][]string{}
	}
	return m
}

// ---------------------------------------------------------------- C02: option-token splitting

func checkC02Split(c *Ctx) {
	r := c.Rng
	for i := 0; i < c.N; i++ {
		var name string
		switch r.Intn(4) {
		case 0:
			name = string(pick(r, otherRunes[:30]))
		case 1:
			name = string(pick(r, latinLetters))
		case 2:
			name = genWord(r, 1, 6, 0.3)
		default:
			name = genBytes(r, 4)
		}
		val := genAny(r, 8)
		var tok string
		switch r.Intn(6) {
		case 0:
			tok = "-" + name + "=" + val
		case 1:
			tok = "--" + name + "=" + val
		case 2:
			tok = "-" + name + val
		case 3:
			tok = "--" + name
		case 4:
			tok = genBytes(r, 6)
		default:
			tok = strings.Repeat("-", r.Intn(4)) + genAny(r, 6)
		}
		var isopt, starts, islong bool
		var prefix, optname, n2, split string
		var arg *string
		if p := safe(func() {
			isopt = flags.VerifArgumentIsOption(tok)
			starts = flags.VerifArgumentStartsOption(tok)
			prefix, optname, islong = flags.VerifStripOptionPrefix(tok)
			n2, split, arg = flags.VerifSplitOption(prefix, optname, islong)
		}); p != nil {
			c.Check("split-no-panic", false, "C02:split-panic", map[string]interface{}{"tok": tok, "tok_hex": hx(tok)}, fmt.Sprint(p), "no panic")
			continue
		}
		c.Class(fmt.Sprintf("split/isopt=%v,long=%v,arg=%v", isopt, islong, arg != nil))
		c.Distinct("split|" + tok)
		c.Fn("isopt "+hx(tok), b01(isopt)+" "+b01(starts), "argumentIsOption")
		c.Fn("strip "+hx(tok), hx(prefix)+" "+hx(optname)+" "+b01(islong), "stripOptionPrefix")
		as := "-"
		if arg != nil {
			as = hx(*arg)
		}
		c.Fn("split "+hx(optname)+" "+b01(islong), hx(n2)+" "+hx(split)+" "+as, "splitOption")
		c.Sample(map[string]interface{}{"op": "splitOption", "token": tok, "name": n2, "arg": arg})
		// oracle: "-<one character>=V" splits into that character and V, whatever the character
		if rn, w := utf8.DecodeRuneInString(name); w == len(name) && rn != utf8.RuneError && rn != '-' && rn != '=' {
			p2, o2, l2 := flags.VerifStripOptionPrefix("-" + name + "=" + val)
			nn, _, aa := flags.VerifSplitOption(p2, o2, l2)
			ok := nn == name && aa != nil && *aa == val
			got := nn
			if aa != nil {
				got += " | " + *aa
			}
			c.Check("short-eq-splits-after-first-character", ok, "C02:short-eq-split",
				map[string]interface{}{"token": "-" + name + "=" + val, "token_hex": hx("-" + name + "=" + val)}, got, name+" | "+val)
		}
	}
}

// ---------------------------------------------------------------- C11: integer conversion (leaf level)

type intKind struct {
	name   string
	bits   int
	signed bool
	mk     func() interface{}
}

var intKinds = []intKind{
	{"int8", 8, true, func() interface{} { return new(int8) }},
	{"int16", 16, true, func() interface{} { return new(int16) }},
	{"int32", 32, true, func() interface{} { return new(int32) }},
	{"int64", 64, true, func() interface{} { return new(int64) }},
	{"int", 64, true, func() interface{} { return new(int) }},
	{"uint8", 8, false, func() interface{} { return new(uint8) }},
	{"uint16", 16, false, func() interface{} { return new(uint16) }},
	{"uint32", 32, false, func() interface{} { return new(uint32) }},
	{"uint64", 64, false, func() interface{} { return new(uint64) }},
	{"uint", 64, false, func() interface{} { return new(uint) }},
}

// denotes: independent reading of an integer literal in a base (2..36): optional sign (signed
// only), one or more digits of the base, nothing else.
func denotes(s string, base int, signed bool) (*big.Int, bool) {
	if s == "" {
		return nil, false
	}
	neg := false
	if signed && (s[0] == '+' || s[0] == '-') {
		neg = s[0] == '-'
		s = s[1:]
	}
	if s == "" {
		return nil, false
	}
	v := new(big.Int)
	for i := 0; i < len(s); i++ {
		ch := s[i]
		var d int
		switch {
		case ch >= '0' && ch <= '9':
			d = int(ch - '0')
		case ch >= 'a' && ch <= 'z':
			d = int(ch-'a') + 10
		case ch >= 'A' && ch <= 'Z':
			d = int(ch-'A') + 10
		default:
			return nil, false
		}
		if d >= base {
			return nil, false
		}
		v.Mul(v, big.NewInt(int64(base)))
		v.Add(v, big.NewInt(int64(d)))
	}
	if neg {
		v.Neg(v)
	}
	return v, true
}

func genIntText(c *Ctx, k intKind, base int) string {
	r := c.Rng
	lim := new(big.Int).Lsh(big.NewInt(1), uint(k.bits))
	if k.signed {
		lim.Rsh(lim, 1)
	}
	var v *big.Int
	switch r.Intn(8) {
	case 0:
		v = new(big.Int).Set(lim)
	case 1:
		v = new(big.Int).Sub(lim, big.NewInt(1))
	case 2:
		v = new(big.Int).Add(lim, big.NewInt(1))
	case 3:
		v = big.NewInt(0)
	case 4:
		v = new(big.Int).Mul(lim, big.NewInt(int64(2+r.Intn(40))))
	default:
		v = new(big.Int).Rand(c.Rng, new(big.Int).Add(lim, big.NewInt(3)))
	}
	b := base
	if b < 2 || b > 36 {
		b = 10
	}
	s := v.Text(b)
	if r.Intn(3) == 0 {
		s = strings.ToUpper(s)
	}
	if r.Intn(5) == 0 {
		s = strings.Repeat("0", 1+r.Intn(3)) + s
	}
	switch r.Intn(8) {
	case 0:
		s = "-" + s
	case 1:
		s = "+" + s
	case 2:
		s = "-" + s
	}
	switch r.Intn(14) {
	case 0:
		s = " " + s
	case 1:
		s = s + " "
	case 2:
		s = s[:len(s)/2] + "_" + s[len(s)/2:]
	case 3:
		s = ""
	case 4:
		s = s + string("zg9.e"[r.Intn(5)])
	case 5:
		s = "0x" + s
	case 6:
		s = genBytes(r, 5)
	}
	return s
}

func checkC11Ints(c *Ctx) {
	r := c.Rng
	for i := 0; i < c.N; i++ {
		k := intKinds[r.Intn(len(intKinds))]
		base := 10
		tag := ""
		switch r.Intn(4) {
		case 0:
			base = 2 + r.Intn(35)
			tag = fmt.Sprintf(`base:"%d"`, base)
		case 1:
			base = []int{16, 8, 2, 36}[r.Intn(4)]
			tag = fmt.Sprintf(`base:"%d"`, base)
		}
		s := genIntText(c, k, base)
		target := k.mk()
		var err error
		if p := safe(func() { err = flags.VerifConvert(s, target, tag) }); p != nil {
			c.Check("convert-no-panic", false, "C11:convert-panic", map[string]interface{}{"type": k.name, "value": s, "tag": tag}, fmt.Sprint(p), "no panic")
			continue
		}
		in := map[string]interface{}{"type": k.name, "value": s, "value_hex": hx(s), "tag": tag}
		op := "parseuint"
		if k.signed {
			op = "parseint"
		}
		req := fmt.Sprintf("%s %s %d %d", op, hx(s), base, k.bits)
		got := new(big.Int)
		if err != nil {
			c.Fn(req, "err "+hx(err.Error()), "convert/"+k.name)
			c.Class("int/" + k.name + "/rejected")
		} else {
			rv := reflect.ValueOf(target).Elem()
			if k.signed {
				got.SetInt64(rv.Int())
			} else {
				got.SetUint64(rv.Uint())
			}
			c.Fn(req, "ok "+got.String(), "convert/"+k.name)
			c.Class("int/" + k.name + "/accepted")
		}
		c.Distinct(fmt.Sprintf("int|%s|%d|%s", k.name, base, s))
		c.Sample(map[string]interface{}{"op": "convert", "type": k.name, "tag": tag, "value": s, "err": fmt.Sprint(err), "stored": got.String()})
		// oracle: accepted iff the text denotes an in-range integer; stored value is the denoted one
		want, okDen := denotes(s, base, k.signed)
		inRange := false
		if okDen {
			lo, hi := big.NewInt(0), new(big.Int).Lsh(big.NewInt(1), uint(k.bits))
			if k.signed {
				hi.Rsh(hi, 1)
				lo.Neg(hi)
			}
			inRange = want.Cmp(lo) >= 0 && want.Cmp(hi) < 0
		}
		if err == nil {
			c.Check("int-accepted-iff-denotes", okDen && inRange, "C11:int-accepts-nondenoting", in, "accepted "+got.String(), "rejected")
			if okDen && inRange {
				c.Check("int-stored-exactly", got.Cmp(want) == 0, "C11:int-stored-wrong", in, got.String(), want.String())
			}
		} else {
			c.Check("int-accepted-iff-denotes", !(okDen && inRange), "C11:int-rejects-denoting", in, "rejected: "+err.Error(), "accepted "+fmt.Sprint(want))
		}
	}
}
