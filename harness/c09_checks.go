package main

// C09, dispatch stage: command trees of depth up to 3 with executable commands at every level,
// SubcommandsOptional set independently on the parser and on every command, and an argument vector
// that is a path of command words stopping at a random depth.  What must happen is stated from the
// public model alone: the innermost active command either still requires a subcommand (then
// ErrCommandRequired and nothing runs) or it is dispatched exactly once (Execute of that command if
// its data is a Commander, the CommandHandler exactly once if one is installed).

import (
	"fmt"
	"strings"

	flags "github.com/jessevdk/go-flags"
)

func checkC09Dispatch(c *Ctx, n int) {
	p := defaultProfile
	p.BadDecl, p.Required, p.Defaults, p.Env, p.PosArgs, p.InitVals, p.Choices = 0, 0, 0, 0, 0, 0, 0
	p.MaxCmdDepth, p.MaxSubs, p.MaxFields = 3, 3, 2
	p.SubOpt = 0.5
	p.Handlers = false
	p.Exec = true
	p.OptsMask = flags.PrintErrors
	r := c.Rng
	for i := 0; i < n; i++ {
		g := &gen{r: r, p: p}
		cs := g.genCase()
		cs.Env = nil
		cs.CmdHandler = r.Intn(2) == 0
		// a quarter of the cases: a list option that is not given on the command line and whose
		// environment variable / default tags carry one element that does not convert, not in the
		// last place - a bad value like any other: nothing may run
		faulty := ""
		if r.Intn(4) == 0 && cs.Build[0].Struct != nil {
			elems := [][]string{{"80", "x", "443"}, {"x", "80"}, {"1", "2", "1.5", "4"}}[r.Intn(3)]
			tag := `long:"zz-ports"`
			if r.Intn(2) == 0 {
				tag += ` env:"VFC09" env-delim:","`
				cs.Env = []EnvVar{{"VFC09", strings.Join(elems, ",")}}
				faulty = "environment value " + strings.Join(elems, ",")
			} else {
				for _, e := range elems {
					tag += " " + quoteTag("default", e)
				}
				faulty = fmt.Sprintf("default tags %q", elems)
			}
			st := cs.Build[0].Struct
			st.Fields = append([]FieldDesc{{Name: "ZzPorts", Exported: true, Kind: "v", Ty: "Lint", Tag: tag}}, st.Fields...)
		}
		g.addProgrammatic(cs)
		g.addProgrammatic(cs)
		if r.Intn(2) == 0 {
			cs.Build = append(cs.Build, BuildOp{Kind: "setcmd", Target: 1, Attr: "subopt", Vals: []string{"1"}})
		}
		real, _ := BuildReal(cs)
		if real.dead {
			continue
		}
		// a path of command words
		cur := real.p.Command
		var argv []string
		depth := 0
		for len(cur.Commands()) > 0 && r.Intn(4) != 0 {
			subs := cur.Commands()
			s := subs[r.Intn(len(subs))]
			matches := 0
			for _, x := range subs {
				if x.Name == s.Name {
					matches++
				}
				for _, a := range x.Aliases {
					if a == s.Name {
						matches++
					}
				}
			}
			if matches != 1 || strings.HasPrefix(s.Name, "-") || strings.Contains(s.Name, "%") {
				break
			}
			argv = append(argv, s.Name)
			cur = s
			depth++
		}
		needsSub := len(cur.Commands()) > 0 && !cur.SubcommandsOptional
		curUID := real.uids[cur]
		isCommander := false
		for _, e := range real.execs {
			if e.uid == curUID {
				isCommander = true
			}
		}
		cs.Ops = []Op{{Kind: "parse", Args: argv}}
		cs.Description = describeOps(cs)
		c.RunCases([]*Case{cs}, func(cr *CaseResult) {
			c.classifyCase(cr)
			c.Class(fmt.Sprintf("c09/dispatch depth=%d needs-subcommand=%v commander=%v handler=%v", depth, needsSub, isCommander, cs.CmdHandler))
			for _, o := range parseBlocks(cr) {
				if o.panic != "" {
					continue
				}
				nExec, nHandler := 0, 0
				execOf := ""
				for _, l := range o.logs {
					if strings.HasPrefix(l, "LOG exec ") {
						nExec++
						execOf = strings.Fields(l)[2]
					}
					if strings.HasPrefix(l, "LOG cmdhandler ") {
						nHandler++
					}
				}
				in := map[string]interface{}{"case": cs.Description, "argv": argv, "innermost_command": cur.Name, "innermost_requires_subcommand": needsSub,
					"innermost_is_commander": isCommander, "command_handler_installed": cs.CmdHandler}
				var ok bool
				var want string
				if faulty != "" {
					in["unconvertible_list_element"] = faulty
					c.Class("c09/dispatch: list option with an unconvertible element")
					want = "ErrMarshal, no Execute, no CommandHandler"
					ok = o.errKind == "flags" && o.errType == int(flags.ErrMarshal) && nExec == 0 && nHandler == 0
				} else if needsSub {
					want = "ErrCommandRequired, no Execute, no CommandHandler"
					ok = o.errKind == "flags" && o.errType == int(flags.ErrCommandRequired) && nExec == 0 && nHandler == 0
				} else {
					wantExec, wantHandler := 0, 0
					if isCommander {
						wantExec = 1
					}
					if cs.CmdHandler {
						wantHandler = 1
					}
					want = fmt.Sprintf("no parse error, %d Execute (of command %d), %d CommandHandler", wantExec, curUID, wantHandler)
					parseErr := o.errKind != "ok" && !strings.HasPrefix(o.errMsg, "exec failed: ") && !strings.HasPrefix(o.errMsg, "help from ")
					ok = !parseErr && nExec == wantExec && nHandler == wantHandler && (nExec == 0 || execOf == fmt.Sprint(curUID))
					// the command's own error comes back unchanged: the harness' commands fail with a plain
					// error ("exec failed: …") or with a *flags.Error of type ErrHelp ("help from …")
					if ok && strings.HasPrefix(o.errMsg, "exec failed: ") && o.errKind != "foreign" {
						ok = false
						want += "; the command's error (a plain error value) returned unchanged"
					}
					if ok && strings.HasPrefix(o.errMsg, "help from ") && !(o.errKind == "flags" && o.errType == int(flags.ErrHelp)) {
						ok = false
						want += "; the command's error (*flags.Error, ErrHelp) returned unchanged"
					}
				}
				if !ok {
					in["case_file"] = c.saveCase(cr)
				}
				c.Check("innermost-command-is-dispatched-exactly-once-or-requires-a-subcommand", ok, "C09:dispatch", in,
					fmt.Sprintf("error kind %s type %d %q, %d Execute (of %s), %d CommandHandler", o.errKind, o.errType, o.errMsg, nExec, execOf, nHandler), want)
			}
		})
	}
}

// checkC09BadPositional: a positional argument that cannot be converted is a bad value like any
// other, on whichever way the word reaches the field - as a plain word, behind the terminator,
// behind the first plain word under PassAfterNonOption, or as an unknown option passed through
// under IgnoreUnknown: the parse fails and the CommandHandler is not called.
func checkC09BadPositional(c *Ctx, n int) { checkBadPositional(c, n, "C09") }

// (also run for C03: a parse that SUCCEEDS here has dropped the token the field refused, and everything behind it)
func checkBadPositional(c *Ctx, n int, prop string) {
	r := c.Rng
	for i := 0; i < n; i++ {
		ty := []string{"int", "u8", "f64", "dur"}[r.Intn(4)]
		pos := &StructDesc{Fields: []FieldDesc{{Name: "First", Exported: true, Kind: "v", Ty: "str"}, {Name: "Count", Exported: true, Kind: "v", Ty: ty}}}
		if r.Intn(2) == 0 {
			pos.Fields = pos.Fields[1:]
		}
		run := &StructDesc{Fields: []FieldDesc{
			{Name: "V", Exported: true, Kind: "v", Ty: "bool", Tag: `short:"v" long:"verbose"`},
			{Name: "Args", Exported: true, Kind: "s", Sub: pos, Tag: `positional-args:"yes"`},
		}}
		root := &StructDesc{Fields: []FieldDesc{{Name: "Run", Exported: true, Kind: "s", Sub: run, Tag: `command:"run"`}}}
		way := []string{"plain word", "behind the terminator", "behind the first plain word (PassAfterNonOption)", "unknown option passed through (IgnoreUnknown)", "control: convertible"}[r.Intn(5)]
		cs := &Case{Name: "app", NsDelim: ".", EnvNsDelim: "_", CmdHandler: true}
		if r.Intn(2) == 0 {
			cs.Opts |= flags.PrintErrors
		}
		argv := []string{"run"}
		if r.Intn(2) == 0 {
			argv = append(argv, "-v")
		}
		if len(pos.Fields) == 2 {
			argv = append(argv, "w")
		}
		bad := []string{"abc", "12x", "1.5.2", ""}[r.Intn(4)]
		switch way {
		case "plain word":
			argv = append(argv, bad)
		case "behind the terminator":
			cs.Opts |= flags.PassDoubleDash
			if len(pos.Fields) == 2 {
				argv = []string{"run", "--", "w", bad}
			} else {
				argv = append(argv, "--", bad)
			}
		case "behind the first plain word (PassAfterNonOption)":
			cs.Opts |= flags.PassAfterNonOption
			if len(pos.Fields) == 2 {
				argv = append(argv, bad)
			} else {
				argv = append(argv, bad, "-v")
			}
		case "unknown option passed through (IgnoreUnknown)":
			cs.Opts |= flags.IgnoreUnknown
			argv = append(argv, []string{"-x", "--nosuch", "--nosuch=1"}[r.Intn(3)])
		default:
			argv = append(argv, map[string]string{"dur": "7s"}[ty]+map[bool]string{true: "", false: "7"}[ty == "dur"])
		}
		cs.Build = []BuildOp{{Kind: "addgroup", Target: 1, Short: "Application Options", Struct: root}}
		cs.Ops = []Op{{Kind: "parse", Args: argv}}
		cs.Description = way + ": " + describeOps(cs)
		c.RunCases([]*Case{cs}, func(cr *CaseResult) {
			c.classifyCase(cr)
			c.Class(strings.ToLower(prop) + "/bad-positional: " + way + " type=" + ty)
			var obs parseObs
			for _, o := range parseBlocks(cr) {
				obs = o
			}
			nHandler := 0
			for _, l := range obs.logs {
				if strings.HasPrefix(l, "LOG cmdhandler ") {
					nHandler++
				}
			}
			in := map[string]interface{}{"case": cs.Description, "argv": argv, "positional_type": ty, "way": way}
			got := fmt.Sprintf("%s %s type %d %q, %d CommandHandler calls", obs.panic, obs.errKind, obs.errType, obs.errMsg, nHandler)
			var ok bool
			want := "an error, no CommandHandler call"
			if way == "control: convertible" {
				ok = obs.panic == "" && obs.errKind == "ok" && nHandler == 1
				want = "success, one CommandHandler call"
			} else {
				ok = obs.panic == "" && obs.errKind != "ok" && nHandler == 0
			}
			if !ok {
				in["case_file"] = c.saveCase(cr)
			}
			c.Check("unconvertible-positional-stops-everything", ok, prop+":bad-positional", in, got, want)
		})
	}
}

// checkC09Shadowed: a required option of an outer level whose names a selected command declares again
// for an option of its own (legal: duplicates are refused within one command only).  The inner option
// answers to the name from the command word on - but it is another option: the outer one is still
// required, and without it nothing may run.
func checkC09Shadowed(c *Ctx, n int) {
	r := c.Rng
	for i := 0; i < n; i++ {
		withShort := r.Intn(2) == 0
		outerTag, innerTag := `long:"name" required:"yes"`, `long:"name"`
		if withShort {
			outerTag, innerTag = `long:"name" short:"n" required:"true"`, `short:"n" long:"name"`
		}
		depth := 1 + r.Intn(2)
		// the required option sits on the parser or (depth 2) on the intermediate command
		holder := r.Intn(depth)
		inner := &StructDesc{Fields: []FieldDesc{{Name: "InnerName", Exported: true, Kind: "v", Ty: "str", Tag: innerTag},
			{Name: "Other", Exported: true, Kind: "v", Ty: "bool", Tag: `long:"other"`}}}
		sd := inner
		path := []string{}
		for l := depth; l >= 1; l-- {
			st := &StructDesc{}
			if holder == l-1 {
				st.Fields = append(st.Fields, FieldDesc{Name: "OuterName", Exported: true, Kind: "v", Ty: "str", Tag: outerTag})
			}
			st.Fields = append(st.Fields, FieldDesc{Name: fmt.Sprintf("C%d", l), Exported: true, Kind: "s", Sub: sd, Tag: fmt.Sprintf(`command:"cmd%d"`, l)})
			sd = st
			path = append([]string{fmt.Sprintf("cmd%d", l)}, path...)
		}
		cs := &Case{Name: "app", NsDelim: ".", EnvNsDelim: "_", CmdHandler: true}
		if r.Intn(2) == 0 {
			cs.Opts |= flags.PrintErrors
		}
		cs.Build = []BuildOp{{Kind: "addgroup", Target: 1, Short: "Application Options", Struct: sd}}
		// the outer option is given (in front of the word of the command below its holder) or not
		given := r.Intn(3) == 0
		var argv []string
		for l, w := range path {
			if given && l == holder {
				argv = append(argv, []string{"--name=outer", "--name", "-n"}[r.Intn(3)])
				if !strings.Contains(argv[len(argv)-1], "=") {
					if argv[len(argv)-1] == "-n" && !withShort {
						argv[len(argv)-1] = "--name"
					}
					argv = append(argv, "outer")
				}
			}
			argv = append(argv, w)
		}
		switch r.Intn(4) {
		case 0:
			argv = append(argv, "--name=inner")
		case 1:
			argv = append(argv, "--other", "rest")
		case 2:
			argv = append(argv, "rest")
		}
		cs.Ops = []Op{{Kind: "parse", Args: argv}}
		cs.Description = describeOps(cs)
		c.RunCases([]*Case{cs}, func(cr *CaseResult) {
			c.classifyCase(cr)
			c.Class(fmt.Sprintf("c09/shadowed-required: depth=%d holder=%d short=%v given=%v", depth, holder, withShort, given))
			var obs parseObs
			for _, o := range parseBlocks(cr) {
				obs = o
			}
			nHandler := 0
			for _, l := range obs.logs {
				if strings.HasPrefix(l, "LOG cmdhandler ") {
					nHandler++
				}
			}
			in := map[string]interface{}{"case": cs.Description, "argv": argv, "required_option_declared_at_level": holder, "same_names_declared_by_command": path[len(path)-1]}
			got := fmt.Sprintf("%s %s type %d %q, %d CommandHandler calls", obs.panic, obs.errKind, obs.errType, obs.errMsg, nHandler)
			var ok bool
			want := "ErrRequired naming the outer option, no CommandHandler call"
			if given {
				ok = obs.panic == "" && obs.errKind == "ok" && nHandler == 1
				want = "success, one CommandHandler call"
			} else {
				nm := "`--name'"
				if withShort {
					nm = "`-n, --name'"
				}
				ok = obs.panic == "" && obs.errKind == "flags" && obs.errType == int(flags.ErrRequired) && nHandler == 0 &&
					obs.errMsg == "the required flag "+nm+" was not specified"
			}
			if !ok {
				in["case_file"] = c.saveCase(cr)
			}
			c.Check("a-shadowed-required-option-is-still-required", ok, "C09:shadowed-required", in, got, want)
		})
	}
}

// checkC09OuterWord: below a command, the names and aliases of the commands of the OUTER levels (its
// siblings, its ancestors, itself) mean nothing.  Where a subcommand is required such a word is an
// unknown command and nothing runs; where subcommands are optional (or there are none) it is an ordinary
// argument and the innermost selected command runs once, with it among the arguments.
func checkC09OuterWord(c *Ctx, n int) {
	r := c.Rng
	for i := 0; i < n; i++ {
		cs := &Case{Name: "app", NsDelim: ".", EnvNsDelim: "_", CmdHandler: r.Intn(2) == 0}
		remoteOpt := r.Intn(2) == 0
		cs.Build = []BuildOp{
			{Kind: "addgroup", Target: 1, Short: "Application Options", Struct: &StructDesc{Fields: []FieldDesc{{Name: "V", Exported: true, Kind: "v", Ty: "bool", Tag: `short:"v"`}}}},
			{Kind: "addcommand", Target: 1, Name: "add", Short: "add", Struct: &StructDesc{}, Commander: 1},       // 2
			{Kind: "addcommand", Target: 1, Name: "remote", Short: "remote", Struct: &StructDesc{}, Commander: 1}, // 3
			{Kind: "setcmd", Target: 3, Attr: "aliases", Vals: []string{"1", hx("rem")}},
			{Kind: "addcommand", Target: 3, Name: "show", Short: "show", Struct: &StructDesc{}, Commander: 1},     // 4
			{Kind: "addcommand", Target: 3, Name: "rename", Short: "rename", Struct: &StructDesc{}, Commander: 1}, // 5
		}
		if remoteOpt {
			cs.Build = append(cs.Build, BuildOp{Kind: "setcmd", Target: 3, Attr: "subopt", Vals: []string{"1"}})
		}
		outer := []string{"add", "remote", "rem"}[r.Intn(3)]
		var argv []string
		wantExec, wantArgs, wantErr := 0, []string{}, 0
		switch r.Intn(3) {
		case 0: // behind remote: a subcommand is expected there
			argv = []string{"remote", outer, "x"}
			if remoteOpt {
				wantExec, wantArgs = 3, []string{outer, "x"}
			} else {
				wantErr = int(flags.ErrUnknownCommand)
			}
		case 1: // behind remote show (no subcommands below): a plain argument
			argv = []string{"remote", "show", outer}
			wantExec, wantArgs = 4, []string{outer}
		default: // by alias, then the outer word
			argv = []string{"rem", "-v", outer}
			if remoteOpt {
				wantExec, wantArgs = 3, []string{outer}
			} else {
				wantErr = int(flags.ErrUnknownCommand)
			}
		}
		cs.Ops = []Op{{Kind: "parse", Args: argv}}
		cs.Description = describeOps(cs)
		c.RunCases([]*Case{cs}, func(cr *CaseResult) {
			c.classifyCase(cr)
			var obs parseObs
			for _, o := range parseBlocks(cr) {
				obs = o
			}
			c.Class(fmt.Sprintf("c09/outer-word: word=%s remote-subcommands-optional=%v expected-error=%d", outer, remoteOpt, wantErr))
			var runs []string
			for _, l := range obs.logs {
				if strings.HasPrefix(l, "LOG exec ") {
					ws := strings.Fields(l)
					runs = append(runs, ws[2]+" "+decodeLine(strings.Join(ws[3:], " ")))
				}
			}
			in := map[string]interface{}{"case": cs.Description, "argv": argv, "remote_subcommands_optional": remoteOpt}
			got := fmt.Sprintf("%s %s type %d %q, runs: %q", obs.panic, obs.errKind, obs.errType, obs.errMsg, runs)
			var ok bool
			var want string
			if wantErr != 0 {
				want = fmt.Sprintf("*flags.Error type %d (unknown command `%s'), nothing runs", wantErr, outer)
				ok = obs.panic == "" && obs.errKind == "flags" && obs.errType == wantErr && len(runs) == 0
			} else {
				wr := fmt.Sprintf("%d %s", wantExec, decodeLine(hxList(wantArgs)))
				want = fmt.Sprintf("success, exactly one run: %q", []string{wr})
				ok = obs.panic == "" && obs.errKind == "ok" && len(runs) == 1 && runs[0] == wr
			}
			if !ok {
				in["case_file"] = c.saveCase(cr)
			}
			c.Check("outer-command-names-mean-nothing-below-a-command", ok, "C09:outer-word", in, got, want)
		})
	}
}

// checkC09CompletionMode: in completion mode nothing is executed, whatever the argument vector - the
// empty one included (the words typed so far may be none at all): the completion handler receives the
// candidates, no Execute and no CommandHandler runs, no error is returned.
func checkC09CompletionMode(c *Ctx, n int) {
	r := c.Rng
	for i := 0; i < n; i++ {
		cs := &Case{Name: "app", NsDelim: ".", EnvNsDelim: "_", CmdHandler: r.Intn(2) == 0}
		cs.Build = []BuildOp{
			{Kind: "addgroup", Target: 1, Short: "Application Options", Struct: &StructDesc{Fields: []FieldDesc{{Name: "V", Exported: true, Kind: "v", Ty: "bool", Tag: `short:"v" long:"verbose"`}}}},
			{Kind: "addcommand", Target: 1, Name: "add", Short: "add", Struct: &StructDesc{}, Commander: 1},
			{Kind: "addcommand", Target: 1, Name: "remove", Short: "remove", Struct: &StructDesc{}, Commander: 1},
		}
		if r.Intn(2) == 0 {
			cs.Build = append(cs.Build, BuildOp{Kind: "setcmd", Target: 1, Attr: "subopt", Vals: []string{"1"}})
		}
		args := [][]string{{}, {}, {""}, {"a"}, {"add"}, {"add", ""}, {"--v"}, {"-v", "re"}}[r.Intn(8)]
		cs.Ops = []Op{{Kind: "complete", Args: args}}
		cs.Description = describeOps(cs)
		c.RunCases([]*Case{cs}, func(cr *CaseResult) {
			c.classifyCase(cr)
			c.Class(fmt.Sprintf("c09/completion-mode: words=%d handler=%v", len(args), cs.CmdHandler))
			c.Distinct(cs.Description + fmt.Sprint(cs.CmdHandler, len(cs.Build)))
			runs, called := 0, false
			for _, l := range cr.Impl {
				if strings.HasPrefix(l, "LOG exec ") || strings.HasPrefix(l, "LOG cmdhandler ") {
					runs++
				}
				if strings.HasPrefix(l, "COMP ") || l == "COMP" {
					called = true
				}
			}
			in := map[string]interface{}{"case": cs.Description, "typed_words": args, "command_handler_installed": cs.CmdHandler}
			ok := runs == 0 && called
			if !ok {
				in["case_file"] = c.saveCase(cr)
			}
			c.Check("completion-mode-executes-nothing", ok, "C09:completion-mode", in,
				fmt.Sprintf("%d runs of Execute / CommandHandler; completion handler called: %v; %s", runs, called, strings.Join(cr.Impl, " | ")),
				"no run, the completion handler called with the candidates")
		})
	}
}
