package main

// C02: metamorphic groups — one declaration, one surrounding argument vector, one occurrence
// rendered in every admissible spelling. Model-free oracle: identical outcome.

import (
	"fmt"
	"math/rand"
	"strconv"
	"strings"

	flags "github.com/jessevdk/go-flags"
)

type spellingGroup struct {
	cases  []*Case
	labels []string
}

// admissibleValue: a value every documented spelling can carry - not empty, not looking like an
// option (a negative number is admissible for a signed numeric option), no leading '=' or quote
func admissibleValue(v, code string) bool {
	if v == "" || strings.HasPrefix(v, "=") || strings.HasPrefix(v, "\"") {
		return false
	}
	if strings.HasPrefix(v, "-") {
		sc := strings.TrimLeft(code, "LP")
		signed := sc == "int" || sc == "i8" || sc == "i16" || sc == "i32" || sc == "i64" || sc == "f32" || sc == "f64" || sc == "dur"
		return signed && len(v) > 1 && v[1] >= '0' && v[1] <= '9'
	}
	return true
}

// GenSpellingGroup builds a declaration and k argument vectors that differ only in how one
// occurrence of one option is spelled.
func GenSpellingGroup(r *rand.Rand, p Profile) *spellingGroup {
	g := &gen{r: r, p: p}
	for attempt := 0; attempt < 50; attempt++ {
		c := g.genCase()
		real, outs := BuildReal(c)
		if real.dead || len(outs) == 0 {
			continue
		}
		opts := g.optsOf(real, real.p.Command)
		var cands []optInfo
		for _, o := range opts {
			if !isBoolCode(o.code) && o.short != 0 && o.long != "" && o.code != "c1" {
				// the names must resolve to this very option: unique among the parser's options and
				// not shadowed by the built-in help option
				n := 0
				for _, o2 := range opts {
					if o2.short == o.short || o2.long == o.long {
						n++
					}
				}
				if n != 1 || (c.Opts&flags.HelpFlag != 0 && (o.short == 'h' || o.long == "help")) {
					continue
				}
				// a long name containing '=' has no --name=V spelling (the token splits at the first '=')
				if strings.Contains(o.long, "=") || o.short == '=' || o.short == '-' {
					continue
				}
				cands = append(cands, o)
			}
		}
		if len(cands) == 0 {
			continue
		}
		o := cands[r.Intn(len(cands))]
		if r.Intn(2) == 0 {
			// (options with an optional argument are rare among the candidates: prefer one now and then)
			for _, oc := range cands {
				if oc.optional {
					o = oc
					break
				}
			}
		}
		var v string
		ok := false
		for i := 0; i < 20; i++ {
			v = g.valueText(o.code, o.choices)
			if admissibleValue(v, o.code) {
				ok = true
				break
			}
		}
		if !ok {
			continue
		}
		// the empty string is a value too (for a string option without choices): it has the attached
		// and the quoted spellings, and the separate-token ones where the argument is not optional
		emptyValue := (o.code == "str" || o.code == "Lstr") && len(o.choices) == 0 && (r.Intn(8) == 0 || (o.optional && r.Intn(2) == 0))
		if emptyValue {
			v = ""
		}
		// bytes that are not valid UTF-8 are a value like any other (a Latin-1 file name, binary data): every
		// spelling delivers them unchanged
		if !emptyValue && (o.code == "str" || o.code == "Lstr" || o.code == "Pstr") && len(o.choices) == 0 && r.Intn(6) == 0 {
			v = []string{"caf\xe9.txt", "\xff\xfe", "a\xc3", "\x80x", "x\xed\xa0\x80y", "\xf8\x88"}[r.Intn(6)]
		}
		// surrounding tokens: occurrences of other root options and plain words, no command words
		var pre, post []string
		// self-contained occurrences only (flags and inline-argument forms), so that no
		// neighbour can take a token of the occurrence under test as its argument
		inline := func() []string {
			o2 := opts[r.Intn(len(opts))]
			// the neighbour's name must resolve to that very option (a namesake in another group may
			// take an argument and swallow the token under test)
			n2 := 0
			for _, o3 := range opts {
				if o3.long == o2.long {
					n2++
				}
			}
			if n2 != 1 || (c.Opts&flags.HelpFlag != 0 && o2.long == "help") {
				return nil
			}
			if isBoolCode(o2.code) {
				if o2.long != "" && !strings.Contains(o2.long, "=") {
					return []string{"--" + o2.long}
				}
				return nil
			}
			v2 := g.valueText(o2.code, o2.choices)
			if o2.long != "" && !strings.Contains(o2.long, "=") {
				return []string{"--" + o2.long + "=" + v2}
			}
			return nil
		}
		for i := r.Intn(3); i > 0; i-- {
			pre = append(pre, inline()...)
		}
		for i := r.Intn(3); i > 0; i-- {
			post = append(post, inline()...)
		}
		s := string(o.short)
		forms := map[string][]string{
			"-xV":      {"-" + s + v},
			"-x=V":     {"-" + s + "=" + v},
			"-x V":     {"-" + s, v},
			"--name=V": {"--" + o.long + "=" + v},
			"--name V": {"--" + o.long, v},
		}
		unquote := true
		for _, grp := range allGroups(real.p.Command) {
			for _, opt := range grp.Options() {
				if opt.ShortName == o.short && strings.Contains(string(opt.Field().Tag), `unquote:"false"`) {
					unquote = false
				}
			}
		}
		if unquote {
			q := strconv.Quote(v)
			forms["-x=\"V\""] = []string{"-" + s + "=" + q}
			forms["--name=\"V\""] = []string{"--" + o.long + "=" + q}
			forms["--name \"V\""] = []string{"--" + o.long, q}
		}
		labels := []string{"-xV", "-x=V", "-x V", "--name=V", "--name V", "-x=\"V\"", "--name=\"V\"", "--name \"V\""}
		if emptyValue {
			// (-xV with an empty V is the bare option: not a spelling of the empty value)
			delete(forms, "-xV")
			if unquote {
				forms["-x\"\""] = []string{"-" + s + "\"\""}
				forms["-x \"\""] = []string{"-" + s, "\"\""}
				labels = append(labels, "-x\"\"", "-x \"\"")
			}
		}
		sg := &spellingGroup{}
		for _, label := range labels {
			f, ok := forms[label]
			if !ok {
				continue
			}
			// (the separate-token form is documented not to bind to an option whose argument is optional)
			if o.optional && len(f) == 2 {
				continue
			}
			cc := *c
			argv := append(append(append([]string{}, pre...), f...), post...)
			cc.Ops = []Op{{Kind: "parse", Args: argv}}
			cc.Description = fmt.Sprintf("spelling %s of option -%s/--%s value %q in %q", label, s, o.long, v, argv)
			sg.cases = append(sg.cases, &cc)
			sg.labels = append(sg.labels, label)
		}
		return sg
	}
	return nil
}

// outcomeKey: what must be identical across spellings (values, flags, error; the returned
// arguments only on success — on failure they start at the token being processed, which differs
// between a one-token and a two-token spelling).
func outcomeKey(o parseObs) string {
	var b strings.Builder
	b.WriteString(o.errKind)
	b.WriteString(fmt.Sprintf("/%d/", o.errType))
	if o.errKind == "ok" {
		// on success everything observable must agree
		b.WriteString(strings.Join(o.ret, "\x00"))
		b.WriteString("|" + strings.Join(o.values, ";") + "|" + o.act + "|" + strings.Join(o.logs, ";"))
	} else {
		// on failure: the same kind and type of error and the same option state (messages and
		// returned arguments may quote the token being processed, which differs by spelling)
		b.WriteString("|" + strings.Join(o.values, ";"))
	}
	return b.String()
}

func checkC02Spellings(c *Ctx, n int, p Profile) {
	for i := 0; i < n; i++ {
		sg := GenSpellingGroup(c.Rng, p)
		if sg == nil {
			continue
		}
		var results []*CaseResult
		c.RunCases(sg.cases, func(cr *CaseResult) { results = append(results, cr) })
		c.Class(fmt.Sprintf("spelling-group/size=%d", len(sg.cases)))
		var keys []string
		for _, cr := range results {
			obs := parseBlocks(cr)
			if len(obs) != 1 || obs[0].panic != "" {
				keys = append(keys, "PANIC-or-missing")
				continue
			}
			keys = append(keys, outcomeKey(obs[0]))
		}
		for j := 1; j < len(keys); j++ {
			ok := keys[j] == keys[0]
			in := map[string]interface{}{"a": results[0].Case.Description, "b": results[j].Case.Description}
			if !ok {
				in["case_file_a"] = c.saveCase(results[0])
				in["case_file_b"] = c.saveCase(results[j])
			}
			c.Check("spellings-interchangeable", ok, "C02:spelling-differs:"+sg.labels[0]+"/"+sg.labels[j], in, keys[j], keys[0])
		}
		c.Distinct(results[0].Case.Description)
	}
}

// GenClusterGroup: -abc [V] against -a -b -c [V] (and a partial split), flags drawn from the
// declared short names including non-ASCII ones; the last option may take an argument, given as
// a separate token.
func GenClusterGroup(r *rand.Rand, p Profile) *spellingGroup {
	p.Utf = 0.5
	p.OnlyTypes = []string{"bool", "bool", "bool", "Lbool", "str", "int", "Lstr", "F-"}
	g := &gen{r: r, p: p}
	for attempt := 0; attempt < 50; attempt++ {
		c := g.genCase()
		real, outs := BuildReal(c)
		if real.dead || len(outs) == 0 {
			continue
		}
		opts := g.optsOf(real, real.p.Command)
		uniq := func(o optInfo) bool {
			n := 0
			for _, o2 := range opts {
				if o2.short == o.short {
					n++
				}
			}
			return n == 1 && o.short != 0 && o.short != '=' && o.short != '-' && !(c.Opts&flags.HelpFlag != 0 && o.short == 'h')
		}
		var flagsL, argL []optInfo
		for _, o := range opts {
			if !uniq(o) {
				continue
			}
			if isBoolCode(o.code) {
				flagsL = append(flagsL, o)
			} else if !o.optional && o.code != "c1" {
				argL = append(argL, o)
			}
		}
		if len(flagsL) < 2 {
			continue
		}
		k := 2 + r.Intn(3)
		var cluster []optInfo
		for i := 0; i < k; i++ {
			cluster = append(cluster, flagsL[r.Intn(len(flagsL))])
		}
		var tail []string
		if len(argL) > 0 && r.Intn(2) == 0 {
			last := argL[r.Intn(len(argL))]
			v := ""
			for i := 0; i < 20 && !admissibleValue(v, last.code); i++ {
				v = g.valueText(last.code, last.choices)
			}
			if admissibleValue(v, last.code) {
				cluster = append(cluster, last)
				tail = []string{v}
			}
		}
		joined := "-"
		var separate []string
		for _, o := range cluster {
			joined += string(o.short)
			separate = append(separate, "-"+string(o.short))
		}
		half := len(cluster) / 2
		partial := []string{"-", "-"}
		for i, o := range cluster {
			if i < half {
				partial[0] += string(o.short)
			} else {
				partial[1] += string(o.short)
			}
		}
		forms := [][]string{append([]string{joined}, tail...), append(separate, tail...), append(partial, tail...)}
		labels := []string{"-abc", "-a -b -c", "-ab -c"}
		sg := &spellingGroup{}
		for i, f := range forms {
			cc := *c
			cc.Ops = []Op{{Kind: "parse", Args: f}}
			cc.Description = fmt.Sprintf("cluster spelling %s: %q", labels[i], f)
			sg.cases = append(sg.cases, &cc)
			sg.labels = append(sg.labels, labels[i])
		}
		return sg
	}
	return nil
}

func checkC02Clusters(c *Ctx, n int, p Profile) {
	for i := 0; i < n; i++ {
		sg := GenClusterGroup(c.Rng, p)
		if sg == nil {
			continue
		}
		var results []*CaseResult
		c.RunCases(sg.cases, func(cr *CaseResult) { results = append(results, cr) })
		c.Class("cluster-group")
		var keys []string
		for _, cr := range results {
			obs := parseBlocks(cr)
			if len(obs) != 1 || obs[0].panic != "" {
				keys = append(keys, "PANIC-or-missing")
				continue
			}
			keys = append(keys, outcomeKey(obs[0]))
		}
		for j := 1; j < len(keys); j++ {
			ok := keys[j] == keys[0]
			in := map[string]interface{}{"a": results[0].Case.Description, "b": results[j].Case.Description}
			if !ok {
				in["case_file_a"] = c.saveCase(results[0])
				in["case_file_b"] = c.saveCase(results[j])
			}
			c.Check("cluster-equals-separate-flags", ok, "C02:cluster-differs", in, keys[j], keys[0])
		}
		c.Distinct(results[0].Case.Description)
	}
}

// checkC02Shadow: spellings below a command that REDECLARES a short name of an outer level with the other
// arity — the outer level's -v takes an argument and the command's -v is a flag (then -vfx, -vv are clusters
// of the command's flags and equal -v -f -x, -v -v), or the outer -v is a flag and the command's -v takes an
// argument (then -vVAL, -v=VAL, -v VAL and --name=VAL are one occurrence).  In front of the command word the
// outer declaration decides.
func checkC02Shadow(c *Ctx, n int) {
	r := c.Rng
	shorts := []string{"v", "é", "x", "字"}
	for i := 0; i < n; i++ {
		sh := shorts[r.Intn(len(shorts))]
		outerTakesArg := r.Intn(2) == 0
		argTy := []string{"str", "int", "Lstr"}[r.Intn(3)]
		flagTy := []string{"bool", "Lbool"}[r.Intn(2)]
		outerTy, innerTy := flagTy, argTy
		if outerTakesArg {
			outerTy, innerTy = argTy, flagTy
		}
		depth := 1 + r.Intn(2)
		holder := r.Intn(depth)
		inner := &StructDesc{Fields: []FieldDesc{
			{Name: "InnerV", Exported: true, Kind: "v", Ty: innerTy, Tag: fmt.Sprintf(`short:"%s" long:"inner"`, sh)},
			{Name: "F", Exported: true, Kind: "v", Ty: "bool", Tag: `short:"f"`},
			{Name: "G", Exported: true, Kind: "v", Ty: "Lbool", Tag: `short:"g"`}}}
		sd := inner
		path := []string{}
		for l := depth; l >= 1; l-- {
			st := &StructDesc{}
			if holder == l-1 {
				st.Fields = append(st.Fields, FieldDesc{Name: "OuterV", Exported: true, Kind: "v", Ty: outerTy, Tag: fmt.Sprintf(`short:"%s" long:"outer"`, sh)})
			}
			st.Fields = append(st.Fields, FieldDesc{Name: fmt.Sprintf("Q%d", l), Exported: true, Kind: "v", Ty: "bool", Tag: fmt.Sprintf(`short:"%c"`, 'p'+l)})
			st.Fields = append(st.Fields, FieldDesc{Name: fmt.Sprintf("C%d", l), Exported: true, Kind: "s", Sub: sd, Tag: fmt.Sprintf(`command:"cmd%d"`, l)})
			sd = st
			path = append([]string{fmt.Sprintf("cmd%d", l)}, path...)
		}
		base := &Case{Name: "app", NsDelim: ".", EnvNsDelim: "_"}
		base.Build = []BuildOp{{Kind: "addgroup", Target: 1, Short: "Application Options", Struct: sd}}
		val := []string{"7", "42", "0"}[r.Intn(3)]
		var forms [][]string
		var labels []string
		if outerTakesArg {
			// below the command: clusters of the command's flags
			others := []string{"f", "g", "g", "q"}
			k := 1 + r.Intn(3)
			cl := []string{sh}
			for j := 0; j < k; j++ {
				cl = append(cl, append(others, sh)[r.Intn(len(others)+1)])
			}
			if r.Intn(3) == 0 {
				cl = []string{sh, sh}
			}
			joined := "-" + strings.Join(cl, "")
			var sep []string
			for _, x := range cl {
				sep = append(sep, "-"+x)
			}
			forms = [][]string{{joined}, sep, {"-" + cl[0], "-" + strings.Join(cl[1:], "")}}
			labels = []string{"-abc", "-a -b -c", "-a -bc"}
		} else {
			forms = [][]string{{"-" + sh + val}, {"-" + sh + "=" + val}, {"-" + sh, val}, {"--inner=" + val}, {"--inner", val}}
			labels = []string{"-xV", "-x=V", "-x V", "--name=V", "--name V"}
		}
		// what is typed in front of the command words: nothing, or the outer option in its own arity
		var front []string
		if r.Intn(2) == 0 {
			if outerTakesArg {
				front = []string{"-" + sh + val}
			} else {
				front = []string{"-" + sh}
			}
		}
		var cases []*Case
		for j, f := range forms {
			cc := *base
			var argv []string
			for l, w := range path {
				if l == holder {
					argv = append(argv, front...)
				}
				argv = append(argv, w)
			}
			argv = append(argv, f...)
			cc.Ops = []Op{{Kind: "parse", Args: argv}}
			cc.Description = fmt.Sprintf("shadowed short name, spelling %s: %q", labels[j], argv)
			cases = append(cases, &cc)
		}
		var results []*CaseResult
		c.RunCases(cases, func(cr *CaseResult) { results = append(results, cr) })
		c.Class(fmt.Sprintf("c02/shadow: outer-takes-arg=%v depth=%d holder=%d", outerTakesArg, depth, holder))
		var keys []string
		var errs []string
		for _, cr := range results {
			obs := parseBlocks(cr)
			if len(obs) != 1 || obs[0].panic != "" {
				keys = append(keys, "PANIC-or-missing")
				errs = append(errs, "panic")
				continue
			}
			keys = append(keys, outcomeKey(obs[0]))
			errs = append(errs, obs[0].errKind)
		}
		for j := 0; j < len(keys); j++ {
			// all forms must succeed (the values are convertible, the flags declared) and agree
			ok := keys[j] == keys[0] && errs[j] == "ok"
			in := map[string]interface{}{"a": results[0].Case.Description, "b": results[j].Case.Description}
			if !ok {
				in["case_file_a"] = c.saveCase(results[0])
				in["case_file_b"] = c.saveCase(results[j])
			}
			c.Check("spellings-interchangeable-below-a-command-that-redeclares-the-short-name", ok, "C02:shadowed-spelling-differs:"+labels[j], in, errs[j]+" "+keys[j], "ok "+keys[0])
		}
		c.Distinct(results[0].Case.Description)
	}
}
