package main

// Case = build script + operations; realised on the real library (reflect.StructOf
// declarations, programmatic AddGroup/AddCommand) and serialised for the Lean driver.

import (
	"fmt"
	"os"
	"reflect"
	"strconv"
	"strings"
	"time"

	flags "github.com/jessevdk/go-flags"
)

type FieldDesc struct {
	Name     string
	Exported bool
	Tag      string
	Kind     string // "v" value, "s" struct, "p" pointer to struct
	Ty       string // type code (Kind v)
	Sub      *StructDesc
	PtrNil   bool
	Init     string // model value syntax
	Cb       int
	Plain    bool // a field without any go-flags tag (nor anything tagged inside): the library must leave it alone
	AliasOf  string // (plain slice field) starts out as the very slice the named option field holds: same backing array
}

type StructDesc struct {
	Fields []FieldDesc
	id     int
}

type BuildOp struct {
	Kind      string // addgroup | addcommand | setcmd | setgrp | setopt (public fields of the model assigned by the program)
	Target    int    // uid of the command operated on
	Name      string
	Short     string
	Long      string
	Struct    *StructDesc
	Commander int
	Usage     *string
	Attr      string
	Gi        int
	Oi        int
	Vals      []string
}

type Op struct {
	Kind       string // parse | model | help | iniparse | iniwrite | man | complete | build (a declaration added between operations)
	B          *BuildOp
	Args       []string
	Cols       int
	Text       string
	AsDefaults bool
	Bits       uint
}

type EnvVar struct{ K, V string }

type Case struct {
	Name        string
	Opts        flags.Options
	NsDelim     string
	EnvNsDelim  string
	Handler     string
	HandlerTok  string
	CmdHandler  bool
	Usage       string
	Env         []EnvVar
	Build       []BuildOp
	Ops         []Op
	Description string
}

// ---------------------------------------------------------------- serialisation for the driver

func (c *Case) structLines(sd *StructDesc, next *int, out *[]string) {
	for i := range sd.Fields {
		if sd.Fields[i].Sub != nil {
			c.structLines(sd.Fields[i].Sub, next, out)
		}
	}
	sd.id = *next
	*next++
	*out = append(*out, fmt.Sprintf("struct %d", sd.id))
	for _, f := range sd.Fields {
		var ty string
		switch f.Kind {
		case "v":
			ty = "v:" + f.Ty
		case "s":
			ty = fmt.Sprintf("s:%d", f.Sub.id)
		case "p":
			ty = fmt.Sprintf("p:%s:%d", b01(f.PtrNil), f.Sub.id)
		}
		init := f.Init
		if init == "" {
			init = zeroText(f)
		}
		*out = append(*out, fmt.Sprintf("f %s %s %s %s %s %d", hx(f.Name), b01(f.Exported), hx(f.Tag), ty, init, f.Cb))
	}
	*out = append(*out, "end")
}

func zeroText(f FieldDesc) string {
	if f.Kind != "v" {
		return "F"
	}
	switch f.Ty[0] {
	case 'F':
		return "F"
	case 'L':
		return "Lnil"
	case 'P':
		return "Pnil"
	case 'M':
		return "Mnil"
	}
	return "v" + scTypes[f.Ty].zero
}

// Lines renders the case for the Lean driver. buildErrs are the errors the real library
// returned for each build op (needed only to mirror NewParser's remembered error).
func (c *Case) Lines(cols int) []string {
	out := []string{"case"}
	for _, e := range c.Env {
		out = append(out, fmt.Sprintf("oracle env %s %s", hx(e.K), hx(e.V)))
	}
	h := c.Handler
	if h == "" {
		h = "none"
	}
	if h == "prepend" {
		h += " " + hx(c.HandlerTok)
	}
	out = append(out, fmt.Sprintf("parser %s %d %s %s %s %s %s", hx(c.Name), uint(c.Opts), hx(c.NsDelim), hx(c.EnvNsDelim), h, b01(c.CmdHandler), hx(c.Usage)))
	next := 0
	buildLines := func(b *BuildOp) {
		switch b.Kind {
		case "addgroup":
			c.structLines(b.Struct, &next, &out)
			out = append(out, fmt.Sprintf("addgroup %d %s %s %d", b.Target, hx(b.Short), hx(b.Long), b.Struct.id))
		case "addcommand":
			c.structLines(b.Struct, &next, &out)
			u := "-"
			if b.Usage != nil {
				u = hx(*b.Usage)
			}
			out = append(out, fmt.Sprintf("addcommand %d %s %s %s %d %d %s", b.Target, hx(b.Name), hx(b.Short), hx(b.Long), b.Struct.id, b.Commander, u))
		case "setcmd":
			out = append(out, fmt.Sprintf("setcmd %d %s %s", b.Target, b.Attr, strings.Join(b.Vals, " ")))
		case "setgrp":
			out = append(out, fmt.Sprintf("setgrp %d %d %s %s", b.Target, b.Gi, b.Attr, strings.Join(b.Vals, " ")))
		case "setopt":
			out = append(out, fmt.Sprintf("setopt %d %d %d %s %s", b.Target, b.Gi, b.Oi, b.Attr, strings.Join(b.Vals, " ")))
		}
	}
	for i := range c.Build {
		buildLines(&c.Build[i])
	}
	for _, op := range c.Ops {
		switch op.Kind {
		case "parse":
			out = append(out, fmt.Sprintf("parse %d %s", cols, hxList(op.Args)))
		case "model":
			out = append(out, "model")
		case "help":
			out = append(out, fmt.Sprintf("help %d", op.Cols))
		case "iniparse":
			out = append(out, fmt.Sprintf("iniparse %d %s %s", cols, b01(op.AsDefaults), hx(op.Text)))
		case "iniwrite":
			out = append(out, fmt.Sprintf("iniwrite %d", op.Bits))
		case "man":
			out = append(out, "man "+hx(manDate))
		case "complete":
			out = append(out, "complete "+hxList(op.Args))
		case "build":
			buildLines(op.B)
		}
	}
	for _, e := range c.Env {
		out = append(out, fmt.Sprintf("oracle unsetenv %s", hx(e.K)))
	}
	out = append(out, "run")
	return out
}

// ---------------------------------------------------------------- realisation on the real library

type fieldRef struct {
	code string
	val  reflect.Value
}

type Real struct {
	dead   bool // a build operation failed: the rest of the case is skipped
	roots  []rootStruct
	c      *Case
	p      *flags.Parser
	log    *runLog
	uids   map[*flags.Command]int
	byUid  map[int]*flags.Command
	next   int
	codes  map[string]string   // field name -> type code (from the description)
	fields map[string]fieldRef // field name (unique per case) -> value
	optRef map[string]string   // field name -> "uid.gi.oi" (filled by indexOptions)
	execs  []*execCmd
	ini    *flags.IniParser // one IniParser for all the ini operations of a case (as a program that reads several files would)
}

func (r *Real) iniParser() *flags.IniParser {
	if r.ini == nil {
		r.ini = flags.NewIniParser(r.p)
	}
	return r.ini
}

type rootStruct struct {
	sd *StructDesc
	v  reflect.Value
}

var pkgPath = "main"

// the man page date is an input (clock or SOURCE_DATE_EPOCH): fixed here
var manEpoch = "86400"
var manDate = time.Unix(86400, 0).Format("2 January 2006")

// makeStruct builds the dynamic struct value for a description; returns a pointer value.
func (r *Real) makeStruct(sd *StructDesc) reflect.Value {
	t := r.structType(sd)
	v := reflect.New(t)
	r.initStruct(sd, v.Elem())
	r.aliasPlain(sd, v.Elem())
	r.roots = append(r.roots, rootStruct{sd, v.Elem()})
	return v
}

// aliasPlain: a plain field that "saved" the slice an option field was initialised with shares its
// backing array; what the library does to the option must not show through it.
func (r *Real) aliasPlain(sd *StructDesc, v reflect.Value) {
	for i, f := range sd.Fields {
		fv := v.Field(i)
		switch {
		case f.AliasOf != "":
			if src, ok := r.fields[f.AliasOf]; ok && src.val.Type() == fv.Type() {
				fv.Set(src.val)
			}
		case f.Kind == "s":
			r.aliasPlain(f.Sub, fv)
		case f.Kind == "p" && !fv.IsNil():
			r.aliasPlain(f.Sub, fv.Elem())
		}
	}
}

func (r *Real) structType(sd *StructDesc) reflect.Type {
	fs := make([]reflect.StructField, 0, len(sd.Fields))
	for _, f := range sd.Fields {
		sf := reflect.StructField{Name: f.Name, Tag: reflect.StructTag(f.Tag)}
		if !f.Exported {
			sf.PkgPath = pkgPath
		}
		switch f.Kind {
		case "v":
			sf.Type = goType(f.Ty)
		case "s":
			sf.Type = r.structType(f.Sub)
		case "p":
			sf.Type = reflect.PtrTo(r.structType(f.Sub))
		}
		fs = append(fs, sf)
	}
	return reflect.StructOf(fs)
}

func (r *Real) initStruct(sd *StructDesc, v reflect.Value) {
	for i, f := range sd.Fields {
		fv := v.Field(i)
		switch f.Kind {
		case "v":
			if !f.Exported {
				continue
			}
			r.fields[f.Name] = fieldRef{f.Ty, fv}
			if pn := reflect.StructTag(f.Tag).Get("positional-arg-name"); pn != "" {
				r.fields[pn] = fieldRef{f.Ty, fv}
			}
			if f.Ty[0] == 'F' {
				fv.Set(r.makeFunc(f, fv.Type()))
			} else if f.Init != "" {
				setVal(f.Ty, fv, f.Init)
			}
		case "s":
			r.initStruct(f.Sub, fv)
		case "p":
			if !f.PtrNil && f.Exported {
				p := reflect.New(fv.Type().Elem())
				r.initStruct(f.Sub, p.Elem())
				fv.Set(p)
			}
		}
	}
}

// makeFunc: callback fields log "LOG cb <field> <converted arg>"; behaviour by Cb id.
func (r *Real) makeFunc(f FieldDesc, t reflect.Type) reflect.Value {
	name := f.Name
	sc := scCode(f.Ty)
	return reflect.MakeFunc(t, func(args []reflect.Value) []reflect.Value {
		arg := "-"
		if len(args) == 1 {
			arg = scTypes[sc].show(args[0])
		}
		r.log.add("LOG cb @" + name + " " + arg)
		if t.NumOut() == 1 {
			ev := reflect.Zero(errType)
			if f.Cb == 10 && len(args) == 1 && strings.HasPrefix(args[0].String(), "!") {
				ev = reflect.ValueOf(fmt.Errorf("cberr: %s", args[0].String())).Convert(errType)
			}
			if f.Cb == 14 {
				ev = reflect.ValueOf(fmt.Errorf("cberr: refused")).Convert(errType)
			}
			return []reflect.Value{ev}
		}
		return nil
	})
}

// register (re)indexes the option fields by name, following pointers the library allocated.
func (r *Real) register() {
	var walk func(sd *StructDesc, v reflect.Value)
	walk = func(sd *StructDesc, v reflect.Value) {
		for i, f := range sd.Fields {
			fv := v.Field(i)
			switch f.Kind {
			case "v":
				if f.Exported {
					r.fields[f.Name] = fieldRef{f.Ty, fv}
					if pn := reflect.StructTag(f.Tag).Get("positional-arg-name"); pn != "" {
						r.fields[pn] = fieldRef{f.Ty, fv}
					}
				}
			case "s":
				walk(f.Sub, fv)
			case "p":
				if f.Exported && !fv.IsNil() {
					walk(f.Sub, fv.Elem())
				}
			}
		}
	}
	for _, rt := range r.roots {
		walk(rt.sd, rt.v)
	}
}

func (r *Real) number() {
	var walk func(c *flags.Command)
	walk = func(c *flags.Command) {
		if _, ok := r.uids[c]; !ok {
			r.uids[c] = r.next
			r.byUid[r.next] = c
			r.next++
		}
		for _, s := range c.Commands() {
			walk(s)
		}
	}
	walk(r.p.Command)
}

func errLine(err error, mask bool) string {
	if err == nil {
		return "ok"
	}
	switch e := err.(type) {
	case *flags.Error:
		if mask {
			return fmt.Sprintf("flags %d MASKED", uint(e.Type))
		}
		return fmt.Sprintf("flags %d %s", uint(e.Type), hx(e.Message))
	case *flags.IniError:
		return fmt.Sprintf("ini %s %d %s", hx(e.File), e.LineNumber, hx(e.Message))
	}
	if mask {
		return "foreign MASKED"
	}
	return "foreign " + hx(err.Error())
}

// BuildReal constructs the parser; returns the "R …" lines of the build ops.
func BuildReal(c *Case) (*Real, []string) {
	r := &Real{c: c, log: &runLog{}, uids: map[*flags.Command]int{}, byUid: map[int]*flags.Command{}, next: 1,
		fields: map[string]fieldRef{}, optRef: map[string]string{}, codes: map[string]string{}}
	for i := range c.Build {
		if c.Build[i].Struct != nil {
			r.indexCodes(c.Build[i].Struct)
		}
	}
	for i := range c.Ops {
		if c.Ops[i].B != nil && c.Ops[i].B.Struct != nil {
			r.indexCodes(c.Ops[i].B.Struct)
		}
	}
	p := flags.NewNamedParser(c.Name, c.Opts)
	p.NamespaceDelimiter = c.NsDelim
	p.EnvNamespaceDelimiter = c.EnvNsDelim
	p.Usage = c.Usage
	r.p = p
	r.number()
	switch c.Handler {
	case "", "none":
	default:
		p.UnknownOptionHandler = func(option string, arg flags.SplitArgument, args []string) ([]string, error) {
			a := "-"
			if v, ok := arg.Value(); ok {
				a = hx(v)
			}
			r.log.add(fmt.Sprintf("LOG unknown %s %s %s", hx(option), a, hxList(args)))
			switch c.Handler {
			case "dropnext":
				if len(args) > 0 {
					return args[1:], nil
				}
				return args, nil
			case "prepend":
				return append([]string{c.HandlerTok}, args...), nil
			case "fail":
				return nil, fmt.Errorf("handler refused: %s", option)
			case "swallow":
				// a literal nil slice: nothing is left to parse
				return nil, nil
			}
			return args, nil
		}
	}
	if c.CmdHandler {
		p.CommandHandler = func(command flags.Commander, args []string) error {
			id := "nil"
			if ec, ok := command.(*execCmd); ok {
				id = strconv.Itoa(ec.uid)
			} else if ec, ok := command.(*execUsageCmd); ok {
				id = strconv.Itoa(ec.uid)
			}
			r.log.add(fmt.Sprintf("LOG cmdhandler %s %s", id, hxList(args)))
			if command != nil {
				return command.Execute(args)
			}
			return nil
		}
	}
	var outs []string
	for i := range c.Build {
		if r.dead {
			break
		}
		outs = append(outs, r.applyBuild(&c.Build[i])...)
	}
	r.register()
	return r, outs
}

// applyBuild performs one declaration step on the real parser; returns its "R …" lines.
func (r *Real) applyBuild(b *BuildOp) []string {
	var outs []string
	target := r.byUid[b.Target]
	if target == nil {
		// the command this step addresses does not exist on the real parser (the declaration was read
		// differently from how it was written): an observation, not a crash of the harness
		r.dead = true
		return []string{fmt.Sprintf("R no-command-with-uid-%d", b.Target)}
	}
	switch b.Kind {
	case "addgroup":
		data := r.makeStruct(b.Struct)
		_, err := target.AddGroup(b.Short, b.Long, data.Interface())
		outs = append(outs, "R "+errLine(err, false))
		r.dead = err != nil
		r.number()
	case "addcommand":
		var data interface{}
		var ec *execCmd
		if b.Commander != 0 {
			ec = &execCmd{kind: b.Commander, name: b.Name, log: r.log}
			if b.Usage != nil {
				data = &execUsageCmd{execCmd: *ec, usage: *b.Usage}
				ec = &data.(*execUsageCmd).execCmd
			} else {
				data = ec
			}
		} else {
			data = r.makeStruct(b.Struct).Interface()
		}
		cmd, err := target.AddCommand(b.Name, b.Short, b.Long, data)
		outs = append(outs, "R "+errLine(err, false))
		r.dead = err != nil
		r.number()
		if err == nil && ec != nil {
			ec.uid = r.uids[cmd]
			r.execs = append(r.execs, ec)
		}
	case "setcmd":
		switch b.Attr {
		case "hidden":
			target.Hidden = b.Vals[0] == "1"
		case "subopt":
			target.SubcommandsOptional = b.Vals[0] == "1"
		case "aliases":
			var as []string
			for _, v := range b.Vals[1:] {
				s, _ := unhx(v)
				as = append(as, s)
			}
			target.Aliases = as
		case "name":
			s, _ := unhx(b.Vals[0])
			target.Name = s
		case "ns":
			s, _ := unhx(b.Vals[0])
			target.Namespace = s
		case "shortdesc":
			s, _ := unhx(b.Vals[0])
			target.ShortDescription = s
		case "longdesc":
			s, _ := unhx(b.Vals[0])
			target.LongDescription = s
		}
	case "setopt":
		o := allGroups(target)[b.Gi].Options()[b.Oi]
		var vs []string
		for _, v := range b.Vals {
			x, _ := unhx(v)
			vs = append(vs, x)
		}
		first := ""
		if len(vs) > 0 {
			first = vs[0]
		}
		switch b.Attr {
		case "long":
			o.LongName = first
		case "short":
			o.ShortName = 0
			for _, rn := range first {
				o.ShortName = rn
				break
			}
		case "choices":
			o.Choices = vs
		case "mask":
			o.DefaultMask = first
		case "default":
			o.Default = vs
		case "desc":
			o.Description = first
		case "required":
			o.Required = first == "1"
		case "hidden":
			o.Hidden = first == "1"
		}
	case "setgrp":
		g := allGroups(target)[b.Gi]
		s, _ := unhx(b.Vals[0])
		switch b.Attr {
		case "ns":
			g.Namespace = s
		case "envns":
			g.EnvNamespace = s
		case "shortdesc":
			g.ShortDescription = s
		case "hidden":
			g.Hidden = b.Vals[0] == "1"
		}
	}
	return outs
}

// allGroups: eachGroup order of a command.
func allGroups(c *flags.Command) []*flags.Group {
	var out []*flags.Group
	var walk func(g *flags.Group)
	walk = func(g *flags.Group) {
		out = append(out, g)
		for _, s := range g.Groups() {
			walk(s)
		}
	}
	walk(c.Group)
	return out
}

func (r *Real) commandsPreorder() []*flags.Command {
	var out []*flags.Command
	var walk func(c *flags.Command)
	walk = func(c *flags.Command) {
		out = append(out, c)
		for _, s := range c.Commands() {
			walk(s)
		}
	}
	walk(r.p.Command)
	return out
}

// typeCodeOf reconstructs the model's type code from a reflect.Type (for options the harness
// did not declare itself, i.e. the built-in help option).
func (r *Real) optCode(o *flags.Option) string {
	if code, ok := r.codes[o.Field().Name]; ok {
		return code
	}
	return "Fe"
}

func (r *Real) indexCodes(sd *StructDesc) {
	for _, f := range sd.Fields {
		if f.Kind == "v" {
			r.codes[f.Name] = f.Ty
		} else if f.Sub != nil {
			r.indexCodes(f.Sub)
		}
	}
}

// dumpState mirrors Driver.dumpState.
func (r *Real) dumpState() []string {
	var out []string
	r.register()
	cmds := r.commandsPreorder()
	for _, c := range cmds {
		uid := r.uids[c]
		for gi, g := range allGroups(c) {
			for oi, o := range g.Options() {
				ref := fmt.Sprintf("%d.%d.%d", uid, gi, oi)
				r.optRef[o.Field().Name] = ref
				code := r.optCode(o)
				val := "F"
				if code[0] != 'F' {
					val = showVal(code, reflect.ValueOf(o.Value()))
				}
				out = append(out, fmt.Sprintf("O %s %s %s %s", ref, val, b01(o.IsSet()), b01(o.IsSetDefault())))
			}
		}
	}
	for _, c := range cmds {
		uid := r.uids[c]
		for ai, a := range c.Args() {
			fr, ok := r.fields[a.Name]
			val := "?"
			if ok {
				val = showVal(fr.code, fr.val)
			}
			out = append(out, fmt.Sprintf("A %d.%d %s", uid, ai, val))
		}
	}
	act := "ACT"
	for c := r.p.Command; c != nil; c = c.Active {
		act += " " + strconv.Itoa(r.uids[c])
	}
	out = append(out, act)
	return out
}

func tf(b bool) string {
	if b {
		return "true"
	}
	return "false"
}

// dumpModel mirrors Driver.dumpModel.
func (r *Real) dumpModel() []string {
	var out []string
	parent := map[*flags.Command]string{r.p.Command: "-"}
	for _, c := range r.commandsPreorder() {
		for _, s := range c.Commands() {
			parent[s] = strconv.Itoa(r.uids[c])
		}
	}
	for _, c := range r.commandsPreorder() {
		uid := r.uids[c]
		out = append(out, fmt.Sprintf("CMD %d parent=%s %s %s %s hidden=%s subopt=%s argsreq=%s aliases=%s", uid, parent[c], hx(c.Name), hx(c.ShortDescription), hx(c.LongDescription), tf(c.Hidden), tf(c.SubcommandsOptional), tf(c.ArgsRequired), hxList(c.Aliases)))
		groups := allGroups(c)
		for gi, g := range groups {
			size := 0
			var count func(g *flags.Group)
			count = func(g *flags.Group) {
				size++
				for _, s := range g.Groups() {
					count(s)
				}
			}
			count(g)
			out = append(out, fmt.Sprintf("GRP %d.%d %s %s ns=%s envns=%s hidden=%s size=%d", uid, gi, hx(g.ShortDescription), hx(g.LongDescription), hx(g.Namespace), hx(g.EnvNamespace), tf(g.Hidden), size))
			for oi, o := range g.Options() {
				out = append(out, fmt.Sprintf("OPT %d.%d.%d field=%s short=%d long=%s longns=%s desc=%s default=%s env=%s envdelim=%s envns=%s optional=%s optval=%s required=%s valuename=%s mask=%s choices=%s hidden=%s string=%s",
					uid, gi, oi, hx(o.Field().Name), o.ShortName, hx(o.LongName), hx(o.LongNameWithNamespace()), hx(o.Description), hxList(o.Default), hx(o.EnvDefaultKey), hx(o.EnvDefaultDelim), hx(o.EnvKeyWithNamespace()),
					tf(o.OptionalArgument), hxList(o.OptionalValue), tf(o.Required), hx(o.ValueName), hx(o.DefaultMask), hxList(o.Choices), tf(o.Hidden), hx(o.String())))
			}
		}
		for ai, a := range c.Args() {
			out = append(out, fmt.Sprintf("ARG %d.%d %s %s %d %d", uid, ai, hx(a.Name), hx(a.Description), a.Required, a.RequiredMaximum))
		}
	}
	return out
}

// capture runs f with os.Stdout / os.Stderr redirected; returns what was written.
func capture(f func()) (string, string) {
	oldOut, oldErr := os.Stdout, os.Stderr
	ro, wo, _ := os.Pipe()
	re, we, _ := os.Pipe()
	os.Stdout, os.Stderr = wo, we
	outc, errc := make(chan string), make(chan string)
	read := func(f *os.File, c chan string) {
		var b strings.Builder
		buf := make([]byte, 65536)
		for {
			n, err := f.Read(buf)
			b.Write(buf[:n])
			if err != nil {
				break
			}
		}
		c <- b.String()
	}
	go read(ro, outc)
	go read(re, errc)
	func() {
		defer func() {
			os.Stdout, os.Stderr = oldOut, oldErr
			wo.Close()
			we.Close()
		}()
		f()
	}()
	so, se := <-outc, <-errc
	ro.Close()
	re.Close()
	return so, se
}

// fixLog rewrites callback log lines from field tokens to option references.
func (r *Real) fixLog(lines []string) []string {
	out := make([]string, len(lines))
	for i, l := range lines {
		if strings.HasPrefix(l, "LOG cb @") {
			rest := l[len("LOG cb @"):]
			sp := strings.IndexByte(rest, ' ')
			out[i] = "LOG cb " + r.optRef[rest[:sp]] + rest[sp:]
		} else {
			out[i] = l
		}
	}
	return out
}

// RunOps executes the case's operations on the real parser and returns observation lines
// in the driver's format. A panic is reported as "PANIC <value>".
func (r *Real) RunOps() []string {
	var out []string
	if r.dead {
		return out
	}
	for _, e := range r.c.Env {
		os.Setenv(e.K, e.V)
	}
	defer func() {
		for _, e := range r.c.Env {
			os.Unsetenv(e.K)
		}
	}()
	for _, op := range r.c.Ops {
		if r.dead {
			break
		}
		switch op.Kind {
		case "build":
			out = append(out, r.applyBuild(op.B)...)
			r.register()
		case "parse":
			r.log.lines = nil
			var ret []string
			var err error
			var pan interface{}
			so, se := capture(func() {
				pan = safe(func() { ret, err = r.p.ParseArgs(op.Args) })
			})
			if pan != nil {
				out = append(out, fmt.Sprintf("PANIC %v", pan))
				continue
			}
			mask := false
			for _, a := range op.Args {
				if strings.Contains(a, "%") {
					mask = true
				}
			}
			out = append(out, "RET "+errLine(err, mask)+" "+hxList(ret))
			out = append(out, r.dumpState()...)
			out = append(out, r.fixLog(r.log.lines)...)
			if so != "" {
				if mask {
					out = append(out, "STDOUT MASKED")
				} else {
					out = append(out, "STDOUT "+hx(so))
				}
			}
			if se != "" {
				if mask {
					out = append(out, "STDERR MASKED")
				} else {
					out = append(out, "STDERR "+hx(se))
				}
			}
		case "model":
			out = append(out, r.dumpModel()...)
		case "help":
			var b strings.Builder
			var pan interface{}
			got := op.Cols
			if ptyOK {
				got = withCols(op.Cols, func() { pan = safe(func() { r.p.WriteHelp(&b) }) })
			} else {
				pan = safe(func() { r.p.WriteHelp(&b) })
			}
			if got != op.Cols {
				out = append(out, fmt.Sprintf("HELP WIDTH-NOT-APPLIED %d", got))
			} else if pan != nil {
				out = append(out, "HELP PANIC")
			} else {
				out = append(out, "HELP "+hx(b.String()))
			}
		case "iniparse":
			r.log.lines = nil
			ip := r.iniParser()
			ip.ParseAsDefaults = op.AsDefaults
			var err error
			var pan interface{}
			so, se := capture(func() {
				pan = safe(func() { err = ip.Parse(strings.NewReader(op.Text)) })
			})
			if pan != nil {
				out = append(out, fmt.Sprintf("PANIC %v", pan))
				continue
			}
			out = append(out, "INI "+errLine(err, false))
			out = append(out, r.dumpState()...)
			out = append(out, r.fixLog(r.log.lines)...)
			if so != "" {
				out = append(out, "STDOUT "+hx(so))
			}
			if se != "" {
				out = append(out, "STDERR "+hx(se))
			}
		case "iniwrite":
			var b strings.Builder
			ip := r.iniParser()
			if pan := safe(func() { ip.Write(&b, flags.IniOptions(op.Bits)) }); pan != nil {
				out = append(out, fmt.Sprintf("PANIC %v", pan))
			} else {
				out = append(out, "INIW "+hx(b.String()))
			}
		case "man":
			var b strings.Builder
			os.Setenv("SOURCE_DATE_EPOCH", manEpoch)
			if pan := safe(func() { r.p.WriteManPage(&b) }); pan != nil {
				out = append(out, fmt.Sprintf("PANIC %v", pan))
			} else {
				out = append(out, "MAN "+hx(b.String()))
			}
			os.Unsetenv("SOURCE_DATE_EPOCH")
		case "complete":
			var items []flags.Completion
			called := false
			r.p.CompletionHandler = func(it []flags.Completion) { items = it; called = true }
			os.Setenv("GO_FLAGS_COMPLETION", "1")
			r.log.lines = nil
			pan := safe(func() { r.p.ParseArgs(op.Args) })
			os.Unsetenv("GO_FLAGS_COMPLETION")
			r.p.CompletionHandler = nil
			if pan != nil {
				out = append(out, fmt.Sprintf("PANIC %v", pan))
				continue
			}
			if !called {
				out = append(out, "COMP-NOT-CALLED")
				continue
			}
			var flat []string
			for _, it := range items {
				flat = append(flat, it.Item, it.Description)
			}
			out = append(out, "COMP "+hxList(flat))
			out = append(out, r.fixLog(r.log.lines)...)
		}
	}
	return out
}
