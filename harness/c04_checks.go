package main

// C04, typed stage: every documented cause of a rejection, produced on purpose in a small
// declaration (the argument vector, the environment or a default tag carries exactly one fault), with
// and without PrintErrors.  The error must be a *flags.Error of the documented Type for that cause;
// nothing is written without PrintErrors; with it the text is written exactly once, help to standard
// output and everything else to standard error.

import (
	"fmt"
	"strings"

	flags "github.com/jessevdk/go-flags"
)

func checkC04Typed(c *Ctx, n int) {
	r := c.Rng
	type cause struct {
		name string
		argv []string
		want flags.ErrorType
	}
	for i := 0; i < n; i++ {
		portTag := `long:"port" short:"p"`
		var env []EnvVar
		needCmd, needReq, rootOptional := false, false, true
		execParent := false
		longName := ""
		opts := flags.Options(0)
		causes := []cause{
			{"unknown long option", []string{"--nosuch"}, flags.ErrUnknownFlag},
			{"unknown long option with argument", []string{"--nosuch=1"}, flags.ErrUnknownFlag},
			{"unknown short option", []string{"-Z"}, flags.ErrUnknownFlag},
			{"unknown short option in a cluster", []string{"-fZ"}, flags.ErrUnknownFlag},
			{"missing argument", []string{"--port"}, flags.ErrExpectedArgument},
			{"option in place of an argument", []string{"--port", "--flag"}, flags.ErrExpectedArgument},
			{"argument for a flag", []string{"--flag=1"}, flags.ErrNoArgumentForBool},
			{"unconvertible value on the command line", []string{"--port=x1"}, flags.ErrMarshal},
			{"value out of range", []string{"-p", "99999999999999999999"}, flags.ErrMarshal},
			{"badly quoted value", []string{"--port=\"1"}, flags.ErrMarshal},
			{"unconvertible default tag", nil, flags.ErrMarshal},
			{"unconvertible environment value", nil, flags.ErrMarshal},
			{"value that is not a choice", []string{"--mode=z"}, flags.ErrInvalidChoice},
			{"required option missing", []string{"--flag"}, flags.ErrRequired},
			{"command missing", []string{"--flag"}, flags.ErrCommandRequired},
			{"unknown command", []string{"zzz"}, flags.ErrUnknownCommand},
			{"unknown word below an executable command that requires a subcommand", []string{"remote", "bogus", "-f"}, flags.ErrUnknownCommand},
			{"no word below an executable command that requires a subcommand", []string{"remote", "-f"}, flags.ErrCommandRequired},
			{"help requested", []string{"--help"}, flags.ErrHelp},
			{"help requested behind other options", []string{"-f", "--port=1", "-h"}, flags.ErrHelp},
			{"callback refuses", []string{"--cb=!no"}, flags.ErrMarshal},
		}
		cz := causes[r.Intn(len(causes))]
		switch cz.name {
		case "unconvertible default tag":
			portTag += ` default:"x1"`
		case "unconvertible environment value":
			portTag += ` env:"VFC04"`
			env = []EnvVar{{"VFC04", []string{"x1", "1.5", " 7"}[r.Intn(3)]}}
		case "required option missing":
			needReq = true
		case "command missing", "unknown command":
			needCmd, rootOptional = true, false
		case "unknown word below an executable command that requires a subcommand", "no word below an executable command that requires a subcommand":
			execParent = true
		case "help requested", "help requested behind other options":
			opts |= flags.HelpFlag
			// (a long name that leaves from a dozen down to no columns for the descriptions)
			longName = strings.Repeat("n", 58+r.Intn(20))
		}
		// harmless tokens around the fault
		argv := append([]string{}, cz.argv...)
		if r.Intn(2) == 0 && cz.want != flags.ErrUnknownCommand {
			argv = append([]string{"--mode=a"}, argv...)
		}
		printErrors := r.Intn(2) == 0
		if printErrors {
			opts |= flags.PrintErrors
		}
		root := &StructDesc{Fields: []FieldDesc{
			{Name: "Port", Exported: true, Kind: "v", Ty: []string{"int", "i8", "u16"}[r.Intn(3)], Tag: portTag},
			{Name: "Flag", Exported: true, Kind: "v", Ty: "bool", Tag: `long:"flag" short:"f"`},
			{Name: "Mode", Exported: true, Kind: "v", Ty: "str", Tag: `long:"mode" choice:"a" choice:"b"`},
			{Name: "Cb", Exported: true, Kind: "v", Ty: "Fstr!", Tag: `long:"cb"`, Cb: 10},
		}}
		if longName != "" {
			root.Fields = append(root.Fields, FieldDesc{Name: "Wide", Exported: true, Kind: "v", Ty: "bool", Tag: quoteTag("long", longName) + ` description:"a description of some length"`})
		}
		if needReq {
			root.Fields = append(root.Fields, FieldDesc{Name: "Req", Exported: true, Kind: "v", Ty: "str", Tag: `long:"req" required:"true"`})
		}
		if needCmd {
			root.Fields = append(root.Fields, FieldDesc{Name: "Run", Exported: true, Kind: "s", Sub: &StructDesc{}, Tag: `command:"run"`})
		}
		cs := &Case{Name: "app", NsDelim: ".", EnvNsDelim: "_", Env: env, Opts: opts}
		cs.Build = []BuildOp{{Kind: "addgroup", Target: 1, Short: "Application Options", Struct: root}}
		if execParent {
			// `remote` can be executed (a Commander) and has a subcommand of its own, which is required
			cs.Build = append(cs.Build, BuildOp{Kind: "addcommand", Target: 1, Name: "remote", Short: "prog remote", Struct: &StructDesc{}, Commander: 1 + r.Intn(3)},
				BuildOp{Kind: "addcommand", Target: 2, Name: "add", Short: "prog add", Struct: &StructDesc{}})
			rootOptional = r.Intn(2) == 0
		}
		if rootOptional {
			cs.Build = append(cs.Build, BuildOp{Kind: "setcmd", Target: 1, Attr: "subopt", Vals: []string{"1"}})
		}
		cs.Ops = []Op{{Kind: "parse", Args: argv}}
		cs.Description = fmt.Sprintf("%s (PrintErrors=%v): %s", cz.name, printErrors, describeOps(cs))
		c.RunCases([]*Case{cs}, func(cr *CaseResult) {
			c.classifyCase(cr)
			c.Class(fmt.Sprintf("c04/typed: %s printerrors=%v", cz.name, printErrors))
			c.Distinct(cs.Description)
			var obs parseObs
			for _, o := range parseBlocks(cr) {
				obs = o
			}
			in := map[string]interface{}{"case": cs.Description, "argv": argv, "cause": cz.name, "print_errors": printErrors}
			fail := func(name, got, want string) {
				in["case_file"] = c.saveCase(cr)
				c.Check(name, false, "C04:typed", in, got, want)
			}
			got := fmt.Sprintf("%s %s type %d %q", obs.panic, obs.errKind, obs.errType, obs.errMsg)
			if obs.panic != "" || obs.errKind != "flags" || obs.errType != int(cz.want) {
				fail("rejection-has-the-documented-type", got, fmt.Sprintf("*flags.Error of type %d (%s)", int(cz.want), cz.want))
				return
			}
			c.Check("rejection-has-the-documented-type", true, "", nil, "", "")
			wantOut, wantErr := "", ""
			if printErrors && !obs.masked {
				if cz.want == flags.ErrHelp {
					wantOut = obs.errMsg + "\n"
				} else {
					wantErr = obs.errMsg + "\n"
				}
			}
			if !obs.masked && (obs.stdout != wantOut || obs.stderr != wantErr) {
				fail("error-text-is-written-exactly-once-and-only-with-PrintErrors", fmt.Sprintf("stdout=%q stderr=%q", obs.stdout, obs.stderr), fmt.Sprintf("stdout=%q stderr=%q", wantOut, wantErr))
				return
			}
			c.Check("error-text-is-written-exactly-once-and-only-with-PrintErrors", true, "", nil, "", "")
		})
	}
}
