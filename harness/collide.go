package main

import (
	"fmt"
	"strconv"
	"strings"

	flags "github.com/jessevdk/go-flags"
)

// Deliberate name relations between an option at the top of a declaration and one in a nested
// group — the situations a uniform generator reaches only by luck.

func tagValue(tag, key string) (string, bool) {
	for _, p := range splitTagPairs(tag) {
		if strings.HasPrefix(p, key+":\"") {
			v, err := strconv.Unquote(p[len(key)+1:])
			return v, err == nil
		}
	}
	return "", false
}

func tagReplace(tag, key, value string) string {
	var out []string
	for _, p := range splitTagPairs(tag) {
		if !strings.HasPrefix(p, key+":\"") {
			out = append(out, p)
		}
	}
	out = append(out, quoteTag(key, value))
	return strings.Join(out, " ")
}

func isOptionField(f *FieldDesc) bool {
	return f.Kind == "v" && f.Exported && (strings.Contains(f.Tag, "long:\"") || strings.Contains(f.Tag, "short:\""))
}

// topAndNested: option fields directly in sd, and option fields inside its group-tagged structs.
func topAndNested(sd *StructDesc) (top, nested []*FieldDesc) {
	for i := range sd.Fields {
		f := &sd.Fields[i]
		if isOptionField(f) {
			top = append(top, f)
		} else if f.Sub != nil && strings.Contains(f.Tag, "group:\"") {
			var walk func(s *StructDesc)
			walk = func(s *StructDesc) {
				for j := range s.Fields {
					g := &s.Fields[j]
					if isOptionField(g) {
						nested = append(nested, g)
					} else if g.Sub != nil && !strings.Contains(g.Tag, "command:\"") && !strings.Contains(g.Tag, "positional-args:\"") {
						walk(g.Sub)
					}
				}
			}
			walk(f.Sub)
		}
	}
	return
}

// collideDuplicate (C19): a nested option takes over the long or short name of a top-level one.
func (g *gen) collideDuplicate(sd *StructDesc) bool {
	top, nested := topAndNested(sd)
	if len(top) == 0 || len(nested) == 0 {
		return false
	}
	t, n := top[g.r.Intn(len(top))], nested[g.r.Intn(len(nested))]
	if s, ok := tagValue(t.Tag, "short"); ok && s != "" && g.chance(0.5) {
		n.Tag = tagReplace(n.Tag, "short", s)
		return true
	}
	if l, ok := tagValue(t.Tag, "long"); ok && l != "" {
		n.Tag = tagReplace(n.Tag, "long", l)
		return true
	}
	return false
}

// collidePriority (C13): a top-level option gets, as a HIGH-priority name (ini-name or long
// name), the text that names a nested option at a LOWER priority (its short name or long name).
func (g *gen) collidePriority(sd *StructDesc) bool {
	top, nested := topAndNested(sd)
	if len(top) == 0 || len(nested) == 0 {
		return false
	}
	t, n := top[g.r.Intn(len(top))], nested[g.r.Intn(len(nested))]
	if s, ok := tagValue(n.Tag, "short"); ok && s != "" {
		if g.chance(0.5) {
			t.Tag = tagReplace(t.Tag, "ini-name", s)
		} else if s != "=" {
			t.Tag = tagReplace(t.Tag, "long", s)
		}
		return true
	}
	if l, ok := tagValue(n.Tag, "long"); ok && l != "" {
		t.Tag = tagReplace(t.Tag, "ini-name", l)
		return true
	}
	return false
}

// checkC19Duplicates: one declaration in which two options of different groups share a short name or
// a (namespaced) long name - top level against a nested group, two sibling groups, two levels deep, a
// collision that only the namespace creates - and controls in which a namespace keeps the names
// apart.  The declaration must be refused with ErrDuplicatedFlag when it is built (controls: accepted).
func checkC19Duplicates(c *Ctx, n int) {
	r := c.Rng
	for i := 0; i < n; i++ {
		ty := func() string { return []string{"str", "bool", "int", "Lstr"}[r.Intn(4)] }
		name := []string{"dup", "färg", "x", "long-name"}[r.Intn(4)]
		short := []string{"d", "é", "5", "X"}[r.Intn(4)]
		opt := func(fname, tag string) FieldDesc {
			return FieldDesc{Name: fname, Exported: true, Kind: "v", Ty: ty(), Tag: tag}
		}
		filler := func(k int) FieldDesc {
			return opt(fmt.Sprintf("Fill%d", k), quoteTag("long", fmt.Sprintf("filler%d", k)))
		}
		group := func(fname, desc, ns string, fields ...FieldDesc) FieldDesc {
			tag := quoteTag("group", desc)
			if ns != "" {
				tag += " " + quoteTag("namespace", ns)
			}
			return FieldDesc{Name: fname, Exported: true, Kind: "s", Sub: &StructDesc{Fields: fields}, Tag: tag}
		}
		variant := []string{"long: top vs nested", "short: top vs nested", "long: sibling groups", "short: two levels deep", "long: created by the namespace",
			"control: namespace keeps them apart", "control: distinct names"}[r.Intn(7)]
		var root *StructDesc
		wantErr := true
		switch variant {
		case "long: top vs nested":
			root = &StructDesc{Fields: []FieldDesc{filler(1), opt("A", quoteTag("long", name)), group("G", "Inner", "", filler(2), opt("B", quoteTag("long", name)))}}
		case "short: top vs nested":
			root = &StructDesc{Fields: []FieldDesc{opt("A", quoteTag("short", short)+" "+quoteTag("long", "a-"+name)), group("G", "Inner", "", opt("B", quoteTag("short", short)), filler(2))}}
		case "long: sibling groups":
			root = &StructDesc{Fields: []FieldDesc{group("G1", "First", "", opt("A", quoteTag("long", name))), filler(1), group("G2", "Second", "", filler(2), opt("B", quoteTag("long", name)))}}
		case "short: two levels deep":
			root = &StructDesc{Fields: []FieldDesc{opt("A", quoteTag("short", short)), group("G", "Outer", "", filler(1), group("H", "Deep", "", opt("B", quoteTag("short", short)+" "+quoteTag("long", "b-"+name))))}}
		case "long: created by the namespace":
			root = &StructDesc{Fields: []FieldDesc{opt("A", quoteTag("long", "ns."+name)), group("G", "Inner", "ns", opt("B", quoteTag("long", name)))}}
		case "control: namespace keeps them apart":
			wantErr = false
			root = &StructDesc{Fields: []FieldDesc{opt("A", quoteTag("long", name)), group("G", "Inner", "ns", opt("B", quoteTag("long", name)))}}
		default:
			wantErr = false
			root = &StructDesc{Fields: []FieldDesc{opt("A", quoteTag("long", name)+" "+quoteTag("short", short)), group("G", "Inner", "", opt("B", quoteTag("long", name+"2")))}}
		}
		cs := &Case{Name: "app", NsDelim: ".", EnvNsDelim: "_"}
		cs.Build = []BuildOp{{Kind: "addgroup", Target: 1, Short: "Application Options", Struct: root}}
		cs.Ops = []Op{{Kind: "model"}, {Kind: "parse", Args: []string{}}}
		cs.Description = variant + ": " + describeOps(cs)
		c.RunCases([]*Case{cs}, func(cr *CaseResult) {
			c.classifyCase(cr)
			c.Class("c19/duplicates " + variant)
			c.Distinct(cs.Description + strings.Join(cr.Lines, "\n"))
			got := ""
			for _, l := range cr.Impl {
				if strings.HasPrefix(l, "R ") && got == "" {
					got = l
				}
				if strings.HasPrefix(l, "HARNESS-PANIC") || strings.HasPrefix(l, "PANIC") {
					got = l
				}
			}
			ws := strings.Fields(got + " x x x")
			ok := got == "R ok"
			want := "accepted"
			if wantErr {
				ok = ws[0] == "R" && ws[1] == "flags" && ws[2] == strconv.Itoa(int(flags.ErrDuplicatedFlag))
				want = "ErrDuplicatedFlag when the declaration is added"
			}
			in := map[string]interface{}{"case": cs.Description, "variant": variant}
			if !ok {
				in["case_file"] = c.saveCase(cr)
			}
			c.Check("options-sharing-a-name-are-refused-at-setup", ok, "C19:duplicates", in, decodeLine(got), want)
		})
	}
}
