package main

import (
	"fmt"
	"reflect"
	"strconv"
	"strings"

	flags "github.com/jessevdk/go-flags"
)

// Deliberate name relations between an option at the top of a declaration and one in a nested
// group — the situations a uniform generator reaches only by luck.

func tagValue(tag, key string) (string, bool) {
	for _, p := range splitTagPairs(tag) {
		if strings.HasPrefix(p, key+":\"") {
			v, err := strconv.Unquote(p[len(key)+1:])
			return v, err == nil
		}
	}
	return "", false
}

func tagReplace(tag, key, value string) string {
	var out []string
	for _, p := range splitTagPairs(tag) {
		if !strings.HasPrefix(p, key+":\"") {
			out = append(out, p)
		}
	}
	out = append(out, quoteTag(key, value))
	return strings.Join(out, " ")
}

func isOptionField(f *FieldDesc) bool {
	return f.Kind == "v" && f.Exported && (strings.Contains(f.Tag, "long:\"") || strings.Contains(f.Tag, "short:\""))
}

// topAndNested: option fields directly in sd, and option fields inside its group-tagged structs.
func topAndNested(sd *StructDesc) (top, nested []*FieldDesc) {
	for i := range sd.Fields {
		f := &sd.Fields[i]
		if isOptionField(f) {
			top = append(top, f)
		} else if f.Sub != nil && strings.Contains(f.Tag, "group:\"") {
			var walk func(s *StructDesc)
			walk = func(s *StructDesc) {
				for j := range s.Fields {
					g := &s.Fields[j]
					if isOptionField(g) {
						nested = append(nested, g)
					} else if g.Sub != nil && !strings.Contains(g.Tag, "command:\"") && !strings.Contains(g.Tag, "positional-args:\"") {
						walk(g.Sub)
					}
				}
			}
			walk(f.Sub)
		}
	}
	return
}

// collideDuplicate (C19): a nested option takes over the long or short name of a top-level one.
func (g *gen) collideDuplicate(sd *StructDesc) bool {
	top, nested := topAndNested(sd)
	if len(top) == 0 || len(nested) == 0 {
		return false
	}
	t, n := top[g.r.Intn(len(top))], nested[g.r.Intn(len(nested))]
	if s, ok := tagValue(t.Tag, "short"); ok && s != "" && g.chance(0.5) {
		n.Tag = tagReplace(n.Tag, "short", s)
		return true
	}
	if l, ok := tagValue(t.Tag, "long"); ok && l != "" {
		n.Tag = tagReplace(n.Tag, "long", l)
		return true
	}
	return false
}

// collidePriority (C13): a top-level option gets, as a HIGH-priority name (ini-name or long
// name), the text that names a nested option at a LOWER priority (its short name or long name).
func (g *gen) collidePriority(sd *StructDesc) bool {
	top, nested := topAndNested(sd)
	if len(top) == 0 || len(nested) == 0 {
		return false
	}
	t, n := top[g.r.Intn(len(top))], nested[g.r.Intn(len(nested))]
	if s, ok := tagValue(n.Tag, "short"); ok && s != "" {
		if g.chance(0.5) {
			t.Tag = tagReplace(t.Tag, "ini-name", s)
		} else if s != "=" {
			t.Tag = tagReplace(t.Tag, "long", s)
		}
		return true
	}
	if l, ok := tagValue(n.Tag, "long"); ok && l != "" {
		t.Tag = tagReplace(t.Tag, "ini-name", l)
		return true
	}
	return false
}

// checkC19Duplicates: one declaration in which two options of different groups share a short name or
// a (namespaced) long name - top level against a nested group, two sibling groups, two levels deep, a
// collision that only the namespace creates - and controls in which a namespace keeps the names
// apart.  The declaration must be refused with ErrDuplicatedFlag when it is built (controls: accepted).
func checkC19Duplicates(c *Ctx, n int) {
	r := c.Rng
	for i := 0; i < n; i++ {
		ty := func() string { return []string{"str", "bool", "int", "Lstr"}[r.Intn(4)] }
		name := []string{"dup", "färg", "x", "long-name"}[r.Intn(4)]
		short := []string{"d", "é", "5", "X"}[r.Intn(4)]
		opt := func(fname, tag string) FieldDesc {
			return FieldDesc{Name: fname, Exported: true, Kind: "v", Ty: ty(), Tag: tag}
		}
		filler := func(k int) FieldDesc {
			return opt(fmt.Sprintf("Fill%d", k), quoteTag("long", fmt.Sprintf("filler%d", k)))
		}
		group := func(fname, desc, ns string, fields ...FieldDesc) FieldDesc {
			tag := quoteTag("group", desc)
			if ns != "" {
				tag += " " + quoteTag("namespace", ns)
			}
			return FieldDesc{Name: fname, Exported: true, Kind: "s", Sub: &StructDesc{Fields: fields}, Tag: tag}
		}
		variant := []string{"long: top vs nested", "short: top vs nested", "long: sibling groups", "short: two levels deep", "long: created by the namespace",
			"control: namespace keeps them apart", "control: distinct names"}[r.Intn(7)]
		var root *StructDesc
		wantErr := true
		switch variant {
		case "long: top vs nested":
			root = &StructDesc{Fields: []FieldDesc{filler(1), opt("A", quoteTag("long", name)), group("G", "Inner", "", filler(2), opt("B", quoteTag("long", name)))}}
		case "short: top vs nested":
			root = &StructDesc{Fields: []FieldDesc{opt("A", quoteTag("short", short)+" "+quoteTag("long", "a-"+name)), group("G", "Inner", "", opt("B", quoteTag("short", short)), filler(2))}}
		case "long: sibling groups":
			root = &StructDesc{Fields: []FieldDesc{group("G1", "First", "", opt("A", quoteTag("long", name))), filler(1), group("G2", "Second", "", filler(2), opt("B", quoteTag("long", name)))}}
		case "short: two levels deep":
			root = &StructDesc{Fields: []FieldDesc{opt("A", quoteTag("short", short)), group("G", "Outer", "", filler(1), group("H", "Deep", "", opt("B", quoteTag("short", short)+" "+quoteTag("long", "b-"+name))))}}
		case "long: created by the namespace":
			root = &StructDesc{Fields: []FieldDesc{opt("A", quoteTag("long", "ns."+name)), group("G", "Inner", "ns", opt("B", quoteTag("long", name)))}}
		case "control: namespace keeps them apart":
			wantErr = false
			root = &StructDesc{Fields: []FieldDesc{opt("A", quoteTag("long", name)), group("G", "Inner", "ns", opt("B", quoteTag("long", name)))}}
		default:
			wantErr = false
			root = &StructDesc{Fields: []FieldDesc{opt("A", quoteTag("long", name)+" "+quoteTag("short", short)), group("G", "Inner", "", opt("B", quoteTag("long", name+"2")))}}
		}
		cs := &Case{Name: "app", NsDelim: ".", EnvNsDelim: "_"}
		cs.Build = []BuildOp{{Kind: "addgroup", Target: 1, Short: "Application Options", Struct: root}}
		cs.Ops = []Op{{Kind: "model"}, {Kind: "parse", Args: []string{}}}
		cs.Description = variant + ": " + describeOps(cs)
		c.RunCases([]*Case{cs}, func(cr *CaseResult) {
			c.classifyCase(cr)
			c.Class("c19/duplicates " + variant)
			c.Distinct(cs.Description + strings.Join(cr.Lines, "\n"))
			got := ""
			for _, l := range cr.Impl {
				if strings.HasPrefix(l, "R ") && got == "" {
					got = l
				}
				if strings.HasPrefix(l, "HARNESS-PANIC") || strings.HasPrefix(l, "PANIC") {
					got = l
				}
			}
			ws := strings.Fields(got + " x x x")
			ok := got == "R ok"
			want := "accepted"
			if wantErr {
				ok = ws[0] == "R" && ws[1] == "flags" && ws[2] == strconv.Itoa(int(flags.ErrDuplicatedFlag))
				want = "ErrDuplicatedFlag when the declaration is added"
			}
			in := map[string]interface{}{"case": cs.Description, "variant": variant}
			if !ok {
				in["case_file"] = c.saveCase(cr)
			}
			c.Check("options-sharing-a-name-are-refused-at-setup", ok, "C19:duplicates", in, decodeLine(got), want)
		})
	}
}

// collideFieldName (C12): an option in a nested group gets the Go field name (and type) of an option
// of the enclosing group - the name both are written under in their sections of an INI file.
func (g *gen) collideFieldName(sd *StructDesc) bool {
	top, nested := topAndNested(sd)
	var tops []*FieldDesc
	for _, t := range top {
		if t.Ty[0] != 'F' && !strings.Contains(t.Tag, "ini-name:") && !strings.Contains(t.Tag, "no-ini:") && !strings.Contains(t.Tag, "choice:") {
			tops = append(tops, t)
		}
	}
	if len(tops) == 0 || len(nested) == 0 {
		return false
	}
	t, n := tops[g.r.Intn(len(tops))], nested[g.r.Intn(len(nested))]
	var tags []string
	for _, key := range []string{"long", "short"} {
		if v, ok := tagValue(n.Tag, key); ok {
			tags = append(tags, quoteTag(key, v))
		}
	}
	if len(tags) == 0 {
		return false
	}
	n.Name, n.Ty, n.Cb, n.Tag = t.Name, t.Ty, 0, strings.Join(tags, " ")
	// (the nested struct may sit behind a nil pointer, where nothing can be stored beforehand)
	n.Init = ""
	t.Init = g.richInit(t.Ty)
	return true
}

// checkC19Malformed: a well-formed declaration (options at the top, in a nested group, in a command;
// positional arguments on the parser and in the command) in which the tag of ONE field - of any of
// those kinds - is broken in a definite way (closing quote, opening quote or colon missing, a raw
// newline in a value).  The declaration must be refused with ErrTag when it is added (or at the
// first parse); the unbroken declaration is accepted.
func checkC19Malformed(c *Ctx, n int) {
	r := c.Rng
	for i := 0; i < n; i++ {
		f := func(name, ty, tag string) FieldDesc {
			return FieldDesc{Name: name, Exported: true, Kind: "v", Ty: ty, Tag: tag}
		}
		st := func(name, tag string, fields ...FieldDesc) FieldDesc {
			return FieldDesc{Name: name, Exported: true, Kind: "s", Sub: &StructDesc{Fields: fields}, Tag: tag}
		}
		cmdPos := st("CPos", `positional-args:"yes"`, f("P1", "str", `positional-arg-name:"p1" description:"first"`), f("Rest", "Lstr", `description:"the rest"`))
		rootPos := st("Pos", `positional-args:"yes"`, f("Q", "str", `description:"q arg"`))
		root := &StructDesc{Fields: []FieldDesc{
			f("A", "str", `long:"alpha" description:"an option"`),
			st("G", `group:"Inner" namespace:"in"`, f("B", "int", `long:"beta" short:"b"`)),
			st("C", `command:"cmd" description:"a command"`, f("D", "bool", `long:"delta"`), cmdPos),
			rootPos,
		}}
		// the field whose tag is broken
		type target struct {
			what string
			fd   *FieldDesc
		}
		targets := []target{
			{"option at the top", &root.Fields[0]},
			{"group field", &root.Fields[1]},
			{"option in a nested group", &root.Fields[1].Sub.Fields[0]},
			{"command field", &root.Fields[2]},
			{"option in a command", &root.Fields[2].Sub.Fields[0]},
			{"positional-args field of a command", &root.Fields[2].Sub.Fields[1]},
			{"positional argument of a command", &root.Fields[2].Sub.Fields[1].Sub.Fields[0]},
			{"trailing positional argument of a command", &root.Fields[2].Sub.Fields[1].Sub.Fields[1]},
			{"positional-args field of the parser", &root.Fields[3]},
			{"positional argument of the parser", &root.Fields[3].Sub.Fields[0]},
		}
		tg := targets[r.Intn(len(targets))]
		how := []string{"closing quote missing", "colon missing", "opening quote missing", "raw newline in a value", "control: unbroken"}[r.Intn(5)]
		tag := tg.fd.Tag
		switch how {
		case "closing quote missing":
			tag = tag[:len(tag)-1]
		case "colon missing":
			tag = strings.Replace(tag, ":\"", "\"", 1)
		case "opening quote missing":
			tag = strings.Replace(tag, ":\"", ":", 1)
		case "raw newline in a value":
			at := strings.Index(tag, ":\"") + 3
			tag = tag[:at] + "\n" + tag[at:]
		}
		tg.fd.Tag = tag
		cs := &Case{Name: "app", NsDelim: ".", EnvNsDelim: "_"}
		cs.Build = []BuildOp{{Kind: "addgroup", Target: 1, Short: "Application Options", Struct: root},
			{Kind: "setcmd", Target: 1, Attr: "subopt", Vals: []string{"1"}}}
		cs.Ops = []Op{{Kind: "model"}, {Kind: "parse", Args: []string{}}}
		cs.Description = fmt.Sprintf("tag of the %s: %s (%q): %s", tg.what, how, tag, describeOps(cs))
		c.RunCases([]*Case{cs}, func(cr *CaseResult) {
			c.classifyCase(cr)
			c.Class("c19/malformed " + tg.what + ": " + how)
			c.Distinct(cs.Description)
			build, ret := "", ""
			for _, l := range cr.Impl {
				if strings.HasPrefix(l, "R ") && build == "" {
					build = l
				}
				if strings.HasPrefix(l, "RET ") && ret == "" {
					ret = l
				}
				if strings.HasPrefix(l, "HARNESS-PANIC") || strings.HasPrefix(l, "PANIC") {
					build = l
				}
			}
			isTag := func(l, pre string) bool {
				ws := strings.Fields(l + " x x x")
				return ws[0] == pre && ws[1] == "flags" && ws[2] == strconv.Itoa(int(flags.ErrTag))
			}
			var ok bool
			want := "ErrTag when the declaration is added or first used"
			if how == "control: unbroken" {
				ok = build == "R ok" && strings.HasPrefix(ret, "RET ok")
				want = "accepted"
			} else {
				ok = isTag(build, "R") || (build == "R ok" && isTag(ret, "RET"))
			}
			in := map[string]interface{}{"case": cs.Description, "field": tg.what, "fault": how, "tag": tag}
			if !ok {
				in["case_file"] = c.saveCase(cr)
			}
			c.Check("malformed-tag-is-refused-at-setup", ok, "C19:malformed", in, decodeLine(build)+" / "+decodeLine(ret), want)
		})
	}
}

// commandFields: the command-tagged fields of a struct (one level)
func commandFields(sd *StructDesc) []*FieldDesc {
	var out []*FieldDesc
	for i := range sd.Fields {
		if sd.Fields[i].Sub != nil && strings.Contains(sd.Fields[i].Tag, "command:\"") {
			out = append(out, &sd.Fields[i])
		}
	}
	return out
}

// collideTiedCommands (C15): the sibling commands at the top get names at one and the same distance
// from the word "bet", so that which of them is nearest is a tie.
func (g *gen) collideTiedCommands(sd *StructDesc) bool {
	for k := 0; len(commandFields(sd)) < 2; k++ {
		sd.Fields = append(sd.Fields, FieldDesc{Name: fmt.Sprintf("Tied%d", k), Exported: true, Kind: "s", Sub: &StructDesc{}, Tag: quoteTag("command", "tied")})
	}
	cmds := commandFields(sd)
	names := []string{"get", "set", "let", "net", "bat", "bed"}
	g.r.Shuffle(len(names), func(a, b int) { names[a], names[b] = names[b], names[a] })
	for i, f := range cmds {
		if i >= len(names) {
			break
		}
		f.Tag = tagReplace(f.Tag, "command", names[i])
		// (aliases could break the tie)
		var out []string
		for _, p := range splitTagPairs(f.Tag) {
			if !strings.HasPrefix(p, "alias:\"") {
				out = append(out, p)
			}
		}
		f.Tag = strings.Join(out, " ")
	}
	return true
}

// collidePrefixCommands (C13): of two sibling commands the later one is named by the earlier one's
// name plus a suffix (add / add-all), at any level of the tree.
func (g *gen) collidePrefixCommands(sd *StructDesc) bool {
	done := false
	var walk func(s *StructDesc)
	walk = func(s *StructDesc) {
		cmds := commandFields(s)
		if len(cmds) >= 2 && !done {
			a := g.r.Intn(len(cmds) - 1)
			b := a + 1 + g.r.Intn(len(cmds)-a-1)
			if base, ok := tagValue(cmds[a].Tag, "command"); ok && base != "" && !strings.ContainsAny(base, ".]") {
				cmds[b].Tag = tagReplace(cmds[b].Tag, "command", base+[]string{"-all", "s", "2", "x-y"}[g.r.Intn(4)])
				done = true
			}
		}
		for _, f := range cmds {
			walk(f.Sub)
		}
	}
	walk(sd)
	return done
}

// hideOnlyChild (C16): where a command has exactly one subcommand, that one is hidden
func hideOnlyChild(sd *StructDesc) bool {
	done := false
	var walk func(s *StructDesc)
	walk = func(s *StructDesc) {
		cmds := commandFields(s)
		if len(cmds) == 1 && !strings.Contains(cmds[0].Tag, "hidden:\"") {
			cmds[0].Tag += " " + quoteTag("hidden", "1")
			done = true
		}
		for _, f := range cmds {
			walk(f.Sub)
		}
	}
	walk(sd)
	return done
}

// checkC19Exotic: field types outside the model's type universe (two or more levels of slice /
// pointer), declared with and without a default tag, straight against the library (no model run):
// a default on a boolean flag - however the flag reaches bool - is refused with ErrInvalidTag; the
// same field without a default, and non-boolean fields with a default, are accepted.
func checkC19Exotic(c *Ctx, n int) {
	r := c.Rng
	boolT := reflect.TypeOf(false)
	strT := reflect.TypeOf("")
	intT := reflect.TypeOf(0)
	wrap := func(t reflect.Type, how string) reflect.Type {
		for _, h := range how {
			if h == 'L' {
				t = reflect.SliceOf(t)
			} else {
				t = reflect.PtrTo(t)
			}
		}
		return t
	}
	for i := 0; i < n; i++ {
		how := []string{"", "L", "P", "PL", "LP", "PP", "LL", "PLP", "LPP"}[r.Intn(9)] // applied innermost first
		base := []reflect.Type{boolT, boolT, strT, intT}[r.Intn(4)]
		t := wrap(base, how)
		withDefault := r.Intn(3) != 0
		tag := `long:"flag" short:"f"`
		if withDefault {
			// (for a boolean flag every text is refused, the spellings of false included)
			boolDefault := []string{"true", "false", "0", "f", "F", "FALSE", "False", "1", "no", "x"}[r.Intn(10)]
			tag += ` default:"` + map[reflect.Type]string{boolT: boolDefault, strT: "x", intT: "7"}[base] + `"`
			if base == boolT && r.Intn(3) == 0 {
				tag += ` default:"false"`
			}
		}
		st := reflect.StructOf([]reflect.StructField{{Name: "Flag", Type: t, Tag: reflect.StructTag(tag)}})
		v := reflect.New(st)
		var err error
		pan := safe(func() {
			p := flags.NewParser(v.Interface(), flags.None)
			_, err = p.ParseArgs([]string{})
		})
		c.R.Evaluations++
		desc := fmt.Sprintf("field of type %s, tag %s", t, tag)
		c.Distinct("exotic|" + desc)
		c.Class(fmt.Sprintf("c19/exotic bool=%v default=%v levels=%d", base == boolT, withDefault, len(how)))
		in := map[string]interface{}{"declaration": desc}
		got := "accepted"
		if pan != nil {
			got = fmt.Sprintf("panic: %v", pan)
		} else if fe, ok := err.(*flags.Error); ok {
			got = fmt.Sprintf("*flags.Error type %d: %s", fe.Type, fe.Message)
		} else if err != nil {
			got = "error: " + err.Error()
		}
		if base == boolT && withDefault {
			fe, ok := err.(*flags.Error)
			c.Check("default-on-a-boolean-flag-is-refused-whatever-the-indirection", pan == nil && ok && fe.Type == flags.ErrInvalidTag, "C19:exotic", in, got, "ErrInvalidTag")
		} else {
			c.Check("declaration-of-an-indirect-type-is-accepted", pan == nil && err == nil, "C19:exotic", in, got, "accepted")
		}
	}
}

// checkC19Namespaces: an option one to four groups deep (optionally inside a command), every level
// with or without a namespace and an env-namespace of its own.  The public model must report the
// long name and the environment key with the namespaces in the order of the declaration, outermost
// first, joined by the parser's delimiters; the option must answer to that long name and take its
// default from that environment variable and from no other.
func checkC19Namespaces(c *Ctx, n int) {
	r := c.Rng
	for i := 0; i < n; i++ {
		depth := 1 + r.Intn(4)
		nsDelim := []string{".", "-", "::", ""}[r.Intn(4)]
		envDelim := []string{"_", "__", "."}[r.Intn(3)]
		var nss, envs []string
		leaf := &StructDesc{Fields: []FieldDesc{{Name: "Leaf", Exported: true, Kind: "v", Ty: "str", Tag: `long:"leaf" env:"LEAFKEY"`}}}
		cur := leaf
		// built innermost first; the lists are kept outermost first
		for lvl := depth; lvl >= 1; lvl-- {
			tag := quoteTag("group", fmt.Sprintf("Level %d", lvl))
			ns, env := "", ""
			if r.Intn(3) != 0 {
				ns = fmt.Sprintf("n%d", lvl)
				tag += " " + quoteTag("namespace", ns)
			}
			if r.Intn(3) != 0 {
				env = fmt.Sprintf("E%d", lvl)
				tag += " " + quoteTag("env-namespace", env)
			}
			nss = append([]string{ns}, nss...)
			envs = append([]string{env}, envs...)
			filler := FieldDesc{Name: fmt.Sprintf("Fill%d", lvl), Exported: true, Kind: "v", Ty: "bool", Tag: quoteTag("long", fmt.Sprintf("fill%d", lvl))}
			cur = &StructDesc{Fields: []FieldDesc{filler, {Name: fmt.Sprintf("G%d", lvl), Exported: true, Kind: "s", Sub: cur, Tag: tag}}}
		}
		inCommand := r.Intn(3) == 0
		var argv []string
		if inCommand {
			cur = &StructDesc{Fields: []FieldDesc{{Name: "Cmd", Exported: true, Kind: "s", Sub: cur, Tag: `command:"cmd"`}}}
			argv = []string{"cmd"}
		}
		join := func(parts []string, last, delim string) string {
			var out []string
			for _, p := range parts {
				if p != "" {
					out = append(out, p)
				}
			}
			return strings.Join(append(out, last), delim)
		}
		wantLong, wantEnv := join(nss, "leaf", nsDelim), join(envs, "LEAFKEY", envDelim)
		// the declared variable holds the value; every other order of the same namespaces holds a decoy
		env := []EnvVar{}
		rev := append([]string{}, envs...)
		for a, b := 0, len(rev)-1; a < b; a, b = a+1, b-1 {
			rev[a], rev[b] = rev[b], rev[a]
		}
		if k := join(rev, "LEAFKEY", envDelim); k != wantEnv {
			env = append(env, EnvVar{k, "decoy-reversed"})
		}
		if wantEnv != "LEAFKEY" {
			env = append(env, EnvVar{"LEAFKEY", "decoy-bare"})
		}
		env = append(env, EnvVar{wantEnv, "from-the-declared-variable"})
		cs := &Case{Name: "app", NsDelim: nsDelim, EnvNsDelim: envDelim, Env: env}
		cs.Build = []BuildOp{{Kind: "addgroup", Target: 1, Short: "Application Options", Struct: cur}}
		useFlag := r.Intn(2) == 0
		if useFlag {
			argv = append(argv, "--"+wantLong+"=from-the-flag")
		}
		cs.Ops = []Op{{Kind: "model"}, {Kind: "parse", Args: argv}}
		cs.Description = fmt.Sprintf("namespaces %q / %q delimiters %q %q: %s", nss, envs, nsDelim, envDelim, describeOps(cs))
		c.RunCases([]*Case{cs}, func(cr *CaseResult) {
			c.classifyCase(cr)
			if cr.Real == nil || cr.Real.dead {
				return
			}
			c.Class(fmt.Sprintf("c19/namespaces depth=%d in-command=%v", depth, inCommand))
			in := map[string]interface{}{"case": cs.Description, "namespaces": nss, "env_namespaces": envs}
			fail := func(got, want string) {
				in["case_file"] = c.saveCase(cr)
				c.Check("namespaces-are-applied-outermost-first", false, "C19:namespaces", in, got, want)
			}
			var leafOpt *flags.Option
			for _, cmd := range cr.Real.commandsPreorder() {
				for _, grp := range allGroups(cmd) {
					for _, o := range grp.Options() {
						if o.Field().Name == "Leaf" {
							leafOpt = o
						}
					}
				}
			}
			if leafOpt == nil {
				fail("option not in the public model", "option Leaf")
				return
			}
			var gotLong, gotEnv string
			if pan := safe(func() { gotLong, gotEnv = leafOpt.LongNameWithNamespace(), leafOpt.EnvKeyWithNamespace() }); pan != nil {
				fail(fmt.Sprintf("panic: %v", pan), "normal return")
				return
			}
			if gotLong != wantLong || gotEnv != wantEnv {
				fail(fmt.Sprintf("long name %q, environment key %q", gotLong, gotEnv), fmt.Sprintf("long name %q, environment key %q", wantLong, wantEnv))
				return
			}
			var obs parseObs
			for _, o := range parseBlocks(cr) {
				obs = o
			}
			want := "from-the-declared-variable"
			if useFlag {
				want = "from-the-flag"
			}
			cr.Real.register()
			fr, ok := cr.Real.fields["Leaf"]
			if obs.errKind != "ok" || !ok || !fr.val.IsValid() || fr.val.String() != want {
				got := fmt.Sprintf("%s %s type %d %q", obs.panic, obs.errKind, obs.errType, obs.errMsg)
				if ok && fr.val.IsValid() {
					got += fmt.Sprintf(" Leaf=%q", fr.val.String())
				}
				fail(got, "Leaf="+want)
				return
			}
			c.Check("namespaces-are-applied-outermost-first", true, "", nil, "", "")
		})
	}
}

// ---------------------------------------------------------------- C19, containers with a conversion of their own

// struct types that are used as containers (group / command / positional-args) although the type (or
// a pointer to it) also implements flags.Unmarshaler — directly, through a value receiver, or promoted
// from an embedded field.  What such a field declares is decided by its tag, not by its method set.
type ucEndpoint struct {
	Host string `long:"host" short:"H" default:"localhost" description:"host name"`
	Port int    `long:"port" default:"80"`
}

func (e *ucEndpoint) UnmarshalFlag(v string) error { e.Host = v; return nil }

type ucValueRecv struct {
	Host string `long:"host" short:"H" default:"localhost" description:"host name"`
	Port int    `long:"port" default:"80"`
}

func (e ucValueRecv) UnmarshalFlag(v string) error { return nil }

type ucBase struct{ raw string }

func (b *ucBase) UnmarshalFlag(v string) error { b.raw = v; return nil }

type ucPromoted struct {
	ucBase
	Host string `long:"host" short:"H" default:"localhost" description:"host name"`
	Port int    `long:"port" default:"80"`
}

type ucArgs struct {
	File string   `positional-arg-name:"file" description:"the file"`
	Rest []string `positional-arg-name:"rest"`
}

func (a *ucArgs) UnmarshalFlag(v string) error { a.File = v; return nil }

type ucBroken struct {
	Host string `long:"host`
}

func (e *ucBroken) UnmarshalFlag(v string) error { return nil }

func checkC19Containers(c *Ctx, n int) {
	r := c.Rng
	containers := []reflect.Type{reflect.TypeOf(ucEndpoint{}), reflect.TypeOf(ucValueRecv{}), reflect.TypeOf(ucPromoted{})}
	for i := 0; i < n; i++ {
		role := []string{"group", "command", "positional", "broken-group", "broken-command", "plain-struct"}[r.Intn(6)]
		ptr := r.Intn(2) == 0
		var t reflect.Type
		var tag string
		ns := []string{"", "up", "é"}[r.Intn(3)]
		alias := []string{"", "sv"}[r.Intn(2)]
		switch role {
		case "group":
			t = containers[r.Intn(len(containers))]
			tag = `group:"Upstream"`
			if ns != "" {
				tag += " " + quoteTag("namespace", ns)
			}
		case "command":
			t = containers[r.Intn(len(containers))]
			tag = `command:"serve" description:"serve it"`
			if alias != "" {
				tag += " " + quoteTag("alias", alias)
			}
		case "positional":
			t = reflect.TypeOf(ucArgs{})
			tag = `positional-args:"yes"`
		case "broken-group":
			t = reflect.TypeOf(ucBroken{})
			tag = `group:"Upstream"`
		case "broken-command":
			t = reflect.TypeOf(ucBroken{})
			tag = `command:"serve"`
		case "plain-struct":
			// no tag at all: the options declared inside belong to the enclosing group
			t = containers[r.Intn(len(containers))]
		}
		ft := t
		if ptr {
			ft = reflect.PtrTo(t)
		}
		fields := []reflect.StructField{
			{Name: "Verbose", Type: reflect.TypeOf(false), Tag: `long:"verbose" short:"v"`},
			{Name: "Box", Type: ft, Tag: reflect.StructTag(tag)},
		}
		if r.Intn(2) == 0 {
			fields[0], fields[1] = fields[1], fields[0]
		}
		st := reflect.StructOf(fields)
		v := reflect.New(st)
		var err error
		var p *flags.Parser
		var found []string
		pan := safe(func() {
			p = flags.NewParser(nil, flags.None)
			_, err = p.AddGroup("Application Options", "", v.Interface())
			if err != nil {
				return
			}
			host := "host"
			var where *flags.Command = p.Command
			switch role {
			case "group":
				if ns != "" {
					host = ns + "." + host
				}
				if g := p.Command.Group.Find("Upstream"); g != nil {
					found = append(found, "group Upstream")
				}
			case "command":
				if cmd := p.Find("serve"); cmd != nil {
					where = cmd
					found = append(found, "command serve aliases="+strings.Join(cmd.Aliases, ","))
				}
			case "positional":
				for _, a := range p.Args() {
					found = append(found, "arg "+a.Name)
				}
				return
			}
			if o := where.FindOptionByLongName(host); o != nil {
				found = append(found, fmt.Sprintf("option --%s short=%c default=%q description=%q", o.LongNameWithNamespace(), o.ShortName, o.Default, o.Description))
			}
			if o := where.FindOptionByLongName(strings.Replace(host, "host", "port", 1)); o != nil {
				found = append(found, fmt.Sprintf("option --%s default=%q", o.LongNameWithNamespace(), o.Default))
			}
		})
		c.R.Evaluations++
		desc := fmt.Sprintf("field Box of type %s, tag `%s`", ft, tag)
		c.Distinct("container|" + desc + fmt.Sprint(fields[0].Name))
		c.Class("c19/container role=" + role + fmt.Sprintf(" pointer=%v", ptr))
		in := map[string]interface{}{"declaration": desc, "the_type_implements_Unmarshaler": true}
		got := strings.Join(found, "; ")
		if pan != nil {
			got = fmt.Sprintf("panic: %v", pan)
		} else if fe, ok := err.(*flags.Error); ok {
			got = fmt.Sprintf("*flags.Error type %d: %s", fe.Type, fe.Message)
		} else if err != nil {
			got = "error: " + err.Error()
		}
		var want []string
		switch role {
		case "group":
			h := "host"
			if ns != "" {
				h = ns + ".host"
			}
			want = []string{"group Upstream", fmt.Sprintf("option --%s short=H default=%q description=%q", h, []string{"localhost"}, "host name"),
				fmt.Sprintf("option --%s default=%q", strings.Replace(h, "host", "port", 1), []string{"80"})}
		case "command":
			want = []string{"command serve aliases=" + alias, fmt.Sprintf("option --host short=H default=%q description=%q", []string{"localhost"}, "host name"),
				fmt.Sprintf("option --port default=%q", []string{"80"})}
		case "positional":
			want = []string{"arg file", "arg rest"}
		case "plain-struct":
			want = []string{fmt.Sprintf("option --host short=H default=%q description=%q", []string{"localhost"}, "host name"),
				fmt.Sprintf("option --port default=%q", []string{"80"})}
		}
		if strings.HasPrefix(role, "broken") {
			fe, ok := err.(*flags.Error)
			c.Check("malformed-tag-inside-a-container-is-refused", pan == nil && ok && fe.Type == flags.ErrTag, "C19:container", in, got, "ErrTag")
			continue
		}
		c.Check("container-field-declares-what-its-tag-says", pan == nil && err == nil && got == strings.Join(want, "; "), "C19:container", in, got, strings.Join(want, "; "))
	}
}

// checkC19GroupAddGroup (library alone): a declaration attached with (*Group).AddGroup - below a group
// the program created before - is checked like any other: two of its options sharing a short name, a
// long name, or a long name that collides only through a nested group's namespace are refused with
// ErrDuplicatedFlag; a declaration without a clash is accepted and its options are reachable.
func checkC19GroupAddGroup(c *Ctx, n int) {
	r := c.Rng
	type plain struct {
		A bool `short:"a" long:"alpha"`
		B bool `short:"b" long:"beta"`
	}
	type dupShort struct {
		A bool `short:"a" long:"alpha"`
		B bool `short:"a" long:"beta"`
	}
	type dupLong struct {
		A bool `short:"a" long:"same"`
		B bool `short:"b" long:"same"`
	}
	type dupNs struct {
		A   bool `long:"n.x"`
		Sub struct {
			X bool `long:"x"`
		} `group:"Sub" namespace:"n"`
	}
	type okNs struct {
		A   bool `long:"x"`
		Sub struct {
			X bool `long:"x"`
		} `group:"Sub" namespace:"n"`
	}
	for i := 0; i < n; i++ {
		var decl interface{}
		kind := r.Intn(5)
		wantDup := true
		switch kind {
		case 0:
			decl, wantDup = &plain{}, false
		case 1:
			decl = &dupShort{}
		case 2:
			decl = &dupLong{}
		case 3:
			decl = &dupNs{}
		default:
			decl, wantDup = &okNs{}, false
		}
		where := []string{"Group.AddGroup", "Group.AddGroup below a nested group", "Command.AddGroup", "Parser.AddGroup"}[r.Intn(4)]
		var err error
		pan := safe(func() {
			p := flags.NewNamedParser("app", flags.None)
			base := &struct {
				V bool `short:"v"`
			}{}
			g, e0 := p.AddGroup("Base", "", base)
			if e0 != nil {
				err = e0
				return
			}
			switch where {
			case "Group.AddGroup":
				_, err = g.AddGroup("Late", "", decl)
			case "Group.AddGroup below a nested group":
				g2, e1 := g.AddGroup("Mid", "", &struct {
					W bool `short:"w"`
				}{})
				if e1 != nil {
					err = e1
					return
				}
				_, err = g2.AddGroup("Late", "", decl)
			case "Command.AddGroup":
				cmd, e1 := p.AddCommand("run", "run", "", &struct{}{})
				if e1 != nil {
					err = e1
					return
				}
				_, err = cmd.AddGroup("Late", "", decl)
			default:
				_, err = p.AddGroup("Late", "", decl)
			}
		})
		c.R.Evaluations++
		desc := fmt.Sprintf("%T attached with %s", decl, where)
		c.Distinct("c19addgroup|" + desc)
		c.Class("c19/late-group via " + where + fmt.Sprintf(" clash=%v", wantDup))
		in := map[string]interface{}{"declaration": fmt.Sprintf("%T", decl), "attached_with": where}
		got := "accepted"
		if pan != nil {
			got = fmt.Sprintf("panic: %v", pan)
		} else if fe, ok := err.(*flags.Error); ok {
			got = fmt.Sprintf("*flags.Error type %d: %s", fe.Type, fe.Message)
		} else if err != nil {
			got = "error: " + err.Error()
		}
		if wantDup {
			fe, ok := err.(*flags.Error)
			c.Check("a-clash-inside-a-late-declaration-is-refused", pan == nil && ok && fe.Type == flags.ErrDuplicatedFlag, "C19:group-addgroup", in, got, "ErrDuplicatedFlag")
		} else {
			c.Check("a-late-declaration-without-a-clash-is-accepted", pan == nil && err == nil, "C19:group-addgroup", in, got, "accepted")
		}
	}
}

// checkC19Counts: the count constraint a positional field declares (`required:"N"`, `"N-M"`, `"N-"`, `"-M"`, a
// non-numeric mark) is what the public model reports — also a lower bound of ZERO (`0-2`, `0-0`, `0`), for the
// parser's and a command's positional arguments, for the trailing slice and the plain fields.
func checkC19Counts(c *Ctx, n int) {
	r := c.Rng
	specs := []string{"0-2", "0-0", "0", "1-2", "2", "-3", "2-", "yes", "true", "0-", "3-3", "x-2", "1-x", ""}
	reading := func(spec string) (int, int) {
		if spec == "" {
			return -1, -1
		}
		req, max := 1, -1
		if k := strings.Index(spec, "-"); k >= 0 {
			if v, err := strconv.Atoi(spec[:k]); err == nil && spec[:k] != "" {
				req = v
			}
			if v, err := strconv.Atoi(spec[k+1:]); err == nil && spec[k+1:] != "" {
				max = v
			}
		} else if v, err := strconv.Atoi(spec); err == nil {
			req = v
		}
		return req, max
	}
	for i := 0; i < n; i++ {
		s1, s2 := specs[r.Intn(len(specs))], specs[r.Intn(len(specs))]
		tagOf := func(s string) string {
			if s == "" {
				return ""
			}
			return fmt.Sprintf(`required:"%s"`, s)
		}
		pos := &StructDesc{Fields: []FieldDesc{
			{Name: "First", Exported: true, Kind: "v", Ty: "str", Tag: tagOf(s1)},
			{Name: "Rest", Exported: true, Kind: "v", Ty: "Lstr", Tag: tagOf(s2)}}}
		holder := &StructDesc{Fields: []FieldDesc{
			{Name: "V", Exported: true, Kind: "v", Ty: "bool", Tag: `short:"v"`},
			{Name: "Args", Exported: true, Kind: "s", Sub: pos, Tag: `positional-args:"yes"`}}}
		root := holder
		onCmd := r.Intn(2) == 0
		if onCmd {
			root = &StructDesc{Fields: []FieldDesc{{Name: "Run", Exported: true, Kind: "s", Sub: holder, Tag: `command:"run"`}}}
		}
		cs := &Case{Name: "app", NsDelim: ".", EnvNsDelim: "_"}
		cs.Build = []BuildOp{{Kind: "addgroup", Target: 1, Short: "Application Options", Struct: root}}
		cs.Ops = []Op{{Kind: "model"}}
		cs.Description = describeOps(cs) + fmt.Sprintf(" First `%s` Rest `%s`", tagOf(s1), tagOf(s2))
		c.RunCases([]*Case{cs}, func(cr *CaseResult) {
			c.classifyCase(cr)
			if cr.Real == nil || cr.Real.dead {
				return
			}
			c.Class(fmt.Sprintf("c19/counts: first=%q rest=%q on-command=%v", s1, s2, onCmd))
			cmd := cr.Real.p.Command
			if onCmd {
				cmd = cr.Real.p.Find("run")
			}
			args := cmd.Args()
			got := "no positional arguments"
			if len(args) == 2 {
				got = fmt.Sprintf("First required=%d max=%d; Rest required=%d max=%d", args[0].Required, args[0].RequiredMaximum, args[1].Required, args[1].RequiredMaximum)
			}
			a1, b1 := reading(s1)
			a2, b2 := reading(s2)
			want := fmt.Sprintf("First required=%d max=%d; Rest required=%d max=%d", a1, b1, a2, b2)
			in := map[string]interface{}{"case": cs.Description, "first_tag": tagOf(s1), "rest_tag": tagOf(s2)}
			if got != want {
				in["case_file"] = c.saveCase(cr)
			}
			c.Check("positional-counts-reflect-the-tag", got == want, "C19:counts", in, got, want)
		})
	}
}
