package main

import (
	"strconv"
	"strings"
)

// Deliberate name relations between an option at the top of a declaration and one in a nested
// group — the situations a uniform generator reaches only by luck.

func tagValue(tag, key string) (string, bool) {
	for _, p := range splitTagPairs(tag) {
		if strings.HasPrefix(p, key+":\"") {
			v, err := strconv.Unquote(p[len(key)+1:])
			return v, err == nil
		}
	}
	return "", false
}

func tagReplace(tag, key, value string) string {
	var out []string
	for _, p := range splitTagPairs(tag) {
		if !strings.HasPrefix(p, key+":\"") {
			out = append(out, p)
		}
	}
	out = append(out, quoteTag(key, value))
	return strings.Join(out, " ")
}

func isOptionField(f *FieldDesc) bool {
	return f.Kind == "v" && f.Exported && (strings.Contains(f.Tag, "long:\"") || strings.Contains(f.Tag, "short:\""))
}

// topAndNested: option fields directly in sd, and option fields inside its group-tagged structs.
func topAndNested(sd *StructDesc) (top, nested []*FieldDesc) {
	for i := range sd.Fields {
		f := &sd.Fields[i]
		if isOptionField(f) {
			top = append(top, f)
		} else if f.Sub != nil && strings.Contains(f.Tag, "group:\"") {
			var walk func(s *StructDesc)
			walk = func(s *StructDesc) {
				for j := range s.Fields {
					g := &s.Fields[j]
					if isOptionField(g) {
						nested = append(nested, g)
					} else if g.Sub != nil && !strings.Contains(g.Tag, "command:\"") && !strings.Contains(g.Tag, "positional-args:\"") {
						walk(g.Sub)
					}
				}
			}
			walk(f.Sub)
		}
	}
	return
}

// collideDuplicate (C19): a nested option takes over the long or short name of a top-level one.
func (g *gen) collideDuplicate(sd *StructDesc) bool {
	top, nested := topAndNested(sd)
	if len(top) == 0 || len(nested) == 0 {
		return false
	}
	t, n := top[g.r.Intn(len(top))], nested[g.r.Intn(len(nested))]
	if s, ok := tagValue(t.Tag, "short"); ok && s != "" && g.chance(0.5) {
		n.Tag = tagReplace(n.Tag, "short", s)
		return true
	}
	if l, ok := tagValue(t.Tag, "long"); ok && l != "" {
		n.Tag = tagReplace(n.Tag, "long", l)
		return true
	}
	return false
}

// collidePriority (C13): a top-level option gets, as a HIGH-priority name (ini-name or long
// name), the text that names a nested option at a LOWER priority (its short name or long name).
func (g *gen) collidePriority(sd *StructDesc) bool {
	top, nested := topAndNested(sd)
	if len(top) == 0 || len(nested) == 0 {
		return false
	}
	t, n := top[g.r.Intn(len(top))], nested[g.r.Intn(len(nested))]
	if s, ok := tagValue(n.Tag, "short"); ok && s != "" {
		if g.chance(0.5) {
			t.Tag = tagReplace(t.Tag, "ini-name", s)
		} else if s != "=" {
			t.Tag = tagReplace(t.Tag, "long", s)
		}
		return true
	}
	if l, ok := tagValue(n.Tag, "long"); ok && l != "" {
		t.Tag = tagReplace(t.Tag, "ini-name", l)
		return true
	}
	return false
}
