module verifharness

go 1.15

require (
	github.com/jessevdk/go-flags v0.0.0
	golang.org/x/sys v0.0.0-20210320140829-1e4c9ba3b0c4
)

replace github.com/jessevdk/go-flags => /repo
