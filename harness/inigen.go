package main

import (
	"fmt"
	"strconv"
	"strings"

	flags "github.com/jessevdk/go-flags"
)

type iniProfile struct {
	Noise   float64 // blank lines, comments, white space, CRLF
	Fault   float64 // probability of one faulty line
	Unknown float64 // unknown sections / options
	Bytes   float64 // arbitrary bytes instead of a structured file
}

type iniOptInfo struct {
	o     *flags.Option
	code  string
	names []string // the four ways to name it (those that exist)
}

func caseMix(g *gen, s string) string {
	switch g.r.Intn(4) {
	case 0:
		return strings.ToUpper(s)
	case 1:
		return strings.ToLower(s)
	}
	return s
}

// sectionsOf: section spellings and the options they address.
func (g *gen) iniSections(real *Real) []struct {
	name string
	opts []iniOptInfo
} {
	var out []struct {
		name string
		opts []iniOptInfo
	}
	info := func(grps []*flags.Group) []iniOptInfo {
		var os []iniOptInfo
		for _, grp := range grps {
			for _, o := range grp.Options() {
				var names []string
				if in := reflectTag(o, "ini-name"); in != "" {
					names = append(names, in, strings.ToUpper(in))
				}
				names = append(names, o.Field().Name)
				if ln := o.LongNameWithNamespace(); ln != "" {
					names = append(names, ln)
				}
				if o.ShortName != 0 {
					names = append(names, string(o.ShortName))
				}
				os = append(os, iniOptInfo{o, real.optCode(o), names})
			}
		}
		return os
	}
	var subtree func(g *flags.Group) []*flags.Group
	subtree = func(g *flags.Group) []*flags.Group {
		out := []*flags.Group{g}
		for _, s := range g.Groups() {
			out = append(out, subtree(s)...)
		}
		return out
	}
	root := real.p.Command
	out = append(out, struct {
		name string
		opts []iniOptInfo
	}{"", info(allGroups(root))})
	var walk func(c *flags.Command, path string)
	walk = func(c *flags.Command, path string) {
		for _, grp := range allGroups(c)[1:] {
			if grp.ShortDescription == "" {
				continue
			}
			n := grp.ShortDescription
			if path != "" {
				n = path + "." + n
			}
			out = append(out, struct {
				name string
				opts []iniOptInfo
			}{n, info(subtree(grp))})
		}
		for _, s := range c.Commands() {
			p := s.Name
			if path != "" {
				p = path + "." + s.Name
			}
			out = append(out, struct {
				name string
				opts []iniOptInfo
			}{p, info(subtree(s.Group))})
			walk(s, p)
		}
	}
	walk(root, "")
	return out
}

func reflectTag(o *flags.Option, key string) string {
	v, _ := o.Field().Tag.Lookup(key)
	return v
}

func (g *gen) iniValue(code string, choices []string) string {
	if isBoolCode(code) {
		return []string{"", "true", "false", "1", ""}[g.r.Intn(5)]
	}
	v := g.valueText(code, choices)
	if g.plainIni {
		// no quoting games: the text must be syntactically valid whatever the value
		if strings.HasPrefix(v, "\"") {
			v = "q" + v
		}
		return strings.TrimSpace(v)
	}
	switch g.r.Intn(10) {
	case 0:
		return strconv.Quote(v)
	case 1:
		if code[0] == 'M' {
			kv := strings.SplitN(v, ":", 2)
			if len(kv) == 2 {
				return kv[0] + ":" + strconv.Quote(kv[1])
			}
		}
	case 2:
		if code[0] == 'M' {
			return strings.SplitN(v, ":", 2)[0] + ":"
		}
	}
	return v
}

// genIniText renders an INI file for the realised parser.
func (g *gen) genIniText(real *Real, ip iniProfile) string {
	r := g.r
	if g.chance(ip.Bytes) {
		return genBytes(r, 80)
	}
	secs := g.iniSections(real)
	var lines []string
	noise := func() {
		for g.chance(ip.Noise) {
			lines = append(lines, []string{"", "; a comment", "# another = one", "   ", "\t", ";[x]", "  ; indented"}[r.Intn(7)])
		}
	}
	nsec := 1 + r.Intn(3)
	for i := 0; i < nsec; i++ {
		sec := secs[r.Intn(len(secs))]
		if i == 0 && g.chance(0.5) {
			sec = secs[0]
		}
		noise()
		if sec.name != "" || g.chance(0.1) {
			name := caseMix(g, sec.name)
			if g.chance(ip.Unknown) {
				name = "No Such Section"
			}
			hdr := "[" + name + "]"
			if g.chance(ip.Noise) {
				hdr = "  [ " + name + " ]  "
			}
			if sec.name != "" || name != "" {
				lines = append(lines, hdr)
			}
		}
		if len(sec.opts) == 0 {
			continue
		}
		nent := r.Intn(4)
		for j := 0; j < nent; j++ {
			oi := sec.opts[r.Intn(len(sec.opts))]
			name := oi.names[r.Intn(len(oi.names))]
			if g.chance(ip.Unknown) {
				name = "nosuchoption"
			}
			val := g.iniValue(oi.code, oi.o.Choices)
			noise()
			eq := " = "
			switch r.Intn(5) {
			case 0:
				eq = "="
			case 1:
				eq = "  =\t"
			}
			line := name + eq + val
			if g.chance(ip.Noise) {
				line = "  " + line + "  "
			}
			lines = append(lines, line)
		}
	}
	noise()
	if g.chance(ip.Fault) && len(lines) > 0 {
		bad := []string{"[unterminated", "no equals sign here", "[]", "[  ]", "k = \"unterminated", "= novalue", "k = \"bad\\q\"", "[a]x"}[r.Intn(8)]
		at := r.Intn(len(lines) + 1)
		lines = append(lines[:at:at], append([]string{bad}, lines[at:]...)...)
	}
	sep := "\n"
	if g.chance(ip.Noise / 2) {
		sep = "\r\n"
	}
	text := strings.Join(lines, sep)
	if g.chance(0.8) {
		text += sep
	}
	return text
}

// genCompleteArgs: a valid-ish prefix followed by a partial last word.
func (g *gen) genCompleteArgs(real *Real) []string {
	save := g.p.ArgvLen
	g.p.ArgvLen = 4
	args := g.genArgv(real)
	g.p.ArgvLen = save
	r := g.r
	var all []optInfo
	for _, c := range real.commandsPreorder() {
		all = append(all, g.optsOf(real, c)...)
	}
	last := ""
	switch r.Intn(10) {
	case 0:
		last = "-"
	case 1:
		last = "--"
	case 2:
		last = ""
	case 3, 4:
		if len(all) > 0 {
			o := all[r.Intn(len(all))]
			if o.long != "" {
				n := r.Intn(len(o.long) + 1)
				last = "--" + o.long[:n]
				if g.chance(0.3) {
					last = "--" + o.long + "=" + []string{"", "r", "g", "x"}[r.Intn(4)]
				}
			} else if o.short != 0 {
				last = "-" + string(o.short)
			}
		}
	case 5:
		if len(all) > 0 {
			o := all[r.Intn(len(all))]
			if o.short != 0 {
				last = "-" + string(o.short) + []string{"", "r", "=g", "gr"}[r.Intn(4)]
			}
		}
	case 6:
		cmds := real.commandsPreorder()
		c := cmds[r.Intn(len(cmds))]
		if len(c.Name) > 0 {
			last = c.Name[:r.Intn(len(c.Name)+1)]
		}
	case 7:
		last = []string{"r", "g", "b", "gre"}[r.Intn(4)]
	default:
		last = genWord(r, 0, 3, 0.1)
	}
	return append(args, last)
}

func describeOps(c *Case) string {
	var ops []string
	for _, op := range c.Ops {
		switch op.Kind {
		case "parse", "complete":
			ops = append(ops, fmt.Sprintf("%s %q", op.Kind, op.Args))
		case "iniparse":
			ops = append(ops, fmt.Sprintf("iniparse asDefaults=%v %q", op.AsDefaults, op.Text))
		case "iniwrite":
			ops = append(ops, fmt.Sprintf("iniwrite %d", op.Bits))
		case "help":
			ops = append(ops, fmt.Sprintf("help cols=%d", op.Cols))
		case "build":
			ops = append(ops, fmt.Sprintf("%s on command %d %s%s", op.B.Kind, op.B.Target, op.B.Name+op.B.Short+op.B.Attr, strings.Join(op.B.Vals, ",")))
		default:
			ops = append(ops, op.Kind)
		}
	}
	return fmt.Sprintf("opts=%d handler=%s build=%d ops=[%s]", uint(c.Opts), c.Handler, len(c.Build), strings.Join(ops, "; "))
}
