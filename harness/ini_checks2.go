package main

import (
	"fmt"
	"strconv"
	"strings"

	flags "github.com/jessevdk/go-flags"
)

// ---------------------------------------------------------------- C13: an INI entry means what the flag means

// resolveIniName: independent re-statement of the documented name priority over a list of
// options in traversal order: ini-name (case-insensitive) > field name > namespaced long name >
// short name; the first option at the best priority.
func resolveIniName(opts []*flags.Option, name string) *flags.Option {
	best, bestPrio := (*flags.Option)(nil), 0
	for _, o := range opts {
		prio := 0
		switch {
		case strings.EqualFold(reflectTag(o, "ini-name"), name) && strings.ToLower(reflectTag(o, "ini-name")) == strings.ToLower(name):
			prio = 4
		case o.Field().Name == name:
			prio = 3
		case o.LongNameWithNamespace() == name:
			prio = 2
		case o.ShortName != 0 && string(o.ShortName) == name:
			prio = 1
		}
		if prio > bestPrio {
			best, bestPrio = o, prio
		}
	}
	if best != nil && reflectTag(best, "no-ini") != "" {
		return nil
	}
	return best
}

// resolveGlobalIniName: entries before any section header address all of the parser's own groups,
// one after the other (each with the groups nested in it); the first group in which the name's
// best-ranked option may be set from a file supplies the option.
func resolveGlobalIniName(root *flags.Group, name string) *flags.Option {
	var subtree func(g *flags.Group) []*flags.Option
	subtree = func(g *flags.Group) []*flags.Option {
		out := append([]*flags.Option{}, g.Options()...)
		for _, s := range g.Groups() {
			out = append(out, subtree(s)...)
		}
		return out
	}
	var found *flags.Option
	var walk func(g *flags.Group)
	walk = func(g *flags.Group) {
		if found == nil {
			found = resolveIniName(subtree(g), name)
		}
		for _, s := range g.Groups() {
			walk(s)
		}
	}
	walk(root)
	return found
}

// collideNoIni (C13): a top-level option that files may not set (no-ini) has, as its field name,
// the long name of an option in a nested group: the name then denotes the nested option, in a file
// as on the command line.
func (g *gen) collideNoIni(sd *StructDesc) bool {
	top, nested := topAndNested(sd)
	if len(top) == 0 || len(nested) == 0 {
		return false
	}
	t, n := top[g.r.Intn(len(top))], nested[g.r.Intn(len(nested))]
	if _, ok := tagValue(t.Tag, "no-ini"); !ok {
		t.Tag += ` no-ini:"true"`
	}
	if _, ok := tagValue(n.Tag, "ini-name"); ok {
		return false
	}
	n.Tag = tagReplace(n.Tag, "long", t.Name)
	return true
}

func checkC13(c *Ctx, n int) {
	p := defaultProfile
	p.BadDecl = 0
	p.Exec = false
	p.Handlers = false
	p.Required = 0
	p.PosArgs = 0
	p.MaxCmdDepth = 0
	p.OptsMask = flags.PassDoubleDash
	p.Env = 0
	p.Defaults = 0.1
	for i := 0; i < n; i++ {
		g := &gen{r: c.Rng, p: p}
		if i%2 == 1 {
			// sections that are dotted command paths; options that already hold something
			g.p.MaxCmdDepth, g.p.SubOpt, g.p.InitVals = 2, 1, 0.4
		}
		// (default tags that do not convert would fail every command line for a reason of their own)
		valueBad := g.p.ValueBad
		g.p.ValueBad = 0
		cs := g.genCase()
		g.p.ValueBad = valueBad
		collided := false
		if g.chance(0.4) {
			collided = g.collidePriority(cs.Build[0].Struct)
		}
		noIni := false
		if !collided && g.chance(0.35) && cs.Build[0].Struct != nil {
			noIni = g.collideNoIni(cs.Build[0].Struct)
		}
		prefixed := false
		if i%2 == 1 && g.chance(0.4) && cs.Build[0].Struct != nil {
			// sibling commands of which one is named by the other's name plus a suffix
			prefixed = g.collidePrefixCommands(cs.Build[0].Struct)
		}
		real, _ := BuildReal(cs)
		if real.dead || !uniqueSubcommandNames(real) {
			continue
		}
		if collided {
			c.Class("c13/deliberate-cross-group-name-clash")
		}
		if prefixed {
			c.Class("c13/sibling-commands-one-name-a-prefix-of-the-other")
		}
		// candidate sections of the parser's own groups
		type sec struct {
			name  string
			opts  []*flags.Option
			path  []string        // command words that select the section's command on the command line
			scope []*flags.Option // every option in scope there (for the uniqueness of the long name)
			cmd   *flags.Command
		}
		var secs []sec
		var all []*flags.Option
		for _, grp := range allGroups(real.p.Command) {
			all = append(all, grp.Options()...)
		}
		secs = append(secs, sec{name: "", opts: all, scope: all, cmd: real.p.Command})
		var subtree func(g *flags.Group) []*flags.Option
		subtree = func(g *flags.Group) []*flags.Option {
			out := append([]*flags.Option{}, g.Options()...)
			for _, s := range g.Groups() {
				out = append(out, subtree(s)...)
			}
			return out
		}
		for _, grp := range allGroups(real.p.Command)[1:] {
			if grp.ShortDescription != "" {
				secs = append(secs, sec{name: grp.ShortDescription, opts: subtree(grp), scope: all, cmd: real.p.Command})
			}
		}
		// sections of commands: the dotted path of command names
		var walkCmds func(cmd *flags.Command, path []string, scope []*flags.Option)
		walkCmds = func(cmd *flags.Command, path []string, scope []*flags.Option) {
			for _, sub := range cmd.Commands() {
				if strings.ContainsAny(sub.Name, ".%") || strings.HasPrefix(sub.Name, "-") || sub.Name == "" {
					continue
				}
				// the word must select this very command on the command line too (a sibling may carry
				// the name as an alias, which then wins there)
				matches := 0
				for _, x := range cmd.Commands() {
					if x.Name == sub.Name {
						matches++
					}
					for _, a := range x.Aliases {
						if a == sub.Name {
							matches++
						}
					}
				}
				if matches != 1 {
					continue
				}
				p2 := append(append([]string{}, path...), sub.Name)
				own := subtree(sub.Group)
				sc2 := append(append([]*flags.Option{}, scope...), own...)
				secs = append(secs, sec{name: strings.Join(p2, "."), opts: own, path: p2, scope: sc2, cmd: sub})
				walkCmds(sub, p2, sc2)
			}
		}
		walkCmds(real.p.Command, nil, all)
		s := secs[c.Rng.Intn(len(secs))]
		if len(s.path) == 0 && len(secs) > 0 && i%2 == 1 {
			// prefer a command section in the runs that declare commands
			for try := 0; try < 4 && len(s.path) == 0; try++ {
				s = secs[c.Rng.Intn(len(secs))]
			}
		}
		if collided && c.Rng.Intn(3) != 0 {
			s = secs[0]
		}
		if noIni {
			s = secs[0]
		}
		if len(s.opts) == 0 {
			continue
		}
		target := s.opts[c.Rng.Intn(len(s.opts))]
		forceName := ""
		if noIni {
			for _, o := range s.opts {
				for _, o2 := range s.opts {
					if o2 != o && reflectTag(o2, "no-ini") != "" && o2.Field().Name == o.LongNameWithNamespace() && reflectTag(o, "no-ini") == "" {
						target, forceName = o, o.LongNameWithNamespace()
					}
				}
			}
		}
		if collided {
			// look for an option whose names clash with another option's
			for _, o := range s.opts {
				in := reflectTag(o, "ini-name")
				for _, o2 := range s.opts {
					if o2 != o && in != "" && o2.ShortName != 0 && (string(o2.ShortName) == in || o2.LongNameWithNamespace() == in) {
						target = o
					}
				}
			}
		}
		code := real.optCode(target)
		long := target.LongNameWithNamespace()
		if code[0] == 'F' || long == "" || strings.Contains(long, "=") || reflectTag(target, "no-ini") != "" || code == "c1" {
			continue
		}
		// the long name must reach this very option on the command line
		if s.cmd.FindOptionByLongName(long) != target {
			continue
		}
		dup := 0
		for _, o := range s.scope {
			if o.LongNameWithNamespace() == long {
				dup++
			}
		}
		if dup != 1 {
			continue
		}
		if len(s.path) > 0 {
			c.Class("c13/section-is-a-command-path")
		}
		// the name used in the file, and the option it is documented to select
		var names []string
		if in := reflectTag(target, "ini-name"); in != "" {
			names = append(names, in, strings.ToUpper(in))
		}
		names = append(names, target.Field().Name, long)
		if target.ShortName != 0 {
			names = append(names, string(target.ShortName))
		}
		name := names[c.Rng.Intn(len(names))]
		if collided {
			// prefer the names other options also answer to
			for _, cand := range names {
				n := 0
				for _, o := range s.opts {
					if strings.EqualFold(reflectTag(o, "ini-name"), cand) || o.Field().Name == cand || o.LongNameWithNamespace() == cand || (o.ShortName != 0 && string(o.ShortName) == cand) {
						n++
					}
				}
				if n > 1 {
					name = cand
				}
			}
		}
		if forceName != "" {
			name = forceName
			c.Class("c13/name-is-also-the-field-name-of-a-no-ini-option")
		}
		resolved := resolveIniName(s.opts, name)
		if s.name == "" && len(s.path) == 0 {
			resolved = resolveGlobalIniName(real.p.Command.Group, name)
		}
		if resolved != target || name != strings.TrimSpace(name) || strings.ContainsAny(name, "=[;#") {
			c.Class("c13/name-resolves-elsewhere-skip")
			continue
		}
		// values: 1..3 entries
		k := 1
		if code[0] == 'L' || code[0] == 'M' || c.Rng.Intn(4) == 0 {
			k = 1 + c.Rng.Intn(3)
		}
		var vals []string
		for j := 0; j < k; j++ {
			v := g.valueText(code, target.Choices)
			if isBoolCode(code) {
				v = []string{"", "", "true"}[c.Rng.Intn(3)]
			}
			v = strings.TrimSpace(v)
			if strings.HasPrefix(v, "\"") || strings.HasPrefix(v, "-") {
				v = "v" + v
			}
			if code[0] == 'M' {
				// the INI reader unquotes a quoted map value; the flag form has no such rule
				v = strings.Replace(v, ":\"", ":q\"", 1)
				// … but a quote further on in the value part - behind a later colon - is text in both
				if strings.HasSuffix(code, ",str") && c.Rng.Intn(3) == 0 && strings.Contains(v, ":") {
					v += []string{":\"hi\"", ":\"", "x:\"a b\" c"}[c.Rng.Intn(3)]
				}
			}
			vals = append(vals, v)
		}
		// group descriptions match case-insensitively; a command path is spelled exactly
		secName := s.name
		if len(s.path) == 0 {
			secName = caseMix(g, s.name)
		}
		var ini strings.Builder
		// the entries may be spread over two sections that denote the same group: entries before any
		// header (they address all of the parser's own groups) and the group's own section, or two
		// spellings of the group's description that differ in case
		splitAt, secondHeader := -1, ""
		if len(vals) >= 2 && len(s.path) == 0 && s.name != "" && c.Rng.Intn(2) == 0 {
			if resolveGlobalIniName(real.p.Command.Group, name) == target && c.Rng.Intn(2) == 0 {
				splitAt, secondHeader = 1+c.Rng.Intn(len(vals)-1), secName
				secName = ""
				c.Class("c13/entries-split-over-global-and-group-section")
			} else if strings.ToUpper(s.name) != strings.ToLower(s.name) {
				splitAt, secondHeader = 1+c.Rng.Intn(len(vals)-1), strings.ToUpper(s.name)
				secName = strings.ToLower(s.name)
				c.Class("c13/entries-split-over-two-spellings-of-the-section")
			}
		}
		if secName != "" {
			if c.Rng.Intn(4) == 0 {
				// the section is opened once before, with nothing in it but a comment (a template file)
				ini.WriteString("[" + secName + "]\n; " + name + " = (unset)\n\n")
				c.Class("c13/section-opened-empty-before")
			}
			ini.WriteString("[" + secName + "]\n")
		}
		// repeated entries accumulate whichever of the option's names each of them uses: with two or more
		// entries, half of the cases name the option differently from entry to entry
		entryNames := make([]string, len(vals))
		for j := range entryNames {
			entryNames[j] = name
		}
		if len(vals) >= 2 && forceName == "" && c.Rng.Intn(2) == 0 {
			var alts []string
			for _, cand := range names {
				res := resolveIniName(s.opts, cand)
				if s.name == "" && len(s.path) == 0 {
					res = resolveGlobalIniName(real.p.Command.Group, cand)
				}
				if splitAt >= 0 && resolveGlobalIniName(real.p.Command.Group, cand) != target {
					continue
				}
				if res == target && cand == strings.TrimSpace(cand) && !strings.ContainsAny(cand, "=[;#") {
					alts = append(alts, cand)
				}
			}
			if len(alts) >= 2 {
				for j := range entryNames {
					entryNames[j] = alts[c.Rng.Intn(len(alts))]
				}
				// (the ini-name last: a name the option was read under before must not displace it)
				if in := reflectTag(target, "ini-name"); in != "" && c.Rng.Intn(2) == 0 {
					for _, a := range alts {
						if a == in {
							entryNames[len(entryNames)-1] = in
							if entryNames[0] == in {
								entryNames[0] = alts[0]
							}
						}
					}
				}
				c.Class("c13/entries-of-one-option-under-different-names")
			}
		}
		argv := append([]string{}, s.path...)
		for vi, v := range vals {
			if vi == splitAt {
				ini.WriteString("[" + secondHeader + "]\n")
			}
			ini.WriteString(entryNames[vi] + " = " + v + "\n")
			if isBoolCode(code) && v == "" {
				argv = append(argv, "--"+long)
			} else {
				argv = append(argv, "--"+long+"="+v)
			}
		}
		// a field name in another letter case is no name of the option (only the ini-name is matched
		// without regard to case): unless something else answers to that spelling, the entry is unknown
		if fn := target.Field().Name; c.Rng.Intn(6) == 0 {
			wrong := strings.ToLower(fn)
			if wrong == fn {
				wrong = strings.ToUpper(fn)
			}
			res := resolveIniName(s.opts, wrong)
			if s.name == "" && len(s.path) == 0 {
				res = resolveGlobalIniName(real.p.Command.Group, wrong)
			}
			ciClash := false
			for _, o := range s.opts {
				if strings.EqualFold(reflectTag(o, "ini-name"), wrong) {
					ciClash = true
				}
			}
			if wrong != fn && res == nil && !ciClash {
				text := ""
				if secName != "" {
					text = "[" + secName + "]\n"
				}
				text += wrong + " = " + vals[0] + "\n"
				w := *cs
				w.Ops = []Op{{Kind: "iniparse", Text: text}}
				w.Description = describeOps(&w)
				c.RunCases([]*Case{&w}, func(cr *CaseResult) {
					c.Class("c13/field-name-in-the-wrong-letter-case")
					l := firstLine(cr.Impl, "INI ")
					ok := strings.HasPrefix(l, "INI ini ") && strings.Contains(decodeLine(l), "unknown option")
					inW := map[string]interface{}{"ini": text, "field_name": fn, "written_as": wrong}
					if !ok {
						inW["case_file"] = c.saveCase(cr)
					}
					c.Check("field-name-matches-exactly", ok, "C13:field-name-case", inW, decodeLine(l), "unknown option: "+wrong)
				})
			}
		}
		asDefaults := c.Rng.Intn(3) == 0
		a, b := *cs, *cs
		a.Ops = []Op{{Kind: "iniparse", Text: ini.String(), AsDefaults: asDefaults}}
		if asDefaults {
			a.Ops = append(a.Ops, Op{Kind: "parse", Args: []string{}})
		}
		b.Ops = []Op{{Kind: "parse", Args: argv}}
		a.Description, b.Description = describeOps(&a), describeOps(&b)
		var ra, rb *CaseResult
		c.RunCases([]*Case{&a, &b}, func(cr *CaseResult) {
			if ra == nil {
				ra = cr
			} else {
				rb = cr
			}
		})
		if ra == nil || rb == nil {
			continue
		}
		c.Class(fmt.Sprintf("c13/pair name=%s asdefaults=%v entries=%d", map[bool]string{true: "field/ini/long/short"}[true], asDefaults, k))
		c.Distinct(ini.String() + "|" + strings.Join(argv, " "))
		// find the target's reference
		ref := ""
		for r0, o := range real.iniComparableAll() {
			if o == target {
				ref = r0
			}
		}
		marker := "INI "
		idx := 0
		if asDefaults {
			marker, idx = "RET ", 0
		}
		va := optionValues(ra.Impl, marker, idx)[ref]
		vb := optionValues(rb.Impl, "RET ", 0)[ref]
		iniLine := firstLine(ra.Impl, "INI ")
		retB := firstLine(rb.Impl, "RET ")
		in := map[string]interface{}{"ini": ini.String(), "argv": argv, "option": target.String() + " field " + target.Field().Name, "as_defaults": asDefaults}
		// the documented asymmetry: a flag entry with an explicit value
		explicitBool := false
		for _, v := range vals {
			if isBoolCode(code) && v != "" {
				explicitBool = true
			}
		}
		iniOK := iniLine == "INI ok"
		cliOK := strings.HasPrefix(retB, "RET ok")
		// an error of the command-line parse that is not about this option (another option's bad
		// default, a missing command, …) says nothing about the entry/flag equivalence
		// (a refusing callback of ANOTHER option may carry the same display name as the target, which is
		// never a callback itself: sweep seed 5004)
		cliAboutTarget := !cliOK && strings.Contains(decodeLine(retB), "`"+target.String()+"'") && !strings.Contains(decodeLine(retB), "cberr: ")
		var ok bool
		if iniOK {
			ok = va == vb && !cliAboutTarget
		} else {
			ok = !cliOK
		}
		key := "C13:entry-differs-from-flag"
		if explicitBool {
			key = "C13:flag-entry-with-explicit-value"
		}
		if !ok {
			in["case_file_ini"] = c.saveCase(ra)
			in["case_file_cli"] = c.saveCase(rb)
		}
		c.Check("ini-entry-same-as-flag", ok, key, in, fmt.Sprintf("ini: %s value %s", decodeLine(iniLine), decodeLine(va)), fmt.Sprintf("cli: %s value %s", decodeLine(retB), decodeLine(vb)))
	}
}

// iniComparableAll: every option by reference (no filtering).
func (r *Real) iniComparableAll() map[string]*flags.Option {
	out := map[string]*flags.Option{}
	for _, c := range r.commandsPreorder() {
		uid := r.uids[c]
		for gi, g := range allGroups(c) {
			for oi, o := range g.Options() {
				out[fmt.Sprintf("%d.%d.%d", uid, gi, oi)] = o
			}
		}
	}
	return out
}

// ---------------------------------------------------------------- C05: precedence of value sources

type precOpt struct {
	name    string // long name
	field   string
	code    string // str | int | Lstr | Lint
	init    []string
	def     []string
	env     []string
	envSet  bool
	ini     []string
	cli     []string
	hasInit bool
	optval  string // optional-value of an option whose argument is optional ("" = the argument is not optional)
}

func (po *precOpt) expected(order string) []string {
	switch {
	case len(po.cli) > 0:
		return po.cli
	case len(po.ini) > 0:
		return po.ini
	case po.envSet:
		return po.env
	case len(po.def) > 0:
		return po.def
	}
	return po.init
}

func showExpected(code string, vals []string, initNil bool) string {
	sc := func(v string) string {
		if strings.HasSuffix(code, "int") {
			return "i:" + v
		}
		return "s:" + hx(v)
	}
	if code[0] == 'L' {
		if len(vals) == 0 {
			if initNil {
				return "Lnil"
			}
			return "L["
		}
		items := make([]string, len(vals))
		for i, v := range vals {
			items[i] = sc(v)
		}
		return "L[" + strings.Join(items, ",")
	}
	if len(vals) == 0 {
		if code == "int" {
			return "vi:0"
		}
		return "vs:x"
	}
	return "v" + sc(vals[len(vals)-1])
}

func checkC05(c *Ctx, n int) {
	r := c.Rng
	for i := 0; i < n; i++ {
		k := 2 + r.Intn(4)
		sd := &StructDesc{}
		var opts []*precOpt
		var env []EnvVar
		useNs := r.Intn(2) == 0
		var nsLevels []string
		if useNs {
			for lvl := 0; lvl < 1+r.Intn(3); lvl++ {
				nsLevels = append(nsLevels, []string{"OUTER", "MID", "INNER"}[lvl])
			}
		}
		envDelim := "_"
		if r.Intn(4) == 0 {
			envDelim = "__"
		}
		for j := 0; j < k; j++ {
			code := []string{"str", "int", "Lstr", "Lint"}[r.Intn(4)]
			po := &precOpt{name: fmt.Sprintf("o%d", j), field: fmt.Sprintf("P%d", j), code: code}
			envEquals := r.Intn(3) == 0
			val := func(src string, idx int) string {
				if strings.HasSuffix(code, "int") {
					return strconv.Itoa(1000*(j+1) + 100*map[string]int{"init": 1, "def": 2, "env": 3, "ini": 4, "cli": 5, "opt": 6}[src] + idx)
				}
				// (a value from the environment may itself contain `=`: a URL with a query, base64 padding)
				if src == "env" && envEquals {
					return fmt.Sprintf("%s%d_%d=q=", src, j, idx)
				}
				return fmt.Sprintf("%s%d_%d", src, j, idx)
			}
			multi := code[0] == 'L'
			count := func() int {
				if multi {
					return 1 + r.Intn(2)
				}
				return 1
			}
			var tags []string
			tags = append(tags, quoteTag("long", po.name))
			if r.Intn(2) == 0 {
				po.hasInit = true
				for x := 0; x < count(); x++ {
					po.init = append(po.init, val("init", x))
				}
			}
			if r.Intn(2) == 0 {
				for x := 0; x < count(); x++ {
					v := val("def", x)
					po.def = append(po.def, v)
					tags = append(tags, quoteTag("default", v))
				}
			}
			if r.Intn(2) == 0 {
				key := fmt.Sprintf("VFP%d", j)
				tags = append(tags, quoteTag("env", key))
				delim := ""
				// (env-delim splits the variable for every option type: a single-valued option is
				// assigned the elements in turn, so it ends with the last one)
				scalarDelim := !multi && r.Intn(3) == 0
				if multi || scalarDelim {
					delim = []string{",", "::"}[r.Intn(2)]
					tags = append(tags, quoteTag("env-delim", delim))
				}
				if r.Intn(3) != 0 {
					po.envSet = true
					for x := 0; x < count(); x++ {
						po.env = append(po.env, val("env", x))
					}
					if scalarDelim {
						po.env = append(po.env, val("env", 1))
					}
					if code == "Lstr" && r.Intn(3) == 0 {
						// an empty element is an element (a,,b / a,b, / ,a / the variable set but empty)
						at := r.Intn(len(po.env) + 1)
						po.env = append(po.env[:at:at], append([]string{""}, po.env[at:]...)...)
						if r.Intn(4) == 0 {
							po.env = []string{""}
						}
					}
					full := key
					if useNs {
						full = strings.Join(nsLevels, envDelim) + envDelim + key
					}
					env = append(env, EnvVar{full, strings.Join(po.env, delim)})
				}
			}
			if r.Intn(2) == 0 {
				for x := 0; x < count(); x++ {
					po.ini = append(po.ini, val("ini", x))
				}
			}
			if r.Intn(5) == 0 {
				// the argument is optional: one bare occurrence stands for the optional-value - an occurrence
				// like any other, it outranks every other source
				po.optval = val("opt", 0)
				tags = append(tags, quoteTag("optional", "true"), quoteTag("optional-value", po.optval))
				if r.Intn(3) != 0 {
					po.cli = []string{po.optval}
				}
			} else if r.Intn(2) == 0 {
				for x := 0; x < count(); x++ {
					po.cli = append(po.cli, val("cli", x))
				}
			}
			f := FieldDesc{Name: po.field, Exported: true, Kind: "v", Ty: code, Tag: strings.Join(tags, " ")}
			if po.hasInit {
				f.Init = showExpected(code, po.init, false)
			}
			sd.Fields = append(sd.Fields, f)
			opts = append(opts, po)
		}
		top := sd
		gi := 1
		if useNs {
			// 1-3 nested groups, each with its own env-namespace; outermost first in the variable name
			top = sd
			for lvl := len(nsLevels) - 1; lvl >= 0; lvl-- {
				top = &StructDesc{Fields: []FieldDesc{{Name: fmt.Sprintf("G%d", lvl), Exported: true, Kind: "s", Sub: top,
					Tag: quoteTag("group", fmt.Sprintf("Inner%d", lvl)) + " " + quoteTag("env-namespace", nsLevels[lvl])}}}
			}
			gi = 1 + len(nsLevels)
		}
		cs := &Case{Name: "app", NsDelim: ".", EnvNsDelim: envDelim, Env: env}
		cs.Build = []BuildOp{{Kind: "addgroup", Target: 1, Short: "Application Options", Struct: top}}
		// where the options are declared: on the parser, in the command the line selects, or in a
		// command it does not select (a sibling is named, or none) - defaults and environment apply
		// to every option of every command
		where := []string{"parser", "parser", "selected-command", "sibling-selected", "no-command"}[r.Intn(5)]
		if where != "parser" {
			root := &StructDesc{Fields: []FieldDesc{
				{Name: "Ca", Exported: true, Kind: "s", Sub: top, Tag: quoteTag("command", "ca")},
				{Name: "Cb", Exported: true, Kind: "s", Sub: &StructDesc{}, Tag: quoteTag("command", "cb")}}}
			cs.Build = []BuildOp{{Kind: "addgroup", Target: 1, Short: "Application Options", Struct: root},
				{Kind: "setcmd", Target: 1, Attr: "subopt", Vals: []string{"1"}}}
			for _, po := range opts {
				po.ini = nil
				if where != "selected-command" {
					po.cli = nil
				}
			}
		}
		var ini strings.Builder
		var argv []string
		for _, po := range opts {
			for _, v := range po.ini {
				ini.WriteString(po.field + " = " + v + "\n")
			}
			for _, v := range po.cli {
				if po.optval != "" {
					argv = append(argv, "--"+po.name)
				} else {
					argv = append(argv, "--"+po.name+"="+v)
				}
			}
		}
		r.Shuffle(len(argv), func(a, b int) {
			// keep the relative order of one option's own occurrences: shuffle only across options
			if strings.SplitN(argv[a], "=", 2)[0] != strings.SplitN(argv[b], "=", 2)[0] {
				argv[a], argv[b] = argv[b], argv[a]
			}
		})
		// occurrences of one option may have been reordered by the shuffle: recompute expected order
		for _, po := range opts {
			po.cli = nil
			for _, a := range argv {
				kv := strings.SplitN(a, "=", 2)
				if kv[0] == "--"+po.name {
					if len(kv) == 1 {
						po.cli = append(po.cli, po.optval)
					} else {
						po.cli = append(po.cli, kv[1])
					}
				}
			}
		}
		switch where {
		case "selected-command":
			argv = append([]string{"ca"}, argv...)
		case "sibling-selected":
			argv = []string{"cb"}
		}
		order := []string{"ini,cli", "inidef,cli", "cli,inidef"}[r.Intn(3)]
		switch order {
		case "ini,cli":
			cs.Ops = []Op{{Kind: "iniparse", Text: ini.String()}, {Kind: "parse", Args: argv}}
		case "inidef,cli":
			cs.Ops = []Op{{Kind: "iniparse", Text: ini.String(), AsDefaults: true}, {Kind: "parse", Args: argv}}
		case "cli,inidef":
			cs.Ops = []Op{{Kind: "parse", Args: argv}, {Kind: "iniparse", Text: ini.String(), AsDefaults: true}}
		}
		cs.Description = "precedence " + order + ": " + describeOps(cs)
		c.RunCases([]*Case{cs}, func(cr *CaseResult) {
			c.classifyCase(cr)
			c.Class("c05/" + order + " declared-in=" + where)
			c.Distinct(cr.Case.Description)
			if firstLine(cr.Impl, "PANIC") != "" || firstLine(cr.Impl, "INI ") != "INI ok" || !strings.HasPrefix(firstLine(cr.Impl, "RET "), "RET ok") {
				c.Check("precedence-case-runs", false, "C05:precedence-case-failed", map[string]interface{}{"case": cs.Description, "case_file": c.saveCase(cr)},
					firstLine(cr.Impl, "INI ")+" / "+decodeLine(firstLine(cr.Impl, "RET ")), "INI ok / RET ok")
				return
			}
			// final values: after the last op
			var vals map[string]string
			if order == "cli,inidef" {
				vals = optionValues(cr.Impl, "INI ", 0)
			} else {
				vals = optionValues(cr.Impl, "RET ", 0)
			}
			for j, po := range opts {
				ref := fmt.Sprintf("1.%d.%d", gi, j)
				if where != "parser" {
					ref = cr.Real.optRef[po.field]
				}
				exp := po.expected(order)
				want := showExpected(po.code, exp, !po.hasInit)
				got := vals[ref]
				if po.code[0] == 'L' && len(exp) == 0 && (got == "Lnil" || got == "L[") {
					got = want
				}
				ok := got == want
				in := map[string]interface{}{"case": cs.Description, "option": po.name, "sources": fmt.Sprintf("init=%v default=%v env(set=%v)=%v ini=%v cli=%v", po.init, po.def, po.envSet, po.env, po.ini, po.cli), "order": order, "declared_in": where}
				if !ok {
					in["case_file"] = c.saveCase(cr)
				}
				c.Check("value-comes-from-highest-ranked-source", ok, "C05:wrong-source", in, decodeLine(got), decodeLine(want))
			}
		})
	}
}

// ---------------------------------------------------------------- C15: determinism by repetition

func checkC15(c *Ctx, n int, reps int) {
	p := defaultProfile
	p.BadDecl = 0.01
	p.InitVals = 0.5
	p.OnlyTypes = nil
	for i := 0; i < n; i++ {
		g := &gen{r: c.Rng, p: p}
		cs := g.genCase()
		// emphasise maps with several entries
		for bi := range cs.Build {
			if cs.Build[bi].Struct != nil {
				for fi := range cs.Build[bi].Struct.Fields {
					f := &cs.Build[bi].Struct.Fields[fi]
					if f.Kind == "v" && f.Ty[0] == 'M' && g.chance(0.8) {
						f.Init = "M[" + strings.Join([]string{mapItem(f.Ty, 0), mapItem(f.Ty, 1), mapItem(f.Ty, 2), mapItem(f.Ty, 3)}[:2+c.Rng.Intn(3)], ",")
						if !strings.Contains(f.Tag, "description") {
							f.Tag += " " + quoteTag("description", "map option "+f.Name)
						}
					}
				}
			}
		}
		tied := false
		if g.chance(0.4) && cs.Build[0].Struct != nil {
			// sibling commands at one and the same distance from an unknown word
			tied = g.collideTiedCommands(cs.Build[0].Struct)
		}
		// names that differ in letter case only (short-only options, long names): the order of a
		// completion list must not depend on how they came out of the lookup tables
		caseTwins := false
		if g.chance(0.5) && cs.Build[0].Struct != nil {
			base := *cs.Build[0].Struct
			twins := []FieldDesc{
				{Name: "TwinA", Exported: true, Kind: "v", Ty: "bool", Tag: `short:"j"`},
				{Name: "TwinB", Exported: true, Kind: "v", Ty: "bool", Tag: `short:"J"`},
				{Name: "TwinC", Exported: true, Kind: "v", Ty: "bool", Tag: `long:"zeta-twin"`},
				{Name: "TwinD", Exported: true, Kind: "v", Ty: "bool", Tag: `long:"Zeta-twin"`},
				{Name: "TwinE", Exported: true, Kind: "v", Ty: "bool", Tag: `long:"ZETA-twin"`},
				{Name: "TwinF", Exported: true, Kind: "v", Ty: "bool", Tag: `short:"ĵ"`},
				{Name: "TwinG", Exported: true, Kind: "v", Ty: "bool", Tag: `short:"Ĵ"`},
			}
			cs.Build[0].Struct.Fields = append(append([]FieldDesc{}, base.Fields...), twins...)
			if probe, _ := BuildReal(cs); probe.dead {
				cs.Build[0].Struct.Fields = base.Fields
			} else {
				caseTwins = true
				c.Class("c15/names-differing-in-case-only")
			}
		}
		// fields that carry TWO of the structural tags (command / group / positional-args): which one
		// decides is fixed (positional-args, then command, then group), not incidental
		if g.chance(0.4) && cs.Build[0].Struct != nil {
			base := append([]FieldDesc{}, cs.Build[0].Struct.Fields...)
			two := []FieldDesc{
				{Name: "TwoA", Exported: true, Kind: "s", Tag: `command:"twocmd" group:"Two Options"`, Sub: &StructDesc{Fields: []FieldDesc{
					{Name: "TwoAOpt", Exported: true, Kind: "v", Ty: "bool", Tag: `long:"two-a-opt" description:"in a command or a group"`}}}},
				{Name: "TwoB", Exported: true, Kind: "s", Tag: `group:"Files" positional-args:"yes"`, Sub: &StructDesc{Fields: []FieldDesc{
					{Name: "TwoBArg", Exported: true, Kind: "v", Ty: "Lstr", Tag: `long:"two-b-opt" description:"an argument or an option"`}}}},
			}
			hasPos := false
			for _, f := range base {
				if strings.Contains(f.Tag, "positional-args") {
					hasPos = true
				}
			}
			if hasPos {
				two = two[:1]
			}
			cs.Build[0].Struct.Fields = append(base, two...)
			if probe, _ := BuildReal(cs); probe.dead {
				cs.Build[0].Struct.Fields = base
			} else {
				c.Class("c15/fields-with-two-structural-tags")
			}
		}
		g.addProgrammatic(cs)
		real, _ := BuildReal(cs)
		if real.dead {
			continue
		}
		ops := []Op{}
		ops = append(ops, Op{Kind: "model"})
		if caseTwins {
			ops = append(ops, Op{Kind: "complete", Args: []string{"-"}}, Op{Kind: "complete", Args: []string{"--"}}, Op{Kind: "complete", Args: []string{"--z"}})
		}
		if tied && len(real.p.Command.Args()) == 0 {
			c.Class("c15/tied-command-names")
			ops = append(ops, Op{Kind: "parse", Args: []string{"bet"}}, Op{Kind: "parse", Args: []string{"bot", "x"}})
		}
		// the same key from several sections
		ini := g.genIniText(real, iniProfile{Noise: 0.1})
		if g.chance(0.6) {
			secs := g.iniSections(real)
			if len(secs[0].opts) > 0 {
				oi := secs[0].opts[c.Rng.Intn(len(secs[0].opts))]
				if !isBoolCode(oi.code) && oi.code[0] != 'F' {
					nm := oi.o.Field().Name
					ini = nm + " = " + g.valueText(oi.code, oi.o.Choices) + "\n[Application Options]\n" + nm + " = " + g.valueText(oi.code, oi.o.Choices) + "\n[Extra Options]\n" + nm + " = " + g.valueText(oi.code, oi.o.Choices) + "\n"
				}
			}
		}
		ops = append(ops, Op{Kind: "iniparse", Text: ini})
		ops = append(ops, Op{Kind: "parse", Args: g.genArgv(real)})
		ops = append(ops, Op{Kind: "help", Cols: effCols(80)}, Op{Kind: "man"}, Op{Kind: "iniwrite", Bits: uint(c.Rng.Intn(8)) * 2}, Op{Kind: "complete", Args: g.genCompleteArgs(real)})
		cs.Ops = ops
		cs.Description = describeOps(cs)
		var first *CaseResult
		c.RunCases([]*Case{cs}, func(cr *CaseResult) { first = cr; c.classifyCase(cr) })
		if first == nil {
			continue
		}
		c.Class("c15/repeated")
		for rep := 1; rep < reps; rep++ {
			var impl []string
			safe(func() {
				rr, outs := BuildReal(cs)
				impl = append(impl, outs...)
				impl = append(impl, rr.RunOps()...)
			})
			same := len(impl) == len(first.Impl)
			diff := ""
			for li := 0; same && li < len(impl); li++ {
				if impl[li] != first.Impl[li] {
					same = false
					diff = fmt.Sprintf("run 1: %s | run %d: %s", decodeLine(first.Impl[li]), rep+1, decodeLine(impl[li]))
				}
			}
			in := map[string]interface{}{"case": cs.Description, "repetition": rep + 1}
			if !same {
				in["case_file"] = c.saveCase(first)
			}
			c.Check("repeated-runs-are-identical", same, "C15:nondeterministic", in, diff, "byte-identical observations")
			if !same {
				break
			}
		}
	}
}

func mapItem(code string, i int) string {
	kv := strings.Split(code[1:], ",")
	var k, v string
	if kv[0] == "str" {
		k = "s:" + hx([]string{"kb", "ka", "kd", "kc"}[i])
	} else {
		k = kv[0][:1] + ":" + strconv.Itoa(4-i)
	}
	switch kv[1] {
	case "str":
		v = "s:" + hx(fmt.Sprintf("v%d", i))
	case "bool":
		v = "b:1"
	default:
		v = kv[1][:1] + ":" + strconv.Itoa(i+1)
	}
	return k + "=" + v
}

// C15, invalid declarations: several names each used by more than one option (two or three
// different long names, short names, or both, spread over the groups of one parser).  Whatever the
// library reports for such a declaration, it reports the same thing every time the same
// declaration is built and parsed.
func checkC15Invalid(c *Ctx, n int, reps int) {
	r := c.Rng
	for i := 0; i < n; i++ {
		longs := []string{"alpha", "beta", "gamma", "färg", "x-y"}
		shorts := []string{"a", "b", "é", "5"}
		r.Shuffle(len(longs), func(a, b int) { longs[a], longs[b] = longs[b], longs[a] })
		r.Shuffle(len(shorts), func(a, b int) { shorts[a], shorts[b] = shorts[b], shorts[a] })
		nl, ns := r.Intn(4), r.Intn(3)
		if nl+ns < 2 {
			nl = 2
		}
		var tags []string
		for k := 0; k < nl; k++ {
			for u := 2 + r.Intn(2); u > 0; u-- {
				tags = append(tags, quoteTag("long", longs[k]))
			}
		}
		for k := 0; k < ns; k++ {
			for u := 2 + r.Intn(2); u > 0; u-- {
				tags = append(tags, quoteTag("short", shorts[k]))
			}
		}
		for k := r.Intn(3); k > 0; k-- {
			tags = append(tags, quoteTag("long", fmt.Sprintf("filler%d", k)))
		}
		r.Shuffle(len(tags), func(a, b int) { tags[a], tags[b] = tags[b], tags[a] })
		// distribute over the top level and up to two nested groups
		root := &StructDesc{}
		subs := []*StructDesc{root}
		for k := r.Intn(3); k > 0; k-- {
			subs = append(subs, &StructDesc{})
		}
		for k, tg := range tags {
			sd := subs[r.Intn(len(subs))]
			sd.Fields = append(sd.Fields, FieldDesc{Name: fmt.Sprintf("F%d", k), Exported: true, Kind: "v", Ty: []string{"str", "bool", "int"}[r.Intn(3)], Tag: tg})
		}
		for k, sd := range subs[1:] {
			if len(sd.Fields) == 0 {
				continue
			}
			parent := subs[r.Intn(k+1)]
			parent.Fields = append(parent.Fields, FieldDesc{Name: fmt.Sprintf("G%d", k), Exported: true, Kind: "s", Sub: sd, Tag: quoteTag("group", fmt.Sprintf("Group %d", k))})
		}
		cs := &Case{Name: "app", NsDelim: ".", EnvNsDelim: "_"}
		cs.Build = []BuildOp{{Kind: "addgroup", Target: 1, Short: "Application Options", Struct: root}}
		cs.Ops = []Op{{Kind: "parse", Args: []string{}}, {Kind: "parse", Args: []string{"--alpha"}}}
		cs.Description = fmt.Sprintf("%d long and %d short names used more than once: %s", nl, ns, describeOps(cs))
		var first *CaseResult
		c.RunCases([]*Case{cs}, func(cr *CaseResult) { first = cr; c.classifyCase(cr) })
		if first == nil {
			continue
		}
		c.Class(fmt.Sprintf("c15/invalid-declaration: duplicated long=%d short=%d groups=%d", nl, ns, len(subs)))
		same := true
		diff := ""
		rep := 1
		for ; rep < reps && same; rep++ {
			var impl []string
			safe(func() {
				rr, outs := BuildReal(cs)
				impl = append(impl, outs...)
				impl = append(impl, rr.RunOps()...)
			})
			same = len(impl) == len(first.Impl)
			for li := 0; same && li < len(impl); li++ {
				if impl[li] != first.Impl[li] {
					same = false
					diff = fmt.Sprintf("run 1: %s | run %d: %s", decodeLine(first.Impl[li]), rep+1, decodeLine(impl[li]))
				}
			}
		}
		in := map[string]interface{}{"case": cs.Description, "repetitions": rep}
		if !same {
			in["case_file"] = c.saveCase(first)
		}
		c.Check("invalid-declaration-is-reported-identically", same, "C15:nondeterministic", in, diff, "byte-identical observations")
	}
}

// checkC15AliasClash: two or three sibling commands declare the SAME alias (it is no command's name).  Which of
// them the word selects is settled by the order of declaration, so every run — parse, completion behind the
// word, help — gives the same observations.
func checkC15AliasClash(c *Ctx, n int, reps int) {
	r := c.Rng
	for i := 0; i < n; i++ {
		k := 2 + r.Intn(3)
		root := &StructDesc{Fields: []FieldDesc{{Name: "V", Exported: true, Kind: "v", Ty: "bool", Tag: `short:"v"`}}}
		holder := root
		if r.Intn(2) == 0 {
			holder = &StructDesc{}
			root.Fields = append(root.Fields, FieldDesc{Name: "Top", Exported: true, Kind: "s", Sub: holder, Tag: `command:"top"`})
		}
		for j := 0; j < k; j++ {
			sub := &StructDesc{Fields: []FieldDesc{{Name: fmt.Sprintf("Opt%d", j), Exported: true, Kind: "v", Ty: "bool", Tag: fmt.Sprintf(`long:"only-%d"`, j)}}}
			tag := fmt.Sprintf(`command:"cmd%d" alias:"x%d" alias:"shared"`, j, j)
			if j == k-1 && k > 2 && r.Intn(2) == 0 {
				tag = fmt.Sprintf(`command:"cmd%d"`, j) // (one sibling without the alias)
			}
			holder.Fields = append(holder.Fields, FieldDesc{Name: fmt.Sprintf("C%d", j), Exported: true, Kind: "s", Sub: sub, Tag: tag})
		}
		cs := &Case{Name: "app", NsDelim: ".", EnvNsDelim: "_", Opts: flags.HelpFlag}
		cs.Build = []BuildOp{{Kind: "addgroup", Target: 1, Short: "Application Options", Struct: root}}
		pre := []string{}
		if holder != root {
			pre = []string{"top"}
		}
		cs.Ops = []Op{{Kind: "parse", Args: append(append([]string{}, pre...), "shared", "w")},
			{Kind: "complete", Args: append(append([]string{}, pre...), "shared", "--o")},
			{Kind: "parse", Args: append(append([]string{}, pre...), "shared", "--help")}}
		cs.Description = fmt.Sprintf("%d sibling commands, alias `shared` declared by several: %s", k, describeOps(cs))
		var first *CaseResult
		c.RunCases([]*Case{cs}, func(cr *CaseResult) { first = cr; c.classifyCase(cr) })
		if first == nil {
			continue
		}
		c.Class(fmt.Sprintf("c15/alias-clash: siblings=%d nested=%v", k, holder != root))
		same := true
		diff := ""
		rep := 1
		for ; rep < reps && same; rep++ {
			var impl []string
			safe(func() {
				rr, outs := BuildReal(cs)
				impl = append(impl, outs...)
				impl = append(impl, rr.RunOps()...)
			})
			same = len(impl) == len(first.Impl)
			for li := 0; same && li < len(impl); li++ {
				if impl[li] != first.Impl[li] {
					same = false
					diff = fmt.Sprintf("run 1: %s | run %d: %s", decodeLine(first.Impl[li]), rep+1, decodeLine(impl[li]))
				}
			}
		}
		in := map[string]interface{}{"case": cs.Description, "repetitions": rep}
		if !same {
			in["case_file"] = c.saveCase(first)
		}
		c.Check("an-alias-several-siblings-declare-selects-the-same-command-every-time", same, "C15:nondeterministic", in, diff, "byte-identical observations")
	}
}
