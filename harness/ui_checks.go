package main

import (
	"fmt"
	"reflect"
	"sort"
	"strings"
	"unicode"
	"unicode/utf8"

	flags "github.com/jessevdk/go-flags"
)

// ---------------------------------------------------------------- C16: help and man show the visible interface

// markDescriptions gives every option a unique, recognisable description token and every
// masked default a unique secret.
func markDecl(g *gen, sd *StructDesc) {
	for i := range sd.Fields {
		f := &sd.Fields[i]
		if f.Kind == "v" && f.Exported && (strings.Contains(f.Tag, "long:") || strings.Contains(f.Tag, "short:")) {
			// replace any description by a marker
			tags := splitTagPairs(f.Tag)
			var out []string
			for _, t := range tags {
				if !strings.HasPrefix(t, "description:") {
					out = append(out, t)
				}
			}
			if g.chance(0.85) {
				extra := ""
				if g.chance(0.25) {
					// (a description is text, not a format)
					extra = []string{"at most 100% of %d items ", "%s ", "50%", "%!v %v ", "%%"}[g.r.Intn(5)]
				}
				out = append(out, quoteTag("description", "desc-of-"+f.Name+"-end "+extra+genText(g.r, 4, 0.2)))
			}
			if strings.Contains(f.Tag, "default-mask:") && !isBoolCode(f.Ty) && f.Ty[0] != 'F' {
				out = append(out, quoteTag("default", "SECRET"+f.Name+"X"))
			}
			f.Tag = strings.Join(out, " ")
		} else if f.Sub != nil && strings.Contains(f.Tag, "command:\"") {
			// a command: its description is a marker too
			var out []string
			for _, t := range splitTagPairs(f.Tag) {
				if !strings.HasPrefix(t, "description:") {
					out = append(out, t)
				}
			}
			out = append(out, quoteTag("description", "cmddesc-of-"+f.Name+"-end"))
			f.Tag = strings.Join(out, " ")
			markDecl(g, f.Sub)
		} else if f.Sub != nil && strings.Contains(f.Tag, "positional-args") {
			// positional arguments: some described (by a marker), some not, in any order
			for si := range f.Sub.Fields {
				sf := &f.Sub.Fields[si]
				var out []string
				for _, t := range splitTagPairs(sf.Tag) {
					if !strings.HasPrefix(t, "description:") {
						out = append(out, t)
					}
				}
				if g.chance(0.5) {
					out = append(out, quoteTag("description", "argdesc-of-"+sf.Name+"-end"))
				}
				sf.Tag = strings.Join(out, " ")
			}
		} else if f.Sub != nil {
			markDecl(g, f.Sub)
		}
	}
}

// squashAll removes every white-space character and hyphen
func squashAll(s string) string {
	return strings.Map(func(r rune) rune {
		if unicode.IsSpace(r) || r == '-' {
			return -1
		}
		return r
	}, s)
}

// splitTagPairs splits a generated tag (key:"quoted value" pairs separated by blanks).
func splitTagPairs(tag string) []string {
	var out []string
	for tag != "" {
		tag = strings.TrimLeft(tag, " ")
		i := strings.Index(tag, ":\"")
		if i < 0 {
			break
		}
		j := i + 2
		for j < len(tag) && tag[j] != '"' {
			if tag[j] == '\\' {
				j++
			}
			j++
		}
		if j >= len(tag) {
			break
		}
		out = append(out, tag[:j+1])
		tag = tag[j+1:]
	}
	return out
}

func visibleOptionsHelp(r *Real) (visible, hidden []*flags.Option) {
	for c := r.p.Command; c != nil; c = c.Active {
		for _, g := range allGroups(c) {
			for _, o := range g.Options() {
				show := !g.Hidden && !o.Hidden && (o.ShortName != 0 || o.LongName != "")
				// the built-in help group is shown for the parser only
				if show && c != r.p.Command && g.ShortDescription == "Help Options" && o.LongName == "help" {
					continue
				}
				if show {
					visible = append(visible, o)
				} else {
					hidden = append(hidden, o)
				}
			}
		}
	}
	return
}

func visibleOptionsMan(r *Real) (visible, hidden []*flags.Option) {
	var walk func(c *flags.Command, shown bool)
	walk = func(c *flags.Command, shown bool) {
		for _, g := range allGroups(c) {
			for _, o := range g.Options() {
				if shown && !g.Hidden && !o.Hidden && (o.ShortName != 0 || o.LongName != "") {
					visible = append(visible, o)
				} else {
					hidden = append(hidden, o)
				}
			}
		}
		for _, s := range c.Commands() {
			walk(s, shown && !s.Hidden)
		}
	}
	walk(r.p.Command, true)
	return
}

// squash removes blanks, line breaks and hyphens, so that a word hard-broken by the wrapper
// ("-\n" + indentation) is found again
func squash(s string) string {
	return strings.Map(func(r rune) rune {
		if r == ' ' || r == '\n' || r == '-' || r == '\t' {
			return -1
		}
		return r
	}, s)
}

func markerOf(o *flags.Option) string { return "desc-of-" + o.Field().Name + "-end" }

func checkC16(c *Ctx, n int) {
	p := defaultProfile
	p.BadDecl = 0
	p.Exec = true
	p.MaxCmdDepth = 3
	for i := 0; i < n; i++ {
		g := &gen{r: c.Rng, p: p}
		cs := g.genCase()
		for bi := range cs.Build {
			if cs.Build[bi].Struct != nil {
				markDecl(g, cs.Build[bi].Struct)
			}
		}
		if g.chance(0.25) && cs.Build[0].Struct != nil && hideOnlyChild(cs.Build[0].Struct) {
			c.Class("c16/only-subcommand-hidden")
		} else {
			g.addProgrammatic(cs)
		}
		real, _ := BuildReal(cs)
		if real.dead {
			continue
		}
		// select an active chain by parsing a command path (errors do not matter: Active stays set)
		var path []string
		cur := real.p.Command
		for len(cur.Commands()) > 0 && g.chance(0.7) {
			cur = cur.Commands()[c.Rng.Intn(len(cur.Commands()))]
			path = append(path, cur.Name)
		}
		cs.Ops = []Op{{Kind: "parse", Args: path}, {Kind: "help", Cols: effCols([]int{80, 120, 50}[c.Rng.Intn(3)])}, {Kind: "man"}}
		cs.Description = describeOps(cs)
		c.RunCases([]*Case{cs}, func(cr *CaseResult) {
			c.classifyCase(cr)
			c.Class(fmt.Sprintf("c16/chain-depth=%d", len(path)))
			c.Distinct(cs.Description)
			helpL, manL := firstLine(cr.Impl, "HELP "), firstLine(cr.Impl, "MAN ")
			if strings.HasPrefix(helpL, "HELP x") {
				help, _ := unhx(helpL[5:])
				vis, hid := visibleOptionsHelp(cr.Real)
				scanInterface(c, cr, "help", help, vis, hid)
			}
			if strings.HasPrefix(manL, "MAN x") {
				man, _ := unhx(manL[4:])
				vis, hid := visibleOptionsMan(cr.Real)
				scanInterface(c, cr, "man", man, vis, hid)
			}
			for _, l := range cr.Impl {
				if l == "HELP PANIC" || strings.HasPrefix(l, "PANIC") {
					c.Check("help-never-panics", false, "C17:help-panic", map[string]interface{}{"case": cs.Description, "case_file": c.saveCase(cr)}, l, "normal return")
				}
			}
		})
	}
}

// declaredEnvKeys: for every option with an env tag, the environment key the DECLARATION gives it — the
// env-namespaces of all enclosing groups and commands, outermost first, joined by the parser's delimiter
// — computed by walking the tree downwards (not by asking the option).
func declaredEnvKeys(p *flags.Parser) map[*flags.Option]string {
	out := map[*flags.Option]string{}
	var walkGroup func(g *flags.Group, parts []string)
	walkGroup = func(g *flags.Group, parts []string) {
		for _, o := range g.Options() {
			if o.EnvDefaultKey != "" {
				out[o] = strings.Join(append(append([]string{}, parts...), o.EnvDefaultKey), p.EnvNamespaceDelimiter)
			}
		}
		for _, sg := range g.Groups() {
			ps := parts
			if sg.EnvNamespace != "" {
				ps = append(append([]string{}, parts...), sg.EnvNamespace)
			}
			walkGroup(sg, ps)
		}
	}
	var walkCmd func(cmd *flags.Command, parts []string)
	walkCmd = func(cmd *flags.Command, parts []string) {
		if cmd.Group.EnvNamespace != "" {
			parts = append(append([]string{}, parts...), cmd.Group.EnvNamespace)
		}
		walkGroup(cmd.Group, parts)
		for _, sub := range cmd.Commands() {
			walkCmd(sub, parts)
		}
	}
	walkCmd(p.Command, nil)
	return out
}

func scanInterface(c *Ctx, cr *CaseResult, which, text string, vis, hid []*flags.Option) {
	manText := strings.ReplaceAll(text, "\\\\", "\\")
	envKeys := declaredEnvKeys(cr.Real.p)
	in := func(o *flags.Option) map[string]interface{} {
		return map[string]interface{}{"case": cr.Case.Description, "generator": which, "option": o.String() + " field " + o.Field().Name, "case_file": c.saveCase(cr)}
	}
	for _, o := range vis {
		name := ""
		if o.LongName != "" {
			name = "--" + o.LongNameWithNamespace()
			if which == "man" {
				name = "\\-\\-" + o.LongNameWithNamespace()
			}
		} else {
			name = "-" + string(o.ShortName)
			if which == "man" {
				name = "\\-" + string(o.ShortName)
			}
		}
		present := strings.Contains(text, name) || strings.Contains(manText, name)
		if !present {
			c.Check("visible-option-is-listed", false, "C16:visible-option-missing", in(o), "absent: "+name, "listed")
		} else {
			c.Check("visible-option-is-listed", true, "", nil, "", "")
		}
		if o.Description != "" && strings.Contains(o.Description, markerOf(o)) {
			// wrapping may split the marker across lines only at blanks; it has none
			if !strings.Contains(squash(text), squash(markerOf(o))) {
				c.Check("description-is-shown", false, "C16:description-missing", in(o), "absent: "+markerOf(o), "shown")
			}
		}
		if which == "help" && o.Description != "" && utf8.ValidString(o.Description) {
			// the words of the description in their order, and beside them the default (or its mask)
			want := squashAll(o.Description)
			switch {
			case o.DefaultMask != "" && o.DefaultMask != "-":
				want += "(default:" + squashAll(o.DefaultMask) + ")"
			case o.DefaultMask == "" && strings.Join(o.Default, "") != "":
				want += "(default:"
			}
			if !strings.Contains(squashAll(text), want) {
				m := in(o)
				if at := strings.Index(text, markerOf(o)); at >= 0 {
					end := at + 200
					if end > len(text) {
						end = len(text)
					}
					m["help_excerpt"] = text[at:end]
				}
				m["declared_default"] = o.Default
				m["declared_default_mask"] = o.DefaultMask
				c.Check("description-and-default-are-shown-as-declared", false, "C16:description-garbled", m, "absent (blanks and hyphens apart): "+want, "shown")
			} else {
				c.Check("description-and-default-are-shown-as-declared", true, "", nil, "", "")
			}
		}
		if which == "help" && len(o.Choices) > 0 && o.Field().Name != "ShowHelp" && !isBoolCode(cr.Real.optCode(o)) {
			// the declared choices, in their order, in brackets (whether or not the argument is optional)
			ok := true
			for _, ch := range o.Choices {
				if ch != "" && utf8.ValidString(ch) && !strings.Contains(squashAll(text), squashAll(ch)) {
					ok = false
				}
			}
			wantList := squashAll("[" + strings.Join(o.Choices, "|") + "]")
			if utf8.ValidString(wantList) && !strings.Contains(wantList, "%") {
				ok = ok && strings.Contains(squashAll(text), wantList)
			}
			m := map[string]interface{}(nil)
			if !ok {
				m = in(o)
				m["declared_choices"] = o.Choices
				m["optional_argument"] = o.OptionalArgument
			}
			c.Check("choices-are-listed", ok, "C16:choices-missing", m, "absent (blanks and hyphens apart): ["+strings.Join(o.Choices, "|")+"]", "listed beside the option")
		}
		if key := envKeys[o]; key != "" && utf8.ValidString(key) && !strings.ContainsAny(key, "%\\-") {
			// the environment variable, with the env-namespaces of all enclosing levels: in the help beside
			// a description, in the man page wherever a default is shown
			switch {
			case which == "help" && o.Description != "":
				want := "[$" + key + "]"
				ok := strings.Contains(squashAll(text), squashAll(want))
				m := map[string]interface{}(nil)
				if !ok {
					m = in(o)
					m["declared_env_key"] = key
				}
				c.Check("environment-variable-is-shown-with-its-namespaces", ok, "C16:env-key", m, "absent: "+want, "shown beside the description")
			case which == "man" && len(o.Default) == 0 && o.DefaultMask == "":
				want := "$" + key
				ok := strings.Contains(text, want) || strings.Contains(manText, want)
				m := map[string]interface{}(nil)
				if !ok {
					m = in(o)
					m["declared_env_key"] = key
				}
				c.Check("environment-variable-is-shown-with-its-namespaces", ok, "C16:env-key", m, "absent: "+want, "shown as the default")
			}
		}
		if o.DefaultMask != "" {
			secret := "SECRET" + o.Field().Name + "X"
			if strings.Contains(squash(text), secret) {
				c.Check("masked-default-never-appears", false, "C16:masked-default-leaks", in(o), "contains "+secret, "mask only")
			} else {
				c.Check("masked-default-never-appears", true, "", nil, "", "")
			}
		}
	}
	if which == "help" {
		// the subcommands of the innermost active command: the visible ones listed, the hidden ones not
		inner := cr.Real.p.Command
		for inner.Active != nil {
			inner = inner.Active
		}
		for _, sub := range inner.Commands() {
			if !strings.HasPrefix(sub.ShortDescription, "cmddesc-of-") {
				continue
			}
			shown := strings.Contains(squash(text), squash(sub.ShortDescription))
			inC := map[string]interface{}{"case": cr.Case.Description, "generator": which, "command": inner.Name, "subcommand": sub.Name, "hidden": sub.Hidden}
			ok := shown != sub.Hidden
			if !ok {
				inC["case_file"] = c.saveCase(cr)
			}
			if sub.Hidden {
				c.Check("hidden-subcommand-is-not-listed", ok, "C16:hidden-command-shown", inC, "listed: "+sub.ShortDescription, "absent")
			} else {
				c.Check("visible-subcommand-is-listed", ok, "C16:command-missing", inC, "absent: "+sub.ShortDescription, "listed")
			}
		}
		// every described positional argument of the active chain
		for cmd := cr.Real.p.Command; cmd != nil; cmd = cmd.Active {
			for _, a := range cmd.Args() {
				if !strings.HasPrefix(a.Description, "argdesc-of-") {
					continue
				}
				ok := strings.Contains(squash(text), squash(a.Description))
				inA := map[string]interface{}{"case": cr.Case.Description, "generator": which, "command": cmd.Name, "argument": a.Name}
				if !ok {
					inA["case_file"] = c.saveCase(cr)
				}
				c.Check("described-positional-argument-is-listed", ok, "C16:argument-missing", inA, "absent: "+a.Description, "listed")
			}
		}
	}
	for _, o := range hid {
		if o.Description != "" && strings.Contains(squash(text), squash(markerOf(o))) {
			c.Check("hidden-item-not-shown", false, "C16:hidden-shown", in(o), "contains "+markerOf(o), "absent")
		} else {
			c.Check("hidden-item-not-shown", true, "", nil, "", "")
		}
	}
}

// ---------------------------------------------------------------- C17: help layout for every width

func checkC17Help(c *Ctx, n int) {
	p := defaultProfile
	p.BadDecl = 0
	p.Utf = 0.5
	p.PosArgs = 0.5
	for i := 0; i < n; i++ {
		g := &gen{r: c.Rng, p: p}
		cs := g.genCase()
		marked := g.chance(0.5)
		if marked {
			// every description starts with a marker: the layout can be measured in the text itself
			for bi := range cs.Build {
				if cs.Build[bi].Struct != nil {
					markDecl(g, cs.Build[bi].Struct)
				}
			}
		}
		if g.chance(0.25) && cs.Build[0].Struct != nil {
			// one very long option name: the description column lies far to the right
			top, _ := topAndNested(cs.Build[0].Struct)
			if len(top) > 0 {
				f := top[c.Rng.Intn(len(top))]
				f.Tag = tagReplace(f.Tag, "long", strings.Repeat("n", 50+c.Rng.Intn(45)))
			}
		}
		g.addProgrammatic(cs)
		real, _ := BuildReal(cs)
		if real.dead {
			continue
		}
		var path []string
		cur := real.p.Command
		for len(cur.Commands()) > 0 && g.chance(0.5) {
			cur = cur.Commands()[c.Rng.Intn(len(cur.Commands()))]
			path = append(path, cur.Name)
		}
		cols := effCols([]int{1, 5, 10, 20, 37, 80, 132, 300, 2 + c.Rng.Intn(120), 2 + c.Rng.Intn(120)}[c.Rng.Intn(10)])
		cs.Ops = []Op{{Kind: "parse", Args: path}, {Kind: "help", Cols: cols}}
		cs.Description = describeOps(cs)
		c.RunCases([]*Case{cs}, func(cr *CaseResult) {
			c.classifyCase(cr)
			c.Class(fmt.Sprintf("c17/help cols=%s", bucket(cols)))
			c.Distinct(cs.Description)
			helpL := firstLine(cr.Impl, "HELP ")
			in := map[string]interface{}{"case": cs.Description, "cols": cols}
			if helpL == "HELP PANIC" || firstLine(cr.Impl, "PANIC") != "" {
				in["case_file"] = c.saveCase(cr)
				c.Check("help-never-panics", false, "C17:help-panic", in, helpL, "normal return")
				return
			}
			c.Check("help-never-panics", true, "", nil, "", "")
			if strings.HasPrefix(helpL, "HELP x") {
				help, _ := unhx(helpL[5:])
				validIn := utf8.ValidString(strings.Join(cr.Lines, ""))
				if validIn && declIsValidUtf8(cs) && !utf8.ValidString(help) {
					in["case_file"] = c.saveCase(cr)
					c.Check("help-is-valid-utf8", false, "C17:help-invalid-utf8", in, "invalid UTF-8 in help text", "valid UTF-8")
				} else {
					c.Check("help-is-valid-utf8", true, "", nil, "", "")
				}
				if marked && cr.Real != nil && !cr.Real.dead && validIn && declIsValidUtf8(cs) {
					layoutOracle(c, cr, help, cols)
				}
			}
		})
	}
}

// layoutOracle (C17), on declarations whose descriptions start with a marker: all descriptions start
// in one column; the words of every description are there in their order; where at least 10 columns
// remain beside the option column no description line is wider than the terminal.
func layoutOracle(c *Ctx, cr *CaseResult, help string, cols int) {
	vis, _ := visibleOptionsHelp(cr.Real)
	lines := strings.Split(help, "\n")
	in := map[string]interface{}{"case": cr.Case.Description, "cols": cols}
	fail := func(name, key, got, want string) {
		in["case_file"] = c.saveCase(cr)
		c.Check(name, false, key, in, got, want)
	}
	// the column of every description (where its marker is whole on one line)
	column := -1
	for _, o := range vis {
		if !strings.Contains(o.Description, markerOf(o)) {
			continue
		}
		for _, l := range lines {
			at := strings.Index(l, markerOf(o))
			if at < 0 {
				continue
			}
			col := utf8.RuneCountInString(l[:at])
			if column >= 0 && col != column {
				fail("descriptions-start-in-one-column", "C17:column", fmt.Sprintf("description of %s starts in column %d, another one in column %d", o.String(), col, column), "one common column")
				return
			}
			column = col
			break
		}
	}
	c.Check("descriptions-start-in-one-column", true, "", nil, "", "")
	for _, o := range vis {
		if o.Description == "" {
			continue
		}
		if !strings.Contains(squashAll(help), squashAll(o.Description)) {
			in["option"] = o.String()
			fail("description-words-are-kept-in-order", "C17:words", "absent (blanks and hyphens apart): "+squashAll(o.Description), "the words of the description in their order")
			return
		}
	}
	c.Check("description-words-are-kept-in-order", true, "", nil, "", "")
	if column > 0 {
		// continuation lines are indented to exactly that column
		indent := strings.Repeat(" ", column)
		for _, l := range lines {
			if !strings.HasPrefix(l, indent) || len(l) == column {
				continue
			}
			if first, _ := utf8.DecodeRuneInString(l[column:]); unicode.IsSpace(first) {
				fail("continuation-lines-are-indented-to-the-description-column", "C17:continuation", fmt.Sprintf("a continuation line starts in column %d: %q", column+len(l[column:])-len(strings.TrimLeft(l[column:], " \t")), l), fmt.Sprintf("column %d", column))
				return
			}
		}
		// and not to less: the lines that follow a description's first line, up to the next row
		inDesc := false
		for _, l := range lines {
			starts := false
			for _, o := range vis {
				if strings.Contains(o.Description, markerOf(o)) && strings.Contains(l, markerOf(o)) {
					starts = true
				}
			}
			lead := len(l) - len(strings.TrimLeft(l, " "))
			switch {
			case starts:
				inDesc = true
			case strings.TrimSpace(l) == "":
			case inDesc && lead >= 11:
				// (an option row has at most ten blanks before its dash, other rows two)
				if lead != column {
					fail("continuation-lines-are-indented-to-the-description-column", "C17:continuation", fmt.Sprintf("a continuation line starts in column %d: %q", lead, l), fmt.Sprintf("column %d", column))
					return
				}
			default:
				inDesc = false
			}
		}
		c.Check("continuation-lines-are-indented-to-the-description-column", true, "", nil, "", "")
	}
	if column >= 0 && cols-column >= 10 {
		// description lines: the rows that carry a marker and the continuation lines indented to the column
		indent := strings.Repeat(" ", column)
		for _, l := range lines {
			isDesc := strings.HasPrefix(l, indent) && column > 0
			for _, o := range vis {
				if strings.Contains(l, markerOf(o)) {
					isDesc = true
				}
			}
			if isDesc && utf8.RuneCountInString(l) > cols {
				fail("no-description-line-is-wider-than-the-terminal", "C17:width", fmt.Sprintf("a line of %d characters: %q", utf8.RuneCountInString(l), l), fmt.Sprintf("at most %d", cols))
				return
			}
		}
		c.Check("no-description-line-is-wider-than-the-terminal", true, "", nil, "", "")
	}
}

func bucket(n int) string {
	switch {
	case n < 10:
		return "<10"
	case n < 40:
		return "10-39"
	case n < 100:
		return "40-99"
	}
	return ">=100"
}

func declIsValidUtf8(cs *Case) bool {
	ok := true
	var walk func(sd *StructDesc)
	walk = func(sd *StructDesc) {
		for _, f := range sd.Fields {
			if !utf8.ValidString(f.Tag) {
				ok = false
			}
			if strings.HasPrefix(f.Init, "vs:") {
				s, _ := unhx(f.Init[3:])
				if !utf8.ValidString(s) {
					ok = false
				}
			}
			if f.Sub != nil {
				walk(f.Sub)
			}
		}
	}
	for _, b := range cs.Build {
		if b.Struct != nil {
			walk(b.Struct)
		}
	}
	return ok
}

// ---------------------------------------------------------------- C18: completion

func checkC18(c *Ctx, n int) {
	p := defaultProfile
	p.BadDecl = 0
	p.Exec = false
	p.Handlers = false
	p.OnlyTypes = []string{"str", "bool", "int", "c2", "c2", "Lc2", "Lstr", "Mstr,int", "F-", "Pbool", "c0", "f64"}
	for i := 0; i < n; i++ {
		g := &gen{r: c.Rng, p: p}
		if i%3 != 0 {
			// mostly valid command-line prefixes: few unknown / malformed words, many command words,
			// optional subcommands (a plain word is then an argument, not an unknown command)
			g.p.Unknown, g.p.Weird, g.p.ValueBad, g.p.CmdWord, g.p.SubOpt, g.p.Required = 0.02, 0.02, 0.02, 0.3, 0.5, 0.05
		}
		cs := g.genCase()
		real, _ := BuildReal(cs)
		if real.dead {
			continue
		}
		args := g.genCompleteArgs(real)
		cs.Ops = []Op{{Kind: "complete", Args: args}}
		cs.Description = describeOps(cs)
		c.RunCases([]*Case{cs}, func(cr *CaseResult) {
			c.classifyCase(cr)
			c.Distinct(cs.Description)
			compL := firstLine(cr.Impl, "COMP ")
			in := map[string]interface{}{"case": cs.Description, "args": args}
			if compL == "" {
				in["case_file"] = c.saveCase(cr)
				c.Check("completion-returns", false, "C18:completion-panic", in, strings.Join(cr.Impl, " | "), "a completion list")
				return
			}
			ws := strings.Fields(compL)
			var items []string
			for j := 2; j < len(ws); j += 2 {
				s, _ := unhx(ws[j])
				items = append(items, s)
			}
			c.Class(fmt.Sprintf("c18/items=%d", minInt(len(items), 6)))
			okSorted := sort.StringsAreSorted(items)
			if !okSorted {
				in["case_file"] = c.saveCase(cr)
			}
			c.Check("completion-list-is-sorted", okSorted, "C18:unsorted", in, fmt.Sprintf("%q", items), "sorted")
			// nothing hidden is offered: a hidden option's names are unique markers only if no visible
			// option shares them
			visibleNames := map[string]bool{}
			hiddenNames := map[string]bool{}
			for _, cmd := range cr.Real.commandsPreorder() {
				for _, grp := range allGroups(cmd) {
					for _, o := range grp.Options() {
						if o.LongName == "" {
							continue
						}
						if o.Hidden {
							hiddenNames["--"+o.LongNameWithNamespace()] = true
						} else {
							visibleNames["--"+o.LongNameWithNamespace()] = true
						}
					}
				}
			}
			for _, it := range items {
				if hiddenNames[it] && !visibleNames[it] {
					in["case_file"] = c.saveCase(cr)
					c.Check("hidden-option-not-offered", false, "C18:hidden-offered", in, it, "not offered")
				}
			}
			oracleCompletion(c, cs, cr, args, items)
		})
	}
}

// ---------------------------------------------------------------- C19: the public model

func checkC19Model(c *Ctx, n int) {
	p := defaultProfile
	p.BadDecl = 0.15
	p.MaxCmdDepth = 3
	for i := 0; i < n; i++ {
		g := &gen{r: c.Rng, p: p}
		cs := g.genCase()
		if g.chance(0.35) {
			for bi := range cs.Build {
				if cs.Build[bi].Struct != nil && g.collideDuplicate(cs.Build[bi].Struct) {
					c.Class("c19/deliberate-cross-group-duplicate")
					break
				}
			}
		}
		g.addProgrammatic(cs)
		cs.Ops = []Op{{Kind: "model"}, {Kind: "parse", Args: []string{}}}
		cs.Description = describeOps(cs)
		c.RunCases([]*Case{cs}, func(cr *CaseResult) {
			c.classifyCase(cr)
			c.Distinct(strings.Join(cr.Lines, "\n"))
			for _, l := range cr.Impl {
				if strings.HasPrefix(l, "HARNESS-PANIC") || strings.HasPrefix(l, "PANIC") {
					c.Check("declaration-never-panics", false, "C19:build-panic", map[string]interface{}{"case": cs.Description, "case_file": c.saveCase(cr)}, l, "typed error or model")
					return
				}
			}
			c.Check("declaration-never-panics", true, "", nil, "", "")
			// build errors are typed
			for _, l := range cr.Impl {
				if strings.HasPrefix(l, "R ") && l != "R ok" {
					ws := strings.Fields(l)
					ok := ws[1] == "flags" && (ws[2] == "8" || ws[2] == "9" || ws[2] == "10" || ws[2] == "14")
					c.Class("c19/build-error-" + ws[2])
					c.Check("setup-error-is-typed", ok, "C19:untyped-setup-error", map[string]interface{}{"case": cs.Description, "case_file": "(see replay)"}, decodeLine(l), "ErrTag / ErrShortNameTooLong / ErrDuplicatedFlag / ErrInvalidTag")
				}
			}
			if cr.Real == nil || cr.Real.dead {
				return
			}
			// attributes against an independent reading of the tags (reflect.StructTag; keys that
			// occur once)
			for _, cmd := range cr.Real.commandsPreorder() {
				for _, grp := range allGroups(cmd) {
					for _, o := range grp.Options() {
						tag := o.Field().Tag
						if tag == "" || grp.ShortDescription == "Help Options" && o.LongName == "help" {
							continue
						}
						checkAttr := func(key, got string) {
							if strings.Count(string(tag), key+":\"") != 1 {
								return
							}
							want, _ := tag.Lookup(key)
							ok := got == want
							in := map[string]interface{}{"case": cs.Description, "field": o.Field().Name, "tag": string(tag), "attribute": key}
							if !ok {
								in["case_file"] = c.saveCase(cr)
							}
							c.Check("attribute-reflects-tag", ok, "C19:attribute-differs", in, got, want)
						}
						checkAttr("long", o.LongName)
						checkAttr("description", o.Description)
						checkAttr("env", o.EnvDefaultKey)
						checkAttr("env-delim", o.EnvDefaultDelim)
						checkAttr("value-name", o.ValueName)
						checkAttr("default-mask", o.DefaultMask)
						if strings.Count(string(tag), "short:\"") == 1 {
							want, _ := tag.Lookup("short")
							sn := ""
							if o.ShortName != 0 {
								sn = string(o.ShortName)
							}
							checkAttr("short", sn)
							_ = want
						}
						wantDefaults := manyValues(string(tag), "default")
						if !reflect.DeepEqual(normList(o.Default), normList(wantDefaults)) {
							c.Check("defaults-in-order", false, "C19:defaults-differ", map[string]interface{}{"case": cs.Description, "field": o.Field().Name, "tag": string(tag), "case_file": c.saveCase(cr)}, fmt.Sprintf("%q", o.Default), fmt.Sprintf("%q", wantDefaults))
						} else {
							c.Check("defaults-in-order", true, "", nil, "", "")
						}
						wantChoices := manyValues(string(tag), "choice")
						if !reflect.DeepEqual(normList(o.Choices), normList(wantChoices)) {
							c.Check("choices-in-order", false, "C19:choices-differ", map[string]interface{}{"case": cs.Description, "field": o.Field().Name, "tag": string(tag), "case_file": c.saveCase(cr)}, fmt.Sprintf("%q", o.Choices), fmt.Sprintf("%q", wantChoices))
						}
					}
				}
			}
		})
	}
}

func normList(l []string) []string {
	if len(l) == 0 {
		return nil
	}
	return l
}

// manyValues: all values of a key in a generated (well-formed) tag, in order.
func manyValues(tag, key string) []string {
	var out []string
	for _, p := range splitTagPairs(tag) {
		if strings.HasPrefix(p, key+":\"") {
			if v, ok := reflect.StructTag(p).Lookup(key); ok {
				out = append(out, v)
			}
		}
	}
	return out
}

// checkC17Nested: help with a subcommand active.  The options of the active subcommand are printed four
// columns further in; the description column is the maximum over ALL rows, the indentation counted.  The
// subcommand's longest name is chosen around the top level's longest (a few characters shorter, equal,
// longer), which is where a name of the subcommand starts to decide the column.
func checkC17Nested(c *Ctx, n int) {
	r := c.Rng
	for i := 0; i < n; i++ {
		L := 6 + r.Intn(14)
		delta := r.Intn(8) - 5 // the subcommand's long name is L+delta characters long
		if L+delta < 2 {
			delta = 0
		}
		name := func(k int, ch rune) string { return strings.Repeat(string(ch), k) }
		topCh, subCh := 't', 's'
		if r.Intn(3) == 0 {
			topCh, subCh = 'é', '語'
		}
		subTy := []string{"bool", "str", "int"}[r.Intn(3)]
		subTag := fmt.Sprintf(`long:"%s" description:"desc-of-SubOpt-end sub"`, name(L+delta, subCh))
		if subTy != "bool" && r.Intn(2) == 0 {
			subTag += ` value-name:"N"`
		}
		topTag := fmt.Sprintf(`long:"%s" description:"desc-of-TopOpt-end top"`, name(L, topCh))
		if r.Intn(2) == 0 {
			topTag += ` short:"t"`
		}
		sub := &StructDesc{Fields: []FieldDesc{{Name: "SubOpt", Exported: true, Kind: "v", Ty: subTy, Tag: subTag}}}
		if r.Intn(2) == 0 {
			sub.Fields = append(sub.Fields, FieldDesc{Name: "SubFlag", Exported: true, Kind: "v", Ty: "bool", Tag: `short:"x" description:"desc-of-SubFlag-end flag"`})
		}
		root := &StructDesc{Fields: []FieldDesc{
			{Name: "TopOpt", Exported: true, Kind: "v", Ty: "bool", Tag: topTag},
			{Name: "Sub", Exported: true, Kind: "s", Sub: sub, Tag: `command:"sub" description:"the sub command"`}}}
		// a third of the declarations: the PARENT takes a described positional argument whose name is
		// around (or well beyond) the widest option name - its row is laid out in the same column
		path := []string{"sub"}
		if r.Intn(3) == 0 {
			an := name(L+r.Intn(12)-2, 'p')
			root.Fields = append(root.Fields, FieldDesc{Name: "Args", Exported: true, Kind: "s", Tag: `positional-args:"yes"`, Sub: &StructDesc{Fields: []FieldDesc{
				{Name: "Parg", Exported: true, Kind: "v", Ty: "str", Tag: fmt.Sprintf(`positional-arg-name:"%s" description:"argdesc-of-Parg-end parent argument"`, an)}}}})
			path = []string{"value", "sub"}
		}
		if r.Intn(4) == 0 {
			sub.Fields = append(sub.Fields, FieldDesc{Name: "SArgs", Exported: true, Kind: "s", Tag: `positional-args:"yes"`, Sub: &StructDesc{Fields: []FieldDesc{
				{Name: "Sarg", Exported: true, Kind: "v", Ty: "str", Tag: fmt.Sprintf(`positional-arg-name:"%s" description:"argdesc-of-Sarg-end sub argument"`, name(L+r.Intn(8)-2, 'q'))}}}})
		}
		cs := &Case{Name: "app", NsDelim: ".", EnvNsDelim: "_"}
		if r.Intn(2) == 0 {
			cs.Opts |= flags.HelpFlag
		}
		cs.Build = []BuildOp{{Kind: "addgroup", Target: 1, Short: "Application Options", Struct: root}}
		cols := []int{80, 120, 60}[r.Intn(3)]
		cs.Ops = []Op{{Kind: "parse", Args: path}, {Kind: "help", Cols: effCols(cols)}}
		cs.Description = describeOps(cs)
		c.RunCases([]*Case{cs}, func(cr *CaseResult) {
			c.classifyCase(cr)
			c.Class(fmt.Sprintf("c17/nested: sub-name minus top-name = %d", delta))
			c.Distinct(cs.Description + topTag + subTag + fmt.Sprint(len(root.Fields), len(sub.Fields)))
			for _, l := range cr.Impl {
				if l == "HELP PANIC" || strings.HasPrefix(l, "PANIC") {
					c.Check("help-never-panics", false, "C17:help-panic", map[string]interface{}{"case": cs.Description, "top_option": topTag, "sub_option": subTag, "case_file": c.saveCase(cr)}, l, "normal return")
					return
				}
			}
			helpL := firstLine(cr.Impl, "HELP ")
			if strings.HasPrefix(helpL, "HELP x") {
				help, _ := unhx(helpL[5:])
				layoutOracle(c, cr, help, effCols(cols))
			}
		})
	}
}
