package main

// Library-alone stages over declarations whose field types lie outside the model's universe of types:
// named bool types with a conversion of their own (C02), callbacks whose result type is a concrete
// error type (C04).

import (
	"fmt"
	"reflect"
	"strings"

	flags "github.com/jessevdk/go-flags"
)

// exSwitch: kind bool, but it takes an argument (its own conversion reads on / off)
type exSwitch bool

func (s *exSwitch) UnmarshalFlag(v string) error {
	switch v {
	case "on":
		*s = true
	case "off":
		*s = false
	default:
		return fmt.Errorf("exSwitch: on or off, not %q", v)
	}
	return nil
}

// checkC02Exotic: the documented spellings of one occurrence of an option of a bool-kinded type with
// its own conversion (scalar or pointer) are interchangeable: same value, same remaining arguments,
// same kind of error.
func checkC02Exotic(c *Ctx, n int) {
	r := c.Rng
	for i := 0; i < n; i++ {
		t := reflect.TypeOf(exSwitch(false))
		if r.Intn(2) == 0 {
			t = reflect.PtrTo(t)
		}
		st := reflect.StructOf([]reflect.StructField{
			{Name: "V", Type: reflect.TypeOf(false), Tag: `short:"v"`},
			{Name: "Sw", Type: t, Tag: `short:"c" long:"color"`},
		})
		val := []string{"on", "on", "off", "maybe"}[r.Intn(4)]
		quoted := r.Intn(4) == 0
		lit := val
		if quoted {
			lit = `"` + val + `"`
		}
		spellings := [][]string{{"-c" + lit}, {"-c=" + lit}, {"-c", lit}, {"--color=" + lit}, {"--color", lit}, {"-vc", lit}}
		type outcome struct{ desc string }
		var ref string
		var refSp []string
		allSame := true
		var outs []string
		for _, sp := range spellings {
			v := reflect.New(st)
			argv := append(append([]string{"w0"}, sp...), "w1")
			var ret []string
			var err error
			pan := safe(func() { ret, err = flags.NewParser(v.Interface(), flags.None).ParseArgs(argv) })
			c.R.Evaluations++
			sw := v.Elem().Field(1)
			held := "unset"
			if sw.Kind() == reflect.Ptr {
				if !sw.IsNil() {
					held = fmt.Sprint(sw.Elem().Bool())
				}
			} else {
				held = fmt.Sprint(sw.Bool())
			}
			o := ""
			switch {
			case pan != nil:
				o = fmt.Sprintf("panic %v", pan)
			case err != nil:
				ty := "foreign"
				if fe, ok := err.(*flags.Error); ok {
					ty = fmt.Sprintf("type %d", fe.Type)
				}
				o = "error " + ty
			default:
				o = fmt.Sprintf("ok value=%s remaining=%q", held, ret)
			}
			outs = append(outs, fmt.Sprintf("%q: %s", sp, o))
			if ref == "" {
				ref, refSp = o, sp
			} else if o != ref {
				allSame = false
			}
		}
		_ = refSp
		c.Distinct(fmt.Sprintf("c02exotic|%s|%s|%v", t, val, quoted))
		c.Class(fmt.Sprintf("c02/bool-kinded type with its own conversion: pointer=%v value=%s quoted=%v", t.Kind() == reflect.Ptr, val, quoted))
		in := map[string]interface{}{"declaration": fmt.Sprintf("Sw %s `short:\"c\" long:\"color\"` (the type implements Unmarshaler), V bool `short:\"v\"`", t), "value": lit}
		c.Check("spellings-are-interchangeable-for-a-bool-kinded-type-that-takes-an-argument", allSame, "C02:exotic", in, strings.Join(outs, "; "), "the same outcome for every spelling")
	}
}

type exErr struct{ msg string }

func (e *exErr) Error() string {
	if e == nil {
		return "<nil exErr>"
	}
	return e.msg
}

// checkC04CallbackTypes: callbacks whose declared result is a concrete error type (or no error at
// all).  A callback that accepts its value - returns a nil pointer - is no rejection: the parse
// succeeds; it never panics.
func checkC04CallbackTypes(c *Ctx, n int) {
	r := c.Rng
	for i := 0; i < n; i++ {
		calls := 0
		var fn interface{}
		kind := r.Intn(6)
		takesArg := true
		refuse := r.Intn(4) == 0
		switch kind {
		case 0:
			fn = func(s string) *flags.Error {
				calls++
				if refuse {
					return &flags.Error{Type: flags.ErrMarshal, Message: "refused"}
				}
				return nil
			}
		case 1:
			takesArg = false
			fn = func() *flags.Error {
				calls++
				if refuse {
					return &flags.Error{Type: flags.ErrMarshal, Message: "refused"}
				}
				return nil
			}
		case 2:
			fn = func(s string) *exErr {
				calls++
				if refuse {
					return &exErr{"refused"}
				}
				return nil
			}
		case 3:
			refuse = false
			fn = func(s string) int { calls++; return 7 }
		case 4:
			fn = func(s string) error {
				calls++
				if refuse {
					return &exErr{"refused"}
				}
				return nil
			}
		default:
			refuse = false
			fn = func(s string) { calls++ }
		}
		tag := `long:"level" short:"l"`
		viaDefault := takesArg && r.Intn(3) == 0
		if viaDefault {
			tag += ` default:"info"`
		}
		st := reflect.StructOf([]reflect.StructField{
			{Name: "V", Type: reflect.TypeOf(false), Tag: `short:"v"`},
			{Name: "Level", Type: reflect.TypeOf(fn), Tag: reflect.StructTag(tag)},
		})
		v := reflect.New(st)
		v.Elem().Field(1).Set(reflect.ValueOf(fn))
		var argv []string
		if !viaDefault {
			if takesArg {
				argv = [][]string{{"--level", "info"}, {"--level=info"}, {"-vl", "info"}, {"-linfo", "rest"}}[r.Intn(4)]
			} else {
				argv = [][]string{{"--level"}, {"-vl"}, {"-l", "rest"}}[r.Intn(3)]
			}
		}
		var err error
		pan := safe(func() { _, err = flags.NewParser(v.Interface(), flags.None).ParseArgs(argv) })
		c.R.Evaluations++
		desc := fmt.Sprintf("Level %s `%s`, argv %q", reflect.TypeOf(fn), tag, argv)
		c.Distinct("c04cb|" + desc + fmt.Sprint(refuse))
		c.Class(fmt.Sprintf("c04/callback result type %s refuses=%v via-default=%v", reflect.TypeOf(fn), refuse, viaDefault))
		in := map[string]interface{}{"declaration": fmt.Sprintf("Level %s `%s`", reflect.TypeOf(fn), tag), "argv": argv, "callback_returns_an_error": refuse}
		got := "success"
		if pan != nil {
			got = fmt.Sprintf("panic: %v", pan)
		} else if err != nil {
			got = fmt.Sprintf("error (%T): %v", err, err)
		}
		got += fmt.Sprintf(", %d calls", calls)
		var ok bool
		want := "success, one call"
		if refuse && (kind == 4 || kind == 0 || kind == 1 || kind == 2) {
			// (whether a non-`error` result type is consulted at all is the library's choice: only the
			// callbacks declared to return `error` must have their error returned)
			want = "one call; an error if the callback is declared to return error"
			ok = pan == nil && calls == 1 && (kind != 4 || err != nil)
		} else {
			ok = pan == nil && err == nil && calls == 1
		}
		c.Check("a-callback-that-accepts-its-value-is-no-rejection", ok, "C04:callback-result-type", in, got, want)
	}
}

// exHostSet: a struct option type that cannot be compared with == (it holds a slice)
type exHostSet struct{ hosts []string }

func (h *exHostSet) UnmarshalFlag(v string) error { h.hosts = append(h.hosts, v); return nil }

// exPair: a comparable struct option type (control)
type exPair struct{ a, b string }

func (p *exPair) UnmarshalFlag(v string) error { p.a = v; return nil }

type exFuncBox struct{ f func() }

func (p *exFuncBox) UnmarshalFlag(v string) error { return nil }

type exMapBox struct{ m map[string]int }

func (p *exMapBox) UnmarshalFlag(v string) error { return nil }

// checkC04StructTypes: options whose field type is a struct with a conversion of its own - comparable
// or not (a slice, map or func inside) - with and without a default tag, on every kind of argument
// vector: ParseArgs returns normally, rejections are typed.
func checkC04StructTypes(c *Ctx, n int) {
	r := c.Rng
	types := []reflect.Type{reflect.TypeOf(exHostSet{}), reflect.TypeOf(exPair{}), reflect.TypeOf(exFuncBox{}), reflect.TypeOf(exMapBox{})}
	for i := 0; i < n; i++ {
		t := types[r.Intn(len(types))]
		if r.Intn(3) == 0 {
			t = reflect.PtrTo(t)
		}
		tag := `long:"hosts" short:"H"`
		if r.Intn(3) == 0 {
			tag += ` default:"d"`
		}
		st := reflect.StructOf([]reflect.StructField{
			{Name: "V", Type: reflect.TypeOf(false), Tag: `short:"v"`},
			{Name: "Hosts", Type: t, Tag: reflect.StructTag(tag)},
		})
		argv := [][]string{{}, {"-v"}, {"--hosts=a"}, {"-H", "a", "--hosts", "b"}, {"--nosuch"}, {"--help"}, {"w"}}[r.Intn(7)]
		opts := []flags.Options{flags.None, flags.Default &^ flags.PrintErrors, flags.IgnoreUnknown}[r.Intn(3)]
		v := reflect.New(st)
		var err error
		pan := safe(func() { _, err = flags.NewParser(v.Interface(), opts).ParseArgs(argv) })
		c.R.Evaluations++
		desc := fmt.Sprintf("Hosts %s `%s`, options %d, argv %q", t, tag, opts, argv)
		c.Distinct("c04struct|" + desc)
		c.Class(fmt.Sprintf("c04/struct-typed option %s", t))
		in := map[string]interface{}{"declaration": fmt.Sprintf("Hosts %s `%s`", t, tag), "parser_options": uint(opts), "argv": argv}
		got := "returns normally"
		ok := pan == nil
		if pan != nil {
			got = fmt.Sprintf("panic: %v", pan)
		} else if err != nil {
			if _, isFlags := err.(*flags.Error); !isFlags {
				ok = false
			}
			got = fmt.Sprintf("error (%T): %v", err, err)
			if len(got) > 200 {
				got = got[:200]
			}
		}
		c.Check("struct-typed-options-never-make-parsing-panic", ok, "C04:struct-type", in, got, "a normal return: success or a *flags.Error")
	}
}

// exLevel: a struct-kind type with its own conversion that rejects most texts
type exLevel struct{ n int }

func (l *exLevel) UnmarshalFlag(v string) error {
	switch v {
	case "low":
		l.n = 1
	case "high":
		l.n = 3
	default:
		return fmt.Errorf("exLevel: low or high, not %q", v)
	}
	return nil
}

// exWord: a string-kind type with its own conversion
type exWord string

func (w *exWord) UnmarshalFlag(v string) error {
	if v != "alpha" && v != "beta" {
		return fmt.Errorf("exWord: alpha or beta, not %q", v)
	}
	*w = exWord("<" + v + ">")
	return nil
}

// checkC11DeepUnmarshaler (library alone): a type with its own conversion reached through pointers, as
// an option field (*T, **T), as the element of a slice ([]*T) or as the value of a map (map[string]T,
// map[string]*T): a text the conversion rejects is ErrMarshal, a text it accepts stores what IT denotes.
func checkC11DeepUnmarshaler(c *Ctx, n int) {
	r := c.Rng
	for i := 0; i < n; i++ {
		structKind := r.Intn(2) == 0
		base := reflect.TypeOf(exWord(""))
		good, bad := []string{"alpha", "beta"}[r.Intn(2)], []string{"gamma", "", "Alpha"}[r.Intn(3)]
		if structKind {
			base = reflect.TypeOf(exLevel{})
			good, bad = []string{"low", "high"}[r.Intn(2)], []string{"bogus", "", "LOW"}[r.Intn(3)]
		}
		shape := []string{"T", "*T", "**T", "[]T", "[]*T", "map[string]T", "map[string]*T"}[r.Intn(7)]
		var t reflect.Type
		switch shape {
		case "T":
			t = base
		case "*T":
			t = reflect.PtrTo(base)
		case "**T":
			t = reflect.PtrTo(reflect.PtrTo(base))
		case "[]T":
			t = reflect.SliceOf(base)
		case "[]*T":
			t = reflect.SliceOf(reflect.PtrTo(base))
		case "map[string]T":
			t = reflect.MapOf(reflect.TypeOf(""), base)
		default:
			t = reflect.MapOf(reflect.TypeOf(""), reflect.PtrTo(base))
		}
		useBad := r.Intn(2) == 0
		text := good
		if useBad {
			text = bad
		}
		arg := text
		if strings.HasPrefix(shape, "map") {
			arg = "k:" + text
		}
		st := reflect.StructOf([]reflect.StructField{{Name: "Lv", Type: t, Tag: `long:"lv"`}})
		v := reflect.New(st)
		var err error
		pan := safe(func() { _, err = flags.NewParser(v.Interface(), flags.None).ParseArgs([]string{"--lv=" + arg}) })
		c.R.Evaluations++
		// what is stored, rendered through the innermost value
		cur := v.Elem().Field(0)
		for cur.IsValid() && (cur.Kind() == reflect.Ptr || cur.Kind() == reflect.Slice || cur.Kind() == reflect.Map) {
			switch cur.Kind() {
			case reflect.Ptr:
				if cur.IsNil() {
					cur = reflect.Value{}
				} else {
					cur = cur.Elem()
				}
			case reflect.Slice:
				if cur.Len() == 0 {
					cur = reflect.Value{}
				} else {
					cur = cur.Index(0)
				}
			case reflect.Map:
				mv := cur.MapIndex(reflect.ValueOf("k"))
				cur = mv
			}
		}
		stored := "nothing"
		if cur.IsValid() {
			if structKind {
				stored = fmt.Sprint(cur.Field(0).Int())
			} else {
				stored = cur.String()
			}
		}
		desc := fmt.Sprintf("Lv %s `long:\"lv\"`, argv [--lv=%s]", t, arg)
		c.Distinct("c11deep|" + desc)
		c.Class(fmt.Sprintf("c11/deep-unmarshaler shape=%s struct-kind=%v rejected-text=%v", shape, structKind, useBad))
		in := map[string]interface{}{"declaration": fmt.Sprintf("Lv %s", t), "argument": arg, "the_type_implements_Unmarshaler": base.String()}
		got := fmt.Sprintf("stored %s", stored)
		if pan != nil {
			got = fmt.Sprintf("panic: %v", pan)
		} else if err != nil {
			got = fmt.Sprintf("error (%T): %v", err, err)
		}
		var ok bool
		var want string
		if useBad {
			want = "ErrMarshal"
			fe, isFlags := err.(*flags.Error)
			ok = pan == nil && isFlags && fe.Type == flags.ErrMarshal
		} else {
			wantStored := "<" + good + ">"
			if structKind {
				wantStored = map[string]string{"low": "1", "high": "3"}[good]
			}
			want = "success, stored " + wantStored
			ok = pan == nil && err == nil && stored == wantStored
		}
		c.Check("a-conversion-of-the-type's-own-is-used-at-every-depth", ok, "C11:deep-unmarshaler", in, got, want)
	}
}
