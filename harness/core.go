package main

import (
	"encoding/json"
	"fmt"
	"math/rand"
	"os"
	"path/filepath"
	"sort"
	"strings"
	"time"
)

// Disagreement: the model and the implementation answered differently on one request.
type Disagreement struct {
	Request string `json:"request"`
	Impl    string `json:"impl"`
	Model   string `json:"model"`
	Note    string `json:"note,omitempty"`
}

// Failure: a model-independent property oracle failed on the implementation for a concrete input.
type Failure struct {
	Oracle string                 `json:"oracle"`
	Key    string                 `json:"finding_key"` // narrow class of the failing input, matched against known_findings.json
	Input  map[string]interface{} `json:"input"`
	Got    string                 `json:"got"`
	Want   string                 `json:"want"`
}

type Result struct {
	Property      string         `json:"property"`
	Tier          string         `json:"tier"`
	Seed          int64          `json:"seed"`
	Evaluations   int            `json:"evaluations"`
	Distinct      int            `json:"distinct_nontrivial"`
	Rule          string         `json:"rule"`
	Classes       map[string]int `json:"distribution"`
	Samples       []interface{}  `json:"samples"`
	Disagreements []Disagreement `json:"disagreements"`
	Failures      []Failure      `json:"failures"`
	Known         []Failure      `json:"known"`
	DriverOps     int            `json:"driver_requests"`
	OracleMisses  int            `json:"oracle_entries"`
	OracleChecks  int            `json:"property_oracle_checks"`
	WallS         float64        `json:"wall_s"`
	Notes         []string       `json:"notes,omitempty"`
}

type pending struct {
	req, impl, note string
}

type Ctx struct {
	Prop                string
	Tier                string
	Seed                int64
	Rng                 *rand.Rand
	D                   *Driver
	R                   *Result
	distinct            map[string]struct{}
	inCase, caseCounted bool
	queue               []pending
	known               map[string]bool
	N                   int // case budget for this tier
	maxKeep             int
	Start               time.Time
	Out                 string
	Rule                string
}

func NewCtx(prop, tier string, seed int64, driverPath string) (*Ctx, error) {
	d, err := StartDriver(driverPath)
	if err != nil {
		return nil, err
	}
	c := &Ctx{Prop: prop, Tier: tier, Seed: seed, Rng: rand.New(rand.NewSource(seed)), D: d,
		R:        &Result{Property: prop, Tier: tier, Seed: seed, Classes: map[string]int{}},
		distinct: map[string]struct{}{}, known: map[string]bool{}, maxKeep: 20}
	return c, nil
}

// LoadKnown reads /verif/known_findings.json (never written at run time).
func (c *Ctx) LoadKnown(path string) {
	data, err := os.ReadFile(path)
	if err != nil {
		return
	}
	var kf struct {
		Findings []struct {
			Property string `json:"property"`
			Key      string `json:"key"`
		} `json:"findings"`
	}
	if json.Unmarshal(data, &kf) != nil {
		return
	}
	for _, f := range kf.Findings {
		if f.Property == c.Prop {
			c.known[f.Key] = true
		}
	}
}

// Class counts one generated case under a distribution label.
func (c *Ctx) Class(label string) { c.R.Classes[label]++ }

// Distinct records a canonical key of a non-trivial case.
// Distinct counts one distinct non-trivial case.  While the callback of one evaluated case runs
// only the first key counts: a case is one case, however many stages describe it.
func (c *Ctx) Distinct(key string) {
	if c.inCase {
		if c.caseCounted {
			return
		}
		c.caseCounted = true
	}
	c.distinct[key] = struct{}{}
}

func (c *Ctx) Sample(v interface{}) {
	if len(c.R.Samples) < 8 {
		c.R.Samples = append(c.R.Samples, v)
	}
}

// Fn queues one function-level correspondence request: the model must answer `impl`.
func (c *Ctx) Fn(req, impl, note string) {
	c.R.Evaluations++
	c.queue = append(c.queue, pending{req, impl, note})
	if len(c.queue) >= 400 {
		c.Flush()
	}
}

func (c *Ctx) Flush() {
	if len(c.queue) == 0 {
		return
	}
	reqs := make([]string, len(c.queue))
	for i, p := range c.queue {
		reqs[i] = p.req
	}
	resps, err := c.D.Ask(reqs)
	if err != nil {
		fmt.Fprintln(os.Stderr, "harness: driver error:", err)
		c.R.Notes = append(c.R.Notes, "driver error: "+err.Error())
		c.R.Disagreements = append(c.R.Disagreements, Disagreement{Request: strings.Join(reqs[:minInt(3, len(reqs))], " ; "), Impl: "-", Model: "DRIVER-ERROR " + err.Error()})
		c.queue = c.queue[:0]
		return
	}
	for i, p := range c.queue {
		if resps[i] != p.impl {
			if len(c.R.Disagreements) < c.maxKeep {
				c.R.Disagreements = append(c.R.Disagreements, Disagreement{p.req, p.impl, resps[i], p.note})
			} else {
				c.R.Disagreements[c.maxKeep-1].Note = "more disagreements omitted"
			}
		}
	}
	c.queue = c.queue[:0]
}

// Check evaluates a property oracle; on failure records it (known finding or violation).
func (c *Ctx) Check(oracle string, ok bool, key string, input map[string]interface{}, got, want string) {
	c.R.OracleChecks++
	if ok {
		return
	}
	f := Failure{oracle, key, input, got, want}
	if c.known[key] {
		if len(c.R.Known) < c.maxKeep {
			c.R.Known = append(c.R.Known, f)
		}
		return
	}
	if len(c.R.Failures) < c.maxKeep {
		c.R.Failures = append(c.R.Failures, f)
	}
}

func (c *Ctx) Finish(start time.Time, rule string, out string) {
	c.Flush()
	c.R.Distinct = len(c.distinct)
	c.R.Rule = rule
	c.R.DriverOps = c.D.Sent
	c.R.OracleMisses = c.D.Misses
	c.R.WallS = time.Since(start).Seconds()
	c.D.Close()
	// keep map output stable
	keys := make([]string, 0, len(c.R.Classes))
	for k := range c.R.Classes {
		keys = append(keys, k)
	}
	sort.Strings(keys)
	data, _ := json.MarshalIndent(c.R, "", " ")
	os.MkdirAll(filepath.Dir(out), 0o755)
	os.WriteFile(out, data, 0o644)
}

func minInt(a, b int) int {
	if a < b {
		return a
	}
	return b
}
