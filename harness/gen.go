package main

import (
	"math/rand"
	"strings"
	"unicode/utf8"
)

// String generators. Every random choice comes from the one PRNG of the run.

var latinLetters = []rune("abcdefghijklmnopqrstuvwxyzABCDEFGHIJKLMNOPQRSTUVWXYZ")
var otherRunes = []rune("éèüßñçøåÆΩλπσФжяשלום中文字日本語한글😀🎉𝔘  　\u0085​�")
var punct = []rune("-=:\"'\\ \t;#[].,_/%`")

func pick(r *rand.Rand, rs []rune) rune { return rs[r.Intn(len(rs))] }

// genWord: a short name-like word; utf controls the share of non-ASCII runes.
func genWord(r *rand.Rand, minLen, maxLen int, utf float64) string {
	n := minLen
	if maxLen > minLen {
		n += r.Intn(maxLen - minLen + 1)
	}
	var b strings.Builder
	for i := 0; i < n; i++ {
		if r.Float64() < utf {
			b.WriteRune(pick(r, otherRunes[:30]))
		} else {
			b.WriteRune(pick(r, latinLetters[:26]))
		}
	}
	return b.String()
}

// genText: words separated by blanks, with optional long words, newlines, multi-byte runes.
func genText(r *rand.Rand, maxWords int, utf float64) string {
	n := r.Intn(maxWords + 1)
	var b strings.Builder
	for i := 0; i < n; i++ {
		if i > 0 {
			switch r.Intn(12) {
			case 0:
				b.WriteString("\n")
			case 1:
				b.WriteString("  ")
			case 2:
				b.WriteString("\t")
			case 3:
				b.WriteString(" \n ")
			default:
				b.WriteString(" ")
			}
		}
		maxl := 8
		if r.Intn(6) == 0 {
			maxl = 40
		}
		b.WriteString(genWord(r, 1, maxl, utf))
		if r.Intn(10) == 0 {
			b.WriteRune(pick(r, punct))
		}
	}
	return b.String()
}

// genBytes: arbitrary bytes (invalid UTF-8 likely).
func genBytes(r *rand.Rand, maxLen int) string {
	n := r.Intn(maxLen + 1)
	b := make([]byte, n)
	for i := range b {
		switch r.Intn(4) {
		case 0:
			b[i] = byte(r.Intn(256))
		case 1:
			b[i] = "-=:\"\\ \n\t;#[]"[r.Intn(12)]
		case 2:
			b[i] = byte(0x80 + r.Intn(0x80))
		default:
			b[i] = byte('a' + r.Intn(26))
		}
	}
	return string(b)
}

// genAny: mixture used where any string is legal.
func genAny(r *rand.Rand, maxLen int) string {
	switch r.Intn(6) {
	case 0:
		return genBytes(r, maxLen)
	case 1:
		return genWord(r, 0, maxLen/2+1, 0.5)
	case 2:
		var b strings.Builder
		n := r.Intn(maxLen/2 + 1)
		for i := 0; i < n; i++ {
			switch r.Intn(3) {
			case 0:
				b.WriteRune(pick(r, punct))
			case 1:
				b.WriteRune(pick(r, otherRunes))
			default:
				b.WriteRune(pick(r, latinLetters))
			}
		}
		return b.String()
	case 3:
		return ""
	default:
		return genWord(r, 1, maxLen/2+1, 0.1)
	}
}

// mutate applies one random edit (used for near-miss names).
func mutate(r *rand.Rand, s string) string {
	rs := []rune(s)
	switch r.Intn(5) {
	case 0: // delete
		if len(rs) > 0 {
			i := r.Intn(len(rs))
			rs = append(rs[:i:i], rs[i+1:]...)
		}
	case 1: // insert
		i := r.Intn(len(rs) + 1)
		c := pick(r, latinLetters)
		rs = append(rs[:i:i], append([]rune{c}, rs[i:]...)...)
	case 2: // substitute
		if len(rs) > 0 {
			rs[r.Intn(len(rs))] = pick(r, append(latinLetters[:26:26], otherRunes[:10]...))
		}
	case 3: // case flip
		if len(rs) > 0 {
			i := r.Intn(len(rs))
			rs[i] = []rune(strings.ToUpper(string(rs[i])))[0]
		}
	default: // swap
		if len(rs) > 1 {
			i := r.Intn(len(rs) - 1)
			rs[i], rs[i+1] = rs[i+1], rs[i]
		}
	}
	return string(rs)
}

func runeLen(s string) int { return utf8.RuneCountInString(s) }
