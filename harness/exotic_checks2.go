package main

// Library-alone stages (round 11) over field types outside the model's universe: named scalar types that also
// carry an encoding.TextUnmarshaler written for some other decoder (C01), a named SLICE type with its own
// conversion as the trailing positional field (C10), a struct-typed option that holds a pointer (C15).

import (
	"os"
	"sort"
	"time"
	"bytes"
	"fmt"
	"reflect"
	"strconv"
	"strings"

	flags "github.com/jessevdk/go-flags"
)

// exPerm: a number whose TEXT form (for a config decoder) is octal — go-flags converts by kind: decimal
type exPerm uint32

func (p *exPerm) UnmarshalText(b []byte) error {
	v, err := strconv.ParseUint(string(b), 8, 32)
	*p = exPerm(v)
	return err
}

// exOnOff: a bool whose text form reads "" as off
type exOnOff bool

func (o *exOnOff) UnmarshalText(b []byte) error {
	*o = exOnOff(string(b) == "on" || string(b) == "true")
	return nil
}

// exShout: a string whose text form is upper-cased
type exShout string

func (s *exShout) UnmarshalText(b []byte) error {
	*s = exShout(strings.ToUpper(string(b)))
	return nil
}

type exTextOpts struct {
	Perm    exPerm            `long:"perm" short:"p"`
	Perms   []exPerm          `long:"perms"`
	PermMap map[string]exPerm `long:"permmap"`
	Switch  exOnOff           `long:"switch" short:"s"`
	Many    []exOnOff         `short:"m"`
	Shout   exShout           `long:"shout"`
	Plain   int
	Group   struct {
		Inner exPerm `long:"inner"`
	} `group:"G" namespace:"g"`
	Cmd struct {
		Deep []exPerm `long:"deep"`
	} `command:"cmd"`
}

// checkC01TextTypes: options of named scalar types that happen to implement encoding.TextUnmarshaler (not
// flags.Unmarshaler): the field holds the conversion go-flags documents for the type's kind — decimal numbers, the
// text itself, true for a flag that occurred.
func checkC01TextTypes(c *Ctx, n int) {
	r := c.Rng
	for i := 0; i < n; i++ {
		var o exTextOpts
		o.Plain = 77
		var argv []string
		num := func() (string, uint32) {
			v := []uint32{644, 10, 20, 17, 100, 8, 7, 755, 0}[r.Intn(9)]
			return fmt.Sprint(v), v
		}
		var wantPerm uint32
		var wantPerms, wantDeep []uint32
		wantMap := map[string]uint32{}
		var wantInner uint32
		wantSwitch, wantMany, wantShout := false, 0, ""
		useCmd := true // (the declaration has a command, so one must be named)
		k := 1 + r.Intn(5)
		for j := 0; j < k; j++ {
			switch r.Intn(7) {
			case 0:
				t, v := num()
				argv = append(argv, []string{"--perm=" + t, "-p" + t}[r.Intn(2)])
				wantPerm = v
			case 1:
				t, v := num()
				argv = append(argv, "--perms", t)
				wantPerms = append(wantPerms, v)
			case 2:
				t, v := num()
				key := []string{"a", "b"}[r.Intn(2)]
				argv = append(argv, "--permmap="+key+":"+t)
				wantMap[key] = v
			case 3:
				argv = append(argv, []string{"-s", "--switch"}[r.Intn(2)])
				wantSwitch = true
			case 4:
				m := 1 + r.Intn(3)
				argv = append(argv, "-"+strings.Repeat("m", m))
				wantMany += m
			case 5:
				argv = append(argv, "--shout=quiet")
				wantShout = "quiet"
			case 6:
				t, v := num()
				argv = append(argv, "--g.inner="+t)
				wantInner = v
			}
		}
		if useCmd {
			argv = append(argv, "cmd")
			for j := r.Intn(3); j > 0; j-- {
				t, v := num()
				argv = append(argv, "--deep="+t)
				wantDeep = append(wantDeep, v)
			}
		}
		var err error
		pan := safe(func() { _, err = flags.NewParser(&o, flags.None).ParseArgs(argv) })
		c.R.Evaluations++
		list := func(xs []exPerm) []uint32 {
			var out []uint32
			for _, x := range xs {
				out = append(out, uint32(x))
			}
			return out
		}
		gotMap := map[string]uint32{}
		for k, v := range o.PermMap {
			gotMap[k] = uint32(v)
		}
		nMany := 0
		allTrue := true
		for _, b := range o.Many {
			nMany++
			allTrue = allTrue && bool(b)
		}
		got := fmt.Sprintf("panic=%v err=%v perm=%d perms=%v map=%v switch=%v many=%d(all true: %v) shout=%q inner=%d deep=%v plain=%d",
			pan, err, uint32(o.Perm), list(o.Perms), gotMap, bool(o.Switch), nMany, allTrue, string(o.Shout), uint32(o.Group.Inner), list(o.Cmd.Deep), o.Plain)
		want := fmt.Sprintf("panic=<nil> err=<nil> perm=%d perms=%v map=%v switch=%v many=%d(all true: true) shout=%q inner=%d deep=%v plain=77",
			wantPerm, wantPerms, wantMap, wantSwitch, wantMany, wantShout, wantInner, wantDeep)
		c.Distinct("c01text|" + strings.Join(argv, " "))
		c.Class(fmt.Sprintf("c01/text-types: occurrences=%d command=%v", k, useCmd))
		in := map[string]interface{}{"declaration": "named uint32 / bool / string types with an UnmarshalText method (no UnmarshalFlag): scalar, slice, map value, flag, flag list, in a namespaced group, in a command", "argv": argv}
		c.Check("field-holds-what-the-command-line-denotes-for-a-named-scalar-type-with-a-text-decoder", got == want, "C01:text-types", in, got, want)
	}
}

// exTagList: a named slice type with its own conversion (comma-separated, accumulating)
type exTagList []string

func (t *exTagList) UnmarshalFlag(v string) error {
	if v == "bad" {
		return fmt.Errorf("exTagList: bad")
	}
	*t = append(*t, strings.Split(v, ",")...)
	return nil
}

// checkC10SliceUnmarshaler: the trailing positional field is of a named slice type that implements Unmarshaler
// itself.  It is a slice field: it absorbs ALL further words (each handed to its conversion), none becomes a
// remaining argument; interleaved flags and the terminator change nothing.
func checkC10SliceUnmarshaler(c *Ctx, n int) {
	r := c.Rng
	for i := 0; i < n; i++ {
		type posT struct {
			First string
			Tags  exTagList
		}
		type optsT struct {
			V    []bool `short:"v"`
			Args posT   `positional-args:"yes"`
		}
		type cmdT struct {
			Sub optsT `command:"sub"`
		}
		onCmd := r.Intn(2) == 0
		var argv []string
		if onCmd {
			argv = append(argv, "sub")
		}
		k := r.Intn(5)
		var wantTags []string
		wantFirst := ""
		nWords := 0
		term := false
		for j := 0; j < k+1; j++ {
			if r.Intn(3) == 0 && !term {
				argv = append(argv, "-v")
			}
			if r.Intn(6) == 0 && !term {
				argv = append(argv, "--")
				term = true
			}
			w := []string{"a", "b,c", "x", "y,z,w", "-d", "é"}[r.Intn(6)]
			if w == "-d" && !term {
				w = "d"
			}
			argv = append(argv, w)
			if nWords == 0 {
				wantFirst = w
			} else {
				wantTags = append(wantTags, strings.Split(w, ",")...)
			}
			nWords++
		}
		var first string
		var tags exTagList
		var ret []string
		var err error
		var pan interface{}
		if onCmd {
			var o cmdT
			pan = safe(func() { ret, err = flags.NewParser(&o, flags.PassDoubleDash).ParseArgs(argv) })
			first, tags = o.Sub.Args.First, o.Sub.Args.Tags
		} else {
			var o optsT
			pan = safe(func() { ret, err = flags.NewParser(&o, flags.PassDoubleDash).ParseArgs(argv) })
			first, tags = o.Args.First, o.Args.Tags
		}
		c.R.Evaluations++
		got := fmt.Sprintf("panic=%v err=%v first=%q tags=%q remaining=%q", pan, err, first, []string(tags), ret)
		want := fmt.Sprintf("panic=<nil> err=<nil> first=%q tags=%q remaining=[]", wantFirst, wantTags)
		c.Distinct("c10slice|" + strings.Join(argv, " "))
		c.Class(fmt.Sprintf("c10/slice-unmarshaler: words=%d on-command=%v terminator=%v", nWords, onCmd, term))
		in := map[string]interface{}{"declaration": "positional-args struct {First string; Tags exTagList} — exTagList is a named []string whose pointer implements Unmarshaler (comma-splitting, accumulating)", "argv": argv}
		c.Check("a-trailing-slice-field-absorbs-all-further-words-whatever-its-conversion", got == want, "C10:slice-unmarshaler", in, got, want)
	}
}

// exEndpoint: a struct-typed option (its pointer implements Unmarshaler, nothing marshals it) that holds a pointer
type exEndpoint struct {
	Host  string
	Port  int
	Limit *int
}

func (e *exEndpoint) UnmarshalFlag(v string) error {
	e.Host = v
	return nil
}

// checkC15StructOption: two parsers built the same way over deep-equal values — a struct-typed option that holds a
// pointer, preset by the program — write byte-identical help, man page and INI text.
func checkC15StructOption(c *Ctx, n int) {
	r := c.Rng
	for i := 0; i < n; i++ {
		type optsT struct {
			Ep    exEndpoint  `long:"endpoint" description:"where to connect"`
			EpPtr *exEndpoint `long:"fallback" description:"fallback"`
			N     int         `long:"n" default:"3"`
		}
		port := 1 + r.Intn(9000)
		withPtr := r.Intn(2) == 0
		render := func() (string, interface{}) {
			var o optsT
			lim := 5
			o.Ep = exEndpoint{Host: "localhost", Port: port, Limit: &lim}
			if withPtr {
				l2 := 6
				o.EpPtr = &exEndpoint{Host: "other", Port: port, Limit: &l2}
			}
			var out bytes.Buffer
			pan := safe(func() {
				p := flags.NewNamedParser("app", flags.HelpFlag)
				p.AddGroup("Application Options", "", &o)
				p.ParseArgs([]string{"--n=4"})
				p.WriteHelp(&out)
				out.WriteString("\n=== man\n")
				p.WriteManPage(&out)
				out.WriteString("\n=== ini\n")
				flags.NewIniParser(p).Write(&out, flags.IniIncludeDefaults|flags.IniIncludeComments)
			})
			return out.String(), pan
		}
		a, pa := render()
		same := pa == nil
		diffAt := ""
		for k := 0; k < 4 && same; k++ {
			b, pb := render()
			if pb != nil || b != a {
				same = false
				la, lb := strings.Split(a, "\n"), strings.Split(b, "\n")
				for j := range la {
					if j >= len(lb) || la[j] != lb[j] {
						diffAt = fmt.Sprintf("%q vs %q", la[j], func() string {
							if j < len(lb) {
								return lb[j]
							}
							return ""
						}())
						break
					}
				}
			}
		}
		c.R.Evaluations++
		c.Distinct(fmt.Sprintf("c15struct|%d|%v", port, withPtr))
		c.Class(fmt.Sprintf("c15/struct-option: pointer-field=%v", withPtr))
		in := map[string]interface{}{"declaration": "Ep exEndpoint{Host, Port, Limit *int} `long:\"endpoint\"`, EpPtr *exEndpoint `long:\"fallback\"` preset by the program; help, man page, ini (IniIncludeDefaults|IniIncludeComments) rendered 5 times", "port": port}
		c.Check("repeated-runs-render-identical-text-for-a-struct-typed-option", same, "C15:struct-option", in, fmt.Sprintf("panic=%v first difference: %s", pa, diffAt), "byte-identical text every time")
		_ = reflect.TypeOf
	}
}

// checkC08ActiveAssigned: Command.Active is a public field.  After a call the program resets (or sets) it by
// hand — `p.Active = nil`, the customary reset — and calls again: the active chain is decided by the command
// words of THAT call alone, whatever links the commands below still carry.
func checkC08ActiveAssigned(c *Ctx, n int) {
	r := c.Rng
	type addT struct {
		Name string `long:"name" required:"yes"`
	}
	type remoteT struct {
		V   bool `short:"v"`
		Add addT `command:"add"`
		Rm  struct{} `command:"rm"`
	}
	type optsT struct {
		D      bool    `short:"d"`
		Remote remoteT `command:"remote" subcommands-optional:"yes"`
		Other  struct{} `command:"other"`
	}
	for i := 0; i < n; i++ {
		var o optsT
		p := flags.NewParser(&o, flags.None)
		first := [][]string{{"remote", "add", "--name", "origin"}, {"remote", "rm"}, {"remote", "add", "--name=x", "w"}}[r.Intn(3)]
		how := r.Intn(3)
		second := [][]string{{"remote"}, {"-d", "remote", "-v"}, {"other"}, {"remote", "rm"}}[r.Intn(4)]
		var err1, err2 error
		pan := safe(func() {
			_, err1 = p.ParseArgs(first)
			switch how {
			case 0:
				p.Active = nil
			case 1:
				p.Active = p.Find("other")
			}
			_, err2 = p.ParseArgs(second)
		})
		c.R.Evaluations++
		var chain []string
		for cmd := p.Active; cmd != nil; cmd = cmd.Active {
			chain = append(chain, cmd.Name)
		}
		var want []string
		for _, w := range second {
			if !strings.HasPrefix(w, "-") {
				want = append(want, w)
			}
		}
		got := fmt.Sprintf("panic=%v first=%v second=%v chain=%v", pan, err1, err2, chain)
		wantS := fmt.Sprintf("panic=<nil> first=<nil> second=<nil> chain=%v", want)
		c.Distinct(fmt.Sprintf("c08active|%v|%d|%v", first, how, second))
		c.Class(fmt.Sprintf("c08/active-assigned: how=%d", how))
		in := map[string]interface{}{"first_call": first, "between_the_calls": []string{"p.Active = nil", "p.Active = p.Find(\"other\")", "nothing"}[how], "second_call": second}
		c.Check("the-active-chain-is-decided-by-the-words-of-the-call-alone", got == wantS, "C08:active-assigned", in, got, wantS)
	}
}

// exFmtOpts: a declaration built several times in one process
type exFmtOpts struct {
	Format string   `long:"format" choice:"yaml" choice:"json" choice:"text" default:"yaml"`
	Tags   []string `long:"tag" default:"b" default:"a"`
	Sub    struct {
		Mode string `long:"mode" choice:"z" choice:"y" choice:"x"`
	} `command:"sub" alias:"s2" alias:"s1"`
}

// checkTagSlicesPrivate: the lists a declaration gives — choices, defaults, aliases — belong to the option or
// command built from it.  A program that sorts or edits them in place on ONE parser (public fields) changes
// nothing for a parser built afterwards from the same declaration: its model is what the tags say, in their order.
func checkTagSlicesPrivate(c *Ctx, n int, prop string) {
	r := c.Rng
	for i := 0; i < n; i++ {
		var a exFmtOpts
		pa := flags.NewParser(&a, flags.None)
		how := r.Intn(4)
		pan := safe(func() {
			oa := pa.FindOptionByLongName("format")
			ta := pa.FindOptionByLongName("tag")
			switch how {
			case 0:
				sort.Strings(oa.Choices)
				sort.Strings(ta.Default)
			case 1:
				oa.Choices[0], oa.Default[0] = "xml", "text"
			case 2:
				oa.Choices = append(oa.Choices, "html")
				sort.Strings(pa.Find("sub").Aliases)
			case 3:
				mo := pa.Find("sub").FindOptionByLongName("mode")
				sort.Strings(mo.Choices)
			}
		})
		var b exFmtOpts
		pb := flags.NewParser(&b, flags.None)
		var errB error
		pan2 := safe(func() { _, errB = pb.ParseArgs([]string{"sub"}) })
		c.R.Evaluations++
		ob := pb.FindOptionByLongName("format")
		tb := pb.FindOptionByLongName("tag")
		mb := pb.Find("sub").FindOptionByLongName("mode")
		got := fmt.Sprintf("panic=%v/%v err=%v choices=%v default=%v tag-default=%v aliases=%v mode-choices=%v format=%q tags=%v",
			pan, pan2, errB, ob.Choices, ob.Default, tb.Default, pb.Find("sub").Aliases, mb.Choices, b.Format, b.Tags)
		want := "panic=<nil>/<nil> err=<nil> choices=[yaml json text] default=[yaml] tag-default=[b a] aliases=[s2 s1] mode-choices=[z y x] format=\"yaml\" tags=[b a]"
		c.Distinct(fmt.Sprintf("tagslices|%d|%d", how, i%7))
		c.Class(fmt.Sprintf("%s/tag-slices-private: how=%d", strings.ToLower(prop), how))
		in := map[string]interface{}{"edit_on_the_first_parser": []string{"sort.Strings(opt.Choices); sort.Strings(tag.Default)", "opt.Choices[0] = \"xml\"; opt.Default[0] = \"text\"", "append(opt.Choices, \"html\"); sort.Strings(sub.Aliases)", "sort.Strings(sub's mode.Choices)"}[how]}
		c.Check("a-parser-built-later-from-the-same-declaration-reflects-its-tags", got == want, prop+":tag-slices-shared", in, got, want)
	}
}

// checkIniAddOption: an option added with Group.AddOption (no struct field behind it) is named in an INI file by
// its long or its short name, as on the command line; an unconvertible value is reported with its line.
func checkIniAddOption(c *Ctx, n int, prop string) {
	r := c.Rng
	for i := 0; i < n; i++ {
		var o struct {
			Verbose bool `short:"v" long:"verbose"`
		}
		var port int
		p := flags.NewParser(&o, flags.None)
		if r.Intn(2) == 0 {
			p.Options |= flags.IgnoreUnknown
		}
		grp := p.Command.Group.Find("Application Options")
		var errI, errF error
		name := []string{"port", "p"}[r.Intn(2)]
		bad := r.Intn(4) == 0
		val := "8080"
		if bad {
			val = "eighty"
		}
		asDefaults := r.Intn(3) == 0
		text := "[Application Options]\nverbose = true\n" + name + " = " + val + "\n"
		pan := safe(func() {
			grp.AddOption(&flags.Option{LongName: "port", ShortName: 'p', Description: "port"}, &port)
			ip := flags.NewIniParser(p)
			ip.ParseAsDefaults = asDefaults
			errI = ip.Parse(strings.NewReader(text))
			if asDefaults && errI == nil {
				_, errI = p.ParseArgs(nil)
			}
		})
		// the flag of the same meaning, on a parser built the same way
		var o2 struct {
			Verbose bool `short:"v" long:"verbose"`
		}
		var port2 int
		p2 := flags.NewParser(&o2, flags.None)
		safe(func() {
			p2.Command.Group.Find("Application Options").AddOption(&flags.Option{LongName: "port", ShortName: 'p', Description: "port"}, &port2)
			_, errF = p2.ParseArgs([]string{"--verbose", "--port=" + val})
		})
		c.R.Evaluations++
		line := 0
		if ie, ok := errI.(*flags.IniError); ok {
			line = int(ie.LineNumber)
		}
		got := fmt.Sprintf("panic=%v ini: err=%v line=%d port=%d verbose=%v | flag: err=%v port=%d", pan, errI != nil, line, port, o.Verbose, errF != nil, port2)
		want := "panic=<nil> ini: err=false line=0 port=8080 verbose=true | flag: err=false port=8080"
		if bad {
			want = "panic=<nil> ini: err=true line=3 port=0 verbose=true | flag: err=true port=0"
		}
		c.Distinct(fmt.Sprintf("iniaddoption|%s|%v|%v|%d", name, bad, asDefaults, int(p.Options)))
		c.Class(fmt.Sprintf("%s/ini-addoption: by=%s bad-value=%v as-defaults=%v", strings.ToLower(prop), name, bad, asDefaults))
		in := map[string]interface{}{"text": text, "option": "added with AddOption: LongName port, ShortName p", "ignore_unknown": p.Options&flags.IgnoreUnknown != 0}
		c.Check("an-entry-naming-an-option-added-by-the-program-means-what-the-flag-means", got == want, prop+":ini-addoption", in, got, want)
	}
}

// checkC12AddOption: an option added with Group.AddOption — no struct field behind it — is written under a name the
// reader knows it by; a fresh parser over the same declaration (the same option added) reads every written value.
func checkC12AddOption(c *Ctx, n int) {
	r := c.Rng
	for i := 0; i < n; i++ {
		type optsT struct {
			Verbose bool `short:"v" long:"verbose"`
			G       struct {
				X string `long:"x"`
			} `group:"G" namespace:"g"`
		}
		mk := func(port *int, name *string) *flags.Parser {
			var o optsT
			p := flags.NewParser(&o, flags.None)
			p.Command.Group.Find("Application Options").AddOption(&flags.Option{LongName: "port", ShortName: 'p', Description: "the port"}, port)
			p.Command.Group.Find("G").AddOption(&flags.Option{LongName: "name", Description: "a name"}, name)
			return p
		}
		var port int
		var name string
		val := []string{"x y", " lead", "é", "plain", "with \"quote\""}[r.Intn(5)]
		portV := []string{"8080", "0", "-3"}[r.Intn(3)]
		bits := flags.IniOptions(r.Intn(8) * 2)
		var text bytes.Buffer
		var err1, err2 error
		var port2 int
		var name2 string
		pan := safe(func() {
			p := mk(&port, &name)
			_, err1 = p.ParseArgs([]string{"-v", "--port=" + portV, "--g.name=" + val})
			flags.NewIniParser(p).Write(&text, bits)
			p2 := mk(&port2, &name2)
			err2 = flags.NewIniParser(p2).Parse(strings.NewReader(text.String()))
			if err2 == nil {
				_, err2 = p2.ParseArgs(nil)
			}
		})
		c.R.Evaluations++
		got := fmt.Sprintf("panic=%v parse=%v read=%v port=%d name=%q", pan, err1, err2, port2, name2)
		want := fmt.Sprintf("panic=<nil> parse=<nil> read=<nil> port=%s name=%q", portV, val)
		if portV == "0" && bits&flags.IniIncludeDefaults == 0 {
			// (a value that equals the type's zero value is omitted as a default: it is zero again)
			want = fmt.Sprintf("panic=<nil> parse=<nil> read=<nil> port=0 name=%q", val)
		}
		c.Distinct(fmt.Sprintf("c12addoption|%s|%s|%d", val, portV, int(bits)))
		c.Class(fmt.Sprintf("c12/addoption: write-options=%d", int(bits)))
		in := map[string]interface{}{"declaration": "AddOption(LongName port, ShortName p) on the top group, AddOption(LongName name) on a group with namespace g", "argv": []string{"-v", "--port=" + portV, "--g.name=" + val}, "ini_options": int(bits), "written_text": text.String()}
		c.Check("round-trip-reproduces-value-of-an-option-added-by-the-program", got == want, "C12:addoption", in, got, want)
	}
}

type exIndirect struct {
	P  *[]string       `long:"p"`
	M  *map[string]int `long:"m"`
	PP **[]int         `long:"pp"`
	L  []string        `long:"l"`
}

// checkC12IndirectCollections: options whose field is a POINTER to a slice or map (also one added with AddOption,
// whose value is the pointer the program handed in) are written one line per element / per key, and read back
// element for element.
func checkC12IndirectCollections(c *Ctx, n int) {
	r := c.Rng
	for i := 0; i < n; i++ {
		var argv []string
		var wantP, wantL, wantX []string
		var wantPP []int
		wantM := map[string]int{}
		for k := r.Intn(4); k > 0; k-- {
			v := []string{"a", "b c", " lead", "é"}[r.Intn(4)]
			argv = append(argv, "--p="+v)
			wantP = append(wantP, v)
		}
		for k := r.Intn(3); k > 0; k-- {
			key := []string{"j", "k", "l"}[r.Intn(3)]
			argv = append(argv, fmt.Sprintf("--m=%s:%d", key, k))
			wantM[key] = k
		}
		for k := r.Intn(3); k > 0; k-- {
			argv = append(argv, fmt.Sprintf("--pp=%d", k*7))
			wantPP = append(wantPP, k*7)
		}
		for k := r.Intn(3); k > 0; k-- {
			argv = append(argv, "--l=x", "--extra=e"+fmt.Sprint(k))
			wantL = append(wantL, "x")
			wantX = append(wantX, "e"+fmt.Sprint(k))
		}
		bits := flags.IniOptions(r.Intn(8) * 2)
		mk := func(o *exIndirect, extra *[]string) *flags.Parser {
			p := flags.NewParser(o, flags.None)
			p.Command.Group.Find("Application Options").AddOption(&flags.Option{LongName: "extra"}, extra)
			return p
		}
		var o1, o2 exIndirect
		var x1, x2 []string
		var text bytes.Buffer
		var err1, err2 error
		pan := safe(func() {
			p := mk(&o1, &x1)
			_, err1 = p.ParseArgs(argv)
			flags.NewIniParser(p).Write(&text, bits)
			p2 := mk(&o2, &x2)
			err2 = flags.NewIniParser(p2).Parse(strings.NewReader(text.String()))
		})
		c.R.Evaluations++
		show := func(o *exIndirect, x []string) string {
			var p []string
			if o.P != nil {
				p = *o.P
			}
			m := map[string]int{}
			if o.M != nil {
				for k, v := range *o.M {
					m[k] = v
				}
			}
			var pp []int
			if o.PP != nil && *o.PP != nil {
				pp = **o.PP
			}
			return fmt.Sprintf("p=%q m=%v pp=%v l=%q extra=%q", p, m, pp, o.L, x)
		}
		got := fmt.Sprintf("panic=%v parse=%v read=%v %s", pan, err1, err2, show(&o2, x2))
		want := fmt.Sprintf("panic=<nil> parse=<nil> read=<nil> p=%q m=%v pp=%v l=%q extra=%q", wantP, wantM, wantPP, wantL, wantX)
		c.Distinct("c12indirect|" + strings.Join(argv, " ") + fmt.Sprint(int(bits)))
		c.Class(fmt.Sprintf("c12/indirect-collections: write-options=%d", int(bits)))
		in := map[string]interface{}{"declaration": "P *[]string, M *map[string]int, PP **[]int, L []string; --extra added with AddOption(&[]string)", "argv": argv, "ini_options": int(bits), "written_text": text.String()}
		c.Check("round-trip-reproduces-value-of-a-pointer-to-a-collection", got == want, "C12:indirect-collections", in, got, want)
	}
}

// checkC04AddOptionSmoke: options of every shape added with Group.AddOption — a number with a Default, a required
// one, a list with choices, a map, a duration with an optional value, a callback — and then everything a program
// does with a parser: calls that give them, omit them, give a value they refuse; the help, the man page, the INI
// text, a completion.  Nothing crashes; values are what the line denotes; refusals are typed.
func checkC04AddOptionSmoke(c *Ctx, n int) {
	r := c.Rng
	for i := 0; i < n; i++ {
		var o struct {
			Verbose bool `short:"v" long:"verbose" description:"say more"`
		}
		var port int
		var names []string
		var m map[string]int
		var d time.Duration
		var calls []string
		f := func(s string) { calls = append(calls, s) }
		p := flags.NewParser(&o, flags.HelpFlag)
		g := p.Command.Group.Find("Application Options")
		withDefault := r.Intn(2) == 0
		po := &flags.Option{LongName: "port", ShortName: 'p', Description: "the port"}
		if withDefault {
			po.Default = []string{"80"}
		}
		var argv []string
		wantPort, wantNames, wantMap, wantDur, wantCalls := 0, []string(nil), map[string]int{}, time.Duration(0), []string(nil)
		if withDefault {
			wantPort = 80
		}
		if r.Intn(2) == 0 {
			argv = append(argv, "--port=8080")
			wantPort = 8080
		}
		for k := r.Intn(3); k > 0; k-- {
			v := []string{"a", "b"}[r.Intn(2)]
			argv = append(argv, "--name", v)
			wantNames = append(wantNames, v)
		}
		if r.Intn(2) == 0 {
			argv = append(argv, "--map=k:1", "--map=j:2")
			wantMap = map[string]int{"k": 1, "j": 2}
		}
		switch r.Intn(3) {
		case 0:
			argv = append(argv, "--dur")
			wantDur = time.Second
		case 1:
			argv = append(argv, "--dur=3m")
			wantDur = 3 * time.Minute
		}
		if r.Intn(2) == 0 {
			argv = append(argv, "-c", "x")
			wantCalls = []string{"x"}
		}
		bad := r.Intn(4) == 0
		if bad {
			argv = append(argv, "--name=z")
		}
		var err error
		var texts int
		var items int
		pan := safe(func() {
			g.AddOption(po, &port)
			g.AddOption(&flags.Option{LongName: "name", Description: "names", Choices: []string{"a", "b"}}, &names)
			g.AddOption(&flags.Option{LongName: "map", Description: "a map"}, &m)
			g.AddOption(&flags.Option{LongName: "dur", Description: "dur", OptionalArgument: true, OptionalValue: []string{"1s"}}, &d)
			g.AddOption(&flags.Option{ShortName: 'c', Description: "cb"}, f)
			_, err = p.ParseArgs(argv)
			var b bytes.Buffer
			p.WriteHelp(&b)
			p.WriteManPage(&b)
			flags.NewIniParser(p).Write(&b, flags.IniIncludeDefaults|flags.IniIncludeComments)
			texts = b.Len()
			os.Setenv("GO_FLAGS_COMPLETION", "1")
			p.CompletionHandler = func(its []flags.Completion) { items = len(its) }
			p.ParseArgs([]string{"--"})
			os.Unsetenv("GO_FLAGS_COMPLETION")
		})
		os.Unsetenv("GO_FLAGS_COMPLETION")
		c.R.Evaluations++
		gotMap := map[string]int{}
		for k, v := range m {
			gotMap[k] = v
		}
		got := fmt.Sprintf("panic=%v", pan)
		want := "panic=<nil>"
		if bad {
			fe, ok := err.(*flags.Error)
			got += fmt.Sprintf(" typed=%v", ok && fe.Type == flags.ErrInvalidChoice)
			want += " typed=true"
		} else {
			got += fmt.Sprintf(" err=%v port=%d names=%q map=%v dur=%v calls=%q texts=%v items=%v", err, port, names, gotMap, d, calls, texts > 0, items >= 5)
			want += fmt.Sprintf(" err=<nil> port=%d names=%q map=%v dur=%v calls=%q texts=true items=true", wantPort, wantNames, wantMap, wantDur, wantCalls)
		}
		c.Distinct("c04addoption|" + strings.Join(argv, " ") + fmt.Sprint(withDefault))
		c.Class(fmt.Sprintf("c04/addoption-smoke: default=%v refused-value=%v", withDefault, bad))
		in := map[string]interface{}{"declaration": "AddOption: port int (Default 80 or none), name []string (choices a, b), map map[string]int, dur time.Duration (optional value 1s), -c func(string)", "argv": argv}
		c.Check("options-added-by-the-program-never-crash-the-parser", got == want, "C04:addoption-smoke", in, got, want)
	}
}

// exEndpointV: a value type that completes AND validates — it offers the stem `alpha:` besides full host:port values,
// and as an option's argument only host:port with a port is valid
type exEndpointV string

func (e *exEndpointV) Complete(match string) []flags.Completion {
	var out []flags.Completion
	for _, it := range []string{"alpha:", "alpha:443", "alpha:80", "-local:1", "beta:22"} {
		if strings.HasPrefix(it, match) {
			out = append(out, flags.Completion{Item: it})
		}
	}
	return out
}

func (e *exEndpointV) IsValidValue(v string) error {
	if k := strings.Index(v, ":"); k < 0 || k == len(v)-1 {
		return fmt.Errorf("endpoint needs host:port")
	}
	return nil
}

// checkC18ValidatedCompleter: a partial value of an option whose type provides completions yields exactly that
// type's completions in every spelling — also when the type validates values too (an offered stem need not be a
// valid value yet) and when an item starts with a dash.
func checkC18ValidatedCompleter(c *Ctx, n int) {
	r := c.Rng
	for i := 0; i < n; i++ {
		var o struct {
			V  bool        `short:"v"`
			Ep exEndpointV `short:"e" long:"endpoint"`
		}
		partial := []string{"al", "alpha:", "", "-l", "b", "alpha:4"}[r.Intn(6)]
		forms := map[string][]string{
			"--name V": {"--endpoint", partial}, "--name=V": {"--endpoint=" + partial}, "-x V": {"-e", partial},
			"-xV": {"-e" + partial}, "-x=V": {"-e=" + partial}, "-ax V": {"-ve", partial}}
		var want []string
		for _, it := range []string{"-local:1", "alpha:", "alpha:443", "alpha:80", "beta:22"} {
			if strings.HasPrefix(it, partial) {
				want = append(want, it)
			}
		}
		prefix := map[string]string{"--name V": "", "--name=V": "--endpoint=", "-x V": "", "-xV": "-e", "-x=V": "-e=", "-ax V": ""}
		for label, args := range forms {
			if label == "-xV" && partial == "" {
				continue // (-e alone is the option without a value)
			}
			var items []string
			pan := safe(func() {
				os.Setenv("GO_FLAGS_COMPLETION", "1")
				p := flags.NewParser(&o, flags.None)
				p.CompletionHandler = func(its []flags.Completion) {
					for _, it := range its {
						items = append(items, it.Item)
					}
				}
				p.ParseArgs(args)
			})
			os.Unsetenv("GO_FLAGS_COMPLETION")
			c.R.Evaluations++
			var wantL []string
			for _, w := range want {
				wantL = append(wantL, prefix[label]+w)
			}
			sort.Strings(wantL)
			got := fmt.Sprintf("panic=%v %q", pan, items)
			wantS := fmt.Sprintf("panic=<nil> %q", wantL)
			c.Distinct("c18validated|" + label + "|" + partial)
			c.Class("c18/validated-completer: " + label)
			in := map[string]interface{}{"declaration": "Ep exEndpointV `short:\"e\" long:\"endpoint\"` — the type implements Completer (alpha:, alpha:443, alpha:80, -local:1, beta:22) and ValueValidator (host:port with a port)", "args": args}
			c.Check("a-partial-option-value-yields-exactly-the-type's-completions", got == wantS, "C18:validated-completer", in, got, wantS)
		}
	}
}

// checkC19SetupErrorKept: a faulty declaration handed to NewParser (malformed tag, short name of two characters, a
// default on a boolean flag, a name used twice) is reported by every later Parse — also after the program added a
// well-formed group or command to the parser.
func checkC19SetupErrorKept(c *Ctx, n int) {
	r := c.Rng
	type badTag struct {
		V bool `long:"verbose`
	}
	type badShort struct {
		V bool `short:"vv"`
	}
	type badDefault struct {
		V bool `long:"verbose" default:"true"`
	}
	type badDup struct {
		A bool `long:"same"`
		B bool `long:"same"`
	}
	type good struct {
		X bool `long:"x"`
	}
	for i := 0; i < n; i++ {
		which := r.Intn(4)
		var data interface{}
		var wantType flags.ErrorType
		switch which {
		case 0:
			data, wantType = &badTag{}, flags.ErrTag
		case 1:
			data, wantType = &badShort{}, flags.ErrShortNameTooLong
		case 2:
			data, wantType = &badDefault{}, flags.ErrInvalidTag
		case 3:
			data, wantType = &badDup{}, flags.ErrDuplicatedFlag
		}
		then := r.Intn(3)
		var err error
		pan := safe(func() {
			p := flags.NewParser(data, flags.None)
			switch then {
			case 1:
				p.AddGroup("More", "", &good{})
			case 2:
				p.AddCommand("run", "run", "", &good{})
			}
			_, err = p.ParseArgs([]string{})
		})
		c.R.Evaluations++
		fe, ok := err.(*flags.Error)
		got := fmt.Sprintf("panic=%v typed=%v", pan, ok && fe.Type == wantType)
		c.Distinct(fmt.Sprintf("c19setup|%d|%d", which, then))
		c.Class(fmt.Sprintf("c19/setup-error-kept: fault=%d then=%d", which, then))
		in := map[string]interface{}{"fault": []string{"malformed tag", "short name vv", "default on a boolean flag", "long name used twice"}[which], "then": []string{"nothing", "p.AddGroup(well-formed)", "p.AddCommand(well-formed)"}[then], "error": fmt.Sprint(err)}
		c.Check("a-faulty-declaration-is-reported-when-the-parser-is-used", got == "panic=<nil> typed=true", "C19:setup-error-kept", in, got, fmt.Sprintf("*flags.Error of type %d", int(wantType)))
	}
}
