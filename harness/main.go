package main

import (
	"flag"
	"fmt"
	"os"
	"strings"
	"time"
)

// budgets per tier for function-level generators
func budget(tier string, quick, thorough int) int {
	if tier == "thorough" {
		return thorough
	}
	return quick
}

type propRun struct {
	rule string
	run  func(c *Ctx)
}

var props = map[string]propRun{}

func init() {
	props["C20"] = propRun{
		rule: "random name sets (1-6 names, ASCII and multi-byte) and words derived from a name by 0-3 random edits, or unrelated/empty/arbitrary bytes; a case is non-trivial and distinct per (word, name) pair",
		run: func(c *Ctx) {
			c.N = budget(c.Tier, 4000, 400000)
			checkC20Fn(c)
		}}
	props["C17"] = propRun{
		rule: "random texts (0-14 words, long words, newlines, tabs, multi-byte runes, some arbitrary bytes) x widths -4..35 x prefixes; non-trivial = the result has more than one line; distinct per (text, width)",
		run: func(c *Ctx) {
			c.N = budget(c.Tier, 4000, 300000)
			checkC17Wrap(c)
		}}
	props["C19"] = propRun{
		rule: "tags rendered from random (key, value) lists with strconv.Quote and random blanks, one third mutated at a random byte position; distinct per tag string",
		run: func(c *Ctx) {
			c.N = budget(c.Tier, 4000, 300000)
			checkC19Scan(c)
			checkStdlibModel(c, budget(c.Tier, 500, 20000))
		}}
	props["C02"] = propRun{
		rule: "option tokens in all spellings over ASCII / multi-byte / invalid names and arbitrary values; distinct per token",
		run: func(c *Ctx) {
			c.N = budget(c.Tier, 4000, 300000)
			checkC02Split(c)
		}}
	props["C11"] = propRun{
		rule: "all integer kinds x bases 2..36 x texts at and around the type limits with signs, leading zeros, blanks, underscores, junk; distinct per (kind, base, text)",
		run: func(c *Ctx) {
			c.N = budget(c.Tier, 6000, 500000)
			checkC11Ints(c)
			checkStdlibModel(c, budget(c.Tier, 300, 20000))
		}}
}

func init() {
	props["DBG"] = propRun{rule: "debug", run: func(c *Ctx) {
		p := defaultProfile
		p.WithModel = true
		runParseCases(c, budget(c.Tier, 400, 20000), p, nil)
	}}
}

func main() {
	prop := flag.String("prop", "", "property id")
	tier := flag.String("tier", "quick", "quick|thorough")
	seed := flag.Int64("seed", 1, "PRNG seed")
	driver := flag.String("driver", "/verif/lean/.lake/build/bin/driver", "Lean model driver")
	out := flag.String("out", "", "result JSON")
	known := flag.String("known", "/verif/known_findings.json", "known findings file")
	flag.Parse()
	pr, ok := props[*prop]
	if !ok {
		fmt.Fprintln(os.Stderr, "unknown property", *prop)
		os.Exit(2)
	}
	start := time.Now()
	c, err := NewCtx(*prop, *tier, *seed, *driver)
	if err != nil {
		fmt.Fprintln(os.Stderr, "cannot start driver:", err)
		os.Exit(2)
	}
	c.LoadKnown(*known)
	pr.run(c)
	c.Finish(start, pr.rule, *out)
	fmt.Printf("harness %s %s seed=%d evaluations=%d distinct=%d disagreements=%d failures=%d known=%d wall=%.1fs\n",
		*prop, *tier, *seed, c.R.Evaluations, c.R.Distinct, len(c.R.Disagreements), len(c.R.Failures), len(c.R.Known), c.R.WallS)
	for _, d := range c.R.Disagreements {
		fmt.Println("  DISAGREE", strings.TrimSpace(d.Request), "impl:", d.Impl, "model:", d.Model)
	}
	for _, f := range c.R.Failures {
		fmt.Println("  FAIL", f.Oracle, f.Key, f.Input, "got:", f.Got, "want:", f.Want)
	}
}
