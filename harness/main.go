package main

import (
	"flag"
	"fmt"
	"os"
	"strings"
	"time"
)

// budgets per tier for function-level generators
func budget(tier string, quick, thorough int) int {
	if tier == "thorough" {
		return thorough
	}
	return quick
}

type propRun struct {
	rule string
	run  func(c *Ctx)
}

var props = map[string]propRun{}

func init() {
	props["C20"] = propRun{
		rule: "random name sets (1-6 names, ASCII and multi-byte) and words derived from a name by 0-3 random edits, or unrelated/empty/arbitrary bytes; a case is non-trivial and distinct per (word, name) pair; whole-parser stage: command sets with hidden members and a word at a chosen distance around half the length of a name (or no word): error type and message against the model and against an independently stated rule",
		run: func(c *Ctx) {
			c.N = budget(c.Tier, 4000, 400000)
			checkC20Fn(c)
			checkC20Parse(c, budget(c.Tier, 1200, 60000))
		}}
	props["C17"] = propRun{
		rule: "(a) wrapText on random texts (long words, newlines, tabs, multi-byte runes, arbitrary bytes) x widths -4..35 x prefixes; (b) WriteHelp of generated declarations (non-ASCII names, value names, choices, nested groups, positional arguments, selected command chains) under a real pty of width 1..300; (c) nested stage: help with a subcommand active whose longest option name is a few characters shorter than, as long as, or longer than the top level's (the indentation of the subcommand's rows counts towards the common column); non-trivial = more than one output line; distinct per (text,width) / case",
		run: func(c *Ctx) {
			c.N = budget(c.Tier, 3000, 300000)
			checkC17Wrap(c)
			checkC17Help(c, budget(c.Tier, 400, 40000))
			checkC17Nested(c, budget(c.Tier, 200, 8000))
			checkHelpAfterWidening(c, budget(c.Tier, 60, 1500), "C17")
		}}
	props["C19"] = propRun{
		rule: "(a) tags rendered from random (key, value) lists with strconv.Quote and random blanks, one third mutated at a random byte position, through the scanner; (b) generated declarations (15% deliberately malformed / colliding / over-long short names / defaults on flags) built on the real library and in the model, full dump of the public model compared, attributes checked against reflect.StructTag; (c) duplicates stage: one declaration with two options of different groups sharing a short or (namespaced) long name - top level / nested / sibling groups / two levels deep / created by a namespace - must be refused with ErrDuplicatedFlag, controls accepted; (d) malformed stage: a well-formed declaration in which the tag of one field (option at the top / in a group / in a command, group field, command field, positional-args field, positional argument) is broken in a definite way must be refused with ErrTag; (e) indirect-types stage, against the library only (types outside the model's universe): fields reaching bool / string / int through up to three levels of slice and pointer, with and without a default tag: a default on a boolean flag is refused with ErrInvalidTag whatever the indirection, everything else is accepted; (f) containers stage, against the library only: a struct (or pointer to one) used as group / command / positional-args / untagged nested struct whose type also implements Unmarshaler (pointer receiver, value receiver, promoted): the public model holds the group with its namespaced options and defaults, the command with its aliases, the positional arguments; a malformed tag inside it is refused with ErrTag; (g) late-group stage, library only: a declaration attached with (*Group).AddGroup (also below a nested group), Command.AddGroup or Parser.AddGroup whose options clash (short, long, long through a namespace) is refused with ErrDuplicatedFlag, one without a clash is accepted; distinct per tag / declaration",
		run: func(c *Ctx) {
			c.N = budget(c.Tier, 3000, 300000)
			checkC19Scan(c)
			checkStdlibModel(c, budget(c.Tier, 400, 20000))
			checkC19Model(c, budget(c.Tier, 400, 40000))
			checkC19Duplicates(c, budget(c.Tier, 300, 6000))
			checkC19Malformed(c, budget(c.Tier, 300, 6000))
			checkC19Exotic(c, budget(c.Tier, 300, 3000))
			checkC19Namespaces(c, budget(c.Tier, 400, 10000))
			checkC19Containers(c, budget(c.Tier, 200, 2000))
			checkC19GroupAddGroup(c, budget(c.Tier, 150, 1500))
			checkC19Counts(c, budget(c.Tier, 200, 5000))
			checkTagSlicesPrivate(c, budget(c.Tier, 40, 1000), "C19")
			checkC19SetupErrorKept(c, budget(c.Tier, 60, 1500))
		}}
	props["C02"] = propRun{
		rule: "(a) option tokens in all spellings over ASCII / multi-byte / invalid names and arbitrary values through the splitting functions; (b) metamorphic groups: one generated declaration and surrounding argument vector, one occurrence of one option rendered as -xV, -x=V, -x V, --name=V, --name V and quoted forms; (c) cluster groups -abc [V] / -a -b -c [V] / -ab -c [V] with non-ASCII flags; (d) random whole-parser cases with 40% non-ASCII names; (e) library only: the spellings of an option of a bool-KINDED named type with its own conversion (scalar / pointer; it takes an argument although its kind is bool); (f) shadow stage: below a command that redeclares an outer level's short name with the other arity (outer -v takes an argument, the command's -v is a flag, or the reverse) clusters equal separate flags and -xV, -x=V, -x V, --name=V, --name V are one occurrence; distinct per token / group",
		run: func(c *Ctx) {
			c.N = budget(c.Tier, 3000, 200000)
			checkC02Split(c)
			p := defaultProfile
			p.BadDecl = 0
			p.Utf = 0.3
			checkC02Spellings(c, budget(c.Tier, 500, 20000), p)
			checkC02Clusters(c, budget(c.Tier, 200, 15000), p)
			checkC02Exotic(c, budget(c.Tier, 100, 2000))
			checkC02Shadow(c, budget(c.Tier, 150, 5000))
			checkRenamed(c, budget(c.Tier, 100, 3000), "C02")
			checkC02DigitFlag(c, budget(c.Tier, 60, 2000))
			pp := defaultProfile
			pp.Utf = 0.4
			pp.BadDecl = 0.01
			runParseCases(c, budget(c.Tier, 1500, 60000), pp, func(cr *CaseResult) { oracleNoPanic(c, cr) })
		}}
	props["C11"] = propRun{
		rule: "(a) all integer kinds x bases 2..36 x texts at and around the type limits with signs, leading zeros, blanks, underscores, junk through convert; (b) whole-parser cases over numeric / float32 / float64 / duration / bool / map / pointer / slice options with values at and beyond the limits (1e39 for float32, 1e400, NaN, inf), choices and unconvertible values; (c) value stage: one option of every integer kind and base / float size / duration / string (scalar, slice, pointer), with or without choices, one text from the command line, the environment or the default tag; whether the text denotes a value and which is computed with the standard library at the type's size: exact stored value, ErrMarshal, or ErrInvalidChoice listing every allowed value; distinct per (kind, base, text) / case",
		run: func(c *Ctx) {
			c.N = budget(c.Tier, 6000, 500000)
			checkC11Ints(c)
			checkStdlibModel(c, budget(c.Tier, 300, 20000))
			p := defaultProfile
			p.OnlyTypes = []string{"i8", "i16", "i32", "i64", "int", "u8", "u16", "u32", "u64", "uint", "f32", "f32", "f64", "dur", "bool", "Lf32", "Pf32", "Li8", "Mstr,f32", "Mint,str", "Pu8", "c0", "str", "Lbool"}
			p.ValueBad = 0.25
			p.Choices = 0.25
			p.BadDecl = 0.01
			p.Unknown = 0.02
			p.Weird = 0.02
			p.ArgvLen = 6
			runParseCases(c, budget(c.Tier, 1500, 100000), p, func(cr *CaseResult) { oracleNoPanic(c, cr) })
			checkC11Values(c, budget(c.Tier, 2500, 150000))
			checkC11EnvList(c, budget(c.Tier, 800, 30000))
			checkC11ChoicesChanged(c, budget(c.Tier, 300, 10000))
			checkC11DefaultChanged(c, budget(c.Tier, 150, 5000))
			checkC11EmptyAttached(c, budget(c.Tier, 150, 5000))
			checkC11DeepUnmarshaler(c, budget(c.Tier, 200, 4000))
		}}
}

func parseProp(id, rule string, quick, thorough int, tweak func(p *Profile), oracles ...func(c *Ctx, cr *CaseResult)) {
	props[id] = propRun{rule: rule, run: func(c *Ctx) {
		p := defaultProfile
		if tweak != nil {
			tweak(&p)
		}
		runParseCases(c, budget(c.Tier, quick, thorough), p, func(cr *CaseResult) {
			for _, o := range oracles {
				o(c, cr)
			}
		})
	}}
}

const caseRule = "random declarations (reflect.StructOf structs with generated tags: all option kinds, nested groups with namespaces, tag-declared and programmatic commands, positional args, callbacks, custom types), random parser option sets / handlers / environment, and argument vectors drawn from the declared names in every spelling plus unknown, near-miss, weird and arbitrary-byte tokens; every case is distinct by construction text and non-trivial (it builds a parser and parses); "

func init() {
	parseProp("C01", caseRule+"emphasis: many occurrences per option, all value kinds", 2500, 100000, func(p *Profile) {
		p.ArgvLen = 10
		p.Unknown = 0.02
		p.Weird = 0.02
		p.InitVals = 0.3
		p.BadDecl = 0.01
	}, oracleNoPanic, oraclePlainFields)
	{
		base := props["C01"]
		props["C01"] = propRun{rule: base.rule + "; denotation stage: command lines made only of occurrences of declared options (all spellings, clusters, after command words, values with '=', ':', leading dashes, quotes, blanks), whose meaning (last value / every value in order / last value per key / flag true / untouched otherwise) is computed independently and compared with the fields after a successful parse", run: func(c *Ctx) {
			base.run(c)
			checkC01Denote(c, budget(c.Tier, 1500, 60000))
			checkC01TextTypes(c, budget(c.Tier, 150, 5000))
			checkRenamed(c, budget(c.Tier, 100, 3000), "C01")
			checkC01ClusterWithUnknown(c, budget(c.Tier, 80, 2000))
		}}
	}
	parseProp("C03", caseRule+"emphasis: pass-through options, terminators, weird tokens", 2500, 100000, func(p *Profile) {
		p.ArgvLen = 9
		p.Unknown = 0.15
		p.Weird = 0.15
		p.BadDecl = 0.01
	}, oracleNoPanic, oracleConserved)
	{
		base := props["C03"]
		props["C03"] = propRun{rule: base.rule + "; conserve stage: command lines built token by token from occurrences of declared options (attached and separate values), plain words (among them ---x, ---, -), unknown options and the terminator, under every combination of PassDoubleDash / PassAfterNonOption / IgnoreUnknown, with and without positional fields; which tokens are passed through - and so what the positional fields and the remaining arguments must hold, in order - is computed from the construction; handed stage: IgnoreUnknown with executable commands (two levels, CommandHandler or not), unknown options in front of, between and behind command words (a word is a command word only while nothing has been passed through): what is returned and what the command / handler is handed, identically, stated token by token", run: func(c *Ctx) {
			base.run(c)
			checkC03Conserve(c, budget(c.Tier, 1500, 60000))
			checkC03Handed(c, budget(c.Tier, 600, 30000))
			checkBadPositional(c, budget(c.Tier, 300, 10000), "C03")
			checkRenamed(c, budget(c.Tier, 100, 3000), "C03")
			checkC03HandlerTakesLast(c, budget(c.Tier, 60, 2000))
		}}
	}
	parseProp("C04", caseRule+"emphasis: arbitrary bytes, malformed tokens, PrintErrors", 2500, 100000, func(p *Profile) {
		p.ArgvLen = 8
		p.Unknown = 0.15
		p.Weird = 0.3
		p.ValueBad = 0.3
		p.OptsAlways = 0
	}, oracleNoPanic, oracleContained)
	{
		base := props["C04"]
		props["C04"] = propRun{rule: base.rule + "; typed stage: every documented cause of a rejection (unknown option long / short / in a cluster, missing or option-looking argument, argument for a flag, unconvertible / out-of-range / badly quoted value from the command line, the environment or a default tag, non-choice, required option, missing and unknown command, help, refusing callback) produced on purpose, with and without PrintErrors: the documented Type, and the text written exactly once to the right stream or not at all; callback-types stage (library only): callbacks declared to return *flags.Error, a pointer to an error type of the program, error, int or nothing, reached from the command line or a default tag, accepting their value (nil): success, never a panic; struct-types stage (library only): options of struct types with their own conversion, comparable or not (a slice, a map, a func inside), scalar or pointer, with and without a default, on every kind of argument vector: a normal return", run: func(c *Ctx) {
			base.run(c)
			checkC04Typed(c, budget(c.Tier, 800, 30000))
			checkIniAddOption(c, budget(c.Tier, 40, 1000), "C04")
			checkHelpAfterWidening(c, budget(c.Tier, 60, 1500), "C04")
			checkC04AddOptionSmoke(c, budget(c.Tier, 80, 3000))
			checkC04CallbackTypes(c, budget(c.Tier, 200, 4000))
			checkC04StructTypes(c, budget(c.Tier, 150, 3000))
		}}
	}
	parseProp("C06", caseRule+"emphasis: required options at every level and positional count constraints", 2500, 100000, func(p *Profile) {
		p.Required = 0.5
		p.PosArgs = 0.6
		p.Unknown = 0.02
		p.Weird = 0.02
		p.BadDecl = 0.01
		p.ValueBad = 0.02
	}, oracleNoPanic, oracleExec)
	{
		base := props["C06"]
		props["C06"] = propRun{rule: base.rule + "; required stage: command paths with occurrences of a random subset of the options in scope and a chosen number of positional words; the expected outcome (success, or ErrRequired naming exactly the missing options, or exactly the unsatisfied positional arguments of the active command) is computed from the public model; args-required stage: the parser and a command each with a positional struct, each with or without required:\"yes\": the command's own mark decides which of ITS plain fields are required, the message names exactly the unfilled ones; reuse stage: nested commands each with a required option, an earlier call on the same parser that walked further down than the judged one: the judged call demands what ITS commands require; before-command stage: a required option or positional argument missing while the line also stops short of a required subcommand (none, or an unknown word): ErrRequired naming the item", run: func(c *Ctx) {
			base.run(c)
			checkC06Required(c, budget(c.Tier, 1500, 60000))
			checkC06ArgsRequired(c, budget(c.Tier, 400, 10000))
			checkC06Reuse(c, budget(c.Tier, 300, 10000))
			checkC06BeforeCommand(c, budget(c.Tier, 200, 6000))
			checkC06RequiredChanged(c, budget(c.Tier, 200, 6000))
			checkC06IniSupplied(c, budget(c.Tier, 100, 3000))
			checkC06BadDefaultFirst(c, budget(c.Tier, 60, 2000))
		}}
	}
	parseProp("C07", caseRule+"emphasis: unknown / near-miss / out-of-scope options under the three policies", 2500, 100000, func(p *Profile) {
		p.Unknown = 0.25
		p.Weird = 0.05
		p.BadDecl = 0.01
		p.MaxCmdDepth = 3
		p.CmdWord = 0.3
		p.SubOpt = 0.5
	}, oracleNoPanic, oracleHandler)
	{
		base := props["C07"]
		props["C07"] = propRun{rule: base.rule + "; renamed stage: after a call (and a completion) the program assigns Group.Namespace, Option.LongName or Option.ShortName; the old spelling is unknown (error naming it / passed through / one handler call), the new one reaches the option; command-namespace stage: Command.Namespace assigned by the program prefixes the long names of its subcommands' options and of groups attached to it: the prefixed name reaches the option, the bare name is unknown under each policy", run: func(c *Ctx) {
			base.run(c)
			checkC07Renamed(c, budget(c.Tier, 300, 10000))
			checkC07CommandNamespace(c, budget(c.Tier, 200, 6000))
			checkC07DigitOption(c, budget(c.Tier, 200, 6000))
			checkC07Repeated(c, budget(c.Tier, 200, 6000))
			checkC07OptionalMidCluster(c, budget(c.Tier, 60, 2000))
		}}
	}
	parseProp("C08", caseRule+"emphasis: deep command trees, aliases, name clashes between levels", 2500, 100000, func(p *Profile) {
		p.MaxCmdDepth = 3
		p.MaxSubs = 4
		p.Unknown = 0.04
		p.BadDecl = 0.01
		p.PosArgs = 0.1
	}, oracleNoPanic)
	{
		base := props["C08"]
		props["C08"] = propRun{rule: base.rule + "; scope stage: command paths with occurrences of spellings that several commands of the path declare (the innermost declaration must receive the value, the outer ones stay untouched) and of options of commands outside the path (ErrUnknownFlag), expected outcome computed independently; words stage: paths of command words given by name or by alias (with and without PassAfterNonOption), a non-command word and further tokens behind a command whose subcommands-optional mark is set independently of its parent's: active chain, ErrCommandRequired / ErrUnknownCommand / ordinary argument stated from the public model; late stage: a parser that was already used for a call (and a completion) down some command path is given a further option group on a command of that path and a further subcommand (with an alias) below its end: the new option is accepted from the end of the path onwards, the new word selects the new command; namespaced stage: an ancestor's --db.host (namespaced group) typed in front of, between and behind the command words while the command declares a plain --host, a --db.host of its own, or nothing", run: func(c *Ctx) {
			base.run(c)
			checkC08Scope(c, budget(c.Tier, 1500, 60000))
			checkC08Words(c, budget(c.Tier, 1200, 50000))
			checkC08Late(c, budget(c.Tier, 600, 20000))
			checkC08ActiveAssigned(c, budget(c.Tier, 100, 3000))
			checkC08PartialClash(c, budget(c.Tier, 100, 3000))
			checkC08Namespaced(c, budget(c.Tier, 300, 10000))
		}}
	}
	parseProp("C09", caseRule+"emphasis: executable commands at every level, faults injected in otherwise valid vectors, CommandHandler", 2500, 100000, func(p *Profile) {
		p.MaxCmdDepth = 3
		p.Required = 0.3
		p.Unknown = 0.1
		p.ValueBad = 0.15
		p.BadDecl = 0.01
	}, oracleNoPanic, oracleExec, oracleConserved)
	{
		base := props["C09"]
		props["C09"] = propRun{rule: base.rule + "; dispatch stage: command trees with SubcommandsOptional set independently on the parser and every command, executable commands at every level, argument vector = a path of command words stopping at a random depth; expected outcome stated from the public model (ErrCommandRequired and nothing runs, or exactly one dispatch of the innermost command); bad-positional stage: a word that the positional field cannot take, reaching it as a plain word, behind the terminator, behind the first plain word under PassAfterNonOption or as an unknown option under IgnoreUnknown: an error and no CommandHandler call; shadowed-required stage: a required option of an outer level whose names the selected command declares again for an option of its own: still required (ErrRequired naming it, nothing runs) unless given in front of the command word; outer-word stage: below a command the name or alias of a command of an outer level is an unknown command (nothing runs) where a subcommand is required, an ordinary argument of the one command that runs otherwise; completion-mode stage: GO_FLAGS_COMPLETION set, executable commands, CommandHandler or not, argument vectors from none at all to a command word and a partial word: nothing runs, the completion handler gets the candidates", run: func(c *Ctx) {
			base.run(c)
			checkC09Dispatch(c, budget(c.Tier, 1200, 50000))
			checkC09BadPositional(c, budget(c.Tier, 400, 10000))
			checkC09Shadowed(c, budget(c.Tier, 300, 10000))
			checkC09OuterWord(c, budget(c.Tier, 200, 6000))
			checkC09CompletionMode(c, budget(c.Tier, 100, 2000))
			checkRenamed(c, budget(c.Tier, 100, 3000), "C09")
			checkC09MissingValue(c, budget(c.Tier, 200, 6000))
		}}
	}
	parseProp("C10", caseRule+"emphasis: positional arguments of all kinds interleaved with options and the terminator", 2500, 100000, func(p *Profile) {
		p.PosArgs = 0.9
		p.Unknown = 0.03
		p.BadDecl = 0.01
	}, oracleNoPanic, oracleConserved)
	{
		base := props["C10"]
		props["C10"] = propRun{rule: base.rule + "; binding stage: numbered words interleaved with flags, before and after the terminator (option-looking words after it), on commands with positional fields of every kind and a trailing slice; where each word must land (field by declaration order, rest slice, remaining arguments) is computed from the declaration order alone; levels stage: positional fields on two or three levels of one command chain (parser, command, nested command): the words typed at a level fill that level's fields, the command word is taken once they are full, the entered command binds from its own first field on", run: func(c *Ctx) {
			base.run(c)
			checkC10Bind(c, budget(c.Tier, 1500, 60000))
			checkC10Levels(c, budget(c.Tier, 600, 30000))
			checkC10SliceUnmarshaler(c, budget(c.Tier, 150, 5000))
			checkC10AfterHelp(c, budget(c.Tier, 100, 3000))
			checkC10OuterWord(c, budget(c.Tier, 100, 3000))
		}}
	}
}

// GenMixedCase: one declaration, a random sequence of operations of every kind.
func GenMixedCase(c *Ctx, p Profile, kinds []string, nops int) *Case {
	g := &gen{r: c.Rng, p: p}
	cs := g.genCase()
	g.addProgrammatic(cs)
	real, _ := BuildReal(cs)
	if real.dead {
		cs.Description = describeCase(cs)
		return cs
	}
	for i := 0; i < nops; i++ {
		switch kinds[c.Rng.Intn(len(kinds))] {
		case "parse":
			cs.Ops = append(cs.Ops, Op{Kind: "parse", Args: g.genArgv(real)})
		case "iniparse":
			cs.Ops = append(cs.Ops, Op{Kind: "iniparse", Text: g.genIniText(real, iniProfile{Noise: 0.3, Fault: 0.1, Unknown: 0.05, Bytes: 0.03}), AsDefaults: g.chance(0.3)})
		case "iniwrite":
			cs.Ops = append(cs.Ops, Op{Kind: "iniwrite", Bits: uint(c.Rng.Intn(8)) * 2})
		case "help":
			cs.Ops = append(cs.Ops, Op{Kind: "help", Cols: effCols([]int{80, 40, 20, 1, 200, 33, 61}[c.Rng.Intn(7)])})
		case "man":
			cs.Ops = append(cs.Ops, Op{Kind: "man"})
		case "complete":
			cs.Ops = append(cs.Ops, Op{Kind: "complete", Args: g.genCompleteArgs(real)})
		case "model":
			cs.Ops = append(cs.Ops, Op{Kind: "model"})
		}
	}
	cs.Description = describeCase(cs)
	return cs
}

func runMixedCases(c *Ctx, n int, p Profile, kinds []string, nops int, after func(cr *CaseResult)) {
	batch := 30
	for done := 0; done < n; done += batch {
		k := batch
		if n-done < k {
			k = n - done
		}
		cases := make([]*Case, 0, k)
		for i := 0; i < k; i++ {
			cases = append(cases, GenMixedCase(c, p, kinds, nops))
		}
		c.RunCases(cases, func(cr *CaseResult) {
			c.classifyCase(cr)
			if after != nil {
				after(cr)
			}
		})
		if len(c.R.Disagreements) >= c.maxKeep {
			return
		}
	}
}

func init() {
	props["C12"] = propRun{
		rule: "declarations with rich initial values (strings with surrounding blanks, quotes, backslashes, control, non-ASCII and invalid bytes; numeric limits; nil/empty/filled slices, maps, pointers), optional parse, write with each of the 8 IniOptions, read into a fresh parser over the same declaration, apply defaults, compare every written option; distinct per written text; plus mixed ini operations for the model tie",
		run: func(c *Ctx) {
			checkC12(c, budget(c.Tier, 400, 40000))
			checkC12DefaultChanged(c, budget(c.Tier, 60, 2000))
			checkC12AddOption(c, budget(c.Tier, 60, 2000))
			checkC12IndirectCollections(c, budget(c.Tier, 80, 3000))
			runMixedCases(c, budget(c.Tier, 150, 15000), defaultProfile, []string{"parse", "iniparse", "iniwrite"}, 3, func(cr *CaseResult) { oracleNoPanic(c, cr) })
		}}
	props["C14"] = propRun{
		rule: "(a) noisy / faulty / arbitrary-byte INI texts (incl. lines around the 4096-byte buffer) on generated declarations; (b) pairs: the same entries with and without blank lines, comments, surrounding blanks, CRLF; (c) one syntactically faulty line inserted at a known physical line; (d) long-line pairs, ignore-unknown pairs; (e) an unknown section - with entries, or with nothing under its header: last line, only comments below, the next header at once, first thing in the file - is ErrUnknownGroup, and under IgnoreUnknown changes nothing; (f) late-section stage: ONE IniParser reads a file naming a section nothing answers to yet, the program declares that group / command, the same IniParser reads the file again: the section is known now, its entries are applied, a faulty line in it carries its number; distinct per text",
		run: func(c *Ctx) {
			checkC14(c, budget(c.Tier, 720, 72000))
			checkIniLateSection(c, budget(c.Tier, 150, 5000), "C14")
			checkIniAddOption(c, budget(c.Tier, 60, 2000), "C14")
			checkC14NumberAfterLongLine(c, budget(c.Tier, 60, 2000))
		}}
}

func init() {
	props["C13"] = propRun{
		rule: "pairs over one generated declaration: an INI text with 1-3 entries naming one option (by ini-name in either case, field name, namespaced long name or short name, under the global section or a group section in any letter case, normal or as-defaults mode) read into one fresh parser, and the corresponding --long=value flags parsed by another; the option must end with the same value; the expected target of the name is computed independently from the documented priority; distinct per (text, argv); late-section stage (one IniParser, a section declared between two reads of the same file); command-collection stage (a slice / map option of a command, one or two levels down, that already holds something - stored, left by an earlier call, read from an earlier file: the entries replace it and accumulate, exactly as the flags do); plus mixed ini operations for the model tie",
		run: func(c *Ctx) {
			checkC13(c, budget(c.Tier, 600, 60000))
			checkIniLateSection(c, budget(c.Tier, 150, 5000), "C13")
			checkC13CommandCollection(c, budget(c.Tier, 150, 5000))
			checkC13CommandNamespace(c, budget(c.Tier, 150, 5000))
			checkIniAddOption(c, budget(c.Tier, 60, 2000), "C13")
			checkC13SectionRenamed(c, budget(c.Tier, 60, 2000), "C13")
			checkC13SameKeyNextSection(c, budget(c.Tier, 60, 2000), "C13")
			runMixedCases(c, budget(c.Tier, 150, 15000), defaultProfile, []string{"iniparse", "parse"}, 3, func(cr *CaseResult) { oracleNoPanic(c, cr) })
		}}
	props["C05"] = propRun{
		rule: "declarations of 2-5 options (string, int, []string, []int), each independently with/without a program-stored value, default tag(s), env tag (variable set or unset, env-delim, optional env-namespace and delimiter), INI entries and command-line occurrences, every source carrying a distinct recognisable value; three orders (INI then CLI; as-defaults INI then CLI; CLI then as-defaults INI); expected final value computed from the ranking; distinct per case text; plus mixed operations for the model tie; indirect-collections stage (library only): *[]string, **[]string, *[]int, *map[string]int and a struct whose own conversion accumulates, with any subset of stored value / default tags / environment / occurrences: exactly the elements of the highest-ranked source; late-below stage: a group declared on a subcommand after the parser was used: its options get defaults / environment and occurrences replace what was stored, like any other",
		run: func(c *Ctx) {
			checkC05(c, budget(c.Tier, 600, 60000))
			checkC05Exotic(c, budget(c.Tier, 400, 20000))
			checkC05SharedStorage(c, budget(c.Tier, 100, 3000))
			checkC05EnvNamespaceChanged(c, budget(c.Tier, 60, 2000))
			checkC05LateBelow(c, budget(c.Tier, 200, 8000))
			p := defaultProfile
			p.Env = 0.4
			p.Defaults = 0.4
			p.InitVals = 0.4
			runMixedCases(c, budget(c.Tier, 150, 15000), p, []string{"iniparse", "parse", "parse"}, 3, func(cr *CaseResult) { oracleNoPanic(c, cr) })
		}}
	props["C15"] = propRun{
		rule: "generated declarations with pre-populated multi-entry maps, one key set from several INI sections, then ini read, parse, help, man, ini write and completion; every case is rebuilt and re-run 8 (quick) / 32 (thorough) times in-process and all observations must be byte-identical (Go randomises every map range); distinct per case",
		run: func(c *Ctx) {
			checkC15(c, budget(c.Tier, 150, 6000), budget(c.Tier, 8, 32))
			checkC15Invalid(c, budget(c.Tier, 150, 6000), budget(c.Tier, 8, 32))
			checkC15StructOption(c, budget(c.Tier, 40, 1500))
			checkC15AliasClash(c, budget(c.Tier, 60, 2000), budget(c.Tier, 12, 32))
			checkTagSlicesPrivate(c, budget(c.Tier, 40, 1000), "C15")
		}}
}

func init() {
	props["C16"] = propRun{
		rule: "generated declarations in which every option description carries a unique marker and every masked default a unique secret; an active command chain is selected by parsing a command path; WriteHelp and WriteManPage are compared with the model byte for byte and scanned: visible options listed, markers of hidden items and secrets absent; mask stage: Option.DefaultMask assigned after the parser has been used (and a help text written): help and man page written afterwards show the current mask, or nothing for \"-\", never the real default; distinct per case",
		run: func(c *Ctx) {
			checkC16(c, budget(c.Tier, 500, 50000))
			checkC16MaskChanged(c, budget(c.Tier, 150, 5000))
			checkC16DefaultChanged(c, budget(c.Tier, 100, 3000))
		}}
	props["C18"] = propRun{
		rule: "generated declarations (Completer-typed options and positionals, hidden options, nested commands) and argument vectors made of a plausible prefix and a partial last word (long/short prefixes, --name=partial, -xpartial, command prefixes, bare dash); completion list compared with the model; sortedness and hidden-name oracles; acceptance oracle against the parser itself (its own parse of the typed words gives the command context; every offered option / command, appended to those words, must be taken by the parser as that option / command; long-option and command lists must be exactly the visible ones of that context which the parser accepts there; the probes are compared with the model too); positional stage: positional fields of a completing type, k typed values, terminator / PassAfterNonOption: the type's completions are offered exactly when a field still takes the word; value stage: an option of a completing type under ASCII and multi-byte short names, the last word spelling it with a partial value as --name=V, --name V, -xV, -x=V, -x V: exactly the type's completions of the partial value, re-attached to the spelling; ignored-cluster stage: under IgnoreUnknown a typed cluster with an undeclared letter (in front of declared ones) is one passed-through word: long options stay offered, a declared last letter awaits no value, the word takes a positional field or ends command recognition; outer-word stage: behind a command without subcommands a word spelling a sibling command (or its alias, or the command itself) is a rest argument: the command's own and its ancestors' options only, no values of the sibling's positional arguments, no command names; distinct per case",
		run: func(c *Ctx) {
			checkC18(c, budget(c.Tier, 1500, 80000))
			checkC18Positional(c, budget(c.Tier, 300, 10000))
			checkC18Values(c, budget(c.Tier, 400, 20000))
			checkC18IgnoredCluster(c, budget(c.Tier, 200, 5000))
			checkC18OuterWord(c, budget(c.Tier, 150, 4000))
			checkC18Shadowed(c, budget(c.Tier, 120, 3000))
			checkC18HiddenChanged(c, budget(c.Tier, 100, 3000))
			checkC18ValidatedCompleter(c, budget(c.Tier, 40, 1000))
		}}
}

func init() {
	// C07 also needs the scoping side: options of sibling / not-yet-named commands are unknown
	base := props["C07"]
	props["C07"] = propRun{rule: base.rule + "; second stage: deep command trees with few positionals, command words of sibling and ancestor commands, options of out-of-scope commands; policy stage: one unknown option (long, short, non-ASCII short, with inline argument, inside a cluster behind a declared flag) among declared ones under each policy (error naming it; IgnoreUnknown: passed through verbatim; handler: exactly one call with the name, the inline argument and exactly the not-yet-consumed arguments, its result parsed next, its error returned)", run: func(c *Ctx) {
		base.run(c)
		p := defaultProfile
		p.MaxCmdDepth = 3
		p.MaxSubs = 4
		p.CmdWord = 0.35
		p.SubOpt = 0.5
		p.PosArgs = 0.05
		p.Unknown = 0.12
		p.BadDecl = 0.01
		p.ArgvLen = 6
		runParseCases(c, budget(c.Tier, 2000, 60000), p, func(cr *CaseResult) {
			oracleNoPanic(c, cr)
			oracleHandler(c, cr)
		})
		checkC07Unknown(c, budget(c.Tier, 1500, 60000))
	}}
}

func init() {
	props["DBG2"] = propRun{rule: "debug", run: func(c *Ctx) {
		p := defaultProfile
		kinds := strings.Split(os.Getenv("VERIF_KINDS"), ",")
		if os.Getenv("VERIF_KINDS") == "" {
			kinds = []string{"parse", "iniparse", "iniwrite", "help", "man", "complete"}
		}
		runMixedCases(c, budget(c.Tier, 300, 20000), p, kinds, 3, nil)
	}}
}

func init() {
	props["DBG"] = propRun{rule: "debug", run: func(c *Ctx) {
		p := defaultProfile
		p.WithModel = true
		runParseCases(c, budget(c.Tier, 400, 20000), p, nil)
	}}
}

func main() {
	prop := flag.String("prop", "", "property id")
	tier := flag.String("tier", "quick", "quick|thorough")
	seed := flag.Int64("seed", 1, "PRNG seed")
	driver := flag.String("driver", "/verif/lean/.lake/build/bin/driver", "Lean model driver")
	out := flag.String("out", "", "result JSON")
	known := flag.String("known", "/verif/known_findings.json", "known findings file")
	flag.Parse()
	pr, ok := props[*prop]
	if !ok {
		fmt.Fprintln(os.Stderr, "unknown property", *prop)
		os.Exit(2)
	}
	start := time.Now()
	c, err := NewCtx(*prop, *tier, *seed, *driver)
	if err != nil {
		fmt.Fprintln(os.Stderr, "cannot start driver:", err)
		os.Exit(2)
	}
	c.LoadKnown(*known)
	c.Start, c.Out, c.Rule = start, *out, pr.rule
	ptyOK = probePty()
	termCols = currentCols()
	if !ptyOK {
		c.R.Notes = append(c.R.Notes, fmt.Sprintf("no pty available: help is rendered at the width of fd 0 (%d) only", termCols))
	}
	pr.run(c)
	c.Finish(start, pr.rule, *out)
	fmt.Printf("harness %s %s seed=%d evaluations=%d distinct=%d disagreements=%d failures=%d known=%d wall=%.1fs\n",
		*prop, *tier, *seed, c.R.Evaluations, c.R.Distinct, len(c.R.Disagreements), len(c.R.Failures), len(c.R.Known), c.R.WallS)
	for _, d := range c.R.Disagreements {
		fmt.Println("  DISAGREE", strings.TrimSpace(d.Request), "impl:", d.Impl, "model:", d.Model)
	}
	for _, f := range c.R.Failures {
		fmt.Println("  FAIL", f.Oracle, f.Key, f.Input, "got:", f.Got, "want:", f.Want)
	}
}
