package main

// C06, required stage: command trees with required options at every level and positional
// arguments with count constraints; the command line is a path of command words with occurrences
// of a random subset of the options in scope and a chosen number of positional words.  What must
// happen is computed here from the public model (Option.Required, Command.ArgsRequired,
// Arg.Required / RequiredMaximum) and from what the generator put on the line: success, or
// ErrRequired whose message names exactly the missing options (sorted), or - when no option is
// missing - exactly the unsatisfied positional arguments of the active command, in order.

import (
	"fmt"
	"reflect"
	"sort"
	"strconv"
	"strings"

	flags "github.com/jessevdk/go-flags"
)

func joinAnd(names []string) string {
	return strings.Join(names[:len(names)-1], ", ") + " and " + names[len(names)-1]
}

func checkC06Required(c *Ctx, n int) {
	p := defaultProfile
	p.BadDecl, p.Defaults, p.Env, p.InitVals, p.Choices = 0, 0, 0, 0, 0
	p.Required, p.PosArgs, p.SubOpt = 0.5, 0.7, 1
	p.MaxCmdDepth = 2
	p.Handlers, p.Exec = false, false
	p.OnlyTypes = []string{"str", "int", "bool", "Lstr", "str", "int", "bool", "F-", "Fe", "Fint", "Fstr!"}
	p.OptsMask = flags.PrintErrors
	r := c.Rng
	for i := 0; i < n; i++ {
		g := &gen{r: r, p: p}
		cs := g.genCase()
		cs.Env = nil
		real, _ := BuildReal(cs)
		if real.dead {
			continue
		}
		given := map[*flags.Option]bool{}
		var argv []string
		chain := []*flags.Command{real.p.Command}
		for {
			count := map[string]int{}
			type cand struct {
				o  *flags.Option
				sp string
			}
			var cands []cand
			for _, cmd := range chain {
				for _, grp := range allGroups(cmd) {
					for _, o := range grp.Options() {
						// every spelling an option answers to counts; one of them is typed
						ln := o.LongNameWithNamespace()
						if ln != "" {
							count["--"+ln]++
						}
						if o.ShortName != 0 {
							count["-"+string(o.ShortName)]++
						}
						if ln != "" && !strings.ContainsAny(ln, "=%") && !strings.HasPrefix(ln, "-") {
							cands = append(cands, cand{o, "--" + ln})
						} else if o.ShortName != 0 && o.ShortName != '-' && o.ShortName != '=' && o.ShortName != '%' {
							cands = append(cands, cand{o, "-" + string(o.ShortName)})
						}
					}
				}
			}
			for _, cd := range cands {
				if count[cd.sp] != 1 || given[cd.o] || r.Intn(2) == 0 || cd.o.OptionalArgument {
					continue
				}
				switch real.optCode(cd.o) {
				case "bool", "F-", "Fe":
					argv = append(argv, cd.sp)
				case "int", "Fint":
					argv = append(argv, cd.sp+"=7")
				case "str", "Lstr", "Fstr!":
					argv = append(argv, cd.sp+"=v")
				default:
					continue
				}
				given[cd.o] = true
			}
			subs := chain[len(chain)-1].Commands()
			if len(subs) == 0 || r.Intn(3) == 0 {
				break
			}
			s := subs[r.Intn(len(subs))]
			matches := 0
			for _, x := range subs {
				if x.Name == s.Name {
					matches++
				}
				for _, a := range x.Aliases {
					if a == s.Name {
						matches++
					}
				}
			}
			// (a positional argument of the current command would take the word)
			if matches != 1 || strings.HasPrefix(s.Name, "-") || strings.Contains(s.Name, "%") || len(chain[len(chain)-1].Args()) > 0 {
				break
			}
			argv = append(argv, s.Name)
			chain = append(chain, s)
		}
		active := chain[len(chain)-1]
		args := active.Args()
		// the count constraints as the declaration states them (read from the tag text, not from the
		// library's reading of it)
		tagOf := map[string]string{}
		var collectTags func(sd *StructDesc)
		collectTags = func(sd *StructDesc) {
			for _, f := range sd.Fields {
				if f.Kind == "v" {
					tagOf[f.Name] = f.Tag
					if pn := reflect.StructTag(f.Tag).Get("positional-arg-name"); pn != "" {
						tagOf[pn] = f.Tag
					}
				} else if f.Sub != nil {
					collectTags(f.Sub)
				}
			}
		}
		for bi := range cs.Build {
			if cs.Build[bi].Struct != nil {
				collectTags(cs.Build[bi].Struct)
			}
		}
		declaredRange := func(name string) (int, int) {
			req, max := -1, -1
			sreq := reflect.StructTag(tagOf[name]).Get("required")
			if sreq != "" {
				req = 1
				rng := strings.SplitN(sreq, "-", 2)
				if len(rng) > 1 {
					if v, err := strconv.ParseInt(rng[0], 10, 32); err == nil {
						req = int(v)
					}
					if v, err := strconv.ParseInt(rng[1], 10, 32); err == nil {
						max = int(v)
					}
				} else if v, err := strconv.ParseInt(sreq, 10, 32); err == nil {
					req = int(v)
				}
			}
			return req, max
		}
		k := 0
		if len(args) > 0 {
			k = r.Intn(len(args) + 2)
		}
		for j := 0; j < k; j++ {
			argv = append(argv, "1")
		}
		// while a trailing slice of strings collects the words, a word that spells a subcommand of the
		// active command is one more value: it counts towards the constraint, it does not end the list
		if len(args) > 0 && k >= len(args)-1 && len(active.Commands()) > 0 && r.Intn(2) == 0 {
			if fr, ok := real.fields[args[len(args)-1].Name]; ok && fr.code == "Lstr" {
				sub := active.Commands()[r.Intn(len(active.Commands()))]
				if typableWord(sub.Name) {
					argv = append(argv, sub.Name)
					k++
				}
			}
		}
		// what must happen
		var missing []string
		for _, cmd := range chain {
			for _, grp := range allGroups(cmd) {
				for _, o := range grp.Options() {
					// (what the declaration says, read from the tag text - not the library's reading of it)
					rq := reflect.StructTag(o.Field().Tag).Get("required")
					declaredRequired := !(rq == "" || rq == "false" || rq == "no" || rq == "0")
					if o.Field().Name == "ShowHelp" {
						declaredRequired = o.Required
					}
					if declaredRequired && !given[o] {
						missing = append(missing, "`"+o.String()+"'")
					}
				}
			}
		}
		sort.Strings(missing)
		want := ""
		switch {
		case len(missing) == 1:
			want = "the required flag " + missing[0] + " was not specified"
		case len(missing) > 1:
			want = "the required flags " + joinAnd(missing) + " were not specified"
		default:
			var names []string
			for ai, a := range args {
				isRest := ai == len(args)-1 && reflectKindOfArg(real, a) == reflect.Slice
				if !isRest && ai < k {
					continue // filled
				}
				aReq, aMax := declaredRange(a.Name)
				argRequired := (!isRest && active.ArgsRequired) || aReq != -1 || aMax != -1
				if !argRequired {
					continue
				}
				if isRest {
					got := k - (len(args) - 1)
					if got < 0 {
						got = 0
					}
					switch {
					case got < aReq:
						s := "argument"
						if aReq > 1 {
							s = fmt.Sprintf("arguments, but got only %d", got)
						}
						names = append(names, fmt.Sprintf("`%s (at least %d %s)`", a.Name, aReq, s))
					case aMax != -1 && got > aMax:
						if aMax == 0 {
							names = append(names, "`"+a.Name+" (zero arguments)`")
						} else {
							s := "argument"
							if aMax > 1 {
								s = fmt.Sprintf("arguments, but got %d", got)
							}
							names = append(names, fmt.Sprintf("`%s (at most %d %s)`", a.Name, aMax, s))
						}
					}
				} else {
					names = append(names, "`"+a.Name+"`")
				}
			}
			switch {
			case len(names) == 1:
				want = "the required argument " + names[0] + " was not provided"
			case len(names) > 1:
				want = "the required arguments " + joinAnd(names) + " were not provided"
			}
		}
		var warm []string
		cs.Ops, warm = withWarmupBelow(c, real, chain, argv)
		cs.Description = describeOps(cs)
		c.RunCases([]*Case{cs}, func(cr *CaseResult) {
			c.classifyCase(cr)
			blocks := parseBlocks(cr)
			if len(blocks) > 1 {
				// (the earlier call is not judged)
				blocks = blocks[len(blocks)-1:]
			}
			for _, o := range blocks {
				if o.panic != "" {
					continue
				}
				in := map[string]interface{}{"case": cs.Description, "argv": argv, "active_command": active.Name, "positional_words": k, "missing_options": missing}
				if warm != nil {
					in["earlier_call_on_the_same_parser"] = warm
					c.Class("c06/required: after an earlier call on the same parser")
				}
				var ok bool
				var wantS string
				if want == "" {
					c.Class("c06/required: satisfied")
					wantS = "no ErrRequired"
					ok = !(o.errKind == "flags" && o.errType == int(flags.ErrRequired))
					// (a positional word that does not convert is a different error: bool fields take "1")
					if o.errKind != "ok" && !(o.errKind == "flags" && o.errType == int(flags.ErrRequired)) {
						c.Class("c06/required: other error (not judged)")
						continue
					}
				} else {
					c.Class("c06/required: something missing")
					wantS = "ErrRequired: " + want
					if o.errKind != "ok" && !(o.errKind == "flags" && o.errType == int(flags.ErrRequired)) {
						c.Class("c06/required: other error (not judged)")
						continue
					}
					ok = o.errKind == "flags" && o.errType == int(flags.ErrRequired) && o.errMsg == want
				}
				if !ok {
					in["case_file"] = c.saveCase(cr)
				}
				c.Check("required-items-are-demanded-exactly", ok, "C06:required", in, fmt.Sprintf("%s type %d %q", o.errKind, o.errType, o.errMsg), wantS)
			}
		})
	}
}

// reflectKindOfArg: the kind of the field a positional argument is bound to
func reflectKindOfArg(r *Real, a *flags.Arg) reflect.Kind {
	if fr, ok := r.fields[a.Name]; ok && fr.val.IsValid() {
		return fr.val.Kind()
	}
	return reflect.Invalid
}

// checkC06ArgsRequired: `positional-args:"yes" required:"yes"` makes every plain (non-slice) positional
// field of THAT command required — of the command the struct belongs to, whatever the parser's own or
// an outer command's positional struct says.  Root and command each have a positional struct, each with
// or without the mark; the words given to the command fall short of, meet or exceed its fields.
func checkC06ArgsRequired(c *Ctx, n int) {
	r := c.Rng
	for i := 0; i < n; i++ {
		mk := func(prefix string, m int, rest bool) (*StructDesc, []string) {
			sd := &StructDesc{}
			var names []string
			for j := 0; j < m; j++ {
				nm := fmt.Sprintf("%s%d", prefix, j)
				sd.Fields = append(sd.Fields, FieldDesc{Name: nm, Exported: true, Kind: "v", Ty: "str"})
				names = append(names, nm)
			}
			if rest {
				sd.Fields = append(sd.Fields, FieldDesc{Name: prefix + "Rest", Exported: true, Kind: "v", Ty: "Lstr"})
			}
			return sd, names
		}
		rootM, cmdM := r.Intn(3), 1+r.Intn(3)
		rootReq, cmdReq := r.Intn(2) == 0, r.Intn(2) == 0
		cmdRest := r.Intn(3) == 0
		rootPos, rootNames := mk("R", rootM, false)
		cmdPos, cmdNames := mk("C", cmdM, cmdRest)
		tag := func(req bool) string {
			if req {
				return `positional-args:"yes" required:"yes"`
			}
			return `positional-args:"yes"`
		}
		cmdSd := &StructDesc{Fields: []FieldDesc{{Name: "CV", Exported: true, Kind: "v", Ty: "bool", Tag: `long:"cv"`},
			{Name: "CArgs", Exported: true, Kind: "s", Sub: cmdPos, Tag: tag(cmdReq)}}}
		root := &StructDesc{Fields: []FieldDesc{{Name: "V", Exported: true, Kind: "v", Ty: "bool", Tag: `short:"v"`}}}
		if rootM > 0 {
			root.Fields = append(root.Fields, FieldDesc{Name: "RArgs", Exported: true, Kind: "s", Sub: rootPos, Tag: tag(rootReq)})
		}
		root.Fields = append(root.Fields, FieldDesc{Name: "Cmd", Exported: true, Kind: "s", Sub: cmdSd, Tag: `command:"cmd"`})
		cs := &Case{Name: "app", NsDelim: ".", EnvNsDelim: "_"}
		cs.Build = []BuildOp{{Kind: "addgroup", Target: 1, Short: "Application Options", Struct: root}}
		var argv []string
		for j := range rootNames {
			argv = append(argv, fmt.Sprintf("r%d", j))
		}
		argv = append(argv, "cmd")
		k := r.Intn(cmdM + 2)
		if !cmdRest && k > cmdM {
			k = cmdM
		}
		for j := 0; j < k; j++ {
			if r.Intn(4) == 0 {
				argv = append(argv, "--cv")
			}
			argv = append(argv, fmt.Sprintf("c%d", j))
		}
		cs.Ops = []Op{{Kind: "parse", Args: argv}}
		cs.Description = describeOps(cs)
		var missing []string
		if cmdReq && k < cmdM {
			for _, nm := range cmdNames[k:] {
				missing = append(missing, "`"+nm+"`")
			}
		}
		want := "success"
		switch {
		case len(missing) == 1:
			want = "the required argument " + missing[0] + " was not provided"
		case len(missing) > 1:
			want = "the required arguments " + joinAnd(missing) + " were not provided"
		}
		c.RunCases([]*Case{cs}, func(cr *CaseResult) {
			c.classifyCase(cr)
			var obs parseObs
			for _, o := range parseBlocks(cr) {
				obs = o
			}
			c.Class(fmt.Sprintf("c06/args-required: root-marked=%v command-marked=%v fields=%d words=%d", rootReq && rootM > 0, cmdReq, cmdM, k))
			in := map[string]interface{}{"case": cs.Description, "argv": argv, "root_positional_struct_marked_required": rootReq && rootM > 0,
				"command_positional_struct_marked_required": cmdReq, "command_fields": cmdNames, "words_given_to_the_command": k}
			var ok bool
			if len(missing) == 0 {
				ok = obs.panic == "" && obs.errKind == "ok"
			} else {
				ok = obs.panic == "" && obs.errKind == "flags" && obs.errType == int(flags.ErrRequired) && obs.errMsg == want
			}
			if !ok {
				in["case_file"] = c.saveCase(cr)
			}
			c.Check("the-command's-own-mark-decides-which-positional-arguments-are-required", ok, "C06:args-required", in,
				fmt.Sprintf("%s %s type %d %q", obs.panic, obs.errKind, obs.errType, obs.errMsg), want)
		})
	}
}

// checkC06Reuse: one parser, two calls.  A chain of nested commands, each with a required option of its
// own and optional subcommands; an earlier call walks further down than the judged one (and fails, or
// succeeds, for its own reasons).  The judged call demands the required options of the commands IT
// selects, and of no command the earlier call had selected below them.
func checkC06Reuse(c *Ctx, n int) {
	r := c.Rng
	for i := 0; i < n; i++ {
		depth := 2 + r.Intn(2)
		var sd *StructDesc
		for l := depth; l >= 1; l-- {
			st := &StructDesc{Fields: []FieldDesc{
				{Name: fmt.Sprintf("Req%d", l), Exported: true, Kind: "v", Ty: "str", Tag: fmt.Sprintf(`long:"req%d" required:"yes"`, l)},
				{Name: fmt.Sprintf("Flag%d", l), Exported: true, Kind: "v", Ty: "bool", Tag: fmt.Sprintf(`long:"flag%d"`, l)}}}
			if sd != nil {
				st.Fields = append(st.Fields, FieldDesc{Name: fmt.Sprintf("Sub%d", l), Exported: true, Kind: "s", Sub: sd, Tag: fmt.Sprintf(`command:"c%d" subcommands-optional:"yes"`, l+1)})
			}
			sd = st
		}
		root := &StructDesc{Fields: []FieldDesc{{Name: "V", Exported: true, Kind: "v", Ty: "bool", Tag: `short:"v"`},
			{Name: "Sub0", Exported: true, Kind: "s", Sub: sd, Tag: `command:"c1" subcommands-optional:"yes"`}}}
		cs := &Case{Name: "app", NsDelim: ".", EnvNsDelim: "_"}
		cs.Build = []BuildOp{{Kind: "addgroup", Target: 1, Short: "Application Options", Struct: root},
			{Kind: "setcmd", Target: 1, Attr: "subopt", Vals: []string{"1"}}}
		// (what an earlier call stored stays stored: an option it supplied is supplied)
		supplied := map[int]bool{}
		line := func(reach int, supply func(l int) bool) ([]string, []string) {
			var argv, missing []string
			for l := 1; l <= reach; l++ {
				argv = append(argv, fmt.Sprintf("c%d", l))
				if supply(l) {
					argv = append(argv, fmt.Sprintf("--req%d=x", l))
					supplied[l] = true
				} else if !supplied[l] {
					missing = append(missing, fmt.Sprintf("`--req%d'", l))
				}
				if r.Intn(3) == 0 {
					argv = append(argv, fmt.Sprintf("--flag%d", l))
				}
			}
			return argv, missing
		}
		earlierReach := 1 + r.Intn(depth)
		judgedReach := r.Intn(earlierReach + 1)
		earlier, _ := line(earlierReach, func(l int) bool { return r.Intn(2) == 0 })
		judged, missing := line(judgedReach, func(l int) bool { return r.Intn(4) != 0 })
		cs.Ops = []Op{{Kind: "parse", Args: earlier}, {Kind: "parse", Args: judged}}
		cs.Description = describeOps(cs)
		want := "success"
		switch {
		case len(missing) == 1:
			want = "the required flag " + missing[0] + " was not specified"
		case len(missing) > 1:
			want = "the required flags " + joinAnd(missing) + " were not specified"
		}
		c.RunCases([]*Case{cs}, func(cr *CaseResult) {
			c.classifyCase(cr)
			var obs parseObs
			for _, o := range parseBlocks(cr) {
				obs = o
			}
			c.Class(fmt.Sprintf("c06/reuse: depth=%d earlier-reaches=%d judged-reaches=%d missing=%d", depth, earlierReach, judgedReach, len(missing)))
			in := map[string]interface{}{"case": cs.Description, "earlier_call": earlier, "judged_call": judged}
			var ok bool
			if len(missing) == 0 {
				ok = obs.panic == "" && obs.errKind == "ok"
			} else {
				ok = obs.panic == "" && obs.errKind == "flags" && obs.errType == int(flags.ErrRequired) && obs.errMsg == want
			}
			if !ok {
				in["case_file"] = c.saveCase(cr)
			}
			c.Check("a-call-demands-what-its-own-commands-require", ok, "C06:reuse", in, fmt.Sprintf("%s %s type %d %q", obs.panic, obs.errKind, obs.errType, obs.errMsg), want)
		})
	}
}

// checkC06BeforeCommand: a required option (or a required positional argument) is missing AND the
// command line stops short of a subcommand that is required (none given, or an unknown word): what is
// reported is the missing item - ErrRequired naming exactly it -, whatever else is wrong further on.
func checkC06BeforeCommand(c *Ctx, n int) {
	r := c.Rng
	for i := 0; i < n; i++ {
		level := r.Intn(2) // the required item sits on the parser (0) or on the command `remote` (1)
		positional := r.Intn(3) == 0
		item := FieldDesc{Name: "Token", Exported: true, Kind: "v", Ty: "str", Tag: `long:"token" required:"yes"`}
		if positional {
			item = FieldDesc{Name: "PArgs", Exported: true, Kind: "s", Tag: `positional-args:"yes" required:"yes"`, Sub: &StructDesc{Fields: []FieldDesc{
				{Name: "Name", Exported: true, Kind: "v", Ty: "str"}}}}
		}
		leafs := []FieldDesc{
			{Name: "Add", Exported: true, Kind: "s", Tag: `command:"add"`, Sub: &StructDesc{}},
			{Name: "Del", Exported: true, Kind: "s", Tag: `command:"del"`, Sub: &StructDesc{}}}
		var root *StructDesc
		var argv []string
		if level == 0 {
			root = &StructDesc{Fields: append([]FieldDesc{item}, leafs...)}
		} else {
			remote := &StructDesc{Fields: append([]FieldDesc{item}, leafs...)}
			root = &StructDesc{Fields: []FieldDesc{{Name: "V", Exported: true, Kind: "v", Ty: "bool", Tag: `short:"v"`},
				{Name: "Remote", Exported: true, Kind: "s", Tag: `command:"remote"`, Sub: remote}}}
			argv = []string{"remote"}
		}
		supplied := r.Intn(3) == 0
		if supplied {
			if positional {
				argv = append(argv, "thename")
			} else {
				argv = append(argv, "--token=t")
			}
		}
		tail := r.Intn(3) // 0: nothing, 1: an unknown word, 2: a proper command
		if positional && !supplied && tail == 1 {
			tail = 0 // (the word would be the positional value)
		}
		switch tail {
		case 1:
			argv = append(argv, "nosuchcmd")
		case 2:
			if positional && !supplied {
				continue
			}
			argv = append(argv, "add")
		}
		cs := &Case{Name: "app", NsDelim: ".", EnvNsDelim: "_"}
		cs.Build = []BuildOp{{Kind: "addgroup", Target: 1, Short: "Application Options", Struct: root}}
		cs.Ops = []Op{{Kind: "parse", Args: argv}}
		cs.Description = describeOps(cs)
		var wantType int
		var wantMsg string
		switch {
		case !supplied && !positional:
			wantType, wantMsg = int(flags.ErrRequired), "the required flag `--token' was not specified"
		case !supplied && positional:
			wantType, wantMsg = int(flags.ErrRequired), "the required argument `Name` was not provided"
		case tail == 0:
			wantType = int(flags.ErrCommandRequired)
		case tail == 1:
			wantType = int(flags.ErrUnknownCommand)
		}
		c.RunCases([]*Case{cs}, func(cr *CaseResult) {
			c.classifyCase(cr)
			var obs parseObs
			for _, o := range parseBlocks(cr) {
				obs = o
			}
			c.Class(fmt.Sprintf("c06/before-command: level=%d positional=%v supplied=%v tail=%d", level, positional, supplied, tail))
			in := map[string]interface{}{"case": cs.Description, "argv": argv}
			var ok bool
			want := "success"
			if wantType == 0 {
				ok = obs.panic == "" && obs.errKind == "ok"
			} else {
				want = fmt.Sprintf("*flags.Error type %d %q", wantType, wantMsg)
				ok = obs.panic == "" && obs.errKind == "flags" && obs.errType == wantType && (wantMsg == "" || obs.errMsg == wantMsg)
			}
			if !ok {
				in["case_file"] = c.saveCase(cr)
			}
			c.Check("a-missing-required-item-is-reported-whatever-else-is-missing", ok, "C06:before-command", in,
				fmt.Sprintf("%s %s type %d %q", obs.panic, obs.errKind, obs.errType, obs.errMsg), want)
		})
	}
}

// checkC06RequiredChanged: Option.Required is a public field.  The program marks an option required (or no longer
// required) after the declaration was scanned — right after building, or after the parser has been used once; the
// option sits on the parser, among a command's own options or in a group nested in the command, in a group that has
// or has not another required option.  The call that follows demands exactly what is marked NOW.
func checkC06RequiredChanged(c *Ctx, n int) {
	r := c.Rng
	for i := 0; i < n; i++ {
		otherRequired := r.Intn(3) == 0 // the target's group also declares a required option by tag (always supplied)
		tagRequired := r.Intn(4) == 0   // the target is required by tag and the program clears the mark
		where := r.Intn(3)              // 0 parser group, 1 the command's own options, 2 a group nested in the command
		mk := func(name string) []FieldDesc {
			tag := fmt.Sprintf(`long:"%s"`, name)
			if tagRequired {
				tag += ` required:"yes"`
			}
			fs := []FieldDesc{{Name: "Target", Exported: true, Kind: "v", Ty: []string{"str", "int", "Lstr", "Lint"}[r.Intn(4)], Tag: tag}}
			if otherRequired {
				fs = append(fs, FieldDesc{Name: "Other", Exported: true, Kind: "v", Ty: "str", Tag: `long:"other-` + name + `" required:"true"`})
			}
			return fs
		}
		nested := &StructDesc{Fields: []FieldDesc{{Name: "Plain", Exported: true, Kind: "v", Ty: "bool", Tag: `long:"plain"`}}}
		cmd := &StructDesc{Fields: []FieldDesc{{Name: "CmdFlag", Exported: true, Kind: "v", Ty: "bool", Tag: `long:"cflag"`}}}
		root := &StructDesc{Fields: []FieldDesc{{Name: "Verbose", Exported: true, Kind: "v", Ty: "bool", Tag: `short:"v"`}}}
		tgt := BuildOp{Kind: "setopt", Attr: "required"}
		var other string
		switch where {
		case 0:
			root.Fields = append(root.Fields, mk("token")...)
			tgt.Target, tgt.Gi, tgt.Oi = 1, 1, 1
			other = "--other-token=o"
		case 1:
			cmd.Fields = append(cmd.Fields, mk("token")...)
			tgt.Target, tgt.Gi, tgt.Oi = 2, 0, 1
			other = "--other-token=o"
		case 2:
			nested.Fields = append(nested.Fields, mk("token")...)
			tgt.Target, tgt.Gi, tgt.Oi = 2, 1, 1
			other = "--other-token=o"
		}
		cmd.Fields = append(cmd.Fields, FieldDesc{Name: "Nested", Exported: true, Kind: "s", Sub: nested, Tag: `group:"Nested Options"`})
		root.Fields = append(root.Fields, FieldDesc{Name: "Run", Exported: true, Kind: "s", Sub: cmd, Tag: `command:"run"`})
		now := !tagRequired
		if now {
			tgt.Vals = []string{hx("1")}
		} else {
			tgt.Vals = []string{hx("0")}
		}
		cs := &Case{Name: "app", NsDelim: ".", EnvNsDelim: "_", CmdHandler: true}
		cs.Build = []BuildOp{{Kind: "addgroup", Target: 1, Short: "Application Options", Struct: root}}
		late := r.Intn(2) == 0
		full := []string{"run", "--token=1"}
		if otherRequired {
			full = append(full, other)
		}
		if late {
			// the parser is used once (everything supplied), then the mark changes
			cs.Ops = append(cs.Ops, Op{Kind: "parse", Args: full}, Op{Kind: "build", B: &tgt})
		} else {
			cs.Build = append(cs.Build, tgt)
		}
		given := r.Intn(3) == 0
		argv := []string{"run"}
		if r.Intn(2) == 0 {
			argv = []string{"-v", "run", "--cflag"}
		}
		if otherRequired {
			argv = append(argv, other)
		}
		if given {
			argv = append(argv, "--token=1")
		}
		cs.Ops = append(cs.Ops, Op{Kind: "parse", Args: argv})
		cs.Description = describeOps(cs)
		c.RunCases([]*Case{cs}, func(cr *CaseResult) {
			c.classifyCase(cr)
			if cr.Real == nil || cr.Real.dead {
				return
			}
			var obs parseObs
			for _, o := range parseBlocks(cr) {
				obs = o
			}
			nHandler := 0
			for _, l := range obs.logs {
				if strings.HasPrefix(l, "LOG cmdhandler ") {
					nHandler++
				}
			}
			// an earlier call that supplied the option leaves it supplied (set-marks persist on a parser, §8)
			demanded := now && !given && !late
			c.Class(fmt.Sprintf("c06/required-changed: where=%d required-now=%v late=%v given=%v other-required=%v", where, now, late, given, otherRequired))
			in := map[string]interface{}{"case": cs.Description, "argv": argv, "option_marked_required_now": now, "marked_after_first_use": late}
			got := fmt.Sprintf("%s %s type %d %q, %d CommandHandler calls", obs.panic, obs.errKind, obs.errType, obs.errMsg, nHandler)
			want := "success, one CommandHandler call"
			var ok bool
			if demanded {
				want = "ErrRequired: the required flag `--token' was not specified; no CommandHandler call"
				ok = obs.panic == "" && obs.errKind == "flags" && obs.errType == int(flags.ErrRequired) && nHandler == 0 &&
					obs.errMsg == "the required flag `--token' was not specified"
			} else {
				ok = obs.panic == "" && obs.errKind == "ok" && nHandler == 1
			}
			if !ok {
				in["case_file"] = c.saveCase(cr)
			}
			c.Check("the-call-demands-what-is-marked-required-now", ok, "C06:required-changed", in, got, want)
		})
	}
}
