package main

import (
	"fmt"
	"os"
	"path/filepath"
	"strings"
	"time"
)

// AskRaw sends lines and returns every stdout line up to the SYNC marker (oracle misses are
// answered and the whole batch re-sent, as in Ask).
func (d *Driver) AskRaw(lines []string) ([]string, error) {
	for attempt := 0; attempt < 50; attempt++ {
		// write concurrently with reading: the driver answers while it is still being fed
		werr := make(chan error, 1)
		go func() {
			for _, r := range lines {
				d.in.WriteString(r)
				d.in.WriteByte('\n')
			}
			d.in.WriteString("sync\n")
			werr <- d.in.Flush()
		}()
		d.Sent += len(lines)
		var resps []string
		for {
			line, err := d.out.ReadString('\n')
			if err != nil {
				return nil, fmt.Errorf("driver died: %v", err)
			}
			line = strings.TrimRight(line, "\n")
			if line == "SYNC" {
				break
			}
			resps = append(resps, line)
		}
		var misses []string
		for {
			line, ok := <-d.errs
			if !ok {
				return nil, fmt.Errorf("driver stderr closed")
			}
			if line == "SYNC" {
				break
			}
			if strings.HasPrefix(line, "MISS ") {
				misses = append(misses, line[5:])
			} else {
				fmt.Fprintln(os.Stderr, "driver:", line)
			}
		}
		<-werr
		if len(misses) == 0 {
			return resps, nil
		}
		for _, m := range misses {
			ans, err := answerMiss(m)
			if err != nil {
				return nil, err
			}
			if !d.oracle[ans] {
				d.oracle[ans] = true
				d.Misses++
				d.in.WriteString(ans)
				d.in.WriteByte('\n')
			}
		}
	}
	return nil, fmt.Errorf("oracle misses did not converge")
}

type CaseResult struct {
	Case  *Case
	Real  *Real
	Impl  []string
	Model []string
	Lines []string // the case as sent to the driver
}

var termCols = 80

// the process' own standard output (the library's writes are captured by swapping os.Stdout)
var realStdout = os.Stdout

// RunCases realises each case on the real library, sends it to the model, compares the
// observation blocks line by line and hands both to `after` for the property oracles.
func (c *Ctx) RunCases(cases []*Case, after func(cr *CaseResult)) {
	var all []string
	results := make([]*CaseResult, len(cases))
	for i, cs := range cases {
		cr := &CaseResult{Case: cs}
		var impl []string
		var pan interface{}
		done := make(chan struct{})
		go func() {
			pan = safe(func() {
				real, outs := BuildReal(cs)
				cr.Real = real
				impl = append(impl, outs...)
				impl = append(impl, real.RunOps()...)
			})
			close(done)
		}()
		select {
		case <-done:
		case <-time.After(20 * time.Second):
			// the library does not return: a hang is an observation (C04), and the run ends here
			cr.Lines = cs.Lines(termCols)
			cr.Impl = []string{"HANG: the operation did not return within 20 s"}
			path := c.saveCase(cr)
			c.Check("operation-returns", false, c.Prop+":hang", map[string]interface{}{"case": cs.Description, "case_file": path}, "no return within 20 s", "normal return")
			c.R.Notes = append(c.R.Notes, "run aborted: the implementation hung on "+path)
			c.queue = nil
			c.Finish(c.Start, c.Rule, c.Out)
			fmt.Fprintf(realStdout, "harness %s ABORTED: implementation hang, case %s failures=1\n", c.Prop, path)
			os.Exit(0)
		}
		if pan != nil {
			impl = append(impl, fmt.Sprintf("HARNESS-PANIC %v", pan))
		}
		cr.Impl = impl
		cr.Lines = cs.Lines(termCols)
		all = append(all, cr.Lines...)
		results[i] = cr
	}
	resp, err := c.D.AskRaw(all)
	if err != nil {
		c.R.Notes = append(c.R.Notes, "driver error: "+err.Error())
		c.R.Disagreements = append(c.R.Disagreements, Disagreement{Request: "case batch", Impl: "-", Model: "DRIVER-ERROR " + err.Error()})
		return
	}
	// split by DONE
	idx := 0
	for _, cr := range results {
		var block []string
		for idx < len(resp) && resp[idx] != "DONE" {
			block = append(block, resp[idx])
			idx++
		}
		idx++
		cr.Model = block
		c.R.Evaluations++
		c.compareCase(cr)
		// whatever the stage looks at: a panic of the library is a failing input by itself
		for _, l := range cr.Impl {
			if strings.HasPrefix(l, "PANIC") || l == "HELP PANIC" {
				c.Check("library-never-panics", false, c.Prop+":panic", map[string]interface{}{"case": cr.Case.Description, "case_file": c.saveCase(cr)}, decodeLine(l), "normal return")
				break
			}
		}
		if after != nil {
			c.inCase, c.caseCounted = true, false
			after(cr)
			c.inCase = false
		}
	}
}

func (c *Ctx) compareCase(cr *CaseResult) {
	n := len(cr.Impl)
	if len(cr.Model) > n {
		n = len(cr.Model)
	}
	for i := 0; i < n; i++ {
		var a, b string
		if i < len(cr.Impl) {
			a = cr.Impl[i]
		} else {
			a = "<missing>"
		}
		if i < len(cr.Model) {
			b = cr.Model[i]
		} else {
			b = "<missing>"
		}
		if a != b {
			path := c.saveCase(cr)
			if len(c.R.Disagreements) < c.maxKeep {
				c.R.Disagreements = append(c.R.Disagreements, Disagreement{
					Request: "case " + path + " (" + cr.Case.Description + ") observation line " + fmt.Sprint(i),
					Impl:    decodeLine(a), Model: decodeLine(b), Note: "first differing line"})
			}
			return
		}
	}
}

var caseSeq = 0

func (c *Ctx) saveCase(cr *CaseResult) string {
	caseSeq++
	dir := filepath.Join("/verif/replays", "cases")
	os.MkdirAll(dir, 0o755)
	path := filepath.Join(dir, fmt.Sprintf("%s-%d-%d.case", c.Prop, c.Seed, caseSeq))
	var b strings.Builder
	b.WriteString("# " + cr.Case.Description + "\n# --- case as sent to the model driver\n")
	for _, l := range cr.Lines {
		b.WriteString(l + "\n")
	}
	b.WriteString("# --- implementation observations\n")
	for _, l := range cr.Impl {
		b.WriteString("# I " + decodeLine(l) + "\n")
	}
	b.WriteString("# --- model observations\n")
	for _, l := range cr.Model {
		b.WriteString("# M " + decodeLine(l) + "\n")
	}
	os.WriteFile(path, []byte(b.String()), 0o644)
	return path
}

// decodeLine makes hex arguments readable in reports.
func decodeLine(l string) string {
	ws := strings.Split(l, " ")
	for i, w := range ws {
		if len(w) > 1 && w[0] == 'x' {
			if s, err := unhx(w); err == nil {
				ws[i] = fmt.Sprintf("%q", s)
			}
		} else if j := strings.Index(w, "=x"); j >= 0 {
			if s, err := unhx(w[j+1:]); err == nil {
				ws[i] = w[:j+1] + fmt.Sprintf("%q", s)
			}
		}
	}
	return strings.Join(ws, " ")
}
