package main

// C10, binding stage: the words of a command line - interleaved with options, before and after the
// terminator - must land in the positional fields of the active command in declaration order, a
// trailing slice field absorbing the rest, words beyond the fields coming back as remaining
// arguments in order.  The expectation is computed from the declaration order of the fields alone.

import (
	"fmt"
	"reflect"
	"strconv"
	"strings"

	flags "github.com/jessevdk/go-flags"
)

func checkC10Bind(c *Ctx, n int) {
	p := defaultProfile
	p.BadDecl, p.Defaults, p.Env, p.InitVals, p.Choices, p.Required = 0, 0, 0, 0, 0, 0
	p.PosArgs, p.SubOpt = 1, 1
	p.MaxCmdDepth = 2
	p.Handlers, p.Exec = false, false
	// (callbacks among the options: an option that RUNS CODE between the words is still just an option)
	p.OnlyTypes = []string{"str", "int", "bool", "Lstr", "F-", "F-"}
	p.OptsMask = flags.PassDoubleDash | flags.PrintErrors
	r := c.Rng
	for i := 0; i < n; i++ {
		g := &gen{r: r, p: p}
		// a third of the cases: string-kinded fields only, among them a type with its own conversion
		// (the harness' Upper stores the text in upper case), and words with letters
		letters := i%3 == 2
		if letters {
			g.p.OnlyTypes = []string{"str", "c0", "Lstr", "Lc0", "c0", "Lc0"}
		}
		cs := g.genCase()
		cs.Env = nil
		// no count constraints: this stage is about where words go
		var strip func(sd *StructDesc)
		strip = func(sd *StructDesc) {
			for fi := range sd.Fields {
				f := &sd.Fields[fi]
				if strings.Contains(f.Tag, "positional-args") {
					f.Tag = `positional-args:"yes"`
					for si := range f.Sub.Fields {
						f.Sub.Fields[si].Tag = ""
						if letters {
							sf := &f.Sub.Fields[si]
							sf.Init = ""
							if sf.Ty[0] == 'L' {
								sf.Ty = []string{"Lstr", "Lc0"}[r.Intn(2)]
							} else {
								sf.Ty = []string{"str", "c0"}[r.Intn(2)]
							}
						}
					}
				} else if f.Sub != nil {
					strip(f.Sub)
				}
			}
			// a quarter of the declarations spread the positional fields of a command over two structs
			for fi := 0; fi < len(sd.Fields); fi++ {
				f := &sd.Fields[fi]
				if f.Tag == `positional-args:"yes"` && len(f.Sub.Fields) >= 2 && r.Intn(4) == 0 {
					cut := 1 + r.Intn(len(f.Sub.Fields)-1)
					second := FieldDesc{Name: g.fieldName(), Exported: true, Kind: "s", Tag: `positional-args:"yes"`,
						Sub: &StructDesc{Fields: append([]FieldDesc{}, f.Sub.Fields[cut:]...)}}
					f.Sub.Fields = f.Sub.Fields[:cut:cut]
					rest := append([]FieldDesc{second}, sd.Fields[fi+1:]...)
					sd.Fields = append(sd.Fields[:fi+1:fi+1], rest...)
					fi++
				}
			}
		}
		for bi := range cs.Build {
			if cs.Build[bi].Struct != nil {
				strip(cs.Build[bi].Struct)
			}
		}
		cs.Opts |= flags.PassDoubleDash
		cs.Build = append(cs.Build, BuildOp{Kind: "setcmd", Target: 1, Attr: "subopt", Vals: []string{"1"}})
		// string options whose argument is optional, with and without an optional-value
		var mkOptional func(sd *StructDesc)
		mkOptional = func(sd *StructDesc) {
			for fi := range sd.Fields {
				f := &sd.Fields[fi]
				if f.Kind == "v" && f.Ty == "str" && strings.Contains(f.Tag, "long:") && !strings.Contains(f.Tag, "optional") && !strings.Contains(f.Tag, "choice:") && r.Intn(3) == 0 {
					f.Tag += ` optional:"yes"`
					if r.Intn(2) == 0 {
						f.Tag += ` optional-value:"ov"`
					}
				} else if f.Sub != nil && !strings.Contains(f.Tag, "positional-args") {
					mkOptional(f.Sub)
				}
			}
		}
		for bi := range cs.Build {
			if cs.Build[bi].Struct != nil {
				mkOptional(cs.Build[bi].Struct)
			}
		}
		// PassAfterNonOption: from the first word on nothing is an option (nor the terminator) any more
		after := r.Intn(4) == 0
		cs.Opts &^= flags.PassAfterNonOption
		if after {
			cs.Opts |= flags.PassAfterNonOption
		}
		real, _ := BuildReal(cs)
		if real.dead {
			continue
		}
		// a command path down to a command with positional fields (commands with fields take words
		// before any command word, so the path stops at the first one)
		chain := []*flags.Command{real.p.Command}
		var argv []string
		for len(chain[len(chain)-1].Args()) == 0 {
			subs := chain[len(chain)-1].Commands()
			if len(subs) == 0 {
				break
			}
			s := subs[r.Intn(len(subs))]
			matches := 0
			for _, x := range subs {
				if x.Name == s.Name {
					matches++
				}
				for _, a := range x.Aliases {
					if a == s.Name {
						matches++
					}
				}
			}
			if matches != 1 || strings.HasPrefix(s.Name, "-") || strings.Contains(s.Name, "%") {
				break
			}
			argv = append(argv, s.Name)
			chain = append(chain, s)
		}
		active := chain[len(chain)-1]
		args := active.Args()
		if len(args) == 0 {
			continue
		}
		cmdPath := append([]string{}, argv...)
		// flags in scope with a unique spelling, to interleave
		count := map[string]int{}
		var flagsInScope []string
		for _, cmd := range chain {
			for _, grp := range allGroups(cmd) {
				for _, o := range grp.Options() {
					if o.ShortName != 0 && o.ShortName != '-' && o.ShortName != '=' && o.ShortName != '%' {
						count["-"+string(o.ShortName)]++
					}
				}
			}
		}
		longCount := map[string]int{}
		for _, cmd := range chain {
			for _, grp := range allGroups(cmd) {
				for _, o := range grp.Options() {
					longCount[o.LongNameWithNamespace()]++
				}
			}
		}
		for _, cmd := range chain {
			for _, grp := range allGroups(cmd) {
				for _, o := range grp.Options() {
					sp := "-" + string(o.ShortName)
					if o.ShortName != 0 && count[sp] == 1 && (real.optCode(o) == "bool" || real.optCode(o) == "F-") && o.Field().Name != "ShowHelp" {
						flagsInScope = append(flagsInScope, sp)
					}
					// an option whose argument is optional never takes the next word either
					ln := o.LongNameWithNamespace()
					if o.OptionalArgument && ln != "" && longCount[ln] == 1 && !strings.ContainsAny(ln, "=%") && !strings.HasPrefix(ln, "-") && len(o.Choices) == 0 && (real.optCode(o) == "str" || real.optCode(o) == "Lstr") {
						flagsInScope = append(flagsInScope, "--"+ln)
					}
				}
			}
		}
		k := r.Intn(len(args) + 3)
		words := make([]string, k)
		terminatorAt := -1
		if r.Intn(2) == 0 {
			terminatorAt = r.Intn(k + 1)
			if after {
				terminatorAt = 0
			}
		}
		// a word that spells a subcommand of the active command is still a word while fields are unfilled
		var subNames []string
		for _, x := range active.Commands() {
			if !strings.HasPrefix(x.Name, "-") && !strings.Contains(x.Name, "%") && x.Name != "" {
				subNames = append(subNames, x.Name)
			}
			for _, a := range x.Aliases {
				if !strings.HasPrefix(a, "-") && !strings.Contains(a, "%") && a != "" {
					subNames = append(subNames, a)
				}
			}
		}
		for j := 0; j <= k; j++ {
			if j == terminatorAt {
				argv = append(argv, "--")
			}
			if j == k {
				break
			}
			if (terminatorAt < 0 || j < terminatorAt) && (!after || j == 0) && len(flagsInScope) > 0 && r.Intn(3) == 0 {
				argv = append(argv, flagsInScope[r.Intn(len(flagsInScope))])
			}
			words[j] = fmt.Sprint(11 + j)
			if letters {
				words[j] = "w" + words[j] + "x"
			}
			// (only while a field still takes the word: beyond the fields such a word is a command)
			lastIsSlice := reflectKindOfArg(real, args[len(args)-1]) == reflect.Slice
			// (... and a field of strings: "t" is a word, a command name and a spelling of true)
			recv := ""
			if j < len(args) {
				recv = real.fields[args[j].Name].code
			} else if lastIsSlice {
				recv = real.fields[args[len(args)-1].Name].code
			}
			stringly := recv == "str" || recv == "c0" || recv == "Lstr" || recv == "Lc0"
			if len(subNames) > 0 && r.Intn(4) == 0 && (j < len(args) || lastIsSlice) && stringly {
				words[j] = subNames[r.Intn(len(subNames))]
			}
			// a word written like a quoted literal (or merely beginning with a quote) is taken verbatim: a
			// positional value is never unquoted
			if (recv == "str" || recv == "Lstr") && r.Intn(5) == 0 {
				words[j] = []string{"\"" + words[j] + "\"", "\"" + words[j], "\"a b\"", "\"\""}[r.Intn(4)]
			}
			// after the terminator anything is a word, option-looking ones included
			if terminatorAt >= 0 && j >= terminatorAt && r.Intn(3) == 0 {
				words[j] = "-" + words[j]
			}
			argv = append(argv, words[j])
		}
		cs.Ops = []Op{{Kind: "parse", Args: argv}}
		cs.Description = describeOps(cs)
		c.RunCases([]*Case{cs}, func(cr *CaseResult) {
			c.classifyCase(cr)
			if cr.Real == nil || cr.Real.dead {
				return
			}
			var obs parseObs
			for _, o := range parseBlocks(cr) {
				obs = o
			}
			if obs.panic != "" || obs.errKind != "ok" {
				// with string fields only there is nothing a word could fail to convert to
				cr.Real.register()
				allStr := true
				for _, a := range args {
					if fr, ok := cr.Real.fields[a.Name]; !ok || (fr.code != "str" && fr.code != "Lstr") {
						allStr = false
					}
				}
				if allStr {
					c.Check("words-bind-to-fields-in-declaration-order", false, "C10:binding", map[string]interface{}{"case": cs.Description, "argv": argv, "active_command": active.Name, "words": words, "case_file": c.saveCase(cr)},
						fmt.Sprintf("%s %s type %d %q", obs.panic, obs.errKind, obs.errType, obs.errMsg), "success: every positional field is a string")
					return
				}
				c.Class("c10/bind: parse did not succeed (not judged)")
				return
			}
			c.Class(fmt.Sprintf("c10/bind: judged words=%d fields=%d terminator=%v afternonoption=%v", k, len(args), terminatorAt >= 0, after))
			cr.Real.register()
			in := map[string]interface{}{"case": cs.Description, "argv": argv, "active_command": active.Name, "words": words}
			var fieldNames []string
			for _, a := range args {
				fieldNames = append(fieldNames, a.Name)
			}
			in["fields_in_declaration_order"] = fieldNames
			// the parser's list of positional arguments is the declaration's, in its order
			if decl := declaredPositional(cs, cmdPath); decl != nil && fmt.Sprint(decl) != fmt.Sprint(fieldNames) {
				in["case_file"] = c.saveCase(cr)
				c.Check("words-bind-to-fields-in-declaration-order", false, "C10:binding", in, fmt.Sprintf("the parser knows the positional arguments %q", fieldNames), fmt.Sprintf("declared: %q", decl))
				return
			}
			fail := func(got, want string) {
				in["case_file"] = c.saveCase(cr)
				c.Check("words-bind-to-fields-in-declaration-order", false, "C10:binding", in, got, want)
			}
			conv := func(code, w string) string {
				if code == "c0" || code == "Lc0" {
					return asciiUpper(w)
				}
				return w
			}
			used := 0
			for ai, a := range args {
				fr, ok := cr.Real.fields[a.Name]
				if !ok || !fr.val.IsValid() {
					fail("field "+a.Name+" not reachable", "reachable")
					return
				}
				if fr.val.Kind() == reflect.Slice && ai == len(args)-1 {
					var want []string
					if used < k {
						for _, w := range words[used:] {
							want = append(want, conv(fr.code, w))
						}
					}
					used = k
					got := make([]string, fr.val.Len())
					for j := range got {
						got[j] = fmt.Sprint(fr.val.Index(j).Interface())
					}
					if fmt.Sprint(got) != fmt.Sprint(want) && !(len(got) == 0 && len(want) == 0) {
						fail(fmt.Sprintf("%s = %q", a.Name, got), fmt.Sprintf("%s = %q", a.Name, want))
						return
					}
					continue
				}
				if used < k {
					got := fmt.Sprint(fr.val.Interface())
					if got != conv(fr.code, words[used]) {
						fail(fmt.Sprintf("%s = %q", a.Name, got), fmt.Sprintf("%s = %q (word %d, as a %s)", a.Name, conv(fr.code, words[used]), used+1, fr.code))
						return
					}
					used++
				} else if !fr.val.IsZero() {
					fail(fmt.Sprintf("%s = %v", a.Name, fr.val.Interface()), a.Name+" left alone")
					return
				}
			}
			var wantRet []string
			if used < k {
				wantRet = words[used:]
			}
			if fmt.Sprint(obs.ret) != fmt.Sprint(wantRet) && !(len(obs.ret) == 0 && len(wantRet) == 0) {
				fail(fmt.Sprintf("remaining %q", obs.ret), fmt.Sprintf("remaining %q", wantRet))
				return
			}
			c.Check("words-bind-to-fields-in-declaration-order", true, "", nil, "", "")
		})
	}
}

// declaredPositional: the positional fields of the command reached by the path of command words, in
// declaration order, read from the generated declaration itself (tag-declared commands)
func declaredPositional(cs *Case, path []string) []string {
	var cur []*StructDesc
	for _, b := range cs.Build {
		if b.Kind == "addgroup" && b.Target == 1 && b.Struct != nil {
			cur = append(cur, b.Struct)
		}
	}
	var findCmd func(sd *StructDesc, word string) *StructDesc
	findCmd = func(sd *StructDesc, word string) *StructDesc {
		for i := range sd.Fields {
			f := &sd.Fields[i]
			if f.Sub == nil {
				continue
			}
			if name, ok := tagValue(f.Tag, "command"); ok {
				if name == word {
					return f.Sub
				}
				for _, p := range splitTagPairs(f.Tag) {
					if strings.HasPrefix(p, "alias:\"") {
						if a, err := strconv.Unquote(p[len("alias:"):]); err == nil && a == word {
							return f.Sub
						}
					}
				}
			} else if !strings.Contains(f.Tag, "positional-args") {
				if r := findCmd(f.Sub, word); r != nil {
					return r
				}
			}
		}
		return nil
	}
	for _, word := range path {
		var next *StructDesc
		for _, sd := range cur {
			if r := findCmd(sd, word); r != nil && next == nil {
				next = r
			}
		}
		if next == nil {
			return nil
		}
		cur = []*StructDesc{next}
	}
	var out []string
	var collect func(sd *StructDesc)
	collect = func(sd *StructDesc) {
		for i := range sd.Fields {
			f := &sd.Fields[i]
			if f.Sub == nil {
				continue
			}
			if strings.Contains(f.Tag, "positional-args") {
				for _, sf := range f.Sub.Fields {
					if sf.Exported {
						name := sf.Name
						if pn, ok := tagValue(sf.Tag, "positional-arg-name"); ok && pn != "" {
							name = pn
						}
						out = append(out, name)
					}
				}
			} else if !strings.Contains(f.Tag, "command:\"") && !(f.Kind == "p" && !f.Exported) {
				collect(f.Sub)
			}
		}
	}
	for _, sd := range cur {
		collect(sd)
	}
	return out
}

// checkC10Levels: positional fields on two or three levels of ONE command chain (the parser's own, a
// command's, a nested command's).  The words in front of a command word fill the fields of the level
// they are typed at; the command word is taken once those are full; the words behind it fill the
// entered command's fields FROM ITS FIRST FIELD ON, a trailing slice absorbing the rest; words beyond
// the fields are the remaining arguments.  Everything is stated from the construction.
func checkC10Levels(c *Ctx, n int) {
	r := c.Rng
	for i := 0; i < n; i++ {
		levels := 2 + r.Intn(2)
		type lvl struct {
			fields []string // field names, in order
			kinds  []string
			rest   string // name of the trailing slice ("" if none)
			flag   string
		}
		var lv []lvl
		var sd *StructDesc
		fid := 0
		// built innermost first
		for l := levels - 1; l >= 0; l-- {
			var x lvl
			pos := &StructDesc{}
			nf := 1 + r.Intn(3)
			if l > 0 && r.Intn(5) == 0 {
				nf = 0
			}
			for j := 0; j < nf; j++ {
				fid++
				name := fmt.Sprintf("P%d", fid)
				ty := []string{"str", "str", "int"}[r.Intn(3)]
				pos.Fields = append(pos.Fields, FieldDesc{Name: name, Exported: true, Kind: "v", Ty: ty})
				x.fields = append(x.fields, name)
				x.kinds = append(x.kinds, ty)
			}
			// only the innermost level may end in a slice (a slice never lets a command word through)
			if l == levels-1 && r.Intn(2) == 0 {
				fid++
				x.rest = fmt.Sprintf("P%d", fid)
				pos.Fields = append(pos.Fields, FieldDesc{Name: x.rest, Exported: true, Kind: "v", Ty: "Lstr"})
			}
			fid++
			x.flag = fmt.Sprintf("--flag%d", l)
			st := &StructDesc{Fields: []FieldDesc{{Name: fmt.Sprintf("Flag%d", fid), Exported: true, Kind: "v", Ty: "bool", Tag: fmt.Sprintf(`long:"flag%d"`, l)}}}
			if len(pos.Fields) > 0 {
				st.Fields = append(st.Fields, FieldDesc{Name: fmt.Sprintf("Pos%d", fid), Exported: true, Kind: "s", Tag: `positional-args:"yes"`, Sub: pos})
			}
			if sd != nil {
				st.Fields = append(st.Fields, FieldDesc{Name: fmt.Sprintf("Cmd%d", fid), Exported: true, Kind: "s", Tag: fmt.Sprintf(`command:"cmd%d" alias:"c%d" subcommands-optional:"yes"`, l+1, l+1), Sub: sd})
			}
			if r.Intn(2) == 0 {
				// declaration order of the command field and the positional struct does not matter
				for a, b := 0, len(st.Fields)-1; a < b; a, b = a+1, b-1 {
					st.Fields[a], st.Fields[b] = st.Fields[b], st.Fields[a]
				}
			}
			sd = st
			lv = append([]lvl{x}, lv...)
		}
		cs := &Case{Name: "app", NsDelim: ".", EnvNsDelim: "_", Opts: flags.PassDoubleDash}
		cs.Build = append(cs.Build, BuildOp{Kind: "addgroup", Target: 1, Short: "Application Options", Struct: sd})
		cs.Build = append(cs.Build, BuildOp{Kind: "setcmd", Target: 1, Attr: "subopt", Vals: []string{"1"}})
		// the line: per level, exactly as many words as it has plain fields, then the command word
		var argv []string
		want := map[string]string{}
		wn := 0
		word := func(kind string) string {
			wn++
			if kind == "int" {
				return strconv.Itoa(100 + wn)
			}
			return fmt.Sprintf("w%d", wn)
		}
		maybeFlag := func(l int) {
			if r.Intn(3) == 0 {
				argv = append(argv, lv[r.Intn(l+1)].flag)
			}
		}
		stop := 1 + r.Intn(levels) // how many levels the line enters
		var wantRest, wantRet []string
		for l := 0; l < stop; l++ {
			last := l == stop-1
			nw := len(lv[l].fields)
			if last {
				nw = r.Intn(len(lv[l].fields) + 3)
			}
			for j := 0; j < nw; j++ {
				maybeFlag(l)
				switch {
				case j < len(lv[l].fields):
					w := word(lv[l].kinds[j])
					want[lv[l].fields[j]] = w
					argv = append(argv, w)
				case lv[l].rest != "":
					w := word("str")
					wantRest = append(wantRest, w)
					argv = append(argv, w)
				default:
					w := word("str")
					// (behind the fields of a level that has subcommands a further word would be a command word)
					if l < levels-1 {
						continue
					}
					wantRet = append(wantRet, w)
					argv = append(argv, w)
				}
			}
			maybeFlag(l)
			if !last {
				argv = append(argv, []string{fmt.Sprintf("cmd%d", l+1), fmt.Sprintf("c%d", l+1)}[r.Intn(2)])
			}
		}
		cs.Ops = []Op{{Kind: "parse", Args: argv}}
		cs.Description = describeOps(cs)
		c.RunCases([]*Case{cs}, func(cr *CaseResult) {
			c.classifyCase(cr)
			if cr.Real == nil || cr.Real.dead {
				return
			}
			var obs parseObs
			for _, o := range parseBlocks(cr) {
				obs = o
			}
			c.Class(fmt.Sprintf("c10/levels: declared=%d entered=%d", levels, stop))
			in := map[string]interface{}{"case": cs.Description, "argv": argv}
			var decl []string
			for l, x := range lv {
				d := fmt.Sprintf("level %d: %v", l, x.fields)
				if x.rest != "" {
					d += " + slice " + x.rest
				}
				decl = append(decl, d)
			}
			in["positional_fields"] = decl
			ok := obs.panic == "" && obs.errKind == "ok" && fmt.Sprintf("%q", obs.ret) == fmt.Sprintf("%q", wantRet)
			got := fmt.Sprintf("%s %s type %d %q remaining %q", obs.panic, obs.errKind, obs.errType, obs.errMsg, obs.ret)
			var wants []string
			for l := range lv {
				for j, f := range lv[l].fields {
					fr, has := cr.Real.fields[f]
					if !has {
						continue
					}
					w, filled := want[f]
					var have string
					if lv[l].kinds[j] == "int" {
						have = strconv.FormatInt(fr.val.Int(), 10)
						if !filled {
							w = "0"
						}
					} else {
						have = fr.val.String()
					}
					wants = append(wants, f+"="+w)
					got += " " + f + "=" + have
					if have != w {
						ok = false
					}
				}
				if lv[l].rest != "" {
					if fr, has := cr.Real.fields[lv[l].rest]; has {
						var have []string
						for k := 0; k < fr.val.Len(); k++ {
							have = append(have, fr.val.Index(k).String())
						}
						wants = append(wants, fmt.Sprintf("%s=%q", lv[l].rest, wantRest))
						got += fmt.Sprintf(" %s=%q", lv[l].rest, have)
						if fmt.Sprintf("%q", have) != fmt.Sprintf("%q", wantRest) {
							ok = false
						}
					}
				}
			}
			if !ok {
				in["case_file"] = c.saveCase(cr)
			}
			c.Check("every-level-binds-its-own-fields-from-the-first-on", ok, "C10:levels", in, got,
				fmt.Sprintf("success, remaining %q, %s", wantRet, strings.Join(wants, " ")))
		})
	}
}
