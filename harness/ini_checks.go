package main

import (
	"fmt"
	"reflect"
	"regexp"
	"sort"
	"strconv"
	"strings"
	"unicode"

	flags "github.com/jessevdk/go-flags"
)

// ---------------------------------------------------------------- helpers on observations

// valueLines: option reference -> value text, from the last block of O lines in the observations
// that follow the marker line with the given prefix (k-th occurrence).
func optionValues(lines []string, marker string, k int) map[string]string {
	out := map[string]string{}
	seen := -1
	active := false
	for _, l := range lines {
		if strings.HasPrefix(l, marker) {
			seen++
			active = seen == k
			continue
		}
		if strings.HasPrefix(l, "RET ") || strings.HasPrefix(l, "INI ") || strings.HasPrefix(l, "PANIC") {
			active = false
			continue
		}
		if active && strings.HasPrefix(l, "O ") {
			ws := strings.Fields(l)
			out[ws[1]] = ws[2]
		}
	}
	return out
}

func firstLine(lines []string, prefix string) string {
	for _, l := range lines {
		if strings.HasPrefix(l, prefix) {
			return l
		}
	}
	return ""
}

func nthLine(lines []string, prefix string, k int) string {
	for _, l := range lines {
		if strings.HasPrefix(l, prefix) {
			if k == 0 {
				return l
			}
			k--
		}
	}
	return ""
}

// iniComparable: the options the writer is supposed to write (not func, not hidden, not no-ini,
// no hidden group or command on the way), keyed by option reference.
func (r *Real) iniComparable() map[string]*flags.Option {
	out := map[string]*flags.Option{}
	var walk func(c *flags.Command)
	walk = func(c *flags.Command) {
		uid := r.uids[c]
		for gi, g := range allGroups(c) {
			if g.Hidden {
				continue
			}
			for oi, o := range g.Options() {
				code := r.optCode(o)
				if code[0] == 'F' || o.Hidden || reflectTag(o, "no-ini") != "" {
					continue
				}
				out[fmt.Sprintf("%d.%d.%d", uid, gi, oi)] = o
			}
		}
		for _, s := range c.Commands() {
			if !s.Hidden {
				walk(s)
			}
		}
	}
	walk(r.p.Command)
	return out
}

// ---------------------------------------------------------------- C12: write / read round trip

var richStrings = []string{"", " x", "x ", " ", "\"q", "\"quoted\"", "a\"b", "back\\slash", "tab\there", "nl\nnl", "é日本😀", "\xff\xfe", "; not a comment",
	"# hash", "[section]", "a = b", "k:v", "  two  ", "\r", " nbsp", "　wide", "plain", "0", "true", "-dash", "a,b", "'single'", "\x00nul", "\x7f", "%d"}

func (g *gen) richInit(code string) string {
	sv := func(sc string) string {
		switch sc {
		case "str", "c1", "c2", "c3":
			if sc == "str" && g.r.Intn(25) == 0 {
				// a value that makes the written line about as long as, or longer than, any buffer
				// a reader is likely to use (4 KiB, 8 KiB, 64 KiB)
				n := []int{4050 + g.r.Intn(60), 4096, 8150 + g.r.Intn(80), 12000, 65536 + g.r.Intn(20)}[g.r.Intn(5)]
				return "s:" + hx(strings.Repeat("long value ", n/11+1)[:n])
			}
			return "s:" + hx(richStrings[g.r.Intn(len(richStrings))])
		case "c0":
			return "s:" + hx(asciiUpper(richStrings[g.r.Intn(len(richStrings))]))
		case "bool":
			return "b:" + b01(g.chance(0.5))
		case "f32":
			return "f:" + []string{"4609434218613702656", "0", "4591870180174331904", "13826050856027422720"}[g.r.Intn(4)]
		case "f64":
			return "f:" + []string{"4609434218613702656", "0", "4614253070214989087", "9218868437227405311", "1"}[g.r.Intn(5)]
		case "dur":
			return "i:" + []string{"1500000000", "0", "-3", "3600000000001", "9223372036854775807"}[g.r.Intn(5)]
		case "i8":
			return "i:" + []string{"-128", "127", "0", "5"}[g.r.Intn(4)]
		case "i16":
			return "i:" + []string{"-32768", "32767", "0", "-7"}[g.r.Intn(4)]
		case "i32":
			return "i:" + []string{"-2147483648", "2147483647", "0", "12"}[g.r.Intn(4)]
		case "i64", "int":
			return "i:" + []string{"-9223372036854775808", "9223372036854775807", "0", "-1"}[g.r.Intn(4)]
		case "u8":
			return "u:" + []string{"255", "0", "9"}[g.r.Intn(3)]
		case "u16":
			return "u:" + []string{"65535", "0", "77"}[g.r.Intn(3)]
		case "u32":
			return "u:" + []string{"4294967295", "0", "3"}[g.r.Intn(3)]
		case "u64", "uint":
			return "u:" + []string{"18446744073709551615", "0", "1"}[g.r.Intn(3)]
		}
		return "s:x"
	}
	key := func(sc string, i int) string {
		if sc == "str" {
			return "s:" + hx([]string{"k1", "é", "key two", "a=b", "K", "x#y", "z;", "a\tb", "\"q", "nl\nkey"}[i%10])
		}
		if sc[0] == 'u' {
			return "u:" + strconv.Itoa(i+1)
		}
		return "i:" + strconv.Itoa(i-1)
	}
	switch code[0] {
	case 'F':
		return ""
	case 'L':
		n := g.r.Intn(4)
		if g.chance(0.2) {
			return "Lnil"
		}
		items := make([]string, n)
		for i := range items {
			items[i] = sv(code[1:])
		}
		return "L[" + strings.Join(items, ",")
	case 'P':
		if g.chance(0.3) {
			return "Pnil"
		}
		return "P" + sv(code[1:])
	case 'M':
		if g.chance(0.2) {
			return "Mnil"
		}
		kv := strings.Split(code[1:], ",")
		n := g.r.Intn(4)
		off := g.r.Intn(10)
		var items []string
		for i := 0; i < n; i++ {
			items = append(items, key(kv[0], off+i)+"="+sv(kv[1]))
		}
		if kv[0] == "str" && kv[1] == "str" && g.chance(0.35) {
			// a key that makes the writer quote the whole entry, with a value that needs quotes of its own
			items = append(items, "s:"+hx([]string{"tab\tkey", "\"lead", "nl\nkey2"}[g.r.Intn(3)])+"=s:"+hx([]string{" lead", "trail ", "\"q\"", "tab\tv", "é\x00"}[g.r.Intn(5)]))
		}
		return "M[" + strings.Join(items, ",")
	}
	return "v" + sv(code)
}

// richify replaces the initial values of all option fields by rich ones.
func (g *gen) richify(sd *StructDesc) {
	for i := range sd.Fields {
		f := &sd.Fields[i]
		if f.Kind == "v" && f.Exported && f.Ty[0] != 'F' {
			if strings.Contains(f.Tag, "choice:") {
				f.Init = ""
			} else if g.chance(0.8) {
				f.Init = g.richInit(f.Ty)
			}
		} else if f.Sub != nil && !(f.Kind == "p" && f.PtrNil) {
			g.richify(f.Sub)
		}
	}
}

func optionIniNameOf(o *flags.Option) string {
	if n := reflectTag(o, "ini-name"); n != "" {
		return n
	}
	return o.Field().Name
}

// sectionNamesExpressible: every section name the writer will emit can be expressed by the format
// (no '.', no ']', nothing to trim, not empty) - the rest is outside what the syntax can say
func sectionNamesExpressible(real *Real) bool {
	ok := true
	for _, c := range real.commandsPreorder() {
		for _, s := range c.Commands() {
			if strings.Contains(s.Name, ".") || s.Name == "" {
				ok = false
			}
		}
		for _, g := range allGroups(c)[1:] {
			d := strings.ToLower(g.ShortDescription)
			if strings.ContainsAny(d, ".]") || d != strings.TrimSpace(d) {
				ok = false
			}
		}
	}
	return ok
}

// sectionNamesClash: two sections of one command carry the same name (groups whose descriptions
// are equal case-insensitively, two subcommands of one name, a group described like a subcommand)
func sectionNamesClash(real *Real) bool {
	clash := false
	for _, c := range real.commandsPreorder() {
		seen := map[string]bool{}
		for _, s := range c.Commands() {
			if seen[s.Name] {
				clash = true
			}
			seen[s.Name] = true
		}
		gs := map[string]bool{}
		for _, g := range allGroups(c)[1:] {
			d := strings.ToLower(g.ShortDescription)
			if gs[d] {
				clash = true
			}
			gs[d] = true
		}
		for _, s := range c.Commands() {
			if gs[strings.ToLower(s.Name)] {
				clash = true
			}
		}
	}
	return clash
}

// (C13 keeps to declarations whose sections are all addressable)
func uniqueSubcommandNames(real *Real) bool {
	return sectionNamesExpressible(real) && !sectionNamesClash(real)
}

var groupTagRe = regexp.MustCompile(`group:"[^"]*"`)

// collideGroupName renames the first nested group of the declaration so that its section name
// clashes with the top-level group's (differing in case only, or not at all)
func collideGroupName(sd *StructDesc, to string) bool {
	for i := range sd.Fields {
		f := &sd.Fields[i]
		if (f.Kind == "s" || f.Kind == "p") && strings.Contains(f.Tag, `group:"`) {
			f.Tag = groupTagRe.ReplaceAllString(f.Tag, `group:"`+to+`"`)
			return true
		}
		if f.Sub != nil && !strings.Contains(f.Tag, `command:"`) && collideGroupName(f.Sub, to) {
			return true
		}
	}
	return false
}

func checkC12(c *Ctx, n int) {
	p := defaultProfile
	p.Required = 0
	p.PosArgs = 0
	p.BadDecl = 0
	p.Handlers = false
	p.Exec = false
	p.Unknown = 0
	p.Weird = 0
	p.ValueBad = 0
	p.OptsMask = flags.HelpFlag | flags.PassDoubleDash
	p.Env = 0.05
	// the assumption of theorem string_value_round_trip on the IsPrint oracle, checked against Go:
	// no white-space character beyond U+00FF is printable
	for r := rune(0x100); r <= 0x10FFFF; r++ {
		if unicode.IsSpace(r) {
			c.Check("oracle-assumption:space-characters-are-not-printable", !strconv.IsPrint(r), "C12:oracle-assumption", map[string]interface{}{"rune": fmt.Sprintf("U+%04X", r)}, "printable", "not printable")
		}
	}
	for i := 0; i < n; i++ {
		g := &gen{r: c.Rng, p: p}
		if i%4 == 3 {
			// strings, slices and maps of strings: where quoting happens
			g.p.OnlyTypes = []string{"Mstr,str", "Mstr,str", "str", "Lstr", "Mint,str", "Mstr,bool", "Pstr", "c0"}
		}
		cs := g.genCase()
		for bi := range cs.Build {
			if cs.Build[bi].Struct != nil {
				g.richify(cs.Build[bi].Struct)
			}
		}
		sameField := false
		if g.chance(0.1) && cs.Build[0].Struct != nil {
			// an option of a nested group under the field name of an option of the enclosing group
			sameField = g.collideFieldName(cs.Build[0].Struct)
		}
		if g.chance(0.04) && cs.Build[0].Struct != nil {
			// two sections of one name (D17)
			collideGroupName(cs.Build[0].Struct, []string{"application options", "Application Options", "APPLICATION OPTIONS"}[c.Rng.Intn(3)])
		}
		realA, _ := BuildReal(cs)
		if realA.dead || !sectionNamesExpressible(realA) {
			continue
		}
		clash := sectionNamesClash(realA)
		if clash {
			c.Class("c12/two-sections-share-a-name")
		}
		if sameField {
			c.Class("c12/nested-option-under-the-field-name-of-an-outer-one")
		}
		// commands must not be required, or an argument-less parse fails for a reason outside C12
		for _, cmd := range realA.commandsPreorder() {
			if len(cmd.Commands()) > 0 && !cmd.SubcommandsOptional {
				cs.Build = append(cs.Build, BuildOp{Kind: "setcmd", Target: realA.uids[cmd], Attr: "subopt", Vals: []string{"1"}})
			}
		}
		realA, _ = BuildReal(cs)
		bits := uint(c.Rng.Intn(8)) * 2
		argv := []string{}
		if g.chance(0.5) {
			save := g.p.ArgvLen
			g.p.ArgvLen = 4
			argv = g.genArgv(realA)
			g.p.ArgvLen = save
		}
		if g.chance(0.3) {
			// a scalar option brought to the zero value of its type although it declares another default
			for _, grp := range allGroups(realA.p.Command) {
				for _, o := range grp.Options() {
					ln := o.LongNameWithNamespace()
					if len(o.Default) == 0 || len(o.Choices) > 0 || ln == "" || strings.ContainsAny(ln, "=%") || strings.HasPrefix(ln, "-") || o.OptionalArgument {
						continue
					}
					switch code := realA.optCode(o); {
					case code == "str":
						argv = append(argv, "--"+ln+"=")
					case code == "int" || code == "i8" || code == "i16" || code == "i32" || code == "i64" || code == "uint" || code == "u8" || code == "u16" || code == "u32" || code == "u64" || code == "f32" || code == "f64" || code == "dur":
						argv = append(argv, "--"+ln+"=0")
					}
				}
			}
		}
		a := *cs
		a.Ops = []Op{{Kind: "parse", Args: argv}, {Kind: "iniwrite", Bits: bits}}
		a.Description = describeOps(&a)
		var resA, resB *CaseResult
		c.RunCases([]*Case{&a}, func(cr *CaseResult) { resA = cr; c.classifyCase(cr) })
		if resA == nil {
			continue
		}
		retA := firstLine(resA.Impl, "RET ")
		iniwA := firstLine(resA.Impl, "INIW ")
		if !strings.HasPrefix(retA, "RET ok") || iniwA == "" {
			c.Class("c12/parse-failed-skip")
			continue
		}
		text, _ := unhx(strings.Fields(iniwA)[1])
		// map keys outside the property's quantifier?
		skip := false
		for _, l := range resA.Impl {
			if strings.HasPrefix(l, "O ") && strings.Contains(l, " M[") {
				body := strings.Fields(l)[2][2:]
				for _, kv := range strings.Split(body, ",") {
					if kv == "" {
						continue
					}
					k := strings.SplitN(kv, "=", 2)[0]
					if strings.HasPrefix(k, "s:") {
						ks, _ := unhx(k[2:])
						if ks == "" || strings.Contains(ks, ":") || ks != strings.TrimSpace(ks) {
							skip = true
						}
					}
				}
			}
		}
		if skip {
			c.Class("c12/key-outside-quantifier-skip")
			continue
		}
		b := *cs
		b.Ops = []Op{{Kind: "iniparse", Text: text}, {Kind: "parse", Args: []string{}}}
		b.Description = "read back: " + describeOps(&b)
		c.RunCases([]*Case{&b}, func(cr *CaseResult) { resB = cr })
		if resB == nil {
			continue
		}
		c.Class(fmt.Sprintf("c12/roundtrip bits=%d", bits))
		c.Distinct(text)
		in := map[string]interface{}{"write_case": a.Description, "ini_options": bits, "written_text": text}
		iniB := firstLine(resB.Impl, "INI ")
		if pan := firstLine(resB.Impl, "PANIC"); pan != "" {
			in["case_file"] = c.saveCase(resB)
			c.Check("ini-reader-never-panics", false, "C14:ini-panic", in, pan, "normal return")
			continue
		}
		vA := optionValues(resA.Impl, "RET ", 0)
		if iniB != "INI ok" {
			// which written option made the file unreadable?
			key := "C12:written-file-unreadable"
			if strings.Contains(decodeLine(iniB), "Invalid value `") && strings.Contains(decodeLine(iniB), "Allowed values are") {
				// the written text of a value is checked against the choice texts when read
				key = "C12:written-text-rejected-by-choices"
			}
			if clash {
				key = "C12:two-sections-share-a-name"
			}
			in["case_file_write"] = c.saveCase(resA)
			in["case_file_read"] = c.saveCase(resB)
			c.Check("written-ini-is-readable", false, key, in, decodeLine(iniB), "INI ok")
			continue
		}
		c.Check("written-ini-is-readable", true, "", nil, "", "")
		vB := optionValues(resB.Impl, "RET ", 0)
		refs := realA.iniComparable()
		inits := map[string]string{}
		var collect func(sd *StructDesc)
		collect = func(sd *StructDesc) {
			for _, f := range sd.Fields {
				if f.Kind == "v" {
					inits[f.Name] = f.Init
				} else if f.Sub != nil {
					collect(f.Sub)
				}
			}
		}
		for bi := range cs.Build {
			if cs.Build[bi].Struct != nil {
				collect(cs.Build[bi].Struct)
			}
		}
		keys := make([]string, 0, len(refs))
		for k := range refs {
			keys = append(keys, k)
		}
		sort.Strings(keys)
		for _, ref := range keys {
			// the sign of a floating-point zero is not a difference in value
			va, vb := strings.ReplaceAll(vA[ref], "f:9223372036854775808", "f:0"), strings.ReplaceAll(vB[ref], "f:9223372036854775808", "f:0")
			ok := va == vb
			if !ok {
				in2 := map[string]interface{}{"write_case": a.Description, "ini_options": bits, "written_text": text, "option": ref + " " + refs[ref].String() + " field " + refs[ref].Field().Name,
					"case_file_write": c.saveCase(resA), "case_file_read": c.saveCase(resB)}
				key := "C12:value-not-reproduced"
				// omitted as "default" (zero / default tags) while the program had stored another
				// value in the field beforehand: the fresh parser keeps that stored value
				if init, ok := inits[refs[ref].Field().Name]; ok && init != "" && vb == canonMapText(init) && !strings.Contains("\n"+text, "\n"+optionIniNameOf(refs[ref])+" =") {
					key = "C12:omitted-as-default-but-field-preinitialised"
				}
				// omitted as equal to its default TAGS while an environment variable (which ranks above
				// the tags) is set: the fresh parser takes the variable
				if ek := refs[ref].EnvKeyWithNamespace(); ek != "" && !strings.Contains("\n"+text, "\n"+optionIniNameOf(refs[ref])+" =") {
					for _, e := range cs.Env {
						if e.K == ek {
							key = "C12:omitted-as-default-but-env-variable-set"
						}
					}
				}
				// an explicitly empty slice/map whose default tag is non-empty cannot be expressed by the format
				// (empty and non-nil, or nil: an option with an optional argument and no optional-value that
				// occurs bare is emptied to nil)
				if (va == "L[" || va == "M[" || va == "Lnil" || va == "Mnil") && len(refs[ref].Default) > 0 {
					key = "C12:explicitly-empty-collection-with-nonempty-default"
				}
				if clash {
					key = "C12:two-sections-share-a-name"
				}
				c.Check("round-trip-reproduces-value", false, key, in2, decodeLine(vb), decodeLine(va))
			} else {
				c.Check("round-trip-reproduces-value", true, "", nil, "", "")
			}
		}
	}
}

// canonMapText sorts the entries of a map value text (the observation format lists a map's entries
// sorted; a stored initial value is written in generation order)
func canonMapText(v string) string {
	if !strings.HasPrefix(v, "M[") {
		return v
	}
	parts := strings.Split(v[2:], ",")
	sort.Strings(parts)
	return "M[" + strings.Join(parts, ",")
}

// ---------------------------------------------------------------- C14: robustness and error location

func checkC14(c *Ctx, n int) {
	p := defaultProfile
	p.BadDecl = 0
	p.Exec = false
	for i := 0; i < n; i++ {
		g := &gen{r: c.Rng, p: p}
		cs := g.genCase()
		real, _ := BuildReal(cs)
		if real.dead {
			continue
		}
		mode := c.Rng.Intn(6)
		switch mode {
		case 5: // an unknown section — with entries, or with nothing under its header — is reported as such
			g.plainIni = true
			clean := g.genIniText(real, iniProfile{})
			if clean != "" && !strings.HasSuffix(clean, "\n") {
				clean += "\n"
			}
			header := []string{"[zzNoSuchSection]", "[ zz no such section ]", "[zz.no.such]"}[c.Rng.Intn(3)]
			shape := c.Rng.Intn(5)
			var text string
			switch shape {
			case 0: // the header is the last line
				text = clean + header + "\n"
			case 1: // nothing but comments and blank lines under it
				text = clean + header + "\n; nothing here\n\n# nor here\n"
			case 2: // the next header follows at once
				text = clean + header + "\n[Application Options]\n"
			case 3: // first thing in the file, empty, the known entries behind another header
				text = header + "\n[Application Options]\n"
				if at := strings.Index("\n"+clean, "\n["); at >= 0 {
					text += clean[:at]
				} else {
					text += clean
				}
			default: // with entries of its own
				text = clean + header + "\na = 1\n"
			}
			ignore := c.Rng.Intn(3) == 0
			a, b := *cs, *cs
			a.Opts &^= flags.IgnoreUnknown
			b.Opts &^= flags.IgnoreUnknown
			if ignore {
				a.Opts |= flags.IgnoreUnknown
				b.Opts |= flags.IgnoreUnknown
			}
			if shape == 3 {
				a.Ops = []Op{{Kind: "iniparse", Text: strings.TrimPrefix(text, header+"\n")}}
			} else {
				a.Ops = []Op{{Kind: "iniparse", Text: clean}}
			}
			b.Ops = []Op{{Kind: "iniparse", Text: text}}
			a.Description, b.Description = describeOps(&a), describeOps(&b)
			var ra, rb *CaseResult
			c.RunCases([]*Case{&a, &b}, func(cr *CaseResult) {
				if ra == nil {
					ra = cr
				} else {
					rb = cr
				}
			})
			if ra == nil || rb == nil {
				continue
			}
			ia, ib := firstLine(ra.Impl, "INI "), firstLine(rb.Impl, "INI ")
			if iniKind(ia) != "ok" {
				continue // (the known entries must be acceptable by themselves)
			}
			c.Class(fmt.Sprintf("c14/unknown-section shape=%d ignore-unknown=%v", shape, ignore))
			c.Distinct(b.Description)
			in := map[string]interface{}{"text": text, "unknown_section_header": header, "ignore_unknown": ignore}
			ok := true
			want := "ErrUnknownGroup"
			if ignore {
				want = "success and the option values of the text without the section"
				ok = iniKind(ib) == "ok"
				va, vb := optionValues(ra.Impl, "INI ", 0), optionValues(rb.Impl, "INI ", 0)
				for k, v := range va {
					if vb[k] != v {
						ok = false
					}
				}
			} else {
				ws := strings.Fields(ib + " x x x")
				ok = ws[1] == "flags" && ws[2] == strconv.Itoa(int(flags.ErrUnknownGroup))
			}
			if !ok {
				in["case_file"] = c.saveCase(rb)
			}
			c.Check("unknown-section-is-reported", ok, "C14:unknown-section", in, decodeLine(ib), want)
		case 3: // a line far longer than the reader's buffer: read whole, the other lines undisturbed
			g.plainIni = true
			clean := g.genIniText(real, iniProfile{})
			var names []string
			for _, grp := range allGroups(real.p.Command) {
				for _, o := range grp.Options() {
					if real.optCode(o) == "str" && len(o.Choices) == 0 && reflectTag(o, "no-ini") == "" && reflectTag(o, "ini-name") == "" {
						names = append(names, o.Field().Name)
					}
				}
			}
			if len(names) == 0 {
				continue
			}
			// (only the entries of the global section: the long line must address the parser's own groups)
			if at := strings.Index("\n"+clean, "\n["); at >= 0 {
				clean = clean[:at]
			}
			name := names[c.Rng.Intn(len(names))]
			if clean != "" && !strings.HasSuffix(clean, "\n") {
				clean += "\n"
			}
			var lb strings.Builder
			size := []int{100, 4000, 4090, 4096, 4097, 5000, 8192, 8200, 20000, 70000}[c.Rng.Intn(10)]
			for k := 0; lb.Len() < size; k++ {
				fmt.Fprintf(&lb, "%05d|", k)
			}
			long := lb.String()
			// (the entries of the clean text come first, so the long line is the last word on its option)
			text := clean + name + " = " + long + "\n"
			tail := []string{"", "; after\n", "\n"}[c.Rng.Intn(3)]
			a, b := *cs, *cs
			a.Ops = []Op{{Kind: "iniparse", Text: clean}}
			b.Ops = []Op{{Kind: "iniparse", Text: text + tail}}
			a.Description, b.Description = describeOps(&a), fmt.Sprintf("ini text of %d bytes ending in a line of %d bytes for %s", len(text), len(long)+len(name)+3, name)
			var ra, rb *CaseResult
			c.RunCases([]*Case{&a, &b}, func(cr *CaseResult) {
				if ra == nil {
					ra = cr
				} else {
					rb = cr
				}
			})
			if ra == nil || rb == nil || rb.Real == nil {
				continue
			}
			c.Class(fmt.Sprintf("c14/long-line size=%d", size))
			c.Distinct(b.Description + clean)
			ia, ib := firstLine(ra.Impl, "INI "), firstLine(rb.Impl, "INI ")
			va, vb := optionValues(ra.Impl, "INI ", 0), optionValues(rb.Impl, "INI ", 0)
			ref := rb.Real.optRef[name]
			in := map[string]interface{}{"clean_text": clean, "long_line_for": name, "long_line_bytes": len(long), "value_starts": long[:24], "value_ends": long[len(long)-24:]}
			ok := iniKind(ia) != "ok" || iniKind(ib) == "ok"
			got := decodeLine(ib)
			if ok && iniKind(ia) == "ok" {
				if vb[ref] != showVal("str", reflect.ValueOf(long)) {
					ok = false
					dv := decodeLine(vb[ref])
					if len(dv) > 80 {
						dv = dv[:40] + " … " + dv[len(dv)-40:]
					}
					got = fmt.Sprintf("%s holds %d bytes: %s", name, len(decodeLine(vb[ref])), dv)
				}
				for k, v := range va {
					if k != ref && vb[k] != v {
						ok = false
						got = "option " + k + " differs from the text without the long line"
					}
				}
			}
			if !ok {
				in["case_file"] = c.saveCase(rb)
			}
			c.Check("long-line-is-read-whole-and-disturbs-nothing", ok, "C14:long-line", in, got, "the whole value stored, every other option as without the line")
		case 4: // IgnoreUnknown: unknown options (and a trailing unknown section) are skipped, the rest applied
			g.plainIni = true
			clean := g.genIniText(real, iniProfile{})
			lines := strings.Split(strings.TrimRight(clean, "\n"), "\n")
			if clean == "" {
				lines = nil
			}
			var with []string
			k := 0
			for li, l := range lines {
				if c.Rng.Intn(3) == 0 && !(li > 0 && false) {
					with = append(with, fmt.Sprintf("%s = %d", unknownIniName(c, k), k))
					k++
				}
				with = append(with, l)
			}
			if c.Rng.Intn(2) == 0 {
				with = append(with, unknownIniName(c, 99)+" = 1")
				k++
			}
			if c.Rng.Intn(3) == 0 {
				with = append(with, "[zzNoSuchSection]", "a = 1", "b = 2")
				k++
			}
			if k == 0 {
				continue
			}
			a, b := *cs, *cs
			a.Opts |= flags.IgnoreUnknown
			b.Opts |= flags.IgnoreUnknown
			a.Ops = []Op{{Kind: "iniparse", Text: clean}}
			b.Ops = []Op{{Kind: "iniparse", Text: strings.Join(with, "\n") + "\n"}}
			a.Description, b.Description = describeOps(&a), describeOps(&b)
			var ra, rb *CaseResult
			c.RunCases([]*Case{&a, &b}, func(cr *CaseResult) {
				if ra == nil {
					ra = cr
				} else {
					rb = cr
				}
			})
			if ra == nil || rb == nil {
				continue
			}
			c.Class("c14/ignore-unknown-pair")
			c.Distinct(b.Description)
			ia, ib := firstLine(ra.Impl, "INI "), firstLine(rb.Impl, "INI ")
			same := iniKind(ia) == iniKind(ib) && iniKind(ia) != ""
			va, vb := optionValues(ra.Impl, "INI ", 0), optionValues(rb.Impl, "INI ", 0)
			diff := ""
			for k, v := range va {
				if vb[k] != v {
					same = false
					diff = fmt.Sprintf("; option %s: %s instead of %s", k, decodeLine(vb[k]), decodeLine(v))
				}
			}
			in := map[string]interface{}{"known_entries": clean, "with_unknown_entries": strings.Join(with, "\n")}
			if !same {
				in["case_file_known"] = c.saveCase(ra)
				in["case_file_with_unknown"] = c.saveCase(rb)
			}
			c.Check("unknown-entries-are-skipped-and-the-rest-applied", same, "C14:ignore-unknown", in, decodeLine(ib)+diff, decodeLine(ia)+" and the same option values")
		case 0: // arbitrary / noisy files: no panic, correspondence
			cc := *cs
			ip := iniProfile{Noise: 0.5, Fault: 0.3, Unknown: 0.2, Bytes: 0.3}
			text := g.genIniText(real, ip)
			if g.chance(0.1) {
				// long lines around the bufio buffer size
				text = "F1 = " + strings.Repeat("x", []int{4090, 4095, 4096, 4097, 8192, 70000}[c.Rng.Intn(6)]) + "\n" + text
			}
			cc.Ops = []Op{{Kind: "iniparse", Text: text, AsDefaults: g.chance(0.3)}}
			cc.Description = describeOps(&cc)
			c.RunCases([]*Case{&cc}, func(cr *CaseResult) {
				c.classifyCase(cr)
				c.Class("c14/arbitrary")
				if pan := firstLine(cr.Impl, "PANIC"); pan != "" {
					c.Check("ini-reader-never-panics", false, "C14:ini-panic", map[string]interface{}{"case": cc.Description, "case_file": c.saveCase(cr)}, pan, "normal return")
				} else {
					c.Check("ini-reader-never-panics", true, "", nil, "", "")
				}
			})
		case 1: // noise invariance: the same entries with and without noise
			g.plainIni = true
			clean := g.genIniText(real, iniProfile{})
			lines := strings.Split(strings.TrimRight(clean, "\n"), "\n")
			var noisy []string
			header := "" // the header of the section the next line belongs to
			for _, l := range lines {
				for g.chance(0.4) {
					noisy = append(noisy, []string{"", "; c", "# c", "   ", "\t"}[c.Rng.Intn(5)])
				}
				// the header of the section that is open anyway, once more: the lines before and behind it
				// still belong to that section
				if header != "" && g.chance(0.25) {
					noisy = append(noisy, header)
				}
				if t := strings.TrimSpace(l); strings.HasPrefix(t, "[") {
					header = t
				}
				if g.chance(0.5) && l != "" {
					l = []string{" ", "\t", "  "}[c.Rng.Intn(3)] + l + []string{" ", "\t", "  "}[c.Rng.Intn(3)]
				}
				noisy = append(noisy, l)
			}
			sep := "\n"
			if g.chance(0.5) {
				sep = "\r\n"
			}
			noisyText := strings.Join(noisy, sep) + sep
			a, b := *cs, *cs
			a.Ops = []Op{{Kind: "iniparse", Text: clean}}
			b.Ops = []Op{{Kind: "iniparse", Text: noisyText}}
			a.Description, b.Description = describeOps(&a), describeOps(&b)
			var ra, rb *CaseResult
			c.RunCases([]*Case{&a, &b}, func(cr *CaseResult) {
				if ra == nil {
					ra = cr
				} else {
					rb = cr
				}
			})
			if ra == nil || rb == nil {
				continue
			}
			c.Class("c14/noise-pair")
			c.Distinct(noisyText)
			ia, ib := firstLine(ra.Impl, "INI "), firstLine(rb.Impl, "INI ")
			same := iniKind(ia) == iniKind(ib) && iniKind(ia) != "" // ok / ini / flags
			va, vb := optionValues(ra.Impl, "INI ", 0), optionValues(rb.Impl, "INI ", 0)
			for k, v := range va {
				if vb[k] != v {
					same = false
				}
			}
			in := map[string]interface{}{"clean": clean, "noisy": noisyText}
			if !same {
				in["case_file_clean"] = c.saveCase(ra)
				in["case_file_noisy"] = c.saveCase(rb)
			}
			c.Check("noise-does-not-change-meaning", same, "C14:noise-changes-meaning", in, decodeLine(ib), decodeLine(ia))
		case 2: // one faulty line at a known physical line
			g.plainIni = true
			clean := g.genIniText(real, iniProfile{Noise: 0.3})
			lines := strings.Split(strings.TrimRight(clean, "\n"), "\n")
			if clean == "" {
				lines = nil
			}
			// (a quoted literal with text behind its closing quote is bad quoting, not a literal plus a comment)
			bad := []string{"[unterminated", "no equals sign here", "[]", "[  ]", "k = \"unterminated", "k = \"bad\\q\"", "= v",
				"k = \"abc\"def", "k = \"abc\" \"def\"", "k = \"a\\\"b\" c", "k = \"two\", \"three\"", "k = \"abc\" ; not a comment"}[c.Rng.Intn(12)]
			at := c.Rng.Intn(len(lines) + 1)
			if c.Rng.Intn(2) == 0 {
				// a fault of meaning instead of syntax: an entry of the global section (first line of the
				// file) whose value the option it names cannot take
				var cands []string
				for _, grp := range allGroups(real.p.Command) {
					for _, o := range grp.Options() {
						code := real.optCode(o)
						name := o.Field().Name
						if reflectTag(o, "no-ini") != "" || code[0] == 'F' {
							continue
						}
						switch {
						case len(o.Choices) > 0:
							cands = append(cands, name+" = zz-not-a-choice")
						case strings.HasPrefix(code, "i") || strings.HasPrefix(code, "u") || strings.HasPrefix(code, "f") || code == "Lint" || code == "Pint":
							cands = append(cands, name+" = 1!2")
						case code == "bool":
							cands = append(cands, name+" = maybe")
						case code == "dur":
							cands = append(cands, name+" = 5parsecs")
						}
					}
				}
				if real.p.Options&flags.IgnoreUnknown == 0 {
					cands = append(cands, "zzNoSuchOption = 1", unknownIniName(c, 0)+" = 1")
				}
				if len(cands) > 0 {
					bad = cands[c.Rng.Intn(len(cands))]
					at = 0
				}
			}
			lines = append(lines[:at:at], append([]string{bad}, lines[at:]...)...)
			text := strings.Join(lines, "\n") + "\n"
			cc := *cs
			cc.Ops = []Op{{Kind: "iniparse", Text: text}}
			cc.Description = describeOps(&cc)
			c.RunCases([]*Case{&cc}, func(cr *CaseResult) {
				c.Class("c14/located-fault")
				c.Distinct(text)
				ini := firstLine(cr.Impl, "INI ")
				ws := strings.Fields(ini + " x x x x")
				ok := ws[1] == "ini" && ws[3] == strconv.Itoa(at+1)
				in := map[string]interface{}{"text": text, "faulty_line": at + 1, "fault": bad}
				if !ok {
					in["case_file"] = c.saveCase(cr)
				}
				c.Check("syntax-error-carries-its-line-number", ok, "C14:wrong-line-number", in, decodeLine(ini), fmt.Sprintf("IniError at line %d", at+1))
			})
		}
	}
}

// unknownIniName: a key no option of any generated declaration answers to (no field, long, short or
// ini-name of the generator is spelled like this; a control byte is not a short name)
func unknownIniName(c *Ctx, k int) string {
	switch c.Rng.Intn(6) {
	case 0:
		return "\x00"
	case 1:
		return []string{"\x00\x00", "\x01", "\x7f", "zz\x00"}[c.Rng.Intn(4)]
	case 2:
		return fmt.Sprintf("zz no such %d", k)
	}
	return fmt.Sprintf("zzNoSuchOption%d", k)
}

// iniKind: "ok", "ini", "flags" ... from an "INI <kind> ..." observation line ("" when there is none:
// the reader did not return)
func iniKind(line string) string {
	ws := strings.Fields(line)
	if len(ws) < 2 {
		return ""
	}
	return ws[1]
}
