package main

// Generators for whole-parser cases. Every choice comes from the run's PRNG.

import (
	"fmt"
	"math/rand"
	"strconv"
	"strings"

	flags "github.com/jessevdk/go-flags"
)

type Profile struct {
	MaxFields   int
	MaxCmdDepth int
	MaxSubs     int
	PosArgs     float64 // probability that a command has positional args
	Required    float64
	Choices     float64
	Defaults    float64
	Env         float64
	Utf         float64 // non-ASCII names
	BadDecl     float64 // deliberately colliding / malformed declarations
	ArgvLen     int
	Unknown     float64 // share of unknown option tokens
	Weird       float64 // share of weird tokens / arbitrary bytes
	Handlers    bool
	Exec        bool
	OptsMask    flags.Options // option bits allowed to vary
	OptsAlways  flags.Options
	NParses     int
	Mutate      float64 // share of the cases in which the program assigns public fields of the model between two calls
	WithModel   bool
	WithHelp    bool
	InitVals    float64
	Namespaces  float64
	ValueBad    float64 // share of values that do not convert
	CmdWord     float64 // share of command words in argument vectors
	SubOpt      float64 // probability of subcommands-optional on a tag-declared command
	OnlyTypes   []string
}

var defaultProfile = Profile{MaxFields: 5, MaxCmdDepth: 2, MaxSubs: 3, PosArgs: 0.3, Required: 0.15, Choices: 0.1, Defaults: 0.2,
	Env: 0.1, Utf: 0.15, BadDecl: 0.03, ArgvLen: 7, Unknown: 0.08, Weird: 0.05, Handlers: true, Exec: true,
	OptsMask: flags.HelpFlag | flags.PassDoubleDash | flags.IgnoreUnknown | flags.PrintErrors | flags.PassAfterNonOption,
	NParses:  1, Mutate: 0.12, InitVals: 0.15, Namespaces: 0.3, ValueBad: 0.08, CmdWord: 0.15, SubOpt: 0.2}

var typePool = []string{"str", "str", "str", "bool", "bool", "bool", "int", "int", "i8", "i16", "i32", "i64", "uint", "u8", "u16", "u32", "u64",
	"f64", "f32", "dur", "Lstr", "Lstr", "Lint", "Lbool", "Li8", "Pstr", "Pint", "Pbool", "Mstr,int", "Mstr,str", "Mint,str", "Mstr,bool",
	"F-", "Fe", "Fstr!", "Fint", "c0", "c1", "c2", "Lc0", "Lu8", "Lf64", "Pf64", "Pdur"}

var longPool = []string{"verbose", "value", "name", "num", "list", "map", "level", "file", "out", "x", "v2", "long-name", "a.b", "ns.value", "help", "Name", "nam", "names", "dry-run", "färg", "日本", "e=q"}
var shortPool = []rune("abcdfghilmnopqrstvxyzABCVX0159éλ日")

type gen struct {
	plainIni bool
	r        *rand.Rand
	p        Profile
	nField   int
	nCmd     int
}

func (g *gen) chance(p float64) bool { return g.r.Float64() < p }

func (g *gen) fieldName() string {
	g.nField++
	return fmt.Sprintf("F%d", g.nField)
}

type scope struct {
	longs  map[string]bool
	shorts map[rune]bool
}

func newScope() *scope { return &scope{map[string]bool{}, map[rune]bool{}} }

func quoteTag(k, v string) string { return k + ":" + strconv.Quote(v) }

func (g *gen) pickType() string {
	if len(g.p.OnlyTypes) > 0 {
		return g.p.OnlyTypes[g.r.Intn(len(g.p.OnlyTypes))]
	}
	return typePool[g.r.Intn(len(typePool))]
}

// scalarText: a text for a scalar type code; ok=false yields a non-converting one.
func (g *gen) scalarText(sc string, ok bool) string {
	r := g.r
	if !ok {
		return []string{"abc", "", "1x", "999999999999999999999", "-", "1.5.2", "tru", " 1", "0x", "12a", "é"}[r.Intn(11)]
	}
	// numbers at the edges of the number syntax: a leading zero digit, a sign, zero itself
	if g.chance(0.12) {
		switch sc {
		case "i8", "i16", "i32", "i64", "int":
			return []string{"-0", "0", "-1", "-07", "-09", "+3", "007", "-00", "-9", "-8"}[r.Intn(10)]
		case "u8", "u16", "u32", "u64", "uint":
			return []string{"0", "00", "+1", "07", "9"}[r.Intn(5)]
		case "f32", "f64":
			return []string{"-0.25", "-0", "-.5", "+1.5", "-9.5", "-0e1"}[r.Intn(6)]
		case "dur":
			return []string{"-0s", "-0.5h", "+3s", "-9ms"}[r.Intn(4)]
		}
	}
	switch sc {
	case "str", "c1", "c2", "c3":
		return []string{"foo", "bar", "", "a b", "x=y", "k:v", "é", "日本", "-", "\"q\"", "a,b", "x\\", "C:\\dir\\", "\\", "a\\b", "v%d"}[r.Intn(15)]
	case "c0":
		return []string{"foo", "Bar", "", "a b", "!bang", "é"}[r.Intn(6)]
	case "bool":
		return []string{"true", "false", "1", "0", "t", "F", "TRUE", "False"}[r.Intn(8)]
	case "i8":
		return strconv.Itoa(r.Intn(256) - 128)
	case "i16":
		return strconv.Itoa(r.Intn(65536) - 32768)
	case "i32", "i64", "int":
		return strconv.Itoa(r.Intn(2000000) - 1000000)
	case "u8":
		return strconv.Itoa(r.Intn(256))
	case "u16":
		return strconv.Itoa(r.Intn(65536))
	case "u32", "u64", "uint":
		return strconv.Itoa(r.Intn(3000000))
	case "f32", "f64":
		return []string{"1.5", "-2", "0", "1e3", "3.14159", "inf", "-0", "1e-7", ".5", "0x1p-2", "1e39", "-3.5e38", "3.4028235e38", "1e-46", "16777217", "NaN", "1e400", "0.1"}[r.Intn(18)]
	case "dur":
		return []string{"3s", "1h2m", "0", "150ms", "-2m", "1.5h"}[r.Intn(6)]
	}
	return "v"
}

// valueText: a command-line value text for an option of type code `code`.
func (g *gen) valueText(code string, choices []string) string {
	ok := !g.chance(g.p.ValueBad)
	if len(choices) > 0 && ok {
		return choices[g.r.Intn(len(choices))]
	}
	switch code[0] {
	case 'L', 'P':
		return g.scalarText(code[1:], ok)
	case 'M':
		kv := strings.Split(code[1:], ",")
		if g.chance(0.1) {
			return g.scalarText(kv[0], true)
		}
		return g.scalarText(kv[0], true) + ":" + g.scalarText(kv[1], ok)
	case 'F':
		b := strings.TrimSuffix(code[1:], "!")
		if b == "str" && g.chance(0.1) {
			return "!fail"
		}
		return g.scalarText(b, ok)
	}
	return g.scalarText(code, ok)
}

func (g *gen) initValue(code string) string {
	if !g.chance(g.p.InitVals) {
		return ""
	}
	sv := func(sc string) string {
		switch sc {
		case "c0":
			return "s:" + hx([]string{"INIT", "X Y"}[g.r.Intn(2)])
		case "str", "c1", "c2", "c3":
			return "s:" + hx([]string{"init", "x y", "é"}[g.r.Intn(3)])
		case "bool":
			return "b:1"
		case "f32", "f64":
			return "f:4609434218613702656" // 1.5
		case "dur":
			return "i:1500000000"
		}
		if sc[0] == 'u' {
			return "u:" + strconv.Itoa(1+g.r.Intn(100))
		}
		return "i:" + strconv.Itoa(g.r.Intn(100)-30)
	}
	switch code[0] {
	case 'F':
		return ""
	case 'L':
		n := g.r.Intn(3)
		items := make([]string, n)
		for i := range items {
			items[i] = sv(code[1:])
		}
		return "L[" + strings.Join(items, ",")
	case 'P':
		return "P" + sv(code[1:])
	case 'M':
		kv := strings.Split(code[1:], ",")
		n := g.r.Intn(3)
		seen := map[string]bool{}
		var items []string
		for i := 0; i < n; i++ {
			k := sv(kv[0])
			if kv[0] != "str" {
				k = kv[0][:1] + ":" + strconv.Itoa(i+1)
			} else {
				k = "s:" + hx(fmt.Sprintf("k%d", i))
			}
			if seen[k] {
				continue
			}
			seen[k] = true
			items = append(items, k+"="+sv(kv[1]))
		}
		return "M[" + strings.Join(items, ",")
	}
	return "v" + sv(code)
}

// optField generates one option field.
func (g *gen) optField(sc *scope) FieldDesc {
	r := g.r
	code := g.pickType()
	f := FieldDesc{Name: g.fieldName(), Exported: true, Kind: "v", Ty: code}
	var tags []string
	haveLong := g.chance(0.8)
	haveShort := !haveLong || g.chance(0.5)
	if haveLong {
		var l string
		for try := 0; try < 20; try++ {
			l = longPool[r.Intn(len(longPool))]
			if g.chance(0.3) {
				l = genWord(r, 2, 7, g.p.Utf)
			}
			if !sc.longs[l] || g.chance(g.p.BadDecl) {
				break
			}
		}
		sc.longs[l] = true
		tags = append(tags, quoteTag("long", l))
	}
	if haveShort {
		var s rune
		for try := 0; try < 20; try++ {
			s = shortPool[r.Intn(len(shortPool)-3)]
			if g.chance(g.p.Utf) {
				s = shortPool[len(shortPool)-1-r.Intn(3)]
			}
			if !sc.shorts[s] || g.chance(g.p.BadDecl) {
				break
			}
		}
		sc.shorts[s] = true
		sv := string(s)
		if g.chance(g.p.BadDecl) {
			sv += "x"
		}
		tags = append(tags, quoteTag("short", sv))
	}
	if g.chance(0.6) {
		d := genText(r, 6, g.p.Utf)
		// (now and then a description that ends in a backslash: a Windows path given as an example)
		if g.chance(0.08) {
			d += []string{` C:\Tools\`, `\`, ` a\`}[r.Intn(3)]
		}
		tags = append(tags, quoteTag("description", d))
	}
	isBool := code == "bool" || code == "Lbool" || code == "Pbool" || code == "F-" || code == "Fe"
	var choices []string
	if !isBool && code[0] != 'M' && g.chance(g.p.Choices) {
		n := 1 + r.Intn(4)
		for i := 0; i < n; i++ {
			c := g.valueText(code, nil)
			choices = append(choices, c)
			tags = append(tags, quoteTag("choice", c))
		}
	}
	if (!isBool || g.chance(g.p.BadDecl)) && g.chance(g.p.Defaults) {
		n := 1
		if code[0] == 'L' || code[0] == 'M' {
			n += r.Intn(2)
		}
		for i := 0; i < n; i++ {
			tags = append(tags, quoteTag("default", g.valueText(code, choices)))
		}
	}
	if g.chance(g.p.Required) {
		tags = append(tags, quoteTag("required", []string{"true", "yes", "1", "false", "no"}[r.Intn(5)]))
	}
	if !isBool && g.chance(0.12) {
		tags = append(tags, quoteTag("optional", "true"))
		if g.chance(0.7) {
			tags = append(tags, quoteTag("optional-value", g.valueText(code, choices)))
		}
	} else if !isBool && g.chance(0.06) {
		// an optional-value on an option whose argument is NOT optional (no optional tag, or a falsy
		// one): the argument stays mandatory in every spelling
		if g.chance(0.5) {
			tags = append(tags, quoteTag("optional", []string{"false", "no", "0"}[r.Intn(3)]))
		}
		tags = append(tags, quoteTag("optional-value", g.valueText(code, choices)))
	}
	if g.chance(g.p.Env) {
		tags = append(tags, quoteTag("env", []string{"VF_A", "VF_B", "VF_C"}[r.Intn(3)]))
		if g.chance(0.4) {
			tags = append(tags, quoteTag("env-delim", []string{",", ":", "::"}[r.Intn(3)]))
		}
	}
	if g.chance(0.15) {
		tags = append(tags, quoteTag("value-name", []string{"VAL", "N", "FILE", "é"}[r.Intn(4)]))
	}
	if g.chance(0.08) {
		tags = append(tags, quoteTag("hidden", "true"))
	}
	if g.chance(0.05) {
		tags = append(tags, quoteTag("default-mask", []string{"-", "****"}[r.Intn(2)]))
	}
	if (code == "int" || code == "i8" || code == "u16" || code == "Lint") && g.chance(0.2) {
		tags = append(tags, quoteTag("base", []string{"16", "2", "36", "8", "0", "10"}[r.Intn(6)]))
	}
	if g.chance(0.04) {
		tags = append(tags, quoteTag("unquote", "false"))
	}
	if g.chance(0.05) {
		tags = append(tags, quoteTag("ini-name", "ini"+f.Name))
	}
	if g.chance(0.02) {
		tags = append(tags, quoteTag("no-flag", "1"))
	}
	f.Tag = strings.Join(tags, " ")
	if g.chance(g.p.BadDecl/2) && len(f.Tag) > 3 {
		j := r.Intn(len(f.Tag))
		f.Tag = f.Tag[:j] + f.Tag[j+1:]
	}
	f.Init = g.initValue(code)
	switch code {
	case "Fstr!":
		f.Cb = 10
	case "Fint":
		f.Cb = 11
	case "F-":
		f.Cb = 12
	case "Fe":
		f.Cb = 13
		if g.chance(0.35) {
			f.Cb = 14 // a callback without parameters that refuses
		}
	}
	return f
}

func (g *gen) plainField() FieldDesc {
	f := FieldDesc{Name: g.fieldName(), Exported: g.chance(0.7), Kind: "v", Ty: []string{"str", "int", "bool", "Lstr"}[g.r.Intn(4)]}
	if !f.Exported {
		f.Name = "u" + f.Name
	}
	if g.chance(0.3) {
		f.Tag = quoteTag("json", "x")
	}
	f.Init = ""
	f.Plain = true
	return f
}

// plainPtrStruct: a nil pointer to a struct in which nothing is tagged
func (g *gen) plainPtrStruct() FieldDesc {
	sub := &StructDesc{Fields: []FieldDesc{g.plainField()}}
	if g.chance(0.5) {
		sub.Fields = append(sub.Fields, g.plainField())
	}
	return FieldDesc{Name: g.fieldName(), Exported: true, Kind: "p", PtrNil: true, Sub: sub, Plain: true}
}

func (g *gen) positionalStruct() *StructDesc {
	sd := &StructDesc{}
	n := 1 + g.r.Intn(3)
	for i := 0; i < n; i++ {
		code := []string{"str", "str", "int", "f64", "bool", "c0", "u8"}[g.r.Intn(7)]
		if i == n-1 && g.chance(0.4) {
			code = []string{"Lstr", "Lint"}[g.r.Intn(2)]
		}
		f := FieldDesc{Name: g.fieldName(), Exported: true, Kind: "v", Ty: code}
		var tags []string
		if g.chance(0.3) {
			tags = append(tags, quoteTag("positional-arg-name", "ARG"+f.Name))
		}
		if g.chance(0.4) {
			tags = append(tags, quoteTag("description", genText(g.r, 5, g.p.Utf)))
		}
		if g.chance(0.35) {
			tags = append(tags, quoteTag("required", []string{"1", "2", "1-2", "0-1", "yes", "2-3", "0-0", "x"}[g.r.Intn(8)]))
		}
		f.Tag = strings.Join(tags, " ")
		sd.Fields = append(sd.Fields, f)
	}
	return sd
}

// structFor generates the declaration struct of a group or command.
func (g *gen) structFor(sc *scope, depth int, allowCmds bool, cmdDepth int) *StructDesc {
	sd := &StructDesc{}
	n := 1 + g.r.Intn(g.p.MaxFields)
	for i := 0; i < n; i++ {
		switch {
		case g.chance(0.08):
			sd.Fields = append(sd.Fields, g.plainField())
		case g.chance(0.04):
			sd.Fields = append(sd.Fields, g.plainPtrStruct())
		case depth < 2 && g.chance(0.12):
			// nested group (or plain nested struct)
			sub := g.structFor(sc, depth+1, false, cmdDepth)
			f := FieldDesc{Name: g.fieldName(), Exported: true, Kind: []string{"s", "s", "p"}[g.r.Intn(3)], Sub: sub, PtrNil: g.chance(0.5)}
			if f.Kind == "p" && f.PtrNil {
				clearInits(sub)
			}
			if g.chance(0.8) {
				tags := []string{quoteTag("group", "Group "+f.Name)}
				if g.chance(g.p.Namespaces) {
					tags = append(tags, quoteTag("namespace", []string{"ns", "a", "a.b", "é"}[g.r.Intn(4)]))
				}
				if g.chance(0.2) {
					tags = append(tags, quoteTag("env-namespace", []string{"EN", "X"}[g.r.Intn(2)]))
				}
				if g.chance(0.1) {
					tags = append(tags, quoteTag("hidden", "1"))
				}
				if g.chance(0.3) {
					tags = append(tags, quoteTag("description", "long description of "+f.Name))
				}
				f.Tag = strings.Join(tags, " ")
			}
			sd.Fields = append(sd.Fields, f)
		default:
			of := g.optField(sc)
			sd.Fields = append(sd.Fields, of)
			// the program kept the slice it initialised the option with in a field of its own
			if of.Kind == "v" && of.Exported && strings.HasPrefix(of.Ty, "L") && strings.HasPrefix(of.Init, "L[") && len(of.Init) > 2 && g.chance(0.5) {
				sd.Fields = append(sd.Fields, FieldDesc{Name: g.fieldName(), Exported: true, Kind: "v", Ty: of.Ty, Plain: true, AliasOf: of.Name, Init: of.Init})
			}
		}
	}
	if allowCmds && g.chance(g.p.PosArgs) {
		f := FieldDesc{Name: g.fieldName(), Exported: true, Kind: "s", Sub: g.positionalStruct()}
		tags := []string{quoteTag("positional-args", "yes")}
		if g.chance(0.3) {
			tags = append(tags, quoteTag("required", "yes"))
		}
		f.Tag = strings.Join(tags, " ")
		sd.Fields = append(sd.Fields, f)
	}
	if allowCmds && cmdDepth < g.p.MaxCmdDepth && g.chance(0.35) {
		k := 1 + g.r.Intn(g.p.MaxSubs)
		for i := 0; i < k; i++ {
			sub := g.structFor(newScope(), 0, true, cmdDepth+1)
			// (a nil pointer to a command struct is never stored back by the library: DESIGN, D20)
			f := FieldDesc{Name: g.fieldName(), Exported: true, Kind: []string{"s", "p"}[g.r.Intn(2)], Sub: sub}
			tags := []string{quoteTag("command", g.cmdName())}
			if g.chance(0.5) {
				tags = append(tags, quoteTag("description", "does "+f.Name))
			}
			if g.chance(0.3) {
				tags = append(tags, quoteTag("alias", g.cmdName()))
			}
			if g.chance(0.15) {
				tags = append(tags, quoteTag("alias", g.cmdName()))
			}
			if g.chance(0.1) {
				tags = append(tags, quoteTag("hidden", "1"))
			}
			if g.chance(g.p.SubOpt) {
				tags = append(tags, quoteTag("subcommands-optional", "1"))
			}
			if g.chance(0.2) {
				tags = append(tags, quoteTag("long-description", genText(g.r, 10, 0)))
			}
			f.Tag = strings.Join(tags, " ")
			sd.Fields = append(sd.Fields, f)
		}
	}
	return sd
}

// clearInits: a struct behind a nil pointer is allocated by the library, so nothing can have
// been stored in it beforehand (and callbacks cannot have been installed).
func clearInits(sd *StructDesc) {
	for i := range sd.Fields {
		f := &sd.Fields[i]
		f.Init = ""
		f.AliasOf = ""
		if f.Kind == "v" && f.Ty[0] == 'F' {
			f.Ty = "bool"
			f.Cb = 0
		}
		if f.Sub != nil {
			clearInits(f.Sub)
		}
	}
}

var cmdNames = []string{"add", "rm", "remove", "list", "ls", "commit", "co", "status", "push", "pull", "run", "ad", "adds", "é", "日本", "help", "x"}

func (g *gen) cmdName() string {
	if g.chance(0.15) {
		return genWord(g.r, 1, 8, g.p.Utf)
	}
	return cmdNames[g.r.Intn(len(cmdNames))]
}

// genCase builds a random case according to the profile (without operations).
func (g *gen) genCase() *Case {
	r := g.r
	c := &Case{Name: "app", NsDelim: ".", EnvNsDelim: "_"}
	c.Opts = g.p.OptsAlways
	for _, bit := range []flags.Options{flags.HelpFlag, flags.PassDoubleDash, flags.IgnoreUnknown, flags.PrintErrors, flags.PassAfterNonOption} {
		if g.p.OptsMask&bit != 0 && g.chance(0.4) {
			c.Opts |= bit
		}
	}
	if g.chance(0.1) {
		c.NsDelim = []string{"-", "::", ""}[r.Intn(3)]
	}
	if g.chance(0.1) {
		c.EnvNsDelim = []string{"__", "."}[r.Intn(2)]
	}
	if g.p.Handlers && g.chance(0.25) {
		c.Handler = []string{"identity", "dropnext", "prepend", "fail", "swallow"}[r.Intn(5)]
		c.HandlerTok = "HANDLED"
	}
	if g.p.Exec && g.chance(0.3) {
		c.CmdHandler = true
	}
	if g.chance(0.1) {
		c.Usage = "[custom usage]"
	}
	// environment
	for _, k := range []string{"VF_A", "VF_B", "VF_C", "EN_VF_A", "X_VF_B", "EN__VF_A"} {
		if g.chance(0.25) {
			c.Env = append(c.Env, EnvVar{k, []string{"5", "a,b", "", "x:y::z", "true", "7:1"}[r.Intn(6)]})
		}
	}
	// root groups
	root := newScope()
	c.Build = append(c.Build, BuildOp{Kind: "addgroup", Target: 1, Short: "Application Options", Struct: g.structFor(root, 0, true, 0)})
	if g.chance(0.3) {
		sc := root
		if g.chance(0.5) {
			sc = newScope() // a second top-level group is scanned separately: clashes with the first are legal
		}
		c.Build = append(c.Build, BuildOp{Kind: "addgroup", Target: 1, Short: "Extra Options", Long: "more", Struct: g.structFor(sc, 1, false, 0)})
	}
	return c
}

// addProgrammatic appends programmatic commands (executable ones included) under existing
// commands. It needs the uids the real library assigns, so it realises the case so far.
func (g *gen) addProgrammatic(c *Case) {
	if !g.p.Exec {
		return
	}
	r := g.r
	n := r.Intn(3)
	for i := 0; i < n; i++ {
		real, _ := BuildReal(c)
		cmds := real.commandsPreorder()
		parent := cmds[r.Intn(len(cmds))]
		puid := real.uids[parent]
		name := g.cmdName()
		op := BuildOp{Kind: "addcommand", Target: puid, Name: name, Short: "prog " + name, Struct: &StructDesc{}}
		if g.chance(0.7) {
			op.Commander = 1 + r.Intn(3)
			if g.chance(0.2) {
				u := "[exec usage]"
				op.Usage = &u
			}
		} else {
			op.Struct = g.structFor(newScope(), 0, true, 2)
		}
		c.Build = append(c.Build, op)
		real2, outs := BuildReal(c)
		if outs[len(outs)-1] != "R ok" {
			continue
		}
		// the new command is the last child of parent
		subs := real2.byUid[puid].Commands()
		nuid := real2.uids[subs[len(subs)-1]]
		if op.Commander != 0 && g.chance(0.7) {
			c.Build = append(c.Build, BuildOp{Kind: "addgroup", Target: nuid, Short: "Exec Options", Struct: g.structFor(newScope(), 1, false, 2)})
		}
		if g.chance(0.2) {
			c.Build = append(c.Build, BuildOp{Kind: "setcmd", Target: nuid, Attr: "aliases", Vals: []string{"1", hx(g.cmdName())}})
		}
		if g.chance(0.15) {
			c.Build = append(c.Build, BuildOp{Kind: "setcmd", Target: nuid, Attr: "subopt", Vals: []string{"1"}})
		}
		if g.chance(0.1) {
			c.Build = append(c.Build, BuildOp{Kind: "setcmd", Target: nuid, Attr: "hidden", Vals: []string{"1"}})
		}
	}
}

// ---------------------------------------------------------------- argument vectors

type optInfo struct {
	short    rune
	long     string // namespaced
	code     string
	optional bool
	choices  []string
	cmd      *flags.Command
}

func (g *gen) optsOf(real *Real, c *flags.Command) []optInfo {
	var out []optInfo
	for _, grp := range allGroups(c) {
		for _, o := range grp.Options() {
			out = append(out, optInfo{o.ShortName, o.LongNameWithNamespace(), real.optCode(o), o.OptionalArgument, o.Choices, c})
		}
	}
	return out
}

func isBoolCode(code string) bool {
	return code == "bool" || code == "Lbool" || code == "Pbool" || code == "F-" || code == "Fe"
}

// occurrence renders one occurrence of an option in a random admissible-or-not spelling.
func (g *gen) occurrence(o optInfo) []string {
	r := g.r
	if isBoolCode(o.code) {
		if o.short != 0 && (o.long == "" || r.Intn(2) == 0) {
			return []string{"-" + string(o.short)}
		}
		if o.long != "" {
			if g.chance(0.05) {
				return []string{"--" + o.long + "=true"}
			}
			return []string{"--" + o.long}
		}
		return nil
	}
	v := g.valueText(o.code, o.choices)
	if g.chance(0.08) {
		v = strconv.Quote(v)
	}
	if o.optional && g.chance(0.4) {
		if o.short != 0 && r.Intn(2) == 0 {
			return []string{"-" + string(o.short)}
		}
		if o.long != "" {
			return []string{"--" + o.long}
		}
	}
	var forms [][]string
	if o.short != 0 {
		s := string(o.short)
		forms = append(forms, []string{"-" + s + v}, []string{"-" + s + "=" + v}, []string{"-" + s, v})
	}
	if o.long != "" {
		forms = append(forms, []string{"--" + o.long + "=" + v}, []string{"--" + o.long, v})
	}
	if len(forms) == 0 {
		return nil
	}
	return forms[r.Intn(len(forms))]
}

// genArgv produces an argument vector for the realised parser.
func (g *gen) genArgv(real *Real) []string {
	r := g.r
	cur := real.p.Command
	inScope := g.optsOf(real, cur)
	var all []optInfo
	for _, c := range real.commandsPreorder() {
		all = append(all, g.optsOf(real, c)...)
	}
	n := r.Intn(g.p.ArgvLen + 1)
	var argv []string
	for i := 0; i < n; i++ {
		x := r.Float64()
		switch {
		case x < g.p.Weird:
			argv = append(argv, []string{"-", "", "---x", "-=", "--=v", "--", "-\xff", "--\xc3", "-é", "--x=", "-x=", "- ", "--%d"}[r.Intn(13)])
			if g.chance(0.3) {
				argv[len(argv)-1] = genBytes(r, 6)
			}
		case x < g.p.Weird+g.p.Unknown:
			// unknown / near-miss / out-of-scope option
			var flagShorts []rune
			for _, o := range inScope {
				if isBoolCode(o.code) && o.short != 0 && o.short != '-' && o.short != '=' {
					flagShorts = append(flagShorts, o.short)
				}
			}
			if len(flagShorts) > 0 && g.chance(0.3) {
				// a cluster in which a known flag stands next to an unknown one
				f := string(flagShorts[r.Intn(len(flagShorts))])
				argv = append(argv, []string{"-" + f + "Z", "-Z" + f, "-" + f + f + "~q", "-" + f + "Z=1"}[r.Intn(4)])
			} else if len(all) > 0 && g.chance(0.6) {
				o := all[r.Intn(len(all))]
				switch {
				case o.long != "" && g.chance(0.6):
					nm := o.long
					switch r.Intn(4) {
					case 0:
						nm = mutate(r, nm)
					case 1:
						nm = strings.ToUpper(nm)
					case 2:
						if len(nm) > 1 {
							nm = nm[:len(nm)-1]
						}
					}
					tok := "--" + nm
					if g.chance(0.3) {
						tok += "=v"
					}
					argv = append(argv, tok)
				case o.short != 0:
					argv = append(argv, "-"+string(o.short))
				}
			} else {
				argv = append(argv, []string{"--unknown", "-Z", "--no-such=1", "-Zq", "--Verbose", "-~"}[r.Intn(6)])
			}
		case x < g.p.Weird+g.p.Unknown+0.5 && len(inScope) > 0:
			o := inScope[r.Intn(len(inScope))]
			if isBoolCode(o.code) && o.short != 0 && g.chance(0.3) {
				// cluster of flags, optionally ending in an argument-taking option
				cl := "-" + string(o.short)
				k := r.Intn(3)
				var tail []string
				for j := 0; j < k; j++ {
					o2 := inScope[r.Intn(len(inScope))]
					if o2.short == 0 {
						continue
					}
					cl += string(o2.short)
					if !isBoolCode(o2.code) {
						v := g.valueText(o2.code, o2.choices)
						if g.chance(0.5) {
							cl += v
						} else {
							tail = []string{v}
						}
						break
					}
				}
				argv = append(argv, cl)
				argv = append(argv, tail...)
			} else {
				argv = append(argv, g.occurrence(o)...)
			}
		case x < g.p.Weird+g.p.Unknown+0.5+g.p.CmdWord && len(cur.Commands()) > 0:
			subs := cur.Commands()
			s := subs[r.Intn(len(subs))]
			if g.chance(0.2) {
				// a command word that is NOT a child of the current command: sibling, ancestor's child, …
				allc := real.commandsPreorder()
				s = allc[r.Intn(len(allc))]
			}
			name := s.Name
			if len(s.Aliases) > 0 && g.chance(0.4) {
				name = s.Aliases[r.Intn(len(s.Aliases))]
			}
			if g.chance(0.08) {
				name = mutate(r, name)
			}
			argv = append(argv, name)
			if found := cur.Find(name); found != nil {
				cur = found
				inScope = append(inScope, g.optsOf(real, cur)...)
			}
		case x < g.p.Weird+g.p.Unknown+0.55+g.p.CmdWord:
			argv = append(argv, "--")
		default:
			argv = append(argv, []string{"word", "42", "x", "file.txt", "-5", "a b", "é", "1.5", "true"}[r.Intn(9)])
		}
	}
	return argv
}

func describeCase(c *Case) string { return describeOps(c) }

// GenParseCase: a full case with NParses parse operations.
func GenParseCase(r *rand.Rand, p Profile) *Case {
	g := &gen{r: r, p: p}
	c := g.genCase()
	g.addProgrammatic(c)
	real, _ := BuildReal(c)
	if p.WithModel {
		c.Ops = append(c.Ops, Op{Kind: "model"})
	}
	for i := 0; i < p.NParses; i++ {
		c.Ops = append(c.Ops, Op{Kind: "parse", Args: g.genArgv(real)})
	}
	if p.WithHelp {
		c.Ops = append(c.Ops, Op{Kind: "help", Cols: termCols})
	}
	if g.chance(p.Mutate) && !real.dead {
		g.mutateBetweenCalls(c, real)
	}
	c.Description = describeCase(c)
	return c
}

// mutateBetweenCalls: after the operations so far (the parser has been used: whatever it remembers is filled in) the
// program assigns public fields of the model — names, aliases, namespaces, marks, defaults, choices — and calls
// again, with the old and the new spellings on the line.  A parser must answer to what its model says NOW.
func (g *gen) mutateBetweenCalls(c *Case, real *Real) {
	r := g.r
	type oref struct {
		uid, gi, oi int
		o           *flags.Option
	}
	var opts []oref
	var grps [][2]int
	cmds := real.commandsPreorder()
	for _, cmd := range cmds {
		for gi, grp := range allGroups(cmd) {
			if grp.ShortDescription == "Help Options" {
				continue
			}
			grps = append(grps, [2]int{real.uids[cmd], gi})
			for oi, o := range grp.Options() {
				opts = append(opts, oref{real.uids[cmd], gi, oi, o})
			}
		}
	}
	if len(c.Ops) == 0 || c.Ops[len(c.Ops)-1].Kind != "parse" {
		c.Ops = append(c.Ops, Op{Kind: "parse", Args: g.genArgv(real)})
	}
	switch r.Intn(4) {
	case 0:
		c.Ops = append(c.Ops, Op{Kind: "help", Cols: termCols})
	case 1:
		c.Ops = append(c.Ops, Op{Kind: "complete", Args: append(g.genArgv(real), "")})
	}
	var muts []BuildOp
	var extra []string
	for k := 1 + r.Intn(2); k > 0; k-- {
		switch x := r.Intn(10); {
		case x < 3 && len(opts) > 0:
			o := opts[r.Intn(len(opts))]
			if o.o.LongName == "" {
				continue
			}
			nn := []string{"zz-renamed", "zz2", "färg2"}[r.Intn(3)]
			muts = append(muts, BuildOp{Kind: "setopt", Target: o.uid, Gi: o.gi, Oi: o.oi, Attr: "long", Vals: []string{hx(nn)}})
			extra = append(extra, "--"+nn, "--"+o.o.LongNameWithNamespace())
		case x < 4 && len(opts) > 0:
			o := opts[r.Intn(len(opts))]
			nn := []string{"Z", "9", "ж"}[r.Intn(3)]
			muts = append(muts, BuildOp{Kind: "setopt", Target: o.uid, Gi: o.gi, Oi: o.oi, Attr: "short", Vals: []string{hx(nn)}})
			extra = append(extra, "-"+nn)
			if o.o.ShortName != 0 {
				extra = append(extra, "-"+string(o.o.ShortName))
			}
		case x < 6 && len(cmds) > 1:
			cmd := cmds[1+r.Intn(len(cmds)-1)]
			// (the harness' executable commands report the name they were created under: those keep theirs)
			isExec := false
			for _, ec := range real.execs {
				if ec.uid == real.uids[cmd] {
					isExec = true
				}
			}
			if r.Intn(2) == 0 && !isExec {
				muts = append(muts, BuildOp{Kind: "setcmd", Target: real.uids[cmd], Attr: "name", Vals: []string{hx("zzcmd")}})
				extra = append(extra, "zzcmd", cmd.Name)
			} else {
				muts = append(muts, BuildOp{Kind: "setcmd", Target: real.uids[cmd], Attr: "aliases", Vals: []string{"1", hx("zzalias")}})
				extra = append(extra, "zzalias")
				extra = append(extra, cmd.Aliases...)
			}
		case x < 7 && len(grps) > 0:
			gr := grps[r.Intn(len(grps))]
			switch r.Intn(3) {
			case 0:
				muts = append(muts, BuildOp{Kind: "setgrp", Target: gr[0], Gi: gr[1], Attr: "ns", Vals: []string{hx("zzns")}})
			case 1:
				// (the environment of the generated cases holds EN_VF_A, X_VF_B, EN__VF_A)
				muts = append(muts, BuildOp{Kind: "setgrp", Target: gr[0], Gi: gr[1], Attr: "envns", Vals: []string{hx([]string{"EN", "X", "EN_"}[r.Intn(3)])}})
			case 2:
				muts = append(muts, BuildOp{Kind: "setgrp", Target: gr[0], Gi: gr[1], Attr: "hidden", Vals: []string{[]string{"0", "1"}[r.Intn(2)]}})
			}
		case x < 8 && len(opts) > 0:
			o := opts[r.Intn(len(opts))]
			muts = append(muts, BuildOp{Kind: "setopt", Target: o.uid, Gi: o.gi, Oi: o.oi, Attr: "default", Vals: []string{hx([]string{"7", "x1", "zz"}[r.Intn(3)])}})
		case x < 9 && len(opts) > 0:
			o := opts[r.Intn(len(opts))]
			muts = append(muts, BuildOp{Kind: "setopt", Target: o.uid, Gi: o.gi, Oi: o.oi, Attr: "required", Vals: []string{hx([]string{"0", "1"}[r.Intn(2)])}})
		default:
			if len(cmds) > 1 {
				cmd := cmds[1+r.Intn(len(cmds)-1)]
				muts = append(muts, BuildOp{Kind: "setcmd", Target: real.uids[cmd], Attr: "hidden", Vals: []string{[]string{"0", "1"}[r.Intn(2)]}})
			}
		}
	}
	if len(muts) == 0 {
		return
	}
	for i := range muts {
		m := muts[i]
		c.Ops = append(c.Ops, Op{Kind: "build", B: &m})
	}
	argv := g.genArgv(real)
	for _, e := range extra {
		if e == "" || r.Intn(3) == 0 {
			continue
		}
		at := r.Intn(len(argv) + 1)
		if strings.HasPrefix(e, "--") && r.Intn(2) == 0 {
			e += "=1"
		}
		argv = append(argv[:at:at], append([]string{e}, argv[at:]...)...)
	}
	// what is asked of the parser after the assignments: a call — or a completion, the help, the man page
	switch r.Intn(8) {
	case 0:
		c.Ops = append(c.Ops, Op{Kind: "help", Cols: termCols})
	case 1:
		comp := append(append([]string{}, argv...), []string{"-", "--", "", "z"}[r.Intn(4)])
		c.Ops = append(c.Ops, Op{Kind: "complete", Args: comp})
	case 2:
		c.Ops = append(c.Ops, Op{Kind: "man"})
	default:
		c.Ops = append(c.Ops, Op{Kind: "parse", Args: argv})
		if r.Intn(4) == 0 {
			c.Ops = append(c.Ops, Op{Kind: "help", Cols: termCols})
		}
	}
}
