package main

// C01, denotation stage: command lines made only of occurrences of declared options (every
// documented spelling, clusters, any order, any number of times, after command words), whose
// meaning is computed here independently of the library and of the model: a scalar holds its last
// occurrence's value, a slice one element per occurrence in order, a map the last value per key, a
// flag is true iff it occurred, options that do not occur keep what they held, untagged fields are
// never touched.

import (
	"fmt"
	"reflect"
	"sort"
	"strconv"
	"strings"

	flags "github.com/jessevdk/go-flags"
)

type denOpt struct {
	o     *flags.Option
	code  string
	base  int // the declared base of an integer option (10 when none is declared)
	field string
	occ   []string // argument texts in command-line order ("" for a bare flag)
}

func c01Value(c *Ctx, code string, base int) string {
	r := c.Rng
	switch code {
	case "int", "Lint", "Fint":
		if base == 0 {
			// the base is read off the text: leading 0, 0x, 0b, 0o, digit separators
			return []string{"010", "0x1f", "0b101", "-0o17", "1_000", "7", "-0x10", "0", "0X1F", "0_7"}[r.Intn(10)]
		}
		if base != 10 {
			return strconv.FormatInt(int64(r.Intn(2000)-1000), base)
		}
		return strconv.Itoa(r.Intn(2000) - 1000)
	case "i8":
		// a sized integer: values up to its limits, and (a fifth of the time) beyond them
		return []string{"0", "7", "127", "-128", "-1", "100", "-100", "42", "128", "300", "-129", "1000"}[r.Intn(12)]
	case "u16":
		return []string{"0", "7", "65535", "65534", "1", "40000", "256", "42", "65536", "70000", "100000", "4294967296"}[r.Intn(12)]
	case "Fstr!":
		return []string{"v", "two words", "é", "a=b", "x:y", "q\"uote", " lead"}[r.Intn(7)]
	case "Mstr,str":
		return []string{"k", "a b", "é", "key=1"}[r.Intn(4)] + ":" + []string{"v", "x:y", "", "a=b", "日本 語", "-"}[r.Intn(6)]
	}
	return []string{"v", "two words", "é", "a=b", "x:y", "--looks-like-option", "-5", "=", "tab\there", "q\"uote", "\\back", "%d", " lead"}[r.Intn(13)]
}

// denoteExpected: the Go value the field must hold after the occurrences
func denoteExpected(code string, occ []string, base int) interface{} {
	switch code {
	case "str":
		return occ[len(occ)-1]
	case "int":
		v, _ := strconv.ParseInt(occ[len(occ)-1], base, 64)
		return int(v)
	case "i8":
		v, _ := strconv.ParseInt(occ[len(occ)-1], base, 8)
		return int8(v)
	case "u16":
		v, _ := strconv.ParseUint(occ[len(occ)-1], base, 16)
		return uint16(v)
	case "bool":
		return true
	case "Lstr":
		return append([]string{}, occ...)
	case "Lint":
		out := make([]int, len(occ))
		for i, s := range occ {
			v, _ := strconv.ParseInt(s, base, 64)
			out[i] = int(v)
		}
		return out
	case "Mstr,str":
		m := map[string]string{}
		for _, s := range occ {
			i := strings.IndexByte(s, ':')
			m[s[:i]] = s[i+1:]
		}
		return m
	}
	return nil
}

func checkC01Denote(c *Ctx, n int) { denoteRun(c, n, false) }

// checkC08Scope: the same construction, on the spellings that several commands of the chain declare
// (the innermost declaration must win) and on options of commands outside the chain (unknown).
func checkC08Scope(c *Ctx, n int) { denoteRun(c, n, true) }

func denoteRun(c *Ctx, n int, scope bool) {
	p := defaultProfile
	p.BadDecl, p.Required, p.Choices, p.Defaults, p.Env, p.InitVals, p.PosArgs = 0, 0, 0, 0, 0, 0, 0
	p.Exec, p.Handlers = false, false
	p.SubOpt = 1
	p.MaxCmdDepth = 2
	p.Utf = 0.3
	p.OnlyTypes = []string{"str", "str", "int", "bool", "bool", "Lstr", "Lint", "Mstr,str", "Fint", "Fstr!", "i8", "u16"}
	p.OptsMask = flags.PassDoubleDash | flags.PrintErrors
	prop := "C01"
	if scope {
		prop = "C08"
		p.MaxCmdDepth = 3
		p.MaxFields = 6
	}
	r := c.Rng
	for i := 0; i < n; i++ {
		g := &gen{r: r, p: p}
		cs := g.genCase()
		cs.Env = nil
		nilCmd := ""
		expectUnknown := ""
		outOfRange := "" // a sized integer option was given a number its type cannot hold: the line ends there, the parse must fail
		// callbacks with a default: it is delivered once when the option does not occur, never when it does
		cbDefault := map[string]string{}
		var addDefaults func(sd *StructDesc)
		addDefaults = func(sd *StructDesc) {
			for fi := range sd.Fields {
				f := &sd.Fields[fi]
				if f.Kind == "v" && (f.Ty == "Fint" || f.Ty == "Fstr!") && g.chance(0.5) && !scope {
					dv := map[string]string{"Fint": "42", "Fstr!": "dflt"}[f.Ty]
					f.Tag += " " + quoteTag("default", dv)
					cbDefault[f.Name] = dv
				} else if f.Kind == "v" && (f.Ty == "int" || f.Ty == "Lint") && !strings.Contains(f.Tag, "base:") && g.chance(0.3) && f.Tag != "" {
					// integer options in a declared base (0: the base is read off the text)
					f.Tag += " " + quoteTag("base", []string{"0", "0", "16", "2", "36", "8"}[g.r.Intn(6)])
				} else if f.Sub != nil {
					addDefaults(f.Sub)
				}
			}
		}
		for bi := range cs.Build {
			if cs.Build[bi].Struct != nil {
				addDefaults(cs.Build[bi].Struct)
			}
		}
		if !scope && g.chance(0.06) && cs.Build[0].Struct != nil {
			// a command declared through a nil pointer field (D20)
			for fi := range cs.Build[0].Struct.Fields {
				f := &cs.Build[0].Struct.Fields[fi]
				if f.Kind == "p" && strings.Contains(f.Tag, `command:"`) {
					f.PtrNil = true
					clearInits(f.Sub)
					nilCmd = f.Name
					break
				}
			}
		}
		real, _ := BuildReal(cs)
		if real.dead {
			continue
		}
		// walk a random command path; occurrences are drawn from the options in scope at each point
		// whose spelling is unambiguous there
		den := map[*flags.Option]*denOpt{}
		var argv []string
		chain := []*flags.Command{real.p.Command}
		for {
			type cand struct {
				o        *flags.Option
				spelling string // "--long" or "-x"
			}
			count := map[string]int{}
			holder := map[string]*flags.Option{} // the innermost command's option of that spelling
			ambiguous := map[string]bool{}       // one command declares the spelling twice
			var cands []cand
			for _, cmd := range chain {
				here := map[string]int{}
				for _, grp := range allGroups(cmd) {
					for _, o := range grp.Options() {
						if o.Field().Name == "ShowHelp" {
							continue
						}
						if ln := o.LongNameWithNamespace(); ln != "" && !strings.ContainsAny(ln, "=") && !strings.HasPrefix(ln, "-") {
							count["--"+ln]++
							here["--"+ln]++
							holder["--"+ln] = o
							cands = append(cands, cand{o, "--" + ln})
						}
						if o.ShortName != 0 && o.ShortName != '-' && o.ShortName != '=' {
							count["-"+string(o.ShortName)]++
							here["-"+string(o.ShortName)]++
							holder["-"+string(o.ShortName)] = o
							cands = append(cands, cand{o, "-" + string(o.ShortName)})
						}
					}
				}
				for sp, k := range here {
					if k > 1 {
						ambiguous[sp] = true
					}
				}
			}
			k := r.Intn(5)
			for j := 0; j < k && len(cands) > 0; j++ {
				cd := cands[r.Intn(len(cands))]
				if scope {
					// the innermost declaration of the spelling is the one the occurrence must reach
					if ambiguous[cd.spelling] || (count[cd.spelling] == 1 && r.Intn(3) != 0) {
						continue
					}
					cd.o = holder[cd.spelling]
				} else if count[cd.spelling] != 1 {
					continue
				}
				code := real.optCode(cd.o)
				if strings.Contains(string(cd.o.Field().Tag), "unquote:") {
					continue
				}
				// an option whose argument is optional takes it in the attached spellings only; an
				// attached EMPTY argument is an argument (the value ""), not the absence of one
				optionalArg := cd.o.OptionalArgument
				if optionalArg && code != "str" && code != "Lstr" && code != "Fstr!" {
					continue
				}
				base := 10
				if bt := reflect.StructTag(cd.o.Field().Tag).Get("base"); bt != "" {
					if code != "int" && code != "Lint" {
						continue
					}
					b, err := strconv.Atoi(bt)
					if err != nil {
						continue
					}
					base = b
				}
				d := den[cd.o]
				if d == nil {
					d = &denOpt{o: cd.o, code: code, base: base, field: cd.o.Field().Name}
					den[cd.o] = d
				}
				if code == "bool" {
					// a bare flag, or a cluster of flags
					if !strings.HasPrefix(cd.spelling, "--") && r.Intn(3) == 0 {
						cl := cd.spelling
						d.occ = append(d.occ, "")
						for _, c2 := range cands {
							if c2.o != cd.o && !strings.HasPrefix(c2.spelling, "--") && count[c2.spelling] == 1 && real.optCode(c2.o) == "bool" && r.Intn(2) == 0 {
								cl += c2.spelling[1:]
								d2 := den[c2.o]
								if d2 == nil {
									d2 = &denOpt{o: c2.o, code: "bool", field: c2.o.Field().Name}
									den[c2.o] = d2
								}
								d2.occ = append(d2.occ, "")
							}
						}
						argv = append(argv, cl)
					} else {
						argv = append(argv, cd.spelling)
						d.occ = append(d.occ, "")
					}
					continue
				}
				v := c01Value(c, code, base)
				long := strings.HasPrefix(cd.spelling, "--")
				form := r.Intn(3)
				if optionalArg {
					if r.Intn(2) == 0 {
						v = ""
					}
					if form == 0 {
						form = 2
					}
				}
				separateOK := !(strings.HasPrefix(v, "-") && len(v) > 1) || ((code == "int" || code == "Lint") && v[1] >= '0' && v[1] <= '9')
				switch {
				case form == 0 && separateOK:
					argv = append(argv, cd.spelling, v)
				case form == 1 && !long && !strings.HasPrefix(v, "=") && v != "":
					argv = append(argv, cd.spelling+v) // -xV
				default:
					argv = append(argv, cd.spelling+"="+v)
				}
				d.occ = append(d.occ, v)
				switch code {
				case "i8":
					if _, err := strconv.ParseInt(v, 10, 8); err != nil {
						outOfRange = cd.o.String() + " given " + v
					}
				case "u16":
					if _, err := strconv.ParseUint(v, 10, 16); err != nil {
						outOfRange = cd.o.String() + " given " + v
					}
				}
				if outOfRange != "" {
					break
				}
			}
			if outOfRange != "" {
				break
			}
			subs := chain[len(chain)-1].Commands()
			if len(subs) == 0 || r.Intn(3) == 0 {
				break
			}
			s := subs[r.Intn(len(subs))]
			// (a command may carry another command's name as an alias, which then wins: DESIGN §6)
			// (declarations may repeat a command name, or give it to another command as an alias; the
			// word is then ambiguous and which command the table keeps is not part of the public model)
			matches := 0
			for _, x := range subs {
				if x.Name == s.Name {
					matches++
				}
				for _, a := range x.Aliases {
					if a == s.Name {
						matches++
					}
				}
			}
			if matches != 1 || strings.HasPrefix(s.Name, "-") {
				break
			}
			argv = append(argv, s.Name)
			chain = append(chain, s)
		}
		if scope && r.Intn(4) == 0 {
			// an option of a command that is not on the path, under a spelling nothing on the path declares
			inChain := map[*flags.Command]bool{}
			for _, cmd := range chain {
				inChain[cmd] = true
			}
			declared := map[string]bool{}
			for _, cmd := range chain {
				for _, grp := range allGroups(cmd) {
					for _, o := range grp.Options() {
						declared["--"+o.LongNameWithNamespace()] = true
						declared["-"+string(o.ShortName)] = true
					}
				}
			}
			for _, cmd := range real.commandsPreorder() {
				if inChain[cmd] || expectUnknown != "" {
					continue
				}
				for _, grp := range allGroups(cmd) {
					for _, o := range grp.Options() {
						ln := o.LongNameWithNamespace()
						if expectUnknown == "" && ln != "" && !declared["--"+ln] && !strings.ContainsAny(ln, "=%") && !strings.HasPrefix(ln, "-") && o.Field().Name != "ShowHelp" {
							expectUnknown = ln
							argv = append(argv, "--"+ln+"=v")
						}
					}
				}
			}
		}
		skip := false
		for _, a := range argv {
			if strings.Contains(a, "%") {
				// (kept: values are not passed through format strings on success)
				_ = a
			}
		}
		if outOfRange != "" {
			expectUnknown = "" // (the line fails at the number, in front of anything appended behind it)
		}
		if skip || (len(den) == 0 && expectUnknown == "") {
			continue
		}
		cs.Ops = []Op{{Kind: "parse", Args: argv}}
		cs.Description = describeOps(cs)
		c.RunCases([]*Case{cs}, func(cr *CaseResult) {
			c.classifyCase(cr)
			if cr.Real == nil || cr.Real.dead {
				return
			}
			var obs parseObs
			for _, o := range parseBlocks(cr) {
				obs = o
			}
			if expectUnknown != "" && obs.panic == "" {
				c.Class("c08/scope: option of a command outside the path")
				want := "unknown flag `" + expectUnknown + "'"
				// (the message is masked when a token of the line contains '%')
				ok := obs.errKind == "flags" && obs.errType == int(flags.ErrUnknownFlag) && (obs.masked || obs.errMsg == want)
				in := map[string]interface{}{"case": cs.Description, "argv": argv, "out_of_scope_option": "--" + expectUnknown}
				if !ok {
					in["case_file"] = c.saveCase(cr)
				}
				c.Check("option-of-a-command-outside-the-path-is-unknown", ok, "C08:out-of-scope-accepted", in,
					fmt.Sprintf("%s type %d %q", obs.errKind, obs.errType, obs.errMsg), "ErrUnknownFlag: "+want)
				return
			}
			if outOfRange != "" && obs.panic == "" {
				c.Class("c01/denote: a number beyond the limits of a sized integer type")
				ok := obs.errKind == "flags" && obs.errType == int(flags.ErrMarshal)
				in := map[string]interface{}{"case": cs.Description, "argv": argv, "out_of_range": outOfRange}
				if !ok {
					in["case_file"] = c.saveCase(cr)
				}
				c.Check("a-number-the-type-cannot-hold-is-rejected-not-stored-modulo", ok, "C01:denotation", in,
					fmt.Sprintf("%s type %d %q", obs.errKind, obs.errType, obs.errMsg), "ErrMarshal")
				return
			}
			if obs.panic != "" || obs.errKind != "ok" {
				c.Class(strings.ToLower(prop) + "/denote: parse did not succeed (not judged)")
				return
			}
			c.Class(strings.ToLower(prop) + "/denote: judged")
			if nilCmd != "" {
				c.Class("c01/denote: a command declared through a nil pointer field")
			}
			// the caller's struct after the parse (following the pointers that are set now)
			cr.Real.register()
			// the options of the parser that ran this case, by field name
			byField := map[string]*flags.Option{}
			for _, cmd := range cr.Real.commandsPreorder() {
				for _, grp := range allGroups(cmd) {
					for _, o := range grp.Options() {
						byField[o.Field().Name] = o
					}
				}
			}
			names := make([]string, 0, len(den))
			byName := map[string]*denOpt{}
			for _, d := range den {
				names = append(names, d.field)
				byName[d.field] = d
			}
			sort.Strings(names)
			for _, fn := range names {
				d := byName[fn]
				o := byField[fn]
				if o == nil {
					continue
				}
				if d.code[0] == 'F' {
					continue // (callbacks: judged by their runs, below)
				}
				want := denoteExpected(d.code, d.occ, d.base)
				in := map[string]interface{}{"case": cs.Description, "argv": argv, "option": o.String(), "field": fn, "type": d.code, "occurrences": d.occ}
				// the value is read from the caller's struct, not through the parser
				fr, reachable := cr.Real.fields[fn]
				if !reachable || !fr.val.IsValid() {
					in["case_file"] = c.saveCase(cr)
					key := "C01:field-unreachable"
					if nilCmd != "" {
						key = "C01:nil-command-pointer-not-stored-back"
						in["nil_command_field"] = nilCmd
					}
					c.Check("field-holds-what-the-command-line-denotes", false, key, in,
						fmt.Sprintf("the field is not reachable from the caller's struct (the parser itself reports %#v)", o.Value()), fmt.Sprintf("%#v", want))
					continue
				}
				got := fr.val.Interface()
				ok := reflect.DeepEqual(got, want)
				if !ok {
					in["case_file"] = c.saveCase(cr)
				}
				c.Check("field-holds-what-the-command-line-denotes", ok, prop+":denotation", in, fmt.Sprintf("%#v", got), fmt.Sprintf("%#v", want))
			}
			// callbacks: one run per occurrence, in order, with the converted argument; a default only
			// when the option did not occur
			ran := map[string][]string{}
			for _, l := range obs.logs {
				if strings.HasPrefix(l, "LOG cb ") {
					ws := strings.Fields(l)
					ran[ws[2]] = append(ran[ws[2]], ws[3]) // by option reference
				}
			}
			for fn, o := range byField {
				code := cr.Real.optCode(o)
				if code != "Fint" && code != "Fstr!" {
					continue
				}
				texts := []string{}
				if d := byName[fn]; d != nil {
					texts = d.occ
				} else if dv, ok := cbDefault[fn]; ok {
					texts = []string{dv}
				}
				var want []string
				for _, t := range texts {
					if code == "Fint" {
						v, _ := strconv.Atoi(t)
						want = append(want, "i:"+strconv.Itoa(v))
					} else {
						want = append(want, "s:"+hx(t))
					}
				}
				got := ran[cr.Real.optRef[fn]]
				ok := fmt.Sprint(got) == fmt.Sprint(want)
				in := map[string]interface{}{"case": cs.Description, "argv": argv, "option": o.String(), "field": fn, "type": code, "occurrences": texts, "default": cbDefault[fn]}
				if !ok {
					in["case_file"] = c.saveCase(cr)
				}
				c.Check("callback-runs-once-per-occurrence-in-order", ok, prop+":callback", in, decodeLine(strings.Join(got, " ")), decodeLine(strings.Join(want, " ")))
			}
			// options that did not occur hold their zero value (nothing was stored, no defaults declared)
			for fn, o := range byField {
				if byName[fn] != nil || fn == "ShowHelp" {
					continue
				}
				v := reflect.ValueOf(o.Value())
				if !v.IsValid() || v.Kind() == reflect.Func {
					continue
				}
				zero := v.IsZero() || ((v.Kind() == reflect.Slice || v.Kind() == reflect.Map) && v.Len() == 0)
				if !zero {
					c.Check("option-not-named-is-untouched", false, prop+":untouched", map[string]interface{}{"case": cs.Description, "argv": argv, "option": o.String(), "field": fn, "case_file": c.saveCase(cr)}, fmt.Sprintf("%#v", o.Value()), "zero value")
				} else {
					c.Check("option-not-named-is-untouched", true, "", nil, "", "")
				}
			}
		})
	}
}
