package main

// Predeclared types and callback behaviours used in generated declarations. Their semantics
// are mirrored exactly in the Lean model (GoFlags/Value.lean, GoFlags/Parse.lean).

import (
	"errors"
	"fmt"
	"math"
	"reflect"
	"sort"
	"strconv"
	"strings"
	"time"

	flags "github.com/jessevdk/go-flags"
)

// Upper: Unmarshaler + Marshaler (custom 0).
type Upper string

func asciiUpper(s string) string {
	b := []byte(s)
	for i, c := range b {
		if c >= 'a' && c <= 'z' {
			b[i] = c - 0x20
		}
	}
	return string(b)
}

func (u *Upper) UnmarshalFlag(v string) error {
	if strings.HasPrefix(v, "!") {
		return errors.New("bang: " + v)
	}
	*u = Upper(asciiUpper(v))
	return nil
}

// MarshalFlag lower-cases, so that marshalling is visible in the output and UnmarshalFlag
// still reads it back to the same value.
func (u Upper) MarshalFlag() (string, error) {
	b := []byte(u)
	for i, c := range b {
		if c >= 'A' && c <= 'Z' {
			b[i] = c + 0x20
		}
	}
	return string(b), nil
}

// Vstr: ValueValidator (custom 1).
type Vstr string

func (v *Vstr) IsValidValue(s string) error {
	if strings.HasPrefix(s, "~") {
		return errors.New("vstr: bad value " + s)
	}
	return nil
}

func asciiLower(s string) string {
	b := []byte(s)
	for i, c := range b {
		if c >= 'A' && c <= 'Z' {
			b[i] = c + 0x20
		}
	}
	return string(b)
}

// Color: Completer (custom 2).  What was typed is matched without regard to (ASCII) letter case, so
// an offered item need not be a literal extension of the typed word.
type Color string

func (c *Color) Complete(match string) []flags.Completion {
	var out []flags.Completion
	for _, n := range []string{"red", "green", "blue", "grey"} {
		if strings.HasPrefix(n, asciiLower(match)) {
			out = append(out, flags.Completion{Item: n})
		}
	}
	return out
}

// runLog collects the observable side effects of one operation.
type runLog struct {
	lines []string
}

func (l *runLog) add(s string) { l.lines = append(l.lines, s) }

// execCmd: a Commander (and optionally Usage) with scripted behaviour.
type execCmd struct {
	uid  int
	kind int
	name string
	log  *runLog
}

func (e *execCmd) Execute(args []string) error {
	e.log.add(fmt.Sprintf("LOG exec %d %s", e.uid, hxList(args)))
	switch e.kind {
	case 2:
		return errors.New("exec failed: " + e.name)
	case 3:
		return &flags.Error{Type: flags.ErrHelp, Message: "help from " + e.name}
	}
	return nil
}

type execUsageCmd struct {
	execCmd
	usage string
}

func (e *execUsageCmd) Usage() string { return e.usage }

// ---- scalar type codes

type scType struct {
	code string
	typ  reflect.Type
	show func(v reflect.Value) string
	zero string
}

func showStr(v reflect.Value) string  { return "s:" + hx(v.String()) }
func showBool(v reflect.Value) string { return "b:" + b01(v.Bool()) }
func showInt(v reflect.Value) string  { return "i:" + strconv.FormatInt(v.Int(), 10) }
func showUint(v reflect.Value) string { return "u:" + strconv.FormatUint(v.Uint(), 10) }
func showFloat(v reflect.Value) string {
	return "f:" + strconv.FormatUint(math.Float64bits(v.Float()), 10)
}

var scTypes = map[string]scType{}

func regSc(code string, sample interface{}, show func(reflect.Value) string, zero string) {
	scTypes[code] = scType{code, reflect.TypeOf(sample), show, zero}
}

func init() {
	regSc("str", "", showStr, "s:x")
	regSc("bool", false, showBool, "b:0")
	regSc("i8", int8(0), showInt, "i:0")
	regSc("i16", int16(0), showInt, "i:0")
	regSc("i32", int32(0), showInt, "i:0")
	regSc("i64", int64(0), showInt, "i:0")
	regSc("int", int(0), showInt, "i:0")
	regSc("u8", uint8(0), showUint, "u:0")
	regSc("u16", uint16(0), showUint, "u:0")
	regSc("u32", uint32(0), showUint, "u:0")
	regSc("u64", uint64(0), showUint, "u:0")
	regSc("uint", uint(0), showUint, "u:0")
	regSc("f32", float32(0), showFloat, "f:0")
	regSc("f64", float64(0), showFloat, "f:0")
	regSc("dur", time.Duration(0), showInt, "i:0")
	regSc("c0", Upper(""), showStr, "s:x")
	regSc("c1", Vstr(""), showStr, "s:x")
	regSc("c2", Color(""), showStr, "s:x")
	regSc("c3", flags.Filename(""), showStr, "s:x")
}

var errType = reflect.TypeOf((*error)(nil)).Elem()

// goType maps a type code (model syntax) to a reflect.Type.
func goType(code string) reflect.Type {
	switch code[0] {
	case 'L':
		return reflect.SliceOf(scTypes[code[1:]].typ)
	case 'P':
		return reflect.PtrTo(scTypes[code[1:]].typ)
	case 'M':
		kv := strings.Split(code[1:], ",")
		return reflect.MapOf(scTypes[kv[0]].typ, scTypes[kv[1]].typ)
	case 'F':
		body := code[1:]
		var in []reflect.Type
		var out []reflect.Type
		if body == "-" {
		} else if body == "e" {
			out = []reflect.Type{errType}
		} else if strings.HasSuffix(body, "!") {
			in = []reflect.Type{scTypes[body[:len(body)-1]].typ}
			out = []reflect.Type{errType}
		} else {
			in = []reflect.Type{scTypes[body].typ}
		}
		return reflect.FuncOf(in, out, false)
	}
	return scTypes[code].typ
}

func scCode(code string) string {
	switch code[0] {
	case 'L', 'P':
		return code[1:]
	case 'M':
		return strings.Split(code[1:], ",")[1]
	case 'F':
		b := strings.TrimSuffix(code[1:], "!")
		if b == "-" || b == "e" {
			return "bool"
		}
		return b
	}
	return code
}

// showVal renders a field value in the model's value syntax.
func showVal(code string, v reflect.Value) string {
	switch code[0] {
	case 'F':
		return "F"
	case 'L':
		if v.IsNil() {
			return "Lnil"
		}
		sc := scTypes[code[1:]]
		items := make([]string, v.Len())
		for i := range items {
			items[i] = sc.show(v.Index(i))
		}
		return "L[" + strings.Join(items, ",")
	case 'P':
		if v.IsNil() {
			return "Pnil"
		}
		return "P" + scTypes[code[1:]].show(v.Elem())
	case 'M':
		if v.IsNil() {
			return "Mnil"
		}
		kv := strings.Split(code[1:], ",")
		ks, vs := scTypes[kv[0]], scTypes[kv[1]]
		var items []string
		for _, k := range v.MapKeys() {
			items = append(items, ks.show(k)+"="+vs.show(v.MapIndex(k)))
		}
		sort.Strings(items)
		return "M[" + strings.Join(items, ",")
	}
	return "v" + scTypes[code].show(v)
}

// parseScalar sets v from scalar syntax (s:x.., b:1, i:5, u:5, f:bits).
func setScalar(v reflect.Value, text string) {
	parts := strings.SplitN(text, ":", 2)
	switch parts[0] {
	case "s":
		s, _ := unhx(parts[1])
		v.SetString(s)
	case "b":
		v.SetBool(parts[1] == "1")
	case "i":
		n, _ := strconv.ParseInt(parts[1], 10, 64)
		v.SetInt(n)
	case "u":
		n, _ := strconv.ParseUint(parts[1], 10, 64)
		v.SetUint(n)
	case "f":
		n, _ := strconv.ParseUint(parts[1], 10, 64)
		v.SetFloat(math.Float64frombits(n))
	}
}

// setVal stores an initial value given in the model's value syntax.
func setVal(code string, v reflect.Value, text string) {
	switch {
	case text == "F", text == "Lnil", text == "Pnil", text == "Mnil":
		return
	case text[0] == 'v':
		setScalar(v, text[1:])
	case text[0] == 'P':
		p := reflect.New(v.Type().Elem())
		setScalar(p.Elem(), text[1:])
		v.Set(p)
	case strings.HasPrefix(text, "L["):
		sl := reflect.MakeSlice(v.Type(), 0, 4)
		if body := text[2:]; body != "" {
			for _, it := range strings.Split(body, ",") {
				e := reflect.New(v.Type().Elem()).Elem()
				setScalar(e, it)
				sl = reflect.Append(sl, e)
			}
		}
		v.Set(sl)
	case strings.HasPrefix(text, "M["):
		m := reflect.MakeMap(v.Type())
		if body := text[2:]; body != "" {
			for _, it := range strings.Split(body, ",") {
				kv := strings.SplitN(it, "=", 2)
				k := reflect.New(v.Type().Key()).Elem()
				e := reflect.New(v.Type().Elem()).Elem()
				setScalar(k, kv[0])
				setScalar(e, kv[1])
				m.SetMapIndex(k, e)
			}
		}
		v.Set(m)
	}
}
