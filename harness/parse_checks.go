package main

import (
	"fmt"
	"reflect"
	"strings"
)

// runParseCases: generate cases with a profile, run, compare; `after` adds property oracles.
func runParseCases(c *Ctx, n int, p Profile, after func(cr *CaseResult)) {
	batch := 40
	for done := 0; done < n; done += batch {
		k := batch
		if n-done < k {
			k = n - done
		}
		cases := make([]*Case, 0, k)
		for i := 0; i < k; i++ {
			cases = append(cases, GenParseCase(c.Rng, p))
		}
		c.RunCases(cases, func(cr *CaseResult) {
			c.classifyCase(cr)
			if after != nil {
				after(cr)
			}
		})
		if len(c.R.Disagreements) >= c.maxKeep {
			return
		}
	}
}

// classifyCase records distribution labels and distinctness for the evidence.
func (c *Ctx) classifyCase(cr *CaseResult) {
	for _, l := range cr.Impl {
		if strings.HasPrefix(l, "RET ") {
			ws := strings.Fields(l)
			label := "parse/" + ws[1]
			if ws[1] == "flags" {
				label += "/" + ws[2]
			}
			c.Class(label)
		} else if strings.HasPrefix(l, "PANIC") {
			c.Class("parse/PANIC")
		} else if strings.HasPrefix(l, "R flags") {
			c.Class("build/error")
		}
	}
	c.Distinct(strings.Join(cr.Lines, "\n"))
	if len(c.R.Samples) < 4 {
		c.Sample(map[string]interface{}{"case": cr.Case.Description, "impl_observations": decodeAll(cr.Impl, 12)})
	}
}

func decodeAll(ls []string, max int) []string {
	var out []string
	for i, l := range ls {
		if i >= max {
			out = append(out, fmt.Sprintf("… %d more lines", len(ls)-max))
			break
		}
		out = append(out, decodeLine(l))
	}
	return out
}

// ---------------------------------------------------------------- sound, model-free oracles on parse observations

type parseObs struct {
	argv    []string
	ret     []string
	errKind string // ok | flags | foreign | ini
	errType int
	errMsg  string
	masked  bool
	panic   string
	logs    []string
	stdout  string
	stderr  string
	hasOut  bool
	values  []string // O lines
	act     string
}

// parseBlocks splits the implementation's observation lines into one block per parse op.
func parseBlocks(cr *CaseResult) []parseObs {
	var out []parseObs
	var cur *parseObs
	pi := 0
	var parses []Op
	for _, op := range cr.Case.Ops {
		if op.Kind == "parse" {
			parses = append(parses, op)
		}
	}
	flush := func() {
		if cur != nil {
			out = append(out, *cur)
			cur = nil
		}
	}
	for _, l := range cr.Impl {
		switch {
		case strings.HasPrefix(l, "RET "), strings.HasPrefix(l, "PANIC"):
			flush()
			cur = &parseObs{}
			if pi < len(parses) {
				cur.argv = parses[pi].Args
			}
			pi++
			if strings.HasPrefix(l, "PANIC") {
				cur.panic = l
				continue
			}
			ws := strings.Fields(l)
			cur.errKind = ws[1]
			i := 2
			switch ws[1] {
			case "flags":
				fmt.Sscanf(ws[2], "%d", &cur.errType)
				if ws[3] == "MASKED" {
					cur.masked = true
				} else {
					cur.errMsg, _ = unhx(ws[3])
				}
				i = 4
			case "foreign":
				if ws[2] == "MASKED" {
					cur.masked = true
				} else {
					cur.errMsg, _ = unhx(ws[2])
				}
				i = 3
			}
			for _, w := range ws[i+1:] {
				s, _ := unhx(w)
				cur.ret = append(cur.ret, s)
			}
		case cur == nil:
		case strings.HasPrefix(l, "LOG "):
			cur.logs = append(cur.logs, l)
		case strings.HasPrefix(l, "STDOUT "):
			cur.stdout, _ = unhx(l[7:])
			cur.hasOut = true
		case strings.HasPrefix(l, "STDERR "):
			cur.stderr, _ = unhx(l[7:])
			cur.hasOut = true
		case strings.HasPrefix(l, "O "):
			cur.values = append(cur.values, l)
		case strings.HasPrefix(l, "ACT"):
			cur.act = l
		case strings.HasPrefix(l, "HELP"), strings.HasPrefix(l, "CMD "):
			flush()
		}
	}
	flush()
	return out
}

func isSubsequence(sub, full []string) bool {
	i := 0
	for _, f := range full {
		if i < len(sub) && sub[i] == f {
			i++
		}
	}
	return i == len(sub)
}

func caseInput(cr *CaseResult, o parseObs) map[string]interface{} {
	return map[string]interface{}{"case": cr.Case.Description, "argv": o.argv, "case_file": "(saved on violation)"}
}

// oracleNoPanic (C04, C17-in-help): the library never panics.
func oracleNoPanic(c *Ctx, cr *CaseResult) {
	for _, o := range parseBlocks(cr) {
		ok := o.panic == ""
		in := caseInput(cr, o)
		if !ok {
			in["case_file"] = c.saveCase(cr)
		}
		c.Check("parse-never-panics", ok, "C04:parse-panic", in, o.panic, "normal return")
	}
	for _, l := range cr.Impl {
		if strings.HasPrefix(l, "HARNESS-PANIC") {
			c.Check("build-never-panics", false, "C19:build-panic", map[string]interface{}{"case": cr.Case.Description, "case_file": c.saveCase(cr)}, l, "typed error")
		}
	}
}

// oraclePlainFields (C01): fields that carry no option tag (and nil pointers to structs in which
// nothing is tagged) are exactly as the program left them, whatever was parsed.
func oraclePlainFields(c *Ctx, cr *CaseResult) {
	if cr.Real == nil || cr.Real.dead {
		return
	}
	var walk func(sd *StructDesc, v reflect.Value)
	walk = func(sd *StructDesc, v reflect.Value) {
		for i, f := range sd.Fields {
			fv := v.Field(i)
			switch {
			case f.Plain && f.Kind == "p":
				ok := fv.IsNil()
				in := map[string]interface{}{"case": cr.Case.Description, "field": f.Name}
				if !ok {
					in["case_file"] = c.saveCase(cr)
				}
				c.Check("untagged-fields-are-never-modified", ok, "C01:plain-field-modified", in, "the nil pointer field now points to a struct", "still nil")
			case f.Plain && f.Kind == "v" && f.Exported && f.AliasOf != "":
				// the slice the program saved: still the values the option was initialised with
				want := reflect.New(fv.Type()).Elem()
				for _, f2 := range sd.Fields {
					if f2.Name == f.AliasOf && f2.Init != "" {
						setVal(f.Ty, want, f2.Init)
					}
				}
				ok := reflect.DeepEqual(fv.Interface(), want.Interface())
				in := map[string]interface{}{"case": cr.Case.Description, "field": f.Name, "holds_the_slice_the_option_field_was_initialised_with": f.AliasOf}
				if !ok {
					in["case_file"] = c.saveCase(cr)
				}
				c.Check("untagged-fields-are-never-modified", ok, "C01:plain-field-modified", in, fmt.Sprintf("%v", fv.Interface()), fmt.Sprintf("%v as the program stored it", want.Interface()))
			case f.Plain && f.Kind == "v" && f.Exported:
				ok := fv.IsZero()
				in := map[string]interface{}{"case": cr.Case.Description, "field": f.Name}
				if !ok {
					in["case_file"] = c.saveCase(cr)
				}
				c.Check("untagged-fields-are-never-modified", ok, "C01:plain-field-modified", in, fmt.Sprintf("%v", fv.Interface()), "zero value as declared")
			case f.Kind == "s":
				walk(f.Sub, fv)
			case f.Kind == "p" && f.Exported && !fv.IsNil():
				walk(f.Sub, fv.Elem())
			}
		}
	}
	for _, rt := range cr.Real.roots {
		walk(rt.sd, rt.v)
	}
}

// oracleContained (C04): typed errors and output discipline.
func oracleContained(c *Ctx, cr *CaseResult) {
	printErrors := cr.Case.Opts&16 != 0
	hasPositional := strings.Contains(strings.Join(cr.Lines, "\n"), hx("positional-args")[1:])
	for _, o := range parseBlocks(cr) {
		if o.panic != "" {
			continue
		}
		in := caseInput(cr, o)
		fail := func(name, key, got, want string) {
			in["case_file"] = c.saveCase(cr)
			c.Check(name, false, key, in, got, want)
		}
		// foreign errors may only come from user code or positional conversion
		if o.errKind == "foreign" && !o.masked {
			userCode := strings.HasPrefix(o.errMsg, "cberr: ") || strings.HasPrefix(o.errMsg, "handler refused: ") || strings.HasPrefix(o.errMsg, "exec failed: ")
			if !userCode && !hasPositional {
				fail("rejections-are-typed", "C04:untyped-error", "foreign error: "+o.errMsg, "*flags.Error")
				continue
			}
		}
		c.Check("rejections-are-typed", true, "", nil, "", "")
		// output discipline
		switch {
		case !printErrors || o.errKind == "ok":
			if o.hasOut {
				fail("no-output-unless-PrintErrors", "C04:unexpected-output", fmt.Sprintf("stdout=%q stderr=%q", o.stdout, o.stderr), "nothing written")
				continue
			}
		case o.masked:
		default:
			isHelp := o.errKind == "flags" && o.errType == 5
			wantOut, wantErr := "", o.errMsg+"\n"
			if isHelp {
				wantOut, wantErr = o.errMsg+"\n", ""
			}
			if o.stdout != wantOut || o.stderr != wantErr {
				fail("error-text-written-exactly-once", "C04:wrong-output", fmt.Sprintf("stdout=%q stderr=%q", o.stdout, o.stderr), fmt.Sprintf("stdout=%q stderr=%q", wantOut, wantErr))
				continue
			}
		}
		c.Check("output-discipline", true, "", nil, "", "")
	}
}

// oracleConserved (C03): on success the returned arguments are a subsequence of argv
// (plus the tokens a "prepend" handler invented).
func oracleConserved(c *Ctx, cr *CaseResult) {
	for _, o := range parseBlocks(cr) {
		if o.panic != "" || o.errKind != "ok" {
			continue
		}
		full := o.argv
		if cr.Case.Handler == "prepend" {
			var f2 []string
			for _, a := range o.argv {
				f2 = append(f2, cr.Case.HandlerTok, a)
			}
			full = append(f2, cr.Case.HandlerTok)
		}
		ok := isSubsequence(o.ret, full)
		in := caseInput(cr, o)
		if !ok {
			in["case_file"] = c.saveCase(cr)
		}
		c.Check("remaining-args-are-a-subsequence-of-argv", ok, "C03:not-subsequence", in, fmt.Sprintf("%q", o.ret), fmt.Sprintf("subsequence of %q", full))
		// exec receives exactly the returned arguments
		for _, l := range o.logs {
			if strings.HasPrefix(l, "LOG exec ") || strings.HasPrefix(l, "LOG cmdhandler ") {
				ws := strings.Fields(l)
				got := strings.Join(ws[3:], " ")
				ok := got == hxList(o.ret)
				if !ok {
					in["case_file"] = c.saveCase(cr)
				}
				c.Check("command-receives-the-returned-arguments", ok, "C03:exec-args-differ", in, decodeLine(got), decodeLine(hxList(o.ret)))
			}
		}
	}
}

// oracleExec (C09): nothing runs on a parse error; at most one Execute; a Commander innermost
// command runs exactly once on success.
func oracleExec(c *Ctx, cr *CaseResult) {
	for _, o := range parseBlocks(cr) {
		if o.panic != "" {
			continue
		}
		nExec, nHandler := 0, 0
		for _, l := range o.logs {
			if strings.HasPrefix(l, "LOG exec ") {
				nExec++
			}
			if strings.HasPrefix(l, "LOG cmdhandler ") {
				nHandler++
			}
		}
		in := caseInput(cr, o)
		fail := func(name, key, got, want string) {
			in["case_file"] = c.saveCase(cr)
			c.Check(name, false, key, in, got, want)
		}
		fromExec := strings.HasPrefix(o.errMsg, "exec failed: ") || strings.HasPrefix(o.errMsg, "help from ")
		// (a message masked because a token contains '%' cannot be attributed: not judged)
		if o.errKind != "ok" && !fromExec && !o.masked && (nExec > 0 || nHandler > 0) {
			fail("nothing-executes-on-error", "C09:exec-on-error", fmt.Sprintf("error %q with %d Execute and %d CommandHandler calls", o.errMsg, nExec, nHandler), "no invocation")
			continue
		}
		if nExec > 1 || nHandler > 1 {
			fail("at-most-one-invocation", "C09:exec-twice", fmt.Sprintf("%d Execute, %d CommandHandler", nExec, nHandler), "at most one each")
			continue
		}
		if o.errKind == "ok" && cr.Case.CmdHandler && nHandler != 1 {
			fail("handler-runs-once-on-success", "C09:handler-missing", fmt.Sprintf("%d CommandHandler calls", nHandler), "exactly 1")
			continue
		}
		c.Check("exec-discipline", true, "", nil, "", "")
	}
}

// oracleHandler (C07): with the identity handler, every handler call receives a suffix of argv.
func oracleHandler(c *Ctx, cr *CaseResult) {
	if cr.Case.Handler != "identity" {
		return
	}
	for _, o := range parseBlocks(cr) {
		for _, l := range o.logs {
			if !strings.HasPrefix(l, "LOG unknown ") {
				continue
			}
			ws := strings.Fields(l)
			var args []string
			for _, w := range ws[5:] {
				s, _ := unhx(w)
				args = append(args, s)
			}
			ok := len(args) <= len(o.argv)
			if ok {
				tail := o.argv[len(o.argv)-len(args):]
				for i := range args {
					if tail[i] != args[i] {
						ok = false
					}
				}
			}
			in := caseInput(cr, o)
			if !ok {
				in["case_file"] = c.saveCase(cr)
			}
			c.Check("handler-receives-the-unconsumed-arguments", ok, "C07:handler-args", in, fmt.Sprintf("%q", args), "a suffix of argv")
		}
	}
}
