package main

import (
	"fmt"
	"strings"
)

// runParseCases: generate cases with a profile, run, compare; `after` adds property oracles.
func runParseCases(c *Ctx, n int, p Profile, after func(cr *CaseResult)) {
	batch := 40
	for done := 0; done < n; done += batch {
		k := batch
		if n-done < k {
			k = n - done
		}
		cases := make([]*Case, 0, k)
		for i := 0; i < k; i++ {
			cases = append(cases, GenParseCase(c.Rng, p))
		}
		c.RunCases(cases, func(cr *CaseResult) {
			c.classifyCase(cr)
			if after != nil {
				after(cr)
			}
		})
		if len(c.R.Disagreements) >= c.maxKeep {
			return
		}
	}
}

// classifyCase records distribution labels and distinctness for the evidence.
func (c *Ctx) classifyCase(cr *CaseResult) {
	for _, l := range cr.Impl {
		if strings.HasPrefix(l, "RET ") {
			ws := strings.Fields(l)
			label := "parse/" + ws[1]
			if ws[1] == "flags" {
				label += "/" + ws[2]
			}
			c.Class(label)
		} else if strings.HasPrefix(l, "PANIC") {
			c.Class("parse/PANIC")
		} else if strings.HasPrefix(l, "R flags") {
			c.Class("build/error")
		}
	}
	c.Distinct(strings.Join(cr.Lines, "\n"))
	if len(c.R.Samples) < 4 {
		c.Sample(map[string]interface{}{"case": cr.Case.Description, "impl_observations": decodeAll(cr.Impl, 12)})
	}
}

func decodeAll(ls []string, max int) []string {
	var out []string
	for i, l := range ls {
		if i >= max {
			out = append(out, fmt.Sprintf("… %d more lines", len(ls)-max))
			break
		}
		out = append(out, decodeLine(l))
	}
	return out
}
