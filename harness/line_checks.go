package main

// Command lines of known structure.  Every token of the line is produced here together with what
// it is (an occurrence of a declared option, a plain word, the terminator, an unknown option, a
// command word), so what the parser must do with the line is computed from the construction and
// the documented rules alone - independently of the library and of the model:
//
//   C03 conserve stage  the remaining arguments are exactly the tokens that were passed through
//   C07 unknown stage   one unknown option under each of the three policies
//   C08 words stage     command words by name or alias, a non-command word behind a command

import (
	"fmt"
	"reflect"
	"strings"

	flags "github.com/jessevdk/go-flags"
)

type lineCtx struct {
	cs       *Case
	real     *Real
	chain    []*flags.Command
	argv     []string // the command path
	boolOpts []string // spellings of flags in scope that are unique there ("-x", "--long")
	strOpts  []string // "--long" / "-s" of string options in scope, unique there
	declared map[string]bool
}

// uniqueWord: the word names exactly one subcommand (by name or alias)
func uniqueWord(subs []*flags.Command, w string) bool {
	matches := 0
	for _, x := range subs {
		if x.Name == w {
			matches++
		}
		for _, a := range x.Aliases {
			if a == w {
				matches++
			}
		}
	}
	return matches == 1
}

// warmupPath: a path of command words for an earlier call of the same parser (no options, no other
// words); what a later call does must not depend on it
func warmupPath(c *Ctx, real *Real) []string {
	r := c.Rng
	var path []string
	cur := real.p.Command
	for {
		subs := cur.Commands()
		if len(subs) == 0 || len(cur.Args()) > 0 || r.Intn(5) == 0 {
			break
		}
		s := subs[r.Intn(len(subs))]
		if !uniqueWord(subs, s.Name) || !typableWord(s.Name) {
			break
		}
		path = append(path, s.Name)
		cur = s
	}
	return path
}

// withWarmup: the judged call alone, or (a third of the cases) after an earlier call on the same parser
func withWarmup(c *Ctx, real *Real, argv []string) ([]Op, []string) {
	if c.Rng.Intn(3) != 0 {
		return []Op{{Kind: "parse", Args: argv}}, nil
	}
	w := warmupPath(c, real)
	if len(w) == 0 {
		return []Op{{Kind: "parse", Args: argv}}, nil
	}
	return []Op{{Kind: "parse", Args: w}, {Kind: "parse", Args: argv}}, w
}

// withWarmupBelow: like withWarmup, but half of the earlier calls walk down the judged call's own command
// path and then FURTHER, into a command below its end: the links (and required options) of those deeper
// commands must mean nothing to the judged call
func withWarmupBelow(c *Ctx, real *Real, chain []*flags.Command, argv []string) ([]Op, []string) {
	r := c.Rng
	if r.Intn(2) == 0 {
		return withWarmup(c, real, argv)
	}
	var path []string
	for _, cmd := range chain[1:] {
		path = append(path, cmd.Name)
	}
	cur := chain[len(chain)-1]
	deeper := 0
	for {
		subs := cur.Commands()
		if len(subs) == 0 || len(cur.Args()) > 0 || (deeper > 0 && r.Intn(3) == 0) {
			break
		}
		s := subs[r.Intn(len(subs))]
		if !uniqueWord(subs, s.Name) || !typableWord(s.Name) {
			break
		}
		path = append(path, s.Name)
		cur = s
		deeper++
	}
	if deeper == 0 {
		return withWarmup(c, real, argv)
	}
	return []Op{{Kind: "parse", Args: path}, {Kind: "parse", Args: argv}}, path
}

func typableWord(w string) bool {
	return w != "" && !strings.HasPrefix(w, "-") && !strings.Contains(w, "%")
}

// scopeOf collects the options of the chain whose spelling is unambiguous in it
func (lc *lineCtx) scopeOf() {
	count := map[string]int{}
	lc.declared = map[string]bool{}
	lc.boolOpts, lc.strOpts = nil, nil
	each := func(f func(o *flags.Option)) {
		for _, cmd := range lc.chain {
			for _, grp := range allGroups(cmd) {
				for _, o := range grp.Options() {
					f(o)
				}
			}
		}
	}
	each(func(o *flags.Option) {
		if ln := o.LongNameWithNamespace(); ln != "" {
			count["--"+ln]++
			lc.declared["--"+ln] = true
		}
		if o.ShortName != 0 {
			count["-"+string(o.ShortName)]++
			lc.declared["-"+string(o.ShortName)] = true
		}
	})
	each(func(o *flags.Option) {
		if o.Field().Name == "ShowHelp" || o.OptionalArgument {
			return
		}
		ln := o.LongNameWithNamespace()
		longOK := ln != "" && count["--"+ln] == 1 && !strings.ContainsAny(ln, "=%") && !strings.HasPrefix(ln, "-")
		shortOK := o.ShortName != 0 && count["-"+string(o.ShortName)] == 1 && !strings.ContainsRune("-=%", o.ShortName)
		switch lc.real.optCode(o) {
		case "bool":
			if longOK {
				lc.boolOpts = append(lc.boolOpts, "--"+ln)
			}
			if shortOK {
				lc.boolOpts = append(lc.boolOpts, "-"+string(o.ShortName))
			}
		case "str":
			if longOK && !strings.Contains(string(o.Field().Tag), "unquote:") {
				lc.strOpts = append(lc.strOpts, "--"+ln)
			}
			// (the short spelling too, multi-byte names among them: -ö=V, -ö V)
			if shortOK && !strings.Contains(string(o.Field().Tag), "unquote:") {
				lc.strOpts = append(lc.strOpts, "-"+string(o.ShortName))
			}
		}
	})
}

// newLine: a generated declaration and a random path of command words (names and aliases)
func newLine(c *Ctx, p Profile, pathStop int, tweak func(cs *Case)) *lineCtx {
	g := &gen{r: c.Rng, p: p}
	cs := g.genCase()
	cs.Env = nil
	cs.Handler, cs.HandlerTok = "", ""
	if tweak != nil {
		tweak(cs)
	}
	real, _ := BuildReal(cs)
	if real.dead {
		return nil
	}
	lc := &lineCtx{cs: cs, real: real, chain: []*flags.Command{real.p.Command}}
	r := c.Rng
	for {
		cur := lc.chain[len(lc.chain)-1]
		subs := cur.Commands()
		if len(subs) == 0 || len(cur.Args()) > 0 || r.Intn(pathStop) == 0 {
			break
		}
		s := subs[r.Intn(len(subs))]
		word := s.Name
		if len(s.Aliases) > 0 && r.Intn(2) == 0 {
			word = s.Aliases[r.Intn(len(s.Aliases))]
		}
		if !uniqueWord(subs, word) || !typableWord(word) {
			break
		}
		lc.argv = append(lc.argv, word)
		lc.chain = append(lc.chain, s)
	}
	lc.scopeOf()
	return lc
}

func (lc *lineCtx) active() *flags.Command { return lc.chain[len(lc.chain)-1] }

// isCommandWord: the word names a subcommand of the active command
func (lc *lineCtx) isCommandWord(w string) bool {
	for _, x := range lc.active().Commands() {
		if x.Name == w {
			return true
		}
		for _, a := range x.Aliases {
			if a == w {
				return true
			}
		}
	}
	return false
}

func (lc *lineCtx) wantChain() string {
	s := "ACT"
	for _, cmd := range lc.chain {
		s += fmt.Sprintf(" %d", lc.real.uids[cmd])
	}
	return s
}

// stripPositional: positional fields without count constraints, all strings but a trailing slice
func stripPositional(cs *Case) {
	var strip func(sd *StructDesc)
	strip = func(sd *StructDesc) {
		for fi := range sd.Fields {
			f := &sd.Fields[fi]
			if strings.Contains(f.Tag, "positional-args") {
				f.Tag = `positional-args:"yes"`
				for si := range f.Sub.Fields {
					sf := &f.Sub.Fields[si]
					sf.Tag = ""
					sf.Init = ""
					if !(si == len(f.Sub.Fields)-1 && sf.Ty == "Lstr") {
						sf.Ty = "str"
					}
				}
			} else if f.Sub != nil {
				strip(f.Sub)
			}
		}
	}
	for bi := range cs.Build {
		if cs.Build[bi].Struct != nil {
			strip(cs.Build[bi].Struct)
		}
	}
}

type tok struct {
	kind string // K known occurrence (consumed), V value of the preceding occurrence (consumed), W word, U unknown option
	text string
}

var wordPool = []string{"a", "b c", "é", "---x", "---", "-", "0", "x=y", "w1", "日本", "a-b", "--- --", "\"a b\"", "\"x", "\"\"", "\"-v\"", "'q'", "a\\tb"}

// ------------------------------------------------------------------------------------ C03

func checkC03Conserve(c *Ctx, n int) {
	p := defaultProfile
	p.BadDecl, p.Defaults, p.Env, p.InitVals, p.Choices, p.Required = 0, 0, 0, 0, 0, 0
	p.PosArgs, p.SubOpt = 0.4, 1
	p.MaxCmdDepth = 1
	p.Handlers, p.Exec = false, false
	p.OnlyTypes = []string{"str", "str", "bool", "bool", "int", "Lstr"}
	p.OptsMask = flags.PrintErrors
	r := c.Rng
	for i := 0; i < n; i++ {
		bits := flags.Options(0)
		if r.Intn(2) == 0 {
			bits |= flags.PassDoubleDash
		}
		if r.Intn(3) == 0 {
			bits |= flags.PassAfterNonOption
		}
		if r.Intn(3) == 0 {
			bits |= flags.IgnoreUnknown
		}
		lc := newLine(c, p, 2, func(cs *Case) {
			stripPositional(cs)
			cs.Build = append(cs.Build, BuildOp{Kind: "setcmd", Target: 1, Attr: "subopt", Vals: []string{"1"}})
			cs.Opts = (cs.Opts &^ (flags.PassDoubleDash | flags.PassAfterNonOption | flags.IgnoreUnknown | flags.HelpFlag)) | bits
		})
		if lc == nil {
			continue
		}
		var toks []tok
		k := r.Intn(8)
		for j := 0; j < k; j++ {
			switch x := r.Intn(10); {
			case x < 3 && len(lc.boolOpts) > 0:
				toks = append(toks, tok{"K", lc.boolOpts[r.Intn(len(lc.boolOpts))]})
			case x < 5 && len(lc.strOpts) > 0:
				sp := lc.strOpts[r.Intn(len(lc.strOpts))]
				if r.Intn(2) == 0 {
					toks = append(toks, tok{"K", sp + "=v" + fmt.Sprint(j)})
				} else {
					toks = append(toks, tok{"K", sp}, tok{"V", "v" + fmt.Sprint(j)})
				}
			case x < 6:
				toks = append(toks, tok{"W", "--"})
			case x < 7 && bits&flags.IgnoreUnknown != 0:
				// (among them tokens whose NAME is empty or begins with the name/argument delimiter)
				u := []string{"--zz-unk", "--zz-unk=1", "-Z", "-Z=1", "--zz=--", "-=", "-=x", "-=5", "--=x"}[r.Intn(9)]
				if !lc.declared["-Z"] && !lc.declared["--zz-unk"] && !lc.declared["--zz"] && !lc.declared["-="] && !lc.declared["--"] {
					toks = append(toks, tok{"U", u})
				}
			case x < 8 && len(lc.chain) >= 2:
				// the name or an alias of a command of an outer level (the active command's own, a
				// sibling's): below the active command it is a word like any other
				var outer []string
				for _, up := range lc.chain[:len(lc.chain)-1] {
					for _, sib := range up.Commands() {
						outer = append(outer, sib.Name)
						outer = append(outer, sib.Aliases...)
					}
				}
				if w := outer[r.Intn(len(outer))]; w != "" && !lc.isCommandWord(w) && !strings.HasPrefix(w, "-") {
					toks = append(toks, tok{"W", w})
				}
			default:
				w := wordPool[r.Intn(len(wordPool))]
				if !lc.isCommandWord(w) {
					toks = append(toks, tok{"W", w})
				}
			}
		}
		// what is passed through, by the documented rules
		var pass []string
		argv := append([]string{}, lc.argv...)
		for _, t := range toks {
			argv = append(argv, t.text)
		}
		for j := 0; j < len(toks); j++ {
			t := toks[j]
			if t.kind == "W" && t.text == "--" && bits&flags.PassDoubleDash != 0 {
				for _, t2 := range toks[j+1:] {
					pass = append(pass, t2.text)
				}
				break
			}
			if t.kind == "W" && bits&flags.PassAfterNonOption != 0 {
				for _, t2 := range toks[j:] {
					pass = append(pass, t2.text)
				}
				break
			}
			if t.kind == "W" || t.kind == "U" {
				pass = append(pass, t.text)
			}
		}
		args := lc.active().Args()
		cs := lc.cs
		cs.Ops = []Op{{Kind: "parse", Args: argv}}
		cs.Description = describeOps(cs)
		c.RunCases([]*Case{cs}, func(cr *CaseResult) {
			c.classifyCase(cr)
			if cr.Real == nil || cr.Real.dead {
				return
			}
			var obs parseObs
			for _, o := range parseBlocks(cr) {
				obs = o
			}
			c.Class(fmt.Sprintf("c03/conserve: doubledash=%v afternonoption=%v ignoreunknown=%v positional=%v", bits&flags.PassDoubleDash != 0, bits&flags.PassAfterNonOption != 0, bits&flags.IgnoreUnknown != 0, len(args) > 0))
			in := map[string]interface{}{"case": cs.Description, "argv": argv, "passed_through": pass, "options": fmt.Sprint(bits)}
			fail := func(got, want string) {
				in["case_file"] = c.saveCase(cr)
				c.Check("remaining-arguments-are-exactly-the-unconsumed-tokens", false, "C03:conserve", in, got, want)
			}
			if obs.panic != "" || obs.errKind != "ok" {
				fail(fmt.Sprintf("%s %s type %d %q", obs.panic, obs.errKind, obs.errType, obs.errMsg), "success")
				return
			}
			// first to the unfilled positional arguments, in declaration order ...
			cr.Real.register()
			used := 0
			for ai, a := range args {
				fr, ok := cr.Real.fields[a.Name]
				if !ok || !fr.val.IsValid() {
					fail("field "+a.Name+" not reachable", "reachable")
					return
				}
				if fr.val.Kind() == reflect.Slice && ai == len(args)-1 {
					var want []string
					if used < len(pass) {
						want = pass[used:]
					}
					used = len(pass)
					got := make([]string, fr.val.Len())
					for j := range got {
						got[j] = fmt.Sprint(fr.val.Index(j).Interface())
					}
					if fmt.Sprint(got) != fmt.Sprint(want) && !(len(got) == 0 && len(want) == 0) {
						fail(fmt.Sprintf("%s = %q", a.Name, got), fmt.Sprintf("%s = %q", a.Name, want))
						return
					}
					continue
				}
				if used < len(pass) {
					if got := fmt.Sprint(fr.val.Interface()); got != pass[used] {
						fail(fmt.Sprintf("%s = %q", a.Name, got), fmt.Sprintf("%s = %q", a.Name, pass[used]))
						return
					}
					used++
				}
			}
			// ... then to the remaining arguments
			var wantRet []string
			if used < len(pass) {
				wantRet = pass[used:]
			}
			if fmt.Sprintf("%q", obs.ret) != fmt.Sprintf("%q", wantRet) && !(len(obs.ret) == 0 && len(wantRet) == 0) {
				fail(fmt.Sprintf("remaining %q", obs.ret), fmt.Sprintf("remaining %q", wantRet))
				return
			}
			c.Check("remaining-arguments-are-exactly-the-unconsumed-tokens", true, "", nil, "", "")
		})
	}
}

// ------------------------------------------------------------------------------------ C07

func checkC07Unknown(c *Ctx, n int) {
	p := defaultProfile
	p.BadDecl, p.Defaults, p.Env, p.InitVals, p.Choices, p.Required, p.PosArgs = 0, 0, 0, 0, 0, 0, 0
	p.SubOpt = 1
	p.MaxCmdDepth = 2
	p.Handlers, p.Exec = false, false
	p.Utf = 0.3
	p.OnlyTypes = []string{"str", "str", "bool", "bool", "bool", "int"}
	p.OptsMask = flags.PrintErrors
	r := c.Rng
	policies := []string{"fail", "ignore", "identity", "dropnext", "prepend", "refuse", "swallow"}
	for i := 0; i < n; i++ {
		policy := policies[r.Intn(len(policies))]
		// (IgnoreUnknown together with PassAfterNonOption: the ignored option is no "non-option")
		afterNonOption := policy == "ignore" && r.Intn(3) == 0
		lc := newLine(c, p, 3, func(cs *Case) {
			cs.Opts &^= flags.PassDoubleDash | flags.PassAfterNonOption | flags.IgnoreUnknown | flags.HelpFlag
			cs.Build = append(cs.Build, BuildOp{Kind: "setcmd", Target: 1, Attr: "subopt", Vals: []string{"1"}})
			if afterNonOption {
				cs.Opts |= flags.PassAfterNonOption
			}
			// a struct the declaration excludes with no-flag: whatever it declares is not declared
			if cs.Build[0].Struct != nil {
				tag := []string{`no-flag:"1"`, `no-flag:"yes" group:"Excluded"`, `group:"Excluded" no-flag:"true"`}[r.Intn(3)]
				cs.Build[0].Struct.Fields = append(cs.Build[0].Struct.Fields, FieldDesc{Name: "NfStruct", Exported: true, Kind: "s", Tag: tag,
					Sub: &StructDesc{Fields: []FieldDesc{{Name: "NfInner", Exported: true, Kind: "v", Ty: "bool", Tag: `long:"nf-inner" short:"Y"`}}}})
			}
			switch policy {
			case "ignore":
				cs.Opts |= flags.IgnoreUnknown
			case "identity":
				cs.Handler = "identity"
			case "dropnext":
				cs.Handler = "dropnext"
			case "prepend":
				cs.Handler, cs.HandlerTok = "prepend", "hw"
			case "refuse":
				cs.Handler = "fail"
			case "swallow":
				cs.Handler = "swallow"
			}
		})
		if lc == nil {
			continue
		}
		// the unknown token: a name nothing in scope declares
		var uname string
		if r.Intn(4) == 0 {
			uname = "nf-inner" // (declared only inside the excluded struct)
		}
		for _, cand := range []string{"zz-unk", "Z", "É", "世", "q9", "Q"} {
			if uname != "" {
				break
			}
			pre := "--"
			if len([]rune(cand)) == 1 {
				pre = "-"
			}
			if !lc.declared[pre+cand] && r.Intn(2) == 0 {
				uname = cand
				break
			}
		}
		if uname == "" || lc.isCommandWord("hw") {
			continue
		}
		short := len([]rune(uname)) == 1
		utext, uarg, hasArg := "--"+uname, "", false
		judgedName := true
		if short {
			utext = "-" + uname
		}
		switch r.Intn(3) {
		case 0:
			utext, uarg, hasArg = utext+"=val", "val", true
		case 1:
			// inside a cluster, behind a declared flag
			if short {
				for _, sp := range lc.boolOpts {
					if !strings.HasPrefix(sp, "--") {
						utext = sp + uname
						judgedName = false // (a handler receives the cluster)
						break
					}
				}
			}
		}
		known := func(j int) []tok {
			switch x := r.Intn(3); {
			case x == 0 && len(lc.boolOpts) > 0:
				return []tok{{"K", lc.boolOpts[r.Intn(len(lc.boolOpts))]}}
			case x == 1 && len(lc.strOpts) > 0:
				return []tok{{"K", lc.strOpts[r.Intn(len(lc.strOpts))] + "=v" + fmt.Sprint(j)}}
			}
			w := []string{"w1", "w2", "é", "---x"}[r.Intn(4)]
			// (a word in front of the path's end could be a command word)
			if lc.isCommandWord(w) || len(lc.active().Commands()) > 0 {
				return nil
			}
			return []tok{{"W", w}}
		}
		var pre, post []tok
		for j := r.Intn(3); j > 0; j-- {
			for _, t := range known(j) {
				if t.kind == "K" {
					pre = append(pre, t)
				}
			}
		}
		for j := r.Intn(4); j > 0; j-- {
			post = append(post, known(10+j)...)
		}
		argv := append([]string{}, lc.argv...)
		for _, t := range pre {
			argv = append(argv, t.text)
		}
		argv = append(argv, utext)
		var after []string
		for _, t := range post {
			argv = append(argv, t.text)
			after = append(after, t.text)
		}
		words := func(ts []tok) []string {
			var out []string
			for _, t := range ts {
				if t.kind == "W" {
					out = append(out, t.text)
				}
			}
			return out
		}
		cs := lc.cs
		var warm []string
		cs.Ops, warm = withWarmup(c, lc.real, argv)
		cs.Description = describeOps(cs)
		// a handler that returns a nil slice: the outcome must be that of the command line cut off behind
		// the unknown option — the reference is the same parser given exactly that line
		var cut *parseObs
		if policy == "swallow" {
			cs2 := *cs
			cs2.Ops = append([]Op{}, cs.Ops...)
			cutArgv := argv[:len(argv)-len(post)]
			cs2.Ops[len(cs2.Ops)-1] = Op{Kind: "parse", Args: cutArgv}
			cs2.Description = describeOps(&cs2)
			c.RunCases([]*Case{&cs2}, func(cr *CaseResult) {
				for _, o := range parseBlocks(cr) {
					o := o
					cut = &o
				}
			})
			if cut == nil {
				continue
			}
		}
		c.RunCases([]*Case{cs}, func(cr *CaseResult) {
			c.classifyCase(cr)
			if cr.Real == nil || cr.Real.dead {
				return
			}
			var obs parseObs
			for _, o := range parseBlocks(cr) {
				obs = o
			}
			c.Class(fmt.Sprintf("c07/unknown: policy=%s short=%v inline-argument=%v in-cluster=%v", policy, short, hasArg, !judgedName))
			in := map[string]interface{}{"case": cs.Description, "argv": argv, "unknown_token": utext, "policy": policy}
			if warm != nil {
				in["earlier_call_on_the_same_parser"] = warm
				c.Class("c07/unknown: after an earlier call on the same parser")
			}
			fail := func(got, want string) {
				in["case_file"] = c.saveCase(cr)
				c.Check("unknown-option-is-handled-by-the-policy", false, "C07:unknown-policy", in, got, want)
			}
			if obs.panic != "" {
				fail(obs.panic, "normal return")
				return
			}
			var calls [][]string
			for _, l := range obs.logs {
				if strings.HasPrefix(l, "LOG unknown ") {
					calls = append(calls, strings.Fields(l)[2:])
				}
			}
			got := fmt.Sprintf("%s type %d %q remaining %q, %d handler calls", obs.errKind, obs.errType, obs.errMsg, obs.ret, len(calls))
			// the call a handler must have received
			callOK := func() (bool, string) {
				if len(calls) != 1 {
					return false, "exactly one handler call"
				}
				name, _ := unhx(calls[0][0])
				arg := "-"
				if calls[0][1] != "-" {
					arg, _ = unhx(calls[0][1])
				}
				wantArg := "-"
				if hasArg {
					wantArg = uarg
				}
				rest := strings.Join(calls[0][2:], " ")
				want := fmt.Sprintf("one handler call (%q, argument %q, arguments %q)", uname, wantArg, after)
				if judgedName && name != uname {
					return false, want
				}
				if arg != wantArg || rest != hxList(after) {
					return false, want
				}
				return true, want
			}
			switch policy {
			case "fail":
				want := "unknown flag `" + uname + "'"
				if !(obs.errKind == "flags" && obs.errType == int(flags.ErrUnknownFlag) && (obs.masked || obs.errMsg == want)) || len(calls) != 0 {
					fail(got, "ErrUnknownFlag: "+want)
					return
				}
			case "ignore":
				wantRet := append([]string{utext}, words(post)...)
				if afterNonOption {
					// parsing goes on behind the ignored option, up to the first plain word; from there on
					// everything is passed through
					wantRet = []string{utext}
					for j, t := range post {
						if t.kind == "W" {
							for _, t2 := range post[j:] {
								wantRet = append(wantRet, t2.text)
							}
							break
						}
					}
					in["pass_after_non_option"] = true
				}
				if obs.errKind != "ok" || fmt.Sprintf("%q", obs.ret) != fmt.Sprintf("%q", wantRet) {
					fail(got, fmt.Sprintf("success, remaining %q", wantRet))
					return
				}
			case "identity", "dropnext", "prepend":
				ok, want := callOK()
				wantRet := words(post)
				if policy == "dropnext" && len(post) > 0 {
					wantRet = words(post[1:])
				}
				if policy == "prepend" {
					wantRet = append([]string{"hw"}, wantRet...)
				}
				if !ok || obs.errKind != "ok" || (fmt.Sprintf("%q", obs.ret) != fmt.Sprintf("%q", wantRet) && !(len(obs.ret) == 0 && len(wantRet) == 0)) {
					fail(got+fmt.Sprintf(" %q", calls), want+fmt.Sprintf(", then success with remaining %q", wantRet))
					return
				}
			case "swallow":
				ok, want := callOK()
				same := obs.errKind == cut.errKind && obs.errType == cut.errType && fmt.Sprintf("%q", obs.ret) == fmt.Sprintf("%q", cut.ret) &&
					strings.Join(obs.values, "\n") == strings.Join(cut.values, "\n") && obs.act == cut.act
				if !ok || !same {
					in["the_line_cut_off_behind_the_unknown_option_gives"] = fmt.Sprintf("%s type %d %q remaining %q", cut.errKind, cut.errType, cut.errMsg, cut.ret)
					fail(got+fmt.Sprintf(" %q", calls), want+"; the handler returns nil, so nothing behind the option is parsed: outcome, option values and remaining arguments of the line that ends at the unknown option")
					return
				}
			case "refuse":
				ok, want := callOK()
				if !ok || obs.errKind != "foreign" {
					fail(got+fmt.Sprintf(" %q", calls), want+", its error returned")
					return
				}
			}
			c.Check("unknown-option-is-handled-by-the-policy", true, "", nil, "", "")
		})
	}
}

// ------------------------------------------------------------------------------------ C08

func c08Line(c *Ctx, p Profile, after bool) *lineCtx {
	r := c.Rng
	return newLine(c, p, 4, func(cs *Case) {
		cs.Opts &^= flags.PassDoubleDash | flags.PassAfterNonOption | flags.IgnoreUnknown | flags.HelpFlag
		if after {
			cs.Opts |= flags.PassAfterNonOption
		}
		if r.Intn(2) == 0 {
			cs.Build = append(cs.Build, BuildOp{Kind: "setcmd", Target: 1, Attr: "subopt", Vals: []string{"1"}})
		}
	})
}

func checkC08Words(c *Ctx, n int) {
	p := defaultProfile
	p.BadDecl, p.Defaults, p.Env, p.InitVals, p.Choices, p.Required, p.PosArgs = 0, 0, 0, 0, 0, 0, 0
	p.SubOpt = 0.5
	p.MaxCmdDepth, p.MaxSubs, p.MaxFields = 3, 3, 3
	p.Handlers, p.Exec = false, false
	p.OnlyTypes = []string{"str", "bool", "bool"}
	p.OptsMask = flags.PrintErrors
	r := c.Rng
	for i := 0; i < n; i++ {
		after := r.Intn(3) == 0
		var lc *lineCtx
		// (half of the cases insist on a nested command that has subcommands of its own)
		for try := 0; try < 8; try++ {
			lc = c08Line(c, p, after)
			if lc != nil && (i%2 == 0 || (len(lc.chain) > 1 && len(lc.active().Commands()) > 0)) {
				break
			}
		}
		if lc == nil {
			continue
		}
		argv := append([]string{}, lc.argv...)
		x := lc.active()
		word := ""
		given := false // (the EMPTY string is a word too: an unrecognised word, not "no word")
		var tail []tok
		if r.Intn(2) == 0 {
			given = true
			word = []string{"zzword", "origin", "w", "", " "}[r.Intn(5)]
			if lc.isCommandWord(word) {
				continue
			}
			argv = append(argv, word)
			for j := r.Intn(3); j > 0; j-- {
				if len(lc.boolOpts) > 0 && r.Intn(2) == 0 && !after {
					tail = append(tail, tok{"K", lc.boolOpts[r.Intn(len(lc.boolOpts))]})
				} else {
					tail = append(tail, tok{"W", "t" + fmt.Sprint(j)})
				}
			}
			// where a command is required the word is an unknown command WHATEVER stands behind it — also a
			// fault of another kind (an option nothing declares, a missing argument, a help request)
			if len(x.Commands()) > 0 && !x.SubcommandsOptional && r.Intn(3) == 0 {
				tail = append(tail, tok{"U", []string{"--zz-nosuch", "--zz-nosuch=1", "-Z"}[r.Intn(3)]})
			}
			for _, t := range tail {
				argv = append(argv, t.text)
			}
		}
		hasSubs := len(x.Commands()) > 0
		cs := lc.cs
		var warm []string
		cs.Ops, warm = withWarmup(c, lc.real, argv)
		cs.Description = describeOps(cs)
		c.RunCases([]*Case{cs}, func(cr *CaseResult) {
			c.classifyCase(cr)
			if cr.Real == nil || cr.Real.dead {
				return
			}
			var obs parseObs
			for _, o := range parseBlocks(cr) {
				obs = o
			}
			c.Class(fmt.Sprintf("c08/words: depth=%d word=%v empty=%v has-subcommands=%v optional=%v afternonoption=%v", len(lc.chain)-1, given, given && word == "", hasSubs, x.SubcommandsOptional, after))
			in := map[string]interface{}{"case": cs.Description, "argv": argv, "command_path": lc.argv, "innermost": x.Name,
				"innermost_has_subcommands": hasSubs, "innermost_subcommands_optional": x.SubcommandsOptional}
			if warm != nil {
				in["earlier_call_on_the_same_parser"] = warm
				c.Class("c08/words: after an earlier call on the same parser")
			}
			fail := func(got, want string) {
				in["case_file"] = c.saveCase(cr)
				c.Check("command-words-select-the-chain-and-other-words-are-judged-by-the-active-command", false, "C08:words", in, got, want)
			}
			got := fmt.Sprintf("%s %s type %d %q remaining %q, %s", obs.panic, obs.errKind, obs.errType, obs.errMsg, obs.ret, obs.act)
			switch {
			case obs.panic != "":
				fail(got, "normal return")
				return
			case hasSubs && !x.SubcommandsOptional && !given:
				if !(obs.errKind == "flags" && obs.errType == int(flags.ErrCommandRequired)) {
					fail(got, "ErrCommandRequired")
					return
				}
			case hasSubs && !x.SubcommandsOptional:
				if !(obs.errKind == "flags" && obs.errType == int(flags.ErrUnknownCommand)) {
					fail(got, "ErrUnknownCommand")
					return
				}
			default:
				var wantRet []string
				if given {
					wantRet = append(wantRet, word)
					for _, t := range tail {
						if t.kind == "W" {
							wantRet = append(wantRet, t.text)
						}
					}
				}
				if obs.errKind != "ok" || (fmt.Sprintf("%q", obs.ret) != fmt.Sprintf("%q", wantRet) && !(len(obs.ret) == 0 && len(wantRet) == 0)) {
					fail(got, fmt.Sprintf("success, remaining %q", wantRet))
					return
				}
			}
			// the active chain is the path of the command words, whatever happened behind it
			if obs.act != lc.wantChain() {
				fail(got, "active chain "+lc.wantChain())
				return
			}
			c.Check("command-words-select-the-chain-and-other-words-are-judged-by-the-active-command", true, "", nil, "", "")
		})
	}
}

// ------------------------------------------------------------------------------------ C08, late declarations

// checkC08Late: a parser that has already been used (a call that walked down some command path) is
// given a further option group on one of the commands of that path and a further subcommand below its
// end; a later call must accept the new option from the end of the path onwards (ancestors' options stay
// in scope) and the new command word by name or alias.  The expected outcome is stated from the
// construction alone.
func checkC08Late(c *Ctx, n int) {
	p := defaultProfile
	p.BadDecl, p.Defaults, p.Env, p.InitVals, p.Choices, p.Required, p.PosArgs = 0, 0, 0, 0, 0, 0, 0
	p.SubOpt = 0.5
	p.MaxCmdDepth, p.MaxSubs, p.MaxFields = 3, 3, 3
	p.Handlers, p.Exec = false, false
	p.OnlyTypes = []string{"str", "bool", "bool"}
	p.OptsMask = flags.PrintErrors
	r := c.Rng
	for i := 0; i < n; i++ {
		var lc *lineCtx
		for try := 0; try < 12; try++ {
			lc = newLine(c, p, 6, func(cs *Case) {
				cs.Opts &^= flags.PassDoubleDash | flags.PassAfterNonOption | flags.IgnoreUnknown | flags.HelpFlag
			})
			if lc != nil && (i%3 == 0 || len(lc.chain) > 2) {
				break
			}
		}
		if lc == nil || lc.declared["--late-flag"] || lc.declared["-9"] || lc.isCommandWord("latecmd") || lc.isCommandWord("lc9") {
			continue
		}
		// where the option is added: any command of the path; the command: below the end of the path
		k := r.Intn(len(lc.chain))
		holder, end := lc.chain[k], lc.active()
		lateGroup := &StructDesc{Fields: []FieldDesc{{Name: "LateFlag", Exported: true, Kind: "v", Ty: "bool", Tag: `long:"late-flag" short:"9"`}}}
		lateCmd := &StructDesc{Fields: []FieldDesc{{Name: "LateInner", Exported: true, Kind: "v", Ty: "bool", Tag: `long:"late-inner"`}}}
		addOpt := Op{Kind: "build", B: &BuildOp{Kind: "addgroup", Target: lc.real.uids[holder], Short: "Late Options", Struct: lateGroup}}
		addCmd := Op{Kind: "build", B: &BuildOp{Kind: "addcommand", Target: lc.real.uids[end], Name: "latecmd", Short: "added late", Struct: lateCmd}}
		setAlias := Op{Kind: "build", B: &BuildOp{Kind: "setcmd", Target: lc.real.next, Attr: "aliases", Vals: []string{"1", hx("lc9")}}}
		useCmd, useOpt := r.Intn(3) != 0, r.Intn(4) != 0
		// the earlier call: the path itself (with or without success: a command may be required below it)
		cs := lc.cs
		cs.Ops = []Op{{Kind: "parse", Args: append([]string{}, lc.argv...)}}
		if r.Intn(2) == 0 {
			cs.Ops = append(cs.Ops, Op{Kind: "complete", Args: append(append([]string{}, lc.argv...), "")})
		}
		if useOpt {
			cs.Ops = append(cs.Ops, addOpt)
		}
		if useCmd || len(end.Commands()) > 0 && !end.SubcommandsOptional {
			useCmd = true
			cs.Ops = append(cs.Ops, addCmd, setAlias)
		}
		if !useCmd && !useOpt {
			continue
		}
		argv := append([]string{}, lc.argv...)
		spelling := []string{"--late-flag", "-9"}[r.Intn(2)]
		word := []string{"latecmd", "lc9"}[r.Intn(2)]
		optAfterCmd := r.Intn(2) == 0
		if useOpt && !(useCmd && optAfterCmd) {
			argv = append(argv, spelling)
		}
		if useCmd {
			argv = append(argv, word)
			if r.Intn(2) == 0 {
				argv = append(argv, "--late-inner")
			}
		}
		if useOpt && useCmd && optAfterCmd {
			argv = append(argv, spelling)
		}
		cs.Ops = append(cs.Ops, Op{Kind: "parse", Args: argv})
		cs.Description = describeOps(cs)
		wantAct := lc.wantChain()
		if useCmd {
			wantAct += fmt.Sprintf(" %d", lc.real.next)
		}
		c.RunCases([]*Case{cs}, func(cr *CaseResult) {
			c.classifyCase(cr)
			if cr.Real == nil || cr.Real.dead {
				return
			}
			var obs parseObs
			for _, o := range parseBlocks(cr) {
				obs = o
			}
			c.Class(fmt.Sprintf("c08/late: depth=%d option-added-at-level=%d new-option=%v new-command=%v", len(lc.chain)-1, k, useOpt, useCmd))
			in := map[string]interface{}{"case": cs.Description, "earlier_call": lc.argv, "judged_call": argv,
				"option_added_to_command": holder.Name, "command_added_below": end.Name}
			got := fmt.Sprintf("%s %s type %d %q remaining %q, %s", obs.panic, obs.errKind, obs.errType, obs.errMsg, obs.ret, obs.act)
			ok := obs.panic == "" && obs.errKind == "ok" && len(obs.ret) == 0 && obs.act == wantAct
			if ok && useOpt {
				fr, has := cr.Real.fields["LateFlag"]
				ok = has && fr.val.Bool()
				got += fmt.Sprintf(", late-flag=%v", has && fr.val.Bool())
			}
			if !ok {
				in["case_file"] = c.saveCase(cr)
			}
			c.Check("declarations-added-after-an-earlier-call-are-in-force", ok, "C08:late", in, got,
				"success, nothing remaining, "+wantAct+", the late option set if it occurs")
		})
	}
}

// ------------------------------------------------------------------------------------ C03, what the command is handed

// checkC03Handed: IgnoreUnknown with executable commands.  Unknown options in front of, between and
// behind command words; a word is a command word only while nothing has been passed through yet.  What
// must be returned - and handed, identically, to the command that runs or to the CommandHandler - is
// computed token by token from the construction.
func checkC03Handed(c *Ctx, n int) {
	r := c.Rng
	for i := 0; i < n; i++ {
		cs := &Case{Name: "app", NsDelim: ".", EnvNsDelim: "_", Opts: flags.IgnoreUnknown}
		if r.Intn(2) == 0 {
			cs.Opts |= flags.PassDoubleDash
		}
		cs.CmdHandler = r.Intn(2) == 0
		root := &StructDesc{Fields: []FieldDesc{{Name: "V", Exported: true, Kind: "v", Ty: "bool", Tag: `short:"v" long:"verbose"`}}}
		cs.Build = []BuildOp{
			{Kind: "addgroup", Target: 1, Short: "Application Options", Struct: root},
			{Kind: "setcmd", Target: 1, Attr: "subopt", Vals: []string{"1"}},
			{Kind: "addcommand", Target: 1, Name: "outer", Short: "outer command", Struct: &StructDesc{}, Commander: 1},
			{Kind: "setcmd", Target: 2, Attr: "subopt", Vals: []string{"1"}},
			{Kind: "addcommand", Target: 2, Name: "inner", Short: "inner command", Struct: &StructDesc{}, Commander: 1},
			{Kind: "addcommand", Target: 1, Name: "other", Short: "other command", Struct: &StructDesc{}, Commander: 1},
		}
		// uids: 1 app, 2 outer, 3 inner, 4 other
		subs := map[int]map[string]int{1: {"outer": 2, "other": 4}, 2: {"inner": 3}, 3: {}, 4: {}}
		var argv, want []string
		active := 1
		term := false
		unk := func() string { return []string{"--trace", "-x", "--nosuch=1", "-q=2"}[r.Intn(4)] }
		for j, k := 0, 2+r.Intn(6); j < k; j++ {
			var t string
			switch x := r.Intn(8); {
			case x == 0:
				t = "-v"
			case x <= 2:
				t = unk()
			case x == 3 && cs.Opts&flags.PassDoubleDash != 0:
				t = "--"
			case x <= 5:
				t = []string{"outer", "inner", "other"}[r.Intn(3)]
			default:
				t = fmt.Sprintf("w%d", j)
			}
			argv = append(argv, t)
			switch {
			case term:
				want = append(want, t)
			case t == "--":
				term = true
			case t == "-v":
			case strings.HasPrefix(t, "-"):
				want = append(want, t)
			default:
				if id, ok := subs[active][t]; ok && len(want) == 0 {
					active = id
				} else {
					want = append(want, t)
				}
			}
		}
		cs.Ops = []Op{{Kind: "parse", Args: argv}}
		cs.Description = describeOps(cs)
		c.RunCases([]*Case{cs}, func(cr *CaseResult) {
			c.classifyCase(cr)
			if cr.Real == nil || cr.Real.dead {
				return
			}
			var obs parseObs
			for _, o := range parseBlocks(cr) {
				obs = o
			}
			c.Class(fmt.Sprintf("c03/handed: active-depth=%d passed=%d handler=%v", map[int]int{1: 0, 2: 1, 3: 2, 4: 1}[active], len(want), cs.CmdHandler))
			in := map[string]interface{}{"case": cs.Description, "argv": argv}
			var handed []string
			for _, l := range obs.logs {
				if strings.HasPrefix(l, "LOG exec ") || strings.HasPrefix(l, "LOG cmdhandler ") {
					ws := strings.Fields(l)
					handed = append(handed, ws[1]+" "+ws[2]+" "+decodeLine(strings.Join(ws[3:], " ")))
				}
			}
			wantRet := fmt.Sprintf("%q", want)
			// who is told: the CommandHandler (with the command, or nil when none was selected), which then
			// runs the command; without a handler the command itself
			var wantHanded []string
			rest := decodeLine(hxList(want))
			if cs.CmdHandler {
				if active == 1 {
					wantHanded = append(wantHanded, "cmdhandler nil "+rest)
				} else {
					wantHanded = append(wantHanded, fmt.Sprintf("cmdhandler %d %s", active, rest), fmt.Sprintf("exec %d %s", active, rest))
				}
			} else if active != 1 {
				wantHanded = append(wantHanded, fmt.Sprintf("exec %d %s", active, rest))
			}
			ok := obs.panic == "" && obs.errKind == "ok" && (fmt.Sprintf("%q", obs.ret) == wantRet || len(obs.ret) == 0 && len(want) == 0) &&
				strings.Join(handed, " | ") == strings.Join(wantHanded, " | ")
			if !ok {
				in["case_file"] = c.saveCase(cr)
			}
			c.Check("the-command-is-handed-exactly-the-unconsumed-tokens", ok, "C03:handed", in,
				fmt.Sprintf("%s %s %q returned %q; handed: %s", obs.panic, obs.errKind, obs.errMsg, obs.ret, strings.Join(handed, " | ")),
				fmt.Sprintf("success, returned %s; handed: %s", wantRet, strings.Join(wantHanded, " | ")))
		})
	}
}

// checkC07Repeated: SEVERAL unknown options on one line under an identity handler — the same token twice or three
// times in a row, the same token with something between, different tokens in a row, with and without inline
// arguments: the handler is called exactly once for EACH of them, in order, each time with the name, the inline
// argument and exactly the arguments not yet consumed; since it returns them unchanged, parsing goes on behind each.
func checkC07Repeated(c *Ctx, n int) {
	r := c.Rng
	for i := 0; i < n; i++ {
		root := &StructDesc{Fields: []FieldDesc{
			{Name: "Verbose", Exported: true, Kind: "v", Ty: "Lbool", Tag: `short:"v" long:"verbose"`},
			{Name: "Name", Exported: true, Kind: "v", Ty: "Lstr", Tag: `short:"n" long:"name"`}}}
		cs := &Case{Name: "app", NsDelim: ".", EnvNsDelim: "_", Handler: "identity"}
		if r.Intn(2) == 0 {
			cs.Opts |= flags.PassDoubleDash
		}
		cs.Build = []BuildOp{{Kind: "addgroup", Target: 1, Short: "Application Options", Struct: root}}
		unk := [][2]string{{"--trace", "trace"}, {"-x", "x"}, {"--trace=1", "trace"}, {"-é", "é"}, {"-x=7", "x"}, {"--t", "t"}}
		type ev struct{ name, arg string }
		var argv []string
		var want []ev
		var wantRest [][]string // filled afterwards
		var posOfUnknown []int
		add := func(u [2]string) {
			posOfUnknown = append(posOfUnknown, len(argv))
			argv = append(argv, u[0])
			a := "-"
			if k := strings.Index(u[0], "="); k >= 0 {
				a = u[0][k+1:]
			}
			want = append(want, ev{u[1], a})
		}
		known := func() {
			switch r.Intn(3) {
			case 0:
				argv = append(argv, "-v")
			case 1:
				argv = append(argv, "--name=k")
			case 2:
				argv = append(argv, "word")
			}
		}
		for j := r.Intn(2); j > 0; j-- {
			known()
		}
		u := unk[r.Intn(len(unk))]
		switch r.Intn(4) {
		case 0: // the same token twice in a row
			add(u)
			add(u)
		case 1: // three times
			add(u)
			add(u)
			add(u)
		case 2: // the same token with something between
			add(u)
			known()
			add(u)
		case 3: // different tokens in a row
			add(u)
			add(unk[r.Intn(len(unk))])
		}
		for j := r.Intn(3); j > 0; j-- {
			known()
		}
		for _, p := range posOfUnknown {
			wantRest = append(wantRest, argv[p+1:])
		}
		var words []string
		for _, a := range argv {
			if a == "word" {
				words = append(words, a)
			}
		}
		cs.Ops = []Op{{Kind: "parse", Args: argv}}
		cs.Description = describeOps(cs)
		c.RunCases([]*Case{cs}, func(cr *CaseResult) {
			c.classifyCase(cr)
			if cr.Real == nil || cr.Real.dead {
				return
			}
			var obs parseObs
			for _, o := range parseBlocks(cr) {
				obs = o
			}
			var calls [][]string
			for _, l := range obs.logs {
				if strings.HasPrefix(l, "LOG unknown ") {
					calls = append(calls, strings.Fields(l)[2:])
				}
			}
			c.Class(fmt.Sprintf("c07/repeated: unknown options on the line=%d", len(want)))
			ok := obs.panic == "" && obs.errKind == "ok" && len(calls) == len(want) &&
				(fmt.Sprintf("%q", obs.ret) == fmt.Sprintf("%q", words) || (len(obs.ret) == 0 && len(words) == 0))
			if ok {
				for k, cl := range calls {
					name, _ := unhx(cl[0])
					arg := "-"
					if cl[1] != "-" {
						arg, _ = unhx(cl[1])
					}
					if name != want[k].name || arg != want[k].arg || strings.Join(cl[2:], " ") != hxList(wantRest[k]) {
						ok = false
					}
				}
			}
			in := map[string]interface{}{"case": cs.Description, "argv": argv}
			if !ok {
				in["case_file"] = c.saveCase(cr)
			}
			var wantS []string
			for k, w := range want {
				wantS = append(wantS, fmt.Sprintf("(%q, argument %q, arguments %q)", w.name, w.arg, wantRest[k]))
			}
			var gotS []string
			for _, cl := range calls {
				gotS = append(gotS, strings.Join(decodeAll(cl, 40), " "))
			}
			c.Check("the-handler-is-called-once-for-every-unknown-option", ok, "C07:repeated-unknown",
				in, fmt.Sprintf("%s %s type %d %q remaining %q, handler calls %q", obs.panic, obs.errKind, obs.errType, obs.errMsg, obs.ret, gotS),
				fmt.Sprintf("success, remaining %q, handler calls %s", words, strings.Join(wantS, " ")))
		})
	}
}
