package main

// Client side of the Lean model driver (line protocol, DESIGN.md 2.3):
// requests go to the driver's stdin, one response line per request comes back on
// stdout; oracle misses are reported on the driver's stderr as "MISS <query>".
// A batch is bracketed by "sync", answered by "SYNC" on both streams.

import (
	"bufio"
	"encoding/hex"
	"fmt"
	"io"
	"math"
	"os"
	"os/exec"
	"strconv"
	"strings"
	"time"
	"unicode"
)

type Driver struct {
	cmd    *exec.Cmd
	in     *bufio.Writer
	out    *bufio.Reader
	errs   chan string
	oracle map[string]bool // oracle lines already sent
	Misses int
	Sent   int
}

func StartDriver(path string) (*Driver, error) {
	cmd := exec.Command(path)
	stdin, err := cmd.StdinPipe()
	if err != nil {
		return nil, err
	}
	stdout, err := cmd.StdoutPipe()
	if err != nil {
		return nil, err
	}
	stderr, err := cmd.StderrPipe()
	if err != nil {
		return nil, err
	}
	if err := cmd.Start(); err != nil {
		return nil, err
	}
	d := &Driver{cmd: cmd, in: bufio.NewWriterSize(stdin, 1<<20), out: bufio.NewReaderSize(stdout, 1<<20),
		errs: make(chan string, 4096), oracle: map[string]bool{}}
	go func() {
		r := bufio.NewReaderSize(stderr, 1<<16)
		for {
			line, err := r.ReadString('\n')
			if len(line) > 0 {
				d.errs <- strings.TrimRight(line, "\n")
			}
			if err != nil {
				close(d.errs)
				return
			}
		}
	}()
	return d, nil
}

func (d *Driver) Close() {
	d.in.Flush()
	if c, ok := d.cmd.Stdin.(io.Closer); ok {
		c.Close()
	}
	d.cmd.Process.Kill()
	d.cmd.Wait()
}

func hx(s string) string { return "x" + hex.EncodeToString([]byte(s)) }

func unhx(s string) (string, error) {
	if !strings.HasPrefix(s, "x") {
		return "", fmt.Errorf("bad hex arg %q", s)
	}
	b, err := hex.DecodeString(s[1:])
	return string(b), err
}

func hxList(ss []string) string {
	var b strings.Builder
	b.WriteString(strconv.Itoa(len(ss)))
	for _, s := range ss {
		b.WriteByte(' ')
		b.WriteString(hx(s))
	}
	return b.String()
}

// answerMiss computes an oracle answer from the real standard library, never through go-flags.
func answerMiss(q string) (string, error) {
	ws := strings.Fields(q)
	if len(ws) == 0 {
		return "", fmt.Errorf("empty miss")
	}
	switch ws[0] {
	case "isprint":
		r, err := strconv.Atoi(ws[1])
		if err != nil {
			return "", err
		}
		v := "0"
		if strconv.IsPrint(rune(r)) {
			v = "1"
		}
		return fmt.Sprintf("oracle isprint %d %s", r, v), nil
	case "tolower":
		r, err := strconv.Atoi(ws[1])
		if err != nil {
			return "", err
		}
		return fmt.Sprintf("oracle tolower %d %d", r, unicode.ToLower(rune(r))), nil
	case "parsefloat":
		bits, _ := strconv.Atoi(ws[1])
		s, err := unhx(ws[2])
		if err != nil {
			return "", err
		}
		v, perr := strconv.ParseFloat(s, bits)
		if perr != nil {
			return fmt.Sprintf("oracle parsefloat %d %s err %s", bits, ws[2], hx(perr.Error())), nil
		}
		return fmt.Sprintf("oracle parsefloat %d %s ok %d", bits, ws[2], math.Float64bits(v)), nil
	case "fmtfloat":
		bits, _ := strconv.Atoi(ws[1])
		v, err := strconv.ParseUint(ws[2], 10, 64)
		if err != nil {
			return "", err
		}
		return fmt.Sprintf("oracle fmtfloat %d %d %s", bits, v, hx(strconv.FormatFloat(math.Float64frombits(v), 'g', -1, bits))), nil
	case "parsedur":
		s, err := unhx(ws[1])
		if err != nil {
			return "", err
		}
		v, perr := time.ParseDuration(s)
		if perr != nil {
			return fmt.Sprintf("oracle parsedur %s err %s", ws[1], hx(perr.Error())), nil
		}
		return fmt.Sprintf("oracle parsedur %s ok %d", ws[1], int64(v)), nil
	case "fmtdur":
		v, err := strconv.ParseInt(ws[1], 10, 64)
		if err != nil {
			return "", err
		}
		return fmt.Sprintf("oracle fmtdur %d %s", v, hx(time.Duration(v).String())), nil
	}
	return "", fmt.Errorf("unknown oracle query %q", q)
}

// Ask sends the request lines (each expecting exactly one response line) and returns the
// responses. Oracle misses are answered and the batch is re-sent until none remain.
func (d *Driver) Ask(reqs []string) ([]string, error) {
	for attempt := 0; attempt < 50; attempt++ {
		werr := make(chan error, 1)
		go func() {
			for _, r := range reqs {
				d.in.WriteString(r)
				d.in.WriteByte('\n')
			}
			d.in.WriteString("sync\n")
			werr <- d.in.Flush()
		}()
		d.Sent += len(reqs)
		resps := make([]string, 0, len(reqs))
		for {
			line, err := d.out.ReadString('\n')
			if err != nil {
				return nil, fmt.Errorf("driver died: %v", err)
			}
			line = strings.TrimRight(line, "\n")
			if line == "SYNC" {
				break
			}
			resps = append(resps, line)
		}
		var misses []string
		for {
			line, ok := <-d.errs
			if !ok {
				return nil, fmt.Errorf("driver stderr closed")
			}
			if line == "SYNC" {
				break
			}
			if strings.HasPrefix(line, "MISS ") {
				misses = append(misses, line[5:])
			} else {
				fmt.Fprintln(os.Stderr, "driver:", line)
			}
		}
		<-werr
		if len(misses) == 0 {
			if len(resps) != len(reqs) {
				return nil, fmt.Errorf("driver answered %d lines for %d requests", len(resps), len(reqs))
			}
			return resps, nil
		}
		for _, m := range misses {
			ans, err := answerMiss(m)
			if err != nil {
				return nil, err
			}
			if !d.oracle[ans] {
				d.oracle[ans] = true
				d.Misses++
				d.in.WriteString(ans)
				d.in.WriteByte('\n')
			}
		}
	}
	return nil, fmt.Errorf("oracle misses did not converge")
}

// Oracle sends explicit oracle lines (environment variables etc.).
func (d *Driver) Oracle(line string) {
	d.in.WriteString("oracle " + line + "\n")
}
