package main

// C05, indirect collections (against the library alone: pointers to slices and maps, and a type whose
// own conversion accumulates, are outside the model's universe of field types).  Every source of a
// value carries recognisable elements; the option must end with exactly the elements of the highest
// ranked source that provides any — command line, environment, default tags, what the program stored.

import (
	"fmt"
	"os"
	"reflect"
	"sort"
	"strings"

	flags "github.com/jessevdk/go-flags"
)

// accumList: a struct whose UnmarshalFlag collects every value it is given
type accumList struct{ Items []string }

func (a *accumList) UnmarshalFlag(v string) error { a.Items = append(a.Items, v); return nil }

func checkC05Exotic(c *Ctx, n int) {
	r := c.Rng
	strSliceT := reflect.TypeOf([]string{})
	intSliceT := reflect.TypeOf([]int{})
	mapT := reflect.TypeOf(map[string]int{})
	for i := 0; i < n; i++ {
		kind := []string{"*[]string", "*[]int", "*map[string]int", "[]string", "accum", "**[]string"}[r.Intn(6)]
		el := func(src string, k int) string {
			switch kind {
			case "*[]int":
				return fmt.Sprint(map[string]int{"init": 100, "def": 200, "env": 300, "cli": 400}[src] + k)
			case "*map[string]int":
				return fmt.Sprintf("%s%d:%d", src, k, k)
			}
			return fmt.Sprintf("%s%d", src, k)
		}
		var t reflect.Type
		switch kind {
		case "*[]string":
			t = reflect.PtrTo(strSliceT)
		case "**[]string":
			t = reflect.PtrTo(reflect.PtrTo(strSliceT))
		case "*[]int":
			t = reflect.PtrTo(intSliceT)
		case "*map[string]int":
			t = reflect.PtrTo(mapT)
		case "[]string":
			t = strSliceT
		case "accum":
			t = reflect.TypeOf(accumList{})
		}
		hasInit := r.Intn(3) != 0
		nDef, envSet, nCli := r.Intn(3), r.Intn(3) == 0, r.Intn(3)
		if kind == "accum" {
			nCli = 0 // (what occurrences do to a value of a type with its own conversion is that type's business)
		}
		tag := `long:"coll" short:"c"`
		var def, env, cli, init []string
		for k := 0; k < nDef; k++ {
			def = append(def, el("def", k))
			tag += fmt.Sprintf(` default:"%s"`, el("def", k))
		}
		if r.Intn(2) == 0 || envSet {
			tag += ` env:"VF_COLL" env-delim:","`
			if envSet {
				env = []string{el("env", 0), el("env", 1)}
			}
		} else {
			envSet = false
		}
		st := reflect.StructOf([]reflect.StructField{{Name: "Coll", Type: t, Tag: reflect.StructTag(tag)}})
		v := reflect.New(st)
		fv := v.Elem().Field(0)
		if hasInit {
			init = []string{el("init", 0), el("init", 1)}
			inner := reflect.New(fv.Type()).Elem()
			// build the initial value through the library's own conversion on a scratch parser? no: by hand
			var base reflect.Value
			switch kind {
			case "*[]int":
				base = reflect.ValueOf([]int{100, 101})
			case "*map[string]int":
				base = reflect.ValueOf(map[string]int{"init0": 0, "init1": 1})
			case "accum":
				base = reflect.ValueOf(accumList{Items: []string{"init0", "init1"}})
			default:
				base = reflect.ValueOf([]string{"init0", "init1"})
			}
			for base.Type() != inner.Type() {
				p := reflect.New(base.Type())
				p.Elem().Set(base)
				base = p
			}
			fv.Set(base)
		}
		var argv []string
		for k := 0; k < nCli; k++ {
			cli = append(cli, el("cli", k))
			argv = append(argv, []string{"--coll=" + el("cli", k), "-c" + el("cli", k)}[r.Intn(2)])
		}
		if envSet {
			os.Setenv("VF_COLL", strings.Join(env, ","))
		}
		var err error
		pan := safe(func() {
			_, err = flags.NewParser(v.Interface(), flags.None).ParseArgs(argv)
		})
		os.Unsetenv("VF_COLL")
		c.R.Evaluations++
		var want []string
		var src string
		switch {
		case len(cli) > 0:
			want, src = cli, "command line"
		case envSet:
			want, src = env, "environment"
		case len(def) > 0:
			want, src = def, "default tags"
		default:
			want, src = init, "stored value"
		}
		// render what the field holds
		var have []string
		cur := fv
		for cur.Kind() == reflect.Ptr && !cur.IsNil() {
			cur = cur.Elem()
		}
		switch cur.Kind() {
		case reflect.Slice:
			for k := 0; k < cur.Len(); k++ {
				have = append(have, fmt.Sprint(cur.Index(k).Interface()))
			}
		case reflect.Map:
			for _, mk := range cur.MapKeys() {
				have = append(have, fmt.Sprintf("%s:%d", mk.String(), cur.MapIndex(mk).Int()))
			}
			sort.Strings(have)
		case reflect.Struct:
			have = append(have, cur.Field(0).Interface().([]string)...)
		}
		desc := fmt.Sprintf("field of type %s, tag `%s`, stored=%v env=%v argv=%q", t, tag, init, env, argv)
		c.Distinct("c05exotic|" + desc)
		c.Class(fmt.Sprintf("c05/indirect-collection type=%s source=%s", kind, src))
		in := map[string]interface{}{"declaration": fmt.Sprintf("field of type %s, tag `%s`", t, tag), "stored_beforehand": init, "environment": env, "argv": argv, "highest_ranked_source": src}
		got := fmt.Sprintf("%q", have)
		if pan != nil {
			got = fmt.Sprintf("panic: %v", pan)
		} else if err != nil {
			got = "error: " + err.Error()
		}
		ok := pan == nil && err == nil && fmt.Sprintf("%q", have) == fmt.Sprintf("%q", want)
		key := "C05:indirect-collection"
		if ok || pan != nil || err != nil {
			c.Check("collection-holds-the-elements-of-the-highest-ranked-source", ok, key, in, got, fmt.Sprintf("%q", want))
			continue
		}
		c.Check("collection-holds-the-elements-of-the-highest-ranked-source", false, key, in, got, fmt.Sprintf("%q (the elements of the %s and nothing else)", want, src))
	}
}

// checkC05SharedStorage: two slice options that the program initialised FROM THE SAME SLICE (built-in defaults
// assigned to both: one backing array).  One of them gets a value from a higher-ranked source — command line,
// environment, default tag, ini entry; the other occurs nowhere and has no tag: it ends with what the program
// stored, element for element.
func checkC05SharedStorage(c *Ctx, n int) {
	r := c.Rng
	type optsT struct {
		Include []string `long:"include" env:"VERIF_C05_INCLUDE" env-delim:","`
		Watch   []string `long:"watch"`
		Tagged  []string `long:"tagged" default:"gen" default:"api"`
		Keep    []string `long:"keep"`
	}
	for i := 0; i < n; i++ {
		builtin := make([]string, 2, 2+r.Intn(3))
		builtin[0], builtin[1] = "src", "lib"
		var o optsT
		o.Include, o.Watch = builtin, builtin
		o.Tagged, o.Keep = builtin, builtin
		src := []string{"command line", "environment", "default tag", "ini entry", "ini entry as defaults"}[r.Intn(5)]
		p := flags.NewParser(&o, flags.None)
		var argv []string
		os.Unsetenv("VERIF_C05_INCLUDE")
		var err error
		var pan interface{}
		var wantInclude, wantTagged = []string{"src", "lib"}, []string{"gen", "api"}
		switch src {
		case "command line":
			argv = []string{"--include", "gen", "--include=out"}[:1+2*r.Intn(2)]
			if len(argv) == 1 {
				argv = []string{"--include=gen"}
				wantInclude = []string{"gen"}
			} else {
				wantInclude = []string{"gen", "out"}
			}
		case "environment":
			os.Setenv("VERIF_C05_INCLUDE", "gen,api")
			wantInclude = []string{"gen", "api"}
		case "default tag":
			// (Tagged always takes its default tags; nothing else is given)
		case "ini entry", "ini entry as defaults":
			ip := flags.NewIniParser(p)
			ip.ParseAsDefaults = src == "ini entry as defaults"
			pan = safe(func() { err = ip.Parse(strings.NewReader("[Application Options]\ninclude = gen\n")) })
			wantInclude = []string{"gen"}
		}
		if pan == nil && err == nil {
			pan = safe(func() { _, err = p.ParseArgs(argv) })
		}
		os.Unsetenv("VERIF_C05_INCLUDE")
		c.R.Evaluations++
		got := fmt.Sprintf("panic=%v err=%v include=%q tagged=%q watch=%q keep=%q", pan, err, o.Include, o.Tagged, o.Watch, o.Keep)
		want := fmt.Sprintf("panic=<nil> err=<nil> include=%q tagged=%q watch=%q keep=%q", wantInclude, wantTagged, []string{"src", "lib"}, []string{"src", "lib"})
		c.Distinct(fmt.Sprintf("c05shared|%s|%d|%v", src, cap(builtin), argv))
		c.Class("c05/shared-storage: " + src)
		in := map[string]interface{}{"declaration": "Include, Watch, Tagged, Keep []string all assigned ONE slice {src, lib} by the program; Include has an env tag, Tagged two default tags", "higher_ranked_source_for_include": src, "argv": argv, "capacity_of_the_shared_slice": cap(builtin)}
		c.Check("an-option-that-does-not-occur-keeps-what-the-program-stored", got == want, "C05:shared-storage", in, got, want)
	}
}
