package main

// C18 oracles that do not go through the model: what completion offers is checked against the
// parser itself (its own parse of the already-typed words, and its parse of those words followed by
// each offered item) and against the public model of the declarations.

import (
	"fmt"
	"sort"
	"strings"

	flags "github.com/jessevdk/go-flags"
)

// probe runs `parse argv` on a fresh parser of the same case (implementation and model, compared as
// any other case) and returns the result.
func (c *Ctx) probe(cs *Case, argv []string) *CaseResult {
	cp := *cs
	cp.Ops = []Op{{Kind: "parse", Args: append([]string{}, argv...)}}
	cp.Description = describeOps(&cp)
	var res *CaseResult
	c.RunCases([]*Case{&cp}, func(cr *CaseResult) { res = cr })
	lastProbe = res
	return res
}

var lastProbe *CaseResult

// refOf: the "uid.gi.oi" reference of an option of r's parser (as in the observation lines)
func (r *Real) refOf(o *flags.Option) string {
	r.register()
	for _, cmd := range r.commandsPreorder() {
		for gi, g := range allGroups(cmd) {
			for oi, x := range g.Options() {
				if x == o {
					return fmt.Sprintf("%d.%d.%d", r.uids[cmd], gi, oi)
				}
			}
		}
	}
	return ""
}

type probeOut struct {
	ok      bool // a RET line was produced
	errKind string
	errType int
	ret     []string
	set     map[string]bool // option reference -> IsSet
	act     string
}

func readProbe(cr *CaseResult) probeOut {
	var p probeOut
	p.set = map[string]bool{}
	if cr == nil {
		return p
	}
	for _, o := range parseBlocks(cr) {
		if o.panic != "" {
			return p
		}
		p.ok = true
		p.errKind, p.errType, p.ret, p.act = o.errKind, o.errType, o.ret, o.act
		for _, l := range o.values {
			ws := strings.Fields(l)
			if len(ws) >= 5 {
				p.set[ws[1]] = ws[3] == "1"
			}
		}
	}
	return p
}

// activeChain of a parser after a parse: root … innermost
func activeChain(p *flags.Parser) []*flags.Command {
	var out []*flags.Command
	for c := p.Command; c != nil; c = c.Active {
		out = append(out, c)
	}
	return out
}

// scopeOption finds the option a spelling ("--long.name" or "-x") denotes in the scope of the chain
// (innermost command first); ambiguous when one command declares the spelling twice (possible
// through separate AddGroup calls: which one the parser's table keeps is not part of the public model)
func scopeOption(chain []*flags.Command, item string) (*flags.Option, bool) {
	for i := len(chain) - 1; i >= 0; i-- {
		var found []*flags.Option
		for _, g := range allGroups(chain[i]) {
			for _, o := range g.Options() {
				if o.LongName != "" && "--"+o.LongNameWithNamespace() == item {
					found = append(found, o)
				} else if o.ShortName != 0 && "-"+string(o.ShortName) == item {
					found = append(found, o)
				}
			}
		}
		if len(found) > 0 {
			return found[0], len(found) > 1
		}
	}
	return nil, false
}

// probeValue: a word the option's type accepts
func probeValue(code string, o *flags.Option) (string, bool) {
	if len(o.Choices) > 0 {
		return o.Choices[0], true
	}
	switch {
	case code == "bool" || code == "Pbool" || strings.HasPrefix(code, "F"):
		return "", false
	case strings.HasPrefix(code, "M"):
		return "k:1", true
	}
	return "1", true
}

func validPrefixErr(p probeOut) bool {
	return p.ok && (p.errKind == "ok" || p.errKind == "flags" && (p.errType == int(flags.ErrRequired) || p.errType == int(flags.ErrCommandRequired)))
}

// oracleCompletion: cr is the result of `complete args` on case cs.
func oracleCompletion(c *Ctx, cs *Case, cr *CaseResult, args []string, items []string) {
	if len(args) == 0 {
		return
	}
	prefix, last := args[:len(args)-1], args[len(args)-1]
	for _, w := range prefix {
		if strings.Contains(w, "%") {
			return
		}
	}
	in := func() map[string]interface{} {
		m := map[string]interface{}{"case": cs.Description, "args": args, "offered": items, "case_file": c.saveCase(cr)}
		if lastProbe != nil {
			m["last_probe_case_file"] = c.saveCase(lastProbe)
		}
		return m
	}
	chk := func(name string, ok bool, key, got, want string) {
		if ok {
			c.Check(name, true, "", nil, "", "")
		} else {
			c.Check(name, false, key, in(), got, want)
		}
	}
	// the parser's own parse of the already-typed words
	r0 := c.probe(cs, prefix)
	p0 := readProbe(r0)
	// valid prefix: the parser's loop went over all the words (an error found afterwards - a missing
	// required option or command - is fine).  On an error the parser returns the word it stopped at
	// and everything behind it, so more than one returned word means it stopped early.
	if !validPrefixErr(p0) || r0.Real == nil || r0.Real.dead || (p0.errKind != "ok" && len(p0.ret) > 1) {
		c.Class("c18/oracle: prefix not a valid command-line prefix")
		return
	}
	chain := activeChain(r0.Real.p)
	inner := chain[len(chain)-1]
	opts := flags.Options(cs.Opts)
	terminated := false
	if opts&flags.PassDoubleDash != 0 {
		for _, w := range prefix {
			if w == "--" {
				terminated = true
			}
		}
	}
	ignoreUnknown := opts&flags.IgnoreUnknown != 0
	if !terminated {
		if ignoreUnknown {
			if opts&flags.PassAfterNonOption != 0 {
				c.Class("c18/oracle: PassAfterNonOption+IgnoreUnknown not judged")
				return
			}
		} else {
			// a sentinel word that looks like an option no declaration knows: reported as an unknown
			// flag iff the parser went over the whole prefix and still looks for options
			const Z = "--zz-no-such-option-zz"
			pz := readProbe(c.probe(cs, append(append([]string{}, prefix...), Z)))
			switch {
			case !pz.ok:
				return
			case pz.errKind == "flags" && pz.errType == int(flags.ErrUnknownFlag):
			case pz.errKind == "ok", validPrefixErr(pz) && len(pz.ret) == 1 && pz.ret[0] == Z:
				terminated = true
			default:
				c.Class("c18/oracle: prefix not a valid command-line prefix")
				return
			}
		}
	}
	isOptWord := strings.HasPrefix(last, "-") && last != "" && !strings.Contains(last, "=")
	namesPosition := isOptWord && (last == "-" || strings.HasPrefix(last, "--"))
	switch {
	case namesPosition:
		c.Class(fmt.Sprintf("c18/oracle: option-name position terminated=%v", terminated))
		// (a) every offered option is an option of the context and the parser takes it as that option
		for _, it := range items {
			if !strings.HasPrefix(it, "-") {
				continue
			}
			if strings.Contains(it[1:], "=") || it == "-" || it == "--" {
				continue
			}
			o, ambiguous := scopeOption(chain, it)
			if ambiguous {
				c.Class("c18/oracle: spelling declared twice in one command, not judged")
				continue
			}
			if o == nil {
				c.Check("offered-option-is-in-context", false, "C18:offered-option-not-in-context", in(), it, "an option of the command context the parser reached")
				continue
			}
			c.Check("offered-option-is-in-context", true, "", nil, "", "")
			if o.Hidden {
				c.Check("offered-option-is-visible", false, "C18:hidden-offered", in(), it, "not offered")
				continue
			}
			ref := r0.Real.refOf(o)
			if p0.set[ref] {
				c.Class("c18/oracle: option already given in the prefix")
				continue
			}
			argv := append(append([]string{}, prefix...), it)
			if v, need := probeValue(r0.Real.optCode(o), o); need && !o.OptionalArgument {
				argv = append(argv, v)
			}
			p1 := readProbe(c.probe(cs, argv))
			if !p1.ok {
				continue
			}
			isHelp := p1.errKind == "flags" && p1.errType == int(flags.ErrHelp)
			switch {
			case p1.errKind == "flags" && p1.errType == int(flags.ErrUnknownFlag):
				c.Check("offered-option-is-accepted", false, "C18:offered-option-rejected", in(), it+": unknown flag", "accepted at that position")
			case isHelp:
				c.Check("offered-option-is-accepted", true, "", nil, "", "")
			case validPrefixErr(p1):
				// taken as the option: it is marked set (an optional-argument option without an
				// optional-value is emptied, not marked), and on success the word is not handed back
				count := func(l []string) int {
					n := 0
					for _, w := range l {
						if w == it {
							n++
						}
					}
					return n
				}
				if ignoreUnknown && p1.errKind != "ok" && len(p1.ret) > 1 {
					// (the parser may have stopped before the offered word: cannot be told apart here)
					c.Class("c18/oracle: probe inconclusive")
					continue
				}
				marks := !(o.OptionalArgument && len(o.OptionalValue) == 0)
				okp := true
				got := "parsed as the option"
				if marks && !p1.set[ref] {
					okp = false
					got = fmt.Sprintf("%s was not taken as the option (not marked as set; remaining args %q)", it, p1.ret)
				} else if p1.errKind == "ok" && p0.errKind == "ok" && count(p1.ret) > count(p0.ret) {
					okp = false
					got = fmt.Sprintf("%s was handed back as a remaining argument %q", it, p1.ret)
				} else if !marks && p1.errKind != "ok" {
					c.Class("c18/oracle: probe inconclusive")
					continue
				}
				chk("offered-option-is-accepted", okp, "C18:offered-option-not-parsed-as-option", got, "parsed as the option")
			default:
				c.Class("c18/oracle: probe inconclusive")
			}
		}
		// (c) a bare dash: every visible option the parser would accept here is offered under SOME spelling that
		// reaches it (an outer option whose long name an inner command declares again is reachable by its
		// short name only — then that one must be there)
		if last == "-" && !terminated {
			got := map[string]bool{}
			for _, it := range items {
				got[it] = true
			}
			for _, cmd := range chain {
				for _, g := range allGroups(cmd) {
					for _, o := range g.Options() {
						if o.Hidden || g.Hidden {
							continue
						}
						var reach []string
						judged := true
						if o.LongName != "" {
							so, amb := scopeOption(chain, "--"+o.LongNameWithNamespace())
							if amb {
								judged = false
							} else if so == o {
								reach = append(reach, "--"+o.LongNameWithNamespace())
							}
						}
						if o.ShortName != 0 && o.ShortName != '=' {
							so, amb := scopeOption(chain, "-"+string(o.ShortName))
							if amb {
								judged = false
							} else if so == o {
								reach = append(reach, "-"+string(o.ShortName))
							}
						}
						if !judged || len(reach) == 0 {
							continue
						}
						offered := false
						for _, sp := range reach {
							if got[sp] {
								offered = true
							}
						}
						if !offered {
							c.Check("every-reachable-option-is-offered-for-a-bare-dash", false, "C18:reachable-option-not-offered", in(), fmt.Sprintf("%q", items), fmt.Sprintf("one of %q among the items", reach))
						} else {
							c.Check("every-reachable-option-is-offered-for-a-bare-dash", true, "", nil, "", "")
						}
					}
				}
			}
		}
		// (b) exactly the visible long options of the context with that prefix
		if strings.HasPrefix(last, "--") {
			m := last[2:]
			want := map[string]bool{}
			ambiguousSet := false
			if !terminated {
				for _, cmd := range chain {
					for _, g := range allGroups(cmd) {
						for _, o := range g.Options() {
							if o.LongName != "" && !strings.Contains(o.LongNameWithNamespace(), "=") && strings.HasPrefix(o.LongNameWithNamespace(), m) {
								// an inner option shadows an outer one of the same name: visibility is the inner one's
								if so, amb := scopeOption(chain, "--"+o.LongNameWithNamespace()); amb {
									ambiguousSet = true
								} else if so != nil && !so.Hidden {
									want["--"+o.LongNameWithNamespace()] = true
								}
							}
						}
					}
				}
			}
			got := map[string]bool{}
			for _, it := range items {
				if !strings.Contains(it[1:], "=") {
					got[it] = true
				}
			}
			ok := len(got) == len(want)
			for k := range want {
				if !got[k] {
					ok = false
				}
			}
			if ambiguousSet {
				c.Class("c18/oracle: spelling declared twice in one command, not judged")
			} else if ok {
				c.Check("long-options-offered-exactly", true, "", nil, "", "")
			} else {
				c.Check("long-options-offered-exactly", false, "C18:long-option-set", in(), fmt.Sprintf("%q", sortedKeys(got)), fmt.Sprintf("%q", sortedKeys(want)))
			}
		}
	case !strings.HasPrefix(last, "-") && len(inner.Args()) == 0:
		c.Class(fmt.Sprintf("c18/oracle: command position terminated=%v", terminated))
		// expected: the visible subcommands with that prefix which the parser, given the word at that
		// position, takes as the command
		accepted := func(name string) (bool, string) {
			rp := c.probe(cs, append(append([]string{}, prefix...), name))
			p1 := readProbe(rp)
			if !p1.ok || rp.Real == nil {
				return false, "probe failed"
			}
			if p1.errKind == "flags" && p1.errType == int(flags.ErrUnknownCommand) {
				return false, "unknown command"
			}
			ch := activeChain(rp.Real.p)
			if len(ch) != len(chain)+1 {
				return false, fmt.Sprintf("active chain has %d commands, innermost %q", len(ch), ch[len(ch)-1].Name)
			}
			if ch[len(ch)-1].Name == name {
				return true, ""
			}
			// (a declaration may give another command this name as an alias, which then wins)
			for _, a := range ch[len(ch)-1].Aliases {
				if a == name {
					return true, ""
				}
			}
			return false, fmt.Sprintf("innermost active command is %q", ch[len(ch)-1].Name)
		}
		want := map[string]bool{}
		for _, s := range inner.Commands() {
			if !s.Hidden && strings.HasPrefix(s.Name, last) && !strings.Contains(s.Name, "%") {
				if ok, _ := accepted(s.Name); ok {
					want[s.Name] = true
				}
			}
		}
		got := map[string]bool{}
		for _, it := range items {
			if strings.Contains(it, "%") {
				continue
			}
			got[it] = true
			if !want[it] {
				_, why := accepted(it)
				chk("offered-command-is-accepted", false, "C18:offered-command-not-accepted", it+": "+why, "the offered command becomes the active command")
			} else {
				chk("offered-command-is-accepted", true, "", "", "")
			}
		}
		ok := true
		for k := range want {
			if !got[k] {
				ok = false
			}
		}
		chk("accepted-commands-are-offered", ok, "C18:command-set", fmt.Sprintf("%q", sortedKeys(got)), fmt.Sprintf("%q", sortedKeys(want)))
	default:
		c.Class("c18/oracle: value position (not judged by the acceptance oracle)")
	}
}

func sortedKeys(m map[string]bool) []string {
	out := make([]string, 0, len(m))
	for k := range m {
		out = append(out, k)
	}
	sort.Strings(out)
	return out
}

// checkC18Positional: value completion of positional arguments.  A command with m positional
// fields of a type that offers completions (and possibly a rest slice of that type), k already
// typed values - after options, after the terminator, under PassAfterNonOption - and a partial
// last word: the type's completions are offered exactly when the parser would bind the word to a
// positional field (a field is still free, or the rest slice takes everything).
func checkC18Positional(c *Ctx, n int) {
	r := c.Rng
	for i := 0; i < n; i++ {
		m := 1 + r.Intn(3)
		hasRest := r.Intn(2) == 0
		pos := &StructDesc{}
		for j := 0; j < m; j++ {
			pos.Fields = append(pos.Fields, FieldDesc{Name: fmt.Sprintf("P%d", j), Exported: true, Kind: "v", Ty: "c2"})
		}
		if hasRest {
			pos.Fields = append(pos.Fields, FieldDesc{Name: "Rest", Exported: true, Kind: "v", Ty: "Lc2"})
		}
		root := &StructDesc{Fields: []FieldDesc{
			{Name: "V", Exported: true, Kind: "v", Ty: "bool", Tag: `short:"v" long:"verbose"`},
			{Name: "Args", Exported: true, Kind: "s", Sub: pos, Tag: `positional-args:"yes"`},
		}}
		// positional fields AND subcommands: once the fields are full, the next word is a command word
		withCmds := !hasRest && r.Intn(2) == 0
		if withCmds {
			root.Fields = append(root.Fields,
				FieldDesc{Name: "Start", Exported: true, Kind: "s", Sub: &StructDesc{}, Tag: `command:"start"`},
				FieldDesc{Name: "Stop", Exported: true, Kind: "s", Sub: &StructDesc{}, Tag: `command:"stop"`},
				FieldDesc{Name: "Other", Exported: true, Kind: "s", Sub: &StructDesc{}, Tag: `command:"other"`})
		}
		cs := &Case{Name: "app", NsDelim: ".", EnvNsDelim: "_"}
		if r.Intn(2) == 0 {
			cs.Opts |= flags.PassDoubleDash
		}
		if r.Intn(3) == 0 {
			cs.Opts |= flags.PassAfterNonOption
		}
		cs.Build = append(cs.Build, BuildOp{Kind: "addgroup", Target: 1, Short: "Application Options", Struct: root})
		k := r.Intn(m + 3)
		if withCmds {
			k = r.Intn(m + 1)
		}
		var args []string
		if r.Intn(2) == 0 {
			args = append(args, "-v")
		}
		dd := cs.Opts&flags.PassDoubleDash != 0 && r.Intn(2) == 0
		ddAt := r.Intn(k + 1)
		// a third of the declarations with subcommands: the typed values SPELL subcommands (a word that
		// names a command is a value while a field takes it, and it is no "non-option" for
		// PassAfterNonOption), and the last word is a partial option name
		cmdWords := withCmds && r.Intn(3) == 0
		if cmdWords {
			dd = false
			if r.Intn(2) == 0 {
				cs.Opts |= flags.PassAfterNonOption
			}
		}
		for j := 0; j < k; j++ {
			if dd && j == ddAt {
				args = append(args, "--")
			}
			if cmdWords {
				args = append(args, []string{"start", "stop", "other"}[r.Intn(3)])
				continue
			}
			args = append(args, []string{"red", "blue", "green"}[r.Intn(3)])
		}
		if dd && ddAt == k {
			args = append(args, "--")
		}
		last := []string{"g", "g", "G", "Gr", "GRE"}[r.Intn(5)]
		if withCmds {
			last = []string{"g", "st", "sto", ""}[r.Intn(4)]
		}
		if cmdWords {
			last = []string{"--v", "--", "--verb", "--x"}[r.Intn(4)]
		}
		args = append(args, last)
		cs.Ops = []Op{{Kind: "complete", Args: args}}
		cs.Description = describeOps(cs)
		c.RunCases([]*Case{cs}, func(cr *CaseResult) {
			c.Class(fmt.Sprintf("c18/positional fields=%d rest=%v typed=%d terminator=%v subcommands=%v", m, hasRest, k, dd, withCmds))
			c.Distinct(cs.Description)
			compL := firstLine(cr.Impl, "COMP ")
			if compL == "" {
				return
			}
			ws := strings.Fields(compL)
			var items []string
			for j := 2; j < len(ws); j += 2 {
				s, _ := unhx(ws[j])
				items = append(items, s)
			}
			// under PassAfterNonOption everything after the first plain word is passed through, a later
			// "--" included: it is then one more value
			kEff := k
			if dd && ddAt >= 1 && cs.Opts&flags.PassAfterNonOption != 0 {
				kEff = k + 1
			}
			want := []string{}
			if cmdWords {
				// options stay recognised behind command-named words, with or without PassAfterNonOption
				if strings.HasPrefix("--verbose", last) {
					want = append(want, "--verbose")
				}
				c.Class("c18/positional: command-named values, partial option name last")
			} else if kEff < m || hasRest {
				for _, col := range []string{"blue", "green", "grey", "red"} {
					if strings.HasPrefix(col, asciiLower(last)) {
						want = append(want, col)
					}
				}
			} else if withCmds && !(dd && ddAt <= k) && !(cs.Opts&flags.PassAfterNonOption != 0 && k > 0) {
				// every field is full and nothing passed the rest through: command words
				for _, cmd := range []string{"other", "start", "stop"} {
					if strings.HasPrefix(cmd, last) {
						want = append(want, cmd)
					}
				}
			}
			ok := fmt.Sprint(items) == fmt.Sprint(want) || (len(items) == 0 && len(want) == 0)
			in := map[string]interface{}{"case": cs.Description, "args": args, "positional_fields": m, "rest_slice": hasRest, "values_typed": k, "subcommands": withCmds, "last_word": last}
			if !ok {
				in["case_file"] = c.saveCase(cr)
			}
			c.Check("positional-value-completions-offered-exactly-when-a-field-takes-the-word", ok, "C18:positional-completion", in, fmt.Sprintf("%q", items), fmt.Sprintf("%q", want))
		})
	}
}

// checkC18Values: an option of a completing type (the harness' Color: red, green, blue, grey) under an
// ASCII or multi-byte short name and a long name, among other options; the last word spells the
// option with a partial value in every documented form.  What must be offered is stated here: the
// type's completions of the partial value, in order, re-attached to the spelling used.
func checkC18Values(c *Ctx, n int) {
	r := c.Rng
	colors := []string{"blue", "green", "grey", "red"}
	for i := 0; i < n; i++ {
		short := []string{"c", "k", "ç", "é", "λ", "日", "C", "5"}[r.Intn(8)]
		long := []string{"color", "colour", "färg", "c.tone"}[r.Intn(4)]
		ty := []string{"c2", "c2", "Lc2"}[r.Intn(3)]
		root := &StructDesc{Fields: []FieldDesc{
			{Name: "V", Exported: true, Kind: "v", Ty: "bool", Tag: `short:"v" long:"verbose"`},
			{Name: "N", Exported: true, Kind: "v", Ty: "str", Tag: `short:"n" long:"name"`},
			{Name: "Col", Exported: true, Kind: "v", Ty: ty, Tag: quoteTag("short", short) + " " + quoteTag("long", long)},
		}}
		cs := &Case{Name: "app", NsDelim: ".", EnvNsDelim: "_"}
		cs.Build = append(cs.Build, BuildOp{Kind: "addgroup", Target: 1, Short: "Application Options", Struct: root})
		var args []string
		for j := r.Intn(3); j > 0; j-- {
			args = append(args, [][]string{{"-v"}, {"--name=x"}, {"-n", "x"}, {"--" + long + "=red"}, {"-" + short + "blue"}}[r.Intn(5)]...)
		}
		part := []string{"", "r", "g", "gr", "gre", "b", "z", "red", "R", "GR", "Bl", "RED", "gRe"}[r.Intn(13)]
		form := []string{"--name=V", "--name V", "-xV", "-x=V", "-x V"}[r.Intn(5)]
		prefix := ""
		switch form {
		case "--name=V":
			prefix = "--" + long + "="
			args = append(args, prefix+part)
		case "--name V":
			args = append(args, "--"+long, part)
		case "-xV":
			prefix = "-" + short
			args = append(args, prefix+part)
		case "-x=V":
			prefix = "-" + short + "="
			args = append(args, prefix+part)
		case "-x V":
			args = append(args, "-"+short, part)
		}
		want := []string{}
		for _, col := range colors {
			if strings.HasPrefix(col, asciiLower(part)) {
				want = append(want, prefix+col)
			}
		}
		cs.Ops = []Op{{Kind: "complete", Args: args}}
		cs.Description = describeOps(cs)
		c.RunCases([]*Case{cs}, func(cr *CaseResult) {
			c.classifyCase(cr)
			c.Class(fmt.Sprintf("c18/value form=%s multibyte-short=%v matches=%d", form, len(short) > 1, len(want)))
			c.Distinct(cs.Description)
			compL := firstLine(cr.Impl, "COMP ")
			in := map[string]interface{}{"case": cs.Description, "args": args, "option": "-" + short + ", --" + long, "form": form, "partial_value": part}
			if compL == "" {
				in["case_file"] = c.saveCase(cr)
				c.Check("value-completions-are-the-types-re-attached-to-the-spelling", false, "C18:value-completion", in, strings.Join(cr.Impl, " | "), fmt.Sprintf("%q", want))
				return
			}
			ws := strings.Fields(compL)
			var items []string
			for j := 2; j < len(ws); j += 2 {
				s, _ := unhx(ws[j])
				items = append(items, s)
			}
			ok := fmt.Sprintf("%q", items) == fmt.Sprintf("%q", want) || (len(items) == 0 && len(want) == 0)
			if !ok {
				in["case_file"] = c.saveCase(cr)
			}
			c.Check("value-completions-are-the-types-re-attached-to-the-spelling", ok, "C18:value-completion", in, fmt.Sprintf("%q", items), fmt.Sprintf("%q", want))
		})
	}
}

// checkC18IgnoredCluster: under IgnoreUnknown the parser passes a cluster that contains an undeclared
// letter through as ONE word, whatever the letters behind the undeclared one are (a declared last letter
// does not wait for a value; flags behind it are not applied): completion must read the typed words the
// same way.
func checkC18IgnoredCluster(c *Ctx, n int) {
	r := c.Rng
	for i := 0; i < n; i++ {
		withPos := r.Intn(2) == 0
		root := &StructDesc{Fields: []FieldDesc{
			{Name: "V", Exported: true, Kind: "v", Ty: "bool", Tag: `short:"v"`},
			{Name: "C", Exported: true, Kind: "v", Ty: "c2", Tag: `short:"c" long:"colour"`},
			{Name: "Verbose", Exported: true, Kind: "v", Ty: "bool", Tag: `long:"verbose"`},
			{Name: "Version", Exported: true, Kind: "v", Ty: "bool", Tag: `long:"version"`},
		}}
		if withPos {
			root.Fields = append(root.Fields, FieldDesc{Name: "Args", Exported: true, Kind: "s", Tag: `positional-args:"yes"`, Sub: &StructDesc{Fields: []FieldDesc{
				{Name: "P0", Exported: true, Kind: "v", Ty: "str"}, {Name: "P1", Exported: true, Kind: "v", Ty: "c2"}}}})
		} else {
			root.Fields = append(root.Fields, FieldDesc{Name: "Remove", Exported: true, Kind: "s", Tag: `command:"remove"`, Sub: &StructDesc{Fields: []FieldDesc{
				{Name: "Force", Exported: true, Kind: "v", Ty: "bool", Tag: `long:"force"`}}}})
		}
		cs := &Case{Name: "app", NsDelim: ".", EnvNsDelim: "_", Opts: flags.IgnoreUnknown}
		cs.Build = []BuildOp{{Kind: "addgroup", Target: 1, Short: "Application Options", Struct: root},
			{Kind: "setcmd", Target: 1, Attr: "subopt", Vals: []string{"1"}}}
		cluster := []string{"-xc", "-vxc", "-xv", "-vxv", "-vx", "-x"}[r.Intn(6)]
		last := []string{"--ver", "re", "--colour=r"}[r.Intn(3)]
		args := []string{cluster, last}
		if r.Intn(3) == 0 {
			args = []string{"-v", cluster, last}
		}
		cs.Ops = []Op{{Kind: "complete", Args: args}}
		cs.Description = describeOps(cs)
		c.RunCases([]*Case{cs}, func(cr *CaseResult) {
			c.Class(fmt.Sprintf("c18/ignored-cluster %s last=%s positional=%v", cluster, last, withPos))
			c.Distinct(cs.Description + fmt.Sprint(withPos))
			compL := firstLine(cr.Impl, "COMP ")
			if compL == "" {
				return
			}
			ws := strings.Fields(compL)
			var items []string
			for j := 2; j < len(ws); j += 2 {
				s, _ := unhx(ws[j])
				items = append(items, s)
			}
			var want []string
			switch last {
			case "--ver":
				want = []string{"--verbose", "--version"}
			case "--colour=r":
				want = []string{"--colour=red"}
			default:
				// the cluster went to the first positional field, the word is a value of the second (a
				// colour); without fields it went to the remaining arguments: no command word any more
				if withPos {
					want = []string{"red"}
				}
			}
			ok := fmt.Sprint(items) == fmt.Sprint(want) || (len(items) == 0 && len(want) == 0)
			in := map[string]interface{}{"case": cs.Description, "args": args, "positional_fields": withPos}
			if !ok {
				in["case_file"] = c.saveCase(cr)
			}
			c.Check("a-passed-through-cluster-is-one-word-for-completion-too", ok, "C18:ignored-cluster", in, fmt.Sprintf("%q", items), fmt.Sprintf("%q", want))
		})
	}
}

// checkC18OuterWord: behind a command that takes no subcommand, a word that spells a command of an OUTER
// level (a sibling, its alias, the command itself) is a rest argument for the parser: completion stays
// in the command (its options and its ancestors', no sibling's), offers no value of the sibling's
// positional arguments and, the rest being non-empty, no command names.
func checkC18OuterWord(c *Ctx, n int) {
	r := c.Rng
	for i := 0; i < n; i++ {
		help := &StructDesc{Fields: []FieldDesc{{Name: "Brief", Exported: true, Kind: "v", Ty: "bool", Tag: `long:"brief"`}}}
		remove := &StructDesc{Fields: []FieldDesc{
			{Name: "Force", Exported: true, Kind: "v", Ty: "bool", Tag: `long:"force"`},
			{Name: "Args", Exported: true, Kind: "s", Tag: `positional-args:"yes"`, Sub: &StructDesc{Fields: []FieldDesc{{Name: "Col", Exported: true, Kind: "v", Ty: "c2"}}}}}}
		root := &StructDesc{Fields: []FieldDesc{
			{Name: "Verbose", Exported: true, Kind: "v", Ty: "bool", Tag: `long:"verbose"`},
			{Name: "Help", Exported: true, Kind: "s", Tag: `command:"help"`, Sub: help},
			{Name: "Remove", Exported: true, Kind: "s", Tag: `command:"remove" alias:"rm"`, Sub: remove}}}
		cs := &Case{Name: "app", NsDelim: ".", EnvNsDelim: "_"}
		cs.Build = []BuildOp{{Kind: "addgroup", Target: 1, Short: "Application Options", Struct: root}}
		word := []string{"remove", "rm", "help"}[r.Intn(3)]
		last := []string{"--", "", "r", "--f"}[r.Intn(4)]
		args := []string{"help", word, last}
		if r.Intn(3) == 0 {
			args = []string{"help", "--brief", word, last}
		}
		cs.Ops = []Op{{Kind: "complete", Args: args}}
		cs.Description = describeOps(cs)
		c.RunCases([]*Case{cs}, func(cr *CaseResult) {
			c.Class(fmt.Sprintf("c18/outer-word word=%s last=%q", word, last))
			c.Distinct(cs.Description)
			compL := firstLine(cr.Impl, "COMP ")
			if compL == "" && firstLine(cr.Impl, "COMP") == "" {
				return
			}
			ws := strings.Fields(compL)
			var items []string
			for j := 2; j < len(ws); j += 2 {
				s, _ := unhx(ws[j])
				items = append(items, s)
			}
			var want []string
			switch last {
			case "--":
				want = []string{"--brief", "--verbose"}
			}
			ok := fmt.Sprint(items) == fmt.Sprint(want) || (len(items) == 0 && len(want) == 0)
			in := map[string]interface{}{"case": cs.Description, "args": args}
			if !ok {
				in["case_file"] = c.saveCase(cr)
			}
			c.Check("an-outer-command-name-behind-a-command-is-a-rest-argument-for-completion-too", ok, "C18:outer-word", in, fmt.Sprintf("%q", items), fmt.Sprintf("%q", want))
		})
	}
}

// checkC18Shadowed: a bare dash below a command that declares again a LONG name (or a SHORT name) of an outer
// level.  Every option the parser accepts there is offered under a spelling that reaches it: the outer option
// whose long name is shadowed under its short name, the inner option whose short name the outer one shares
// under that short name (D28), everything else under its long name; nothing twice.
func checkC18Shadowed(c *Ctx, n int) {
	r := c.Rng
	for i := 0; i < n; i++ {
		shadowLong := r.Intn(2) == 0 // the command declares --verbose again (the outer one keeps -v for itself) ...
		shadowShort := !shadowLong || r.Intn(2) == 0 // ... and / or declares a short-only -f while the outer --host has -f
		sub := &StructDesc{Fields: []FieldDesc{{Name: "Quiet", Exported: true, Kind: "v", Ty: "bool", Tag: `long:"quiet"`}}}
		if shadowLong {
			sub.Fields = append(sub.Fields, FieldDesc{Name: "SubVerbose", Exported: true, Kind: "v", Ty: "bool", Tag: `long:"verbose"`})
		}
		if shadowShort {
			sub.Fields = append(sub.Fields, FieldDesc{Name: "Files", Exported: true, Kind: "v", Ty: "Lstr", Tag: `short:"f"`})
		}
		root := &StructDesc{Fields: []FieldDesc{
			{Name: "Verbose", Exported: true, Kind: "v", Ty: "bool", Tag: `long:"verbose" short:"v"`},
			{Name: "Host", Exported: true, Kind: "v", Ty: "str", Tag: `long:"host" short:"f"`},
			{Name: "Only", Exported: true, Kind: "v", Ty: "bool", Tag: `short:"o"`},
			{Name: "Sub", Exported: true, Kind: "s", Tag: `command:"sub"`, Sub: sub}}}
		cs := &Case{Name: "app", NsDelim: ".", EnvNsDelim: "_"}
		cs.Build = []BuildOp{{Kind: "addgroup", Target: 1, Short: "Application Options", Struct: root}}
		below := r.Intn(4) != 0
		args := []string{"-"}
		if below {
			args = []string{"sub", "-"}
			if r.Intn(3) == 0 {
				args = []string{"-o", "sub", "--quiet", "-"}
			}
		}
		cs.Ops = []Op{{Kind: "complete", Args: args}}
		cs.Description = describeOps(cs)
		c.RunCases([]*Case{cs}, func(cr *CaseResult) {
			c.Class(fmt.Sprintf("c18/shadowed: long=%v short=%v below-the-command=%v", shadowLong, shadowShort, below))
			c.Distinct(cs.Description)
			compL := firstLine(cr.Impl, "COMP ")
			if compL == "" && firstLine(cr.Impl, "COMP") == "" {
				return
			}
			ws := strings.Fields(compL)
			var items []string
			for j := 2; j < len(ws); j += 2 {
				s, _ := unhx(ws[j])
				items = append(items, s)
			}
			// one spelling per option the parser accepts at that point
			want := []string{"--host", "--verbose", "-o"}
			if below {
				want = []string{"--host", "--quiet", "--verbose", "-o"}
				if shadowShort {
					want = append(want, "-f") // (the command's Files; --host still reaches Host)
				}
				if shadowLong {
					want = append(want, "-v") // (--verbose is the command's now; -v still reaches the outer one)
				}
			}
			sort.Strings(want)
			ok := fmt.Sprint(items) == fmt.Sprint(want)
			in := map[string]interface{}{"case": cs.Description, "args": args}
			if !ok {
				in["case_file"] = c.saveCase(cr)
			}
			c.Check("a-bare-dash-offers-every-option-the-parser-accepts-there-once", ok, "C18:shadowed-names", in, fmt.Sprintf("%q", items), fmt.Sprintf("%q", want))
		})
	}
}
