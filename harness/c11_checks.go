package main

// C11, value stage: one option of a chosen type (every integer kind with a declared base, both
// float sizes, durations, strings; scalar, slice or pointer), possibly with declared choices, and
// one text handed to it from the command line, from its environment variable or from its default
// tag.  Whether the text denotes a value of the type, and which, is computed here with the
// standard library at the type's own size; what must happen (the exact value stored, ErrMarshal
// naming the option, ErrInvalidChoice listing every allowed value) follows from that alone.

import (
	"fmt"
	"math"
	"reflect"
	"strconv"
	"strings"
	"time"

	flags "github.com/jessevdk/go-flags"
)

var c11Bits = map[string]int{"i8": 8, "i16": 16, "i32": 32, "i64": 64, "int": strconv.IntSize, "u8": 8, "u16": 16, "u32": 32, "u64": 64, "uint": strconv.IntSize, "f32": 32, "f64": 64}

// c11Denote: does the text denote a value of the type, and which (rendered with %v at the type's size)
func c11Denote(code string, base int, text string) (string, bool) {
	switch code {
	case "str":
		return text, true
	case "i8", "i16", "i32", "i64", "int":
		v, err := strconv.ParseInt(text, base, c11Bits[code])
		return fmt.Sprint(v), err == nil
	case "u8", "u16", "u32", "u64", "uint":
		v, err := strconv.ParseUint(text, base, c11Bits[code])
		return fmt.Sprint(v), err == nil
	case "f32":
		v, err := strconv.ParseFloat(text, 32)
		return fmt.Sprint(float32(v)), err == nil
	case "f64":
		v, err := strconv.ParseFloat(text, 64)
		return fmt.Sprint(v), err == nil
	case "dur":
		v, err := time.ParseDuration(text)
		return fmt.Sprint(int64(v)), err == nil
	}
	return "", false
}

// c11DenoteMap: a key:value pair splits at the FIRST colon (no colon: the whole text is the key, the
// value is empty); both parts must denote values of their types
func c11DenoteMap(code, text string) (string, bool) {
	kv := strings.Split(code[1:], ",")
	key, val := text, ""
	if i := strings.IndexByte(text, ':'); i >= 0 {
		key, val = text[:i], text[i+1:]
	}
	k, ok1 := c11Denote(kv[0], 10, key)
	v, ok2 := c11Denote(kv[1], 10, val)
	return "map[" + k + ":" + v + "]", ok1 && ok2
}

func c11Text(c *Ctx, code string, base int) string {
	r := c.Rng
	if code[0] == 'M' {
		return []string{"k:v", "k", "a:b:3", "home:http://example.org:8080/x", "k:", ":v", "a:b:c:d", "7:x", "x:7", "1:2:3", "12:30:00", "7:8", "", ":", "::"}[r.Intn(15)]
	}
	junk := []string{"", "abc", "1 2", " 5", "5 ", "1_000", "+", "-", "0x", "١٢"}
	if r.Intn(6) == 0 {
		return junk[r.Intn(len(junk))]
	}
	switch code {
	case "str":
		return []string{"v", "", "two words", "é", "-5", "a=b", "\"q\"", "x:y"}[r.Intn(8)]
	case "f32", "f64":
		return []string{"1.5", "-0.25", "1e39", "-1e39", "3.5e38", "3.4028235e38", "3.4028236e38", "1e400", "-1e400", "NaN", "inf", "-Inf", "0x1p-2", "1e-50", "16777217",
			"0.1", "1.0000001192092896", "4e-324", ".5", "5.", "1e", "1.2.3"}[r.Intn(22)]
	case "dur":
		return []string{"1s", "1h2m3s", "-3ms", "1.5h", "5", "0", "1e3s", "2562047h", "2562048h", "1d", "10ns", "1µs", "1us"}[r.Intn(13)]
	}
	bits := c11Bits[code]
	signed := code[0] == 'i'
	var lim uint64
	if signed {
		lim = 1<<(uint(bits)-1) - 1
	} else if bits == 64 {
		lim = math.MaxUint64
	} else {
		lim = 1<<uint(bits) - 1
	}
	switch x := r.Intn(8); {
	case x == 0:
		return strconv.FormatUint(lim, base)
	case x == 1:
		// one past the limit (as text: the digits of the limit with the last digit raised, or one more digit)
		if lim < math.MaxUint64 {
			return strconv.FormatUint(lim+1, base)
		}
		return strconv.FormatUint(lim, base) + "0"
	case x == 2 && signed:
		return "-" + strconv.FormatUint(lim+1, base)
	case x == 3 && signed:
		return "-" + strconv.FormatUint(lim+2, base)
	case x == 4:
		return "-" + strconv.FormatUint(uint64(r.Intn(100)), base)
	case x == 5:
		return "+" + strconv.FormatUint(uint64(r.Intn(100)), base)
	case x == 6:
		// a digit the base does not have
		return strconv.FormatUint(uint64(r.Intn(1000)), base) + string("0123456789abcdefghijklmnopqrstuvwxyz"[base%36])
	}
	return strings.ToUpper(strconv.FormatUint(uint64(r.Intn(100000)), base))
}

func checkC11Values(c *Ctx, n int) {
	r := c.Rng
	codes := []string{"i8", "i16", "i32", "i64", "int", "u8", "u16", "u32", "u64", "uint", "f32", "f32", "f64", "dur", "str", "Mstr,str", "Mstr,int", "Mint,str"}
	for i := 0; i < n; i++ {
		code := codes[r.Intn(len(codes))]
		base := 10
		tags := []string{quoteTag("long", "opt")}
		if (code[0] == 'i' || code[0] == 'u') && r.Intn(2) == 0 {
			base = []int{2, 8, 16, 36, 3}[r.Intn(5)]
			tags = append(tags, quoteTag("base", strconv.Itoa(base)))
		}
		wrap := []string{"", "", "L", "P"}[r.Intn(4)]
		if code[0] == 'M' {
			wrap = ""
		}
		source := []string{"cli", "cli", "cli", "env", "default"}[r.Intn(5)]
		text := c11Text(c, code, base)
		var choices []string
		if r.Intn(3) == 0 && code[0] != 'M' {
			// 1-3 choices, all of them texts of the type; the text under test is one of them or not
			for k := 1 + r.Intn(3); k > 0; k-- {
				for try := 0; try < 20; try++ {
					ch := c11Text(c, code, base)
					if _, ok := c11Denote(code, base, ch); ok && ch != "" && !strings.ContainsAny(ch, " \"") {
						choices = append(choices, ch)
						break
					}
				}
			}
			if len(choices) > 0 && r.Intn(2) == 0 {
				text = choices[r.Intn(len(choices))]
			}
			for _, ch := range choices {
				tags = append(tags, quoteTag("choice", ch))
			}
		}
		var env []EnvVar
		var argv []string
		switch source {
		case "cli":
			argv = []string{"--opt=" + text}
			if r.Intn(3) == 0 && !strings.HasPrefix(text, "-") && text != "" {
				argv = []string{"--opt", text}
			}
		case "env":
			tags = append(tags, quoteTag("env", "VFC11"))
			env = []EnvVar{{"VFC11", text}}
			if text == "" {
				// (an empty variable counts as unset)
				continue
			}
		case "default":
			tags = append(tags, quoteTag("default", text))
		}
		// (quoted command-line values are unquoted first: C02)
		if source == "cli" && strings.HasPrefix(text, "\"") {
			continue
		}
		sd := &StructDesc{Fields: []FieldDesc{{Name: "V", Exported: true, Kind: "v", Ty: wrap + code, Tag: strings.Join(tags, " ")}}}
		cs := &Case{Name: "app", NsDelim: ".", EnvNsDelim: "_", Env: env, Opts: flags.PrintErrors}
		cs.Build = []BuildOp{{Kind: "addgroup", Target: 1, Short: "Application Options", Struct: sd}}
		cs.Ops = []Op{{Kind: "parse", Args: argv}}
		cs.Description = fmt.Sprintf("value %q for a %s option (base %d, choices %q) from %s: %s", text, wrap+code, base, choices, source, describeOps(cs))
		want, denotes := c11Denote(code, base, text)
		if code[0] == 'M' {
			want, denotes = c11DenoteMap(code, text)
		}
		isChoice := len(choices) == 0
		for _, ch := range choices {
			if ch == text {
				isChoice = true
			}
		}
		c.RunCases([]*Case{cs}, func(cr *CaseResult) {
			c.classifyCase(cr)
			c.Distinct(cs.Description)
			if cr.Real == nil || cr.Real.dead {
				return
			}
			var obs parseObs
			for _, o := range parseBlocks(cr) {
				obs = o
			}
			c.Class(fmt.Sprintf("c11/value: type=%s%s source=%s denotes=%v choices=%d is-choice=%v", wrap, code, source, denotes, len(choices), isChoice))
			in := map[string]interface{}{"case": cs.Description, "argv": argv, "text": text, "type": wrap + code, "base": base, "choices": choices, "source": source}
			fail := func(name, got, want string) {
				in["case_file"] = c.saveCase(cr)
				c.Check(name, false, "C11:value", in, got, want)
			}
			got := fmt.Sprintf("%s %s type %d %q", obs.panic, obs.errKind, obs.errType, obs.errMsg)
			switch {
			case obs.panic != "":
				fail("value-is-converted-exactly-or-rejected", got, "normal return")
			case !isChoice:
				ok := obs.errKind == "flags" && obs.errType == int(flags.ErrInvalidChoice) && strings.Contains(obs.errMsg, "--opt")
				for _, ch := range choices {
					if !strings.Contains(obs.errMsg, ch) {
						ok = false
					}
				}
				if !ok {
					fail("non-choice-is-rejected-listing-every-allowed-value", got, fmt.Sprintf("ErrInvalidChoice naming --opt and listing %q", choices))
					return
				}
				c.Check("non-choice-is-rejected-listing-every-allowed-value", true, "", nil, "", "")
			case !denotes:
				if !(obs.errKind == "flags" && obs.errType == int(flags.ErrMarshal) && strings.Contains(obs.errMsg, "--opt")) {
					fail("value-is-converted-exactly-or-rejected", got, "ErrMarshal naming --opt: the text denotes no value of the type")
					return
				}
				c.Check("value-is-converted-exactly-or-rejected", true, "", nil, "", "")
			default:
				if obs.errKind != "ok" {
					fail("value-is-converted-exactly-or-rejected", got, "accepted: the text denotes "+want)
					return
				}
				cr.Real.register()
				fr, ok := cr.Real.fields["V"]
				if !ok || !fr.val.IsValid() {
					fail("value-is-converted-exactly-or-rejected", "field not reachable", want)
					return
				}
				v := fr.val
				switch wrap {
				case "L":
					if v.Len() != 1 {
						fail("value-is-converted-exactly-or-rejected", fmt.Sprintf("%d elements", v.Len()), "one element "+want)
						return
					}
					v = v.Index(0)
				case "P":
					if v.IsNil() {
						fail("value-is-converted-exactly-or-rejected", "nil pointer", want)
						return
					}
					v = v.Elem()
				}
				stored := fmt.Sprint(v.Interface())
				if v.Kind() == reflect.Int64 && code == "dur" {
					stored = fmt.Sprint(v.Int())
				}
				if stored != want {
					fail("value-is-converted-exactly-or-rejected", "stored "+stored, "stored "+want)
					return
				}
				c.Check("value-is-converted-exactly-or-rejected", true, "", nil, "", "")
			}
		})
	}
}

// C11, list stage: a slice option filled from its environment variable, which env-delim splits into
// elements.  Each element is converted exactly as a command-line value would be: white space at
// either end of an element belongs to it (a string keeps it, a number is rejected because of it),
// an empty element is an element.
func checkC11EnvList(c *Ctx, n int) {
	r := c.Rng
	codes := []string{"i8", "i32", "i64", "int", "u8", "u16", "u64", "uint", "f32", "f64", "dur", "str", "str"}
	for i := 0; i < n; i++ {
		code := codes[r.Intn(len(codes))]
		base := 10
		tags := []string{quoteTag("long", "opt"), quoteTag("env", "VFC11")}
		if (code[0] == 'i' || code[0] == 'u') && r.Intn(3) == 0 {
			base = []int{2, 8, 16, 36}[r.Intn(4)]
			tags = append(tags, quoteTag("base", strconv.Itoa(base)))
		}
		var elems []string
		for k := 1 + r.Intn(3); k > 0; k-- {
			e := c11Text(c, code, base)
			if _, ok := c11Denote(code, base, e); ok && r.Intn(4) == 0 {
				// a well-formed element with a blank at an end
				e = []string{" " + e, e + " ", " " + e + " ", "\t" + e}[r.Intn(4)]
			}
			elems = append(elems, e)
		}
		delim := ""
		for _, d := range []string{",", ";", "|", ", "} {
			if !strings.Contains(strings.Join(elems, ""), strings.TrimSpace(d)) && (d != ", " || r.Intn(4) == 0) {
				delim = d
				break
			}
		}
		if delim == "" {
			continue
		}
		text := strings.Join(elems, delim)
		if text == "" {
			continue
		}
		if delim == ", " {
			// the delimiter itself ends in a blank: splitting at it leaves the elements as generated
			elems = strings.Split(text, delim)
		}
		tags = append(tags, quoteTag("env-delim", delim))
		sd := &StructDesc{Fields: []FieldDesc{{Name: "V", Exported: true, Kind: "v", Ty: "L" + code, Tag: strings.Join(tags, " ")}}}
		cs := &Case{Name: "app", NsDelim: ".", EnvNsDelim: "_", Env: []EnvVar{{"VFC11", text}}, Opts: flags.PrintErrors}
		cs.Build = []BuildOp{{Kind: "addgroup", Target: 1, Short: "Application Options", Struct: sd}}
		cs.Ops = []Op{{Kind: "parse", Args: nil}}
		cs.Description = fmt.Sprintf("environment value %q split at %q for a []%s option (base %d): %s", text, delim, code, base, describeOps(cs))
		var wants []string
		denotes := true
		for _, e := range elems {
			w, ok := c11Denote(code, base, e)
			wants = append(wants, w)
			denotes = denotes && ok
		}
		c.RunCases([]*Case{cs}, func(cr *CaseResult) {
			c.classifyCase(cr)
			if cr.Real == nil || cr.Real.dead {
				return
			}
			var obs parseObs
			for _, o := range parseBlocks(cr) {
				obs = o
			}
			c.Class(fmt.Sprintf("c11/envlist: type=%s elements=%d denotes=%v", code, len(elems), denotes))
			in := map[string]interface{}{"case": cs.Description, "env": "VFC11=" + text, "delimiter": delim, "elements": elems, "type": "[]" + code, "base": base}
			fail := func(got, want string) {
				in["case_file"] = c.saveCase(cr)
				c.Check("environment-list-elements-are-converted-exactly-or-rejected", false, "C11:envlist", in, got, want)
			}
			got := fmt.Sprintf("%s %s type %d %q", obs.panic, obs.errKind, obs.errType, obs.errMsg)
			switch {
			case obs.panic != "":
				fail(got, "normal return")
				return
			case !denotes:
				if !(obs.errKind == "flags" && obs.errType == int(flags.ErrMarshal) && strings.Contains(obs.errMsg, "--opt")) {
					fail(got, "ErrMarshal naming --opt: an element denotes no value of the type")
					return
				}
			default:
				if obs.errKind != "ok" {
					fail(got, fmt.Sprintf("accepted: the elements denote %q", wants))
					return
				}
				cr.Real.register()
				fr, ok := cr.Real.fields["V"]
				if !ok || !fr.val.IsValid() {
					fail("field not reachable", fmt.Sprint(wants))
					return
				}
				var stored []string
				for k := 0; k < fr.val.Len(); k++ {
					v := fr.val.Index(k)
					if code == "dur" {
						stored = append(stored, fmt.Sprint(v.Int()))
					} else {
						stored = append(stored, fmt.Sprint(v.Interface()))
					}
				}
				if fmt.Sprintf("%q", stored) != fmt.Sprintf("%q", wants) {
					fail(fmt.Sprintf("stored %q", stored), fmt.Sprintf("stored %q", wants))
					return
				}
			}
			c.Check("environment-list-elements-are-converted-exactly-or-rejected", true, "", nil, "", "")
		})
	}
}
