/-
  C16 — Help and man page show exactly the visible interface.
-/
import GoFlags.Man

namespace GoFlags.C16
open GoFlags Bytes

/-- **A masked default's real value never appears — help.** The help row of an option with a
    default mask does not depend on its default tags, its current value or its rendered default
    literal: any two options that differ only there produce the same row. (Non-interference: what
    the output does not depend on, it cannot show.) -/
theorem help_row_independent_of_masked_default (o : Opt) (dflt' : List Bytes) (val' : Val) (lit' : Bytes)
    (longNS envKey : Bytes) (info : AlignInfo) (hmask : o.defaultMask ≠ []) :
    helpOptionText { o with dflt := dflt', val := val', defaultLiteral := lit' } longNS envKey info =
      helpOptionText o longNS envKey info := by
  unfold helpOptionText helpOptionHead helpOptionDesc choicesText
  simp [hmask]

/-- **A masked default's real value never appears — man page** (after the D13 repair). -/
theorem man_entry_independent_of_masked_default (E : Env) (o : Opt) (dflt' : List Bytes) (val' : Val) (lit' : Bytes)
    (longNS envKey : Bytes) (hmask : o.defaultMask ≠ []) :
    manOptionText E { o with dflt := dflt', val := val', defaultLiteral := lit' } longNS envKey =
      manOptionText E o longNS envKey := by
  unfold manOptionText
  simp [hmask]

/-- the mask `-` shows nothing at all -/
theorem dash_mask_shows_no_default (o : Opt) (envKey : Bytes) (h : o.defaultMask = B "-") :
    helpOptionDesc o envKey = o.desc ++ (if envKey ≠ [] then B " [$" ++ envKey ++ B "]" else []) := by
  unfold helpOptionDesc
  simp [h]

/-- **Nothing hidden is shown — options.** A hidden option contributes no bytes to the help … -/
theorem hidden_option_has_no_help_row (o : Opt) (longNS envKey : Bytes) (info : AlignInfo) (h : o.hidden = true) :
    helpOptionText o longNS envKey info = some [] := by
  unfold helpOptionText; simp [h]

/-- … and none to the man page: only options with `showInHelp` get an entry -/
theorem man_lists_only_visible_options (o : Opt) (h : o.hidden = true) : o.showInHelp = false := by
  unfold Opt.showInHelp; simp [h]

/-- a hidden group, or a group without a visible option, is skipped as a whole -/
theorem hidden_group_not_shown (g : Grp) (h : g.hidden = true) : g.showInHelp = false := by
  unfold Grp.showInHelp; simp [h]

/-- **Nothing hidden is shown — commands.** Hidden subcommands are in neither the usage line nor
    "Available commands", nor do they get a man section: all three use `visibleCommands`. -/
theorem visible_commands_are_not_hidden (P : Parser) (ci s : Nat) (h : s ∈ P.visibleCommands ci) :
    (P.cmd s).hidden = false ∧ s ∈ P.subs ci := by
  unfold Parser.visibleCommands at h
  simp only [List.mem_filter, Bool.not_eq_true'] at h
  exact ⟨h.2, h.1⟩

theorem insertCmdSorted_mem (P : Parser) (x : Nat) (l : List Nat) (y : Nat) :
    y ∈ insertCmdSorted P x l ↔ y = x ∨ y ∈ l := by
  induction l with
  | nil => simp [insertCmdSorted]
  | cons z zs ih =>
    unfold insertCmdSorted
    split
    · simp
    · simp [ih]; constructor
      · rintro (h | h | h) <;> simp [h]
      · rintro (h | h | h) <;> simp [h]

/-- sorting the visible commands neither adds nor loses a command -/
theorem sorted_visible_commands_same_members (P : Parser) (ci s : Nat) :
    s ∈ P.sortedVisibleCommands ci ↔ s ∈ P.visibleCommands ci := by
  unfold Parser.sortedVisibleCommands
  induction P.visibleCommands ci with
  | nil => simp
  | cons x xs ih => simp only [List.foldr_cons, insertCmdSorted_mem, ih, List.mem_cons]

/-- **Every visible item is shown — option row.** The row of an option with a long name contains
    `--` followed by its namespaced long name, and then — for an argument-taking option — `=`, its
    value name and its choices. -/
theorem visible_row_shows_names (o : Opt) (longNS : Bytes) (info : AlignInfo) (hl : o.long ≠ []) :
    ∃ pre, helpOptionHead o longNS info =
      pre ++ (B "--" ++ longNS) ++ (if o.ty.canArgument then 0x3D :: (o.valueName ++ choicesText o) else []) := by
  unfold helpOptionHead
  simp only [hl, ne_eq, not_false_eq_true, if_true]
  refine ⟨spaces (2 + if info.indent = true then 4 else 0) ++
    (if o.short ≠ 0 then 0x2D :: encodeRune o.short else if info.hasShort then B "  " else []) ++
    (if o.short ≠ 0 then B ", " else if info.hasShort then B "  " else []), ?_⟩
  simp only [List.append_assoc]

/-- a short name is shown as `-x` right after the padding -/
theorem visible_row_shows_short (o : Opt) (longNS : Bytes) (info : AlignInfo) (hs : o.short ≠ 0) :
    ∃ post, helpOptionHead o longNS info =
      spaces (2 + (if info.indent then 4 else 0)) ++ (0x2D :: encodeRune o.short) ++ post := by
  unfold helpOptionHead
  simp only [hs, ne_eq, not_false_eq_true, if_true]
  refine ⟨(if o.long ≠ [] then B ", " ++ B "--" ++ longNS else []) ++
    (if o.ty.canArgument then 0x3D :: (o.valueName ++ choicesText o) else []), ?_⟩
  simp only [List.append_assoc, List.cons_append]

/-- the description part shows the description, then the default (or its mask), then the
    environment variable with its namespaces -/
theorem description_shows_default_and_env (o : Opt) (envKey : Bytes) (hm : o.defaultMask = []) (hd : o.defaultLiteral ≠ [])
    (he : envKey ≠ []) :
    helpOptionDesc o envKey = o.desc ++ B " (default: " ++ o.defaultLiteral ++ B ")" ++ B " [$" ++ envKey ++ B "]" := by
  unfold helpOptionDesc; simp [hm, hd, he]

/-- the man page walks the whole tree of non-hidden commands: each visible subcommand of a
    command that is itself reached gets its section (one unfolding of the recursion) -/
theorem man_recurses_over_visible_commands (E : Env) (P : Parser) (fuel root : Nat) (name pfx : Bytes) :
    ∃ f : Nat → Bytes, manCommandsFuel E P (fuel + 1) root name pfx = (P.sortedVisibleCommands root).flatMap f :=
  ⟨_, rfl⟩

end GoFlags.C16
