/-
  C16 — Help and man page show exactly the visible interface.
-/
import GoFlags.Props.C16.Trans
import GoFlags.Man

namespace GoFlags.C16
open GoFlags Bytes

/-- **A masked default's real value never appears — help.** The help row of an option with a
    default mask does not depend on its default tags, its current value or its rendered default
    literal: any two options that differ only there produce the same row. (Non-interference: what
    the output does not depend on, it cannot show.) -/
theorem help_row_independent_of_masked_default (o : Opt) (dflt' : List Bytes) (val' : Val) (lit' : Bytes)
    (longNS envKey : Bytes) (info : AlignInfo) (hmask : o.defaultMask ≠ []) :
    helpOptionText { o with dflt := dflt', val := val', defaultLiteral := lit' } longNS envKey info =
      helpOptionText o longNS envKey info := by
  unfold helpOptionText helpOptionHead helpOptionDesc choicesText
  simp [hmask]

/-- **A masked default's real value never appears — man page** (after the D13 repair). -/
theorem man_entry_independent_of_masked_default (E : Env) (o : Opt) (dflt' : List Bytes) (val' : Val) (lit' : Bytes)
    (longNS envKey : Bytes) (hmask : o.defaultMask ≠ []) :
    manOptionText E { o with dflt := dflt', val := val', defaultLiteral := lit' } longNS envKey =
      manOptionText E o longNS envKey := by
  unfold manOptionText
  simp [hmask]

/-- the mask `-` shows nothing at all -/
theorem dash_mask_shows_no_default (o : Opt) (envKey : Bytes) (h : o.defaultMask = B "-") :
    helpOptionDesc o envKey = o.desc ++ (if envKey ≠ [] then B " [$" ++ envKey ++ B "]" else []) := by
  unfold helpOptionDesc
  simp [h]

/-- **Nothing hidden is shown — options.** A hidden option contributes no bytes to the help … -/
theorem hidden_option_has_no_help_row (o : Opt) (longNS envKey : Bytes) (info : AlignInfo) (h : o.hidden = true) :
    helpOptionText o longNS envKey info = some [] := by
  unfold helpOptionText; simp [h]

/-- … and none to the man page: only options with `showInHelp` get an entry -/
theorem man_lists_only_visible_options (o : Opt) (h : o.hidden = true) : o.showInHelp = false := by
  unfold Opt.showInHelp; simp [h]

/-- a hidden group, or a group without a visible option, is skipped as a whole -/
theorem hidden_group_not_shown (g : Grp) (h : g.hidden = true) : g.showInHelp = false := by
  unfold Grp.showInHelp; simp [h]

/-- **Nothing hidden is shown — commands.** Hidden subcommands are in neither the usage line nor
    "Available commands", nor do they get a man section: all three use `visibleCommands`. -/
theorem visible_commands_are_not_hidden (P : Parser) (ci s : Nat) (h : s ∈ P.visibleCommands ci) :
    (P.cmd s).hidden = false ∧ s ∈ P.subs ci := by
  unfold Parser.visibleCommands at h
  simp only [List.mem_filter, Bool.not_eq_true'] at h
  exact ⟨h.2, h.1⟩

theorem insertCmdSorted_mem (P : Parser) (x : Nat) (l : List Nat) (y : Nat) :
    y ∈ insertCmdSorted P x l ↔ y = x ∨ y ∈ l := by
  induction l with
  | nil => simp [insertCmdSorted]
  | cons z zs ih =>
    unfold insertCmdSorted
    split
    · simp
    · simp [ih]; constructor
      · rintro (h | h | h) <;> simp [h]
      · rintro (h | h | h) <;> simp [h]

/-- sorting the visible commands neither adds nor loses a command -/
theorem sorted_visible_commands_same_members (P : Parser) (ci s : Nat) :
    s ∈ P.sortedVisibleCommands ci ↔ s ∈ P.visibleCommands ci := by
  unfold Parser.sortedVisibleCommands
  induction P.visibleCommands ci with
  | nil => simp
  | cons x xs ih => simp only [List.foldr_cons, insertCmdSorted_mem, ih, List.mem_cons]

/-- **Every visible item is shown — option row.** The row of an option with a long name contains
    `--` followed by its namespaced long name, and then — for an argument-taking option — `=`, its
    value name and its choices. -/
theorem visible_row_shows_names (o : Opt) (longNS : Bytes) (info : AlignInfo) (hl : o.long ≠ []) :
    ∃ pre, helpOptionHead o longNS info =
      pre ++ (B "--" ++ longNS) ++ (if o.ty.canArgument then 0x3D :: (o.valueName ++ choicesText o) else []) := by
  unfold helpOptionHead
  simp only [hl, ne_eq, not_false_eq_true, if_true]
  refine ⟨spaces (2 + if info.indent = true then 4 else 0) ++
    (if o.short ≠ 0 then 0x2D :: encodeRune o.short else if info.hasShort then B "  " else []) ++
    (if o.short ≠ 0 then B ", " else if info.hasShort then B "  " else []), ?_⟩
  simp only [List.append_assoc]

/-- a short name is shown as `-x` right after the padding -/
theorem visible_row_shows_short (o : Opt) (longNS : Bytes) (info : AlignInfo) (hs : o.short ≠ 0) :
    ∃ post, helpOptionHead o longNS info =
      spaces (2 + (if info.indent then 4 else 0)) ++ (0x2D :: encodeRune o.short) ++ post := by
  unfold helpOptionHead
  simp only [hs, ne_eq, not_false_eq_true, if_true]
  refine ⟨(if o.long ≠ [] then B ", " ++ B "--" ++ longNS else []) ++
    (if o.ty.canArgument then 0x3D :: (o.valueName ++ choicesText o) else []), ?_⟩
  simp only [List.append_assoc, List.cons_append]

/-- the description part shows the description, then the default (or its mask), then the
    environment variable with its namespaces -/
theorem description_shows_default_and_env (o : Opt) (envKey : Bytes) (hm : o.defaultMask = []) (hd : o.defaultLiteral ≠ [])
    (he : envKey ≠ []) :
    helpOptionDesc o envKey = o.desc ++ B " (default: " ++ o.defaultLiteral ++ B ")" ++ B " [$" ++ envKey ++ B "]" := by
  unfold helpOptionDesc; simp [hm, hd, he]

/-- the man page walks the whole tree of non-hidden commands: each visible subcommand of a
    command that is itself reached gets its section (one unfolding of the recursion) -/
theorem man_recurses_over_visible_commands (E : Env) (P : Parser) (fuel root : Nat) (name pfx : Bytes) :
    ∃ f : Nat → Bytes, manCommandsFuel E P (fuel + 1) root name pfx = (P.sortedVisibleCommands root).flatMap f :=
  ⟨_, rfl⟩


/-! ### Whole help texts: every visible item is in the text -/

theorem infix_flatMap {α} (f : α → Bytes) (l : List α) (x : α) (h : x ∈ l) : f x <:+: l.flatMap f := by
  induction l with
  | nil => simp at h
  | cons y ys ih =>
    simp only [List.flatMap_cons]
    rcases List.mem_cons.mp h with rfl | h
    · exact ⟨[], List.flatMap f ys, by simp⟩
    · obtain ⟨a, b, hab⟩ := ih h
      exact ⟨f y ++ a, b, by simp [← hab, List.append_assoc]⟩

/-- the row of a subcommand in the "Available commands" list -/
def commandRow (P : Parser) (maxlen : Nat) (i : Nat) : Bytes :=
  let c := P.cmd i
  B "  " ++ c.name ++
  (if c.shortDesc ≠ [] then
    spaces (maxlen - c.name.length) ++ B "  " ++ c.shortDesc ++
      (if c.aliases ≠ [] then B " (aliases: " ++ join (B ", ") c.aliases ++ B ")" else [])
   else []) ++ [0x0A]

/-- **Every non-hidden subcommand of the innermost active command is listed**, with its
    description and — beside it — its aliases: whenever `WriteHelp` produces a text at all, the row
    of each visible subcommand is part of that text. -/
theorem every_visible_subcommand_is_listed (P : Parser) (termCols : Int) (text : Bytes) (i : Nat)
    (h : writeHelp P termCols = some text)
    (hv : i ∈ P.visibleCommands (P.activeChain.getLastD 0)) :
    ∃ maxlen, commandRow P maxlen i <:+: text := by
  have hs : i ∈ P.sortedVisibleCommands (P.activeChain.getLastD 0) :=
    (sorted_visible_commands_same_members P _ i).mpr hv
  unfold writeHelp at h
  simp only at h
  split at h
  · simp at h
  · next body info' hb =>
    simp only [Option.some.injEq] at h
    have hne : P.sortedVisibleCommands (P.activeChain.getLastD 0) ≠ [] := by
      intro e; rw [e] at hs; simp at hs
    simp only [hne, if_false] at h
    refine ⟨((P.sortedVisibleCommands (P.activeChain.getLastD 0)).map fun i => (P.cmd i).name.length).foldl max 0, ?_⟩
    rw [← h]
    apply List.infix_append_of_infix_right
    apply List.infix_append_of_infix_right
    exact infix_flatMap (commandRow P _) _ i hs



theorem foldl_none {α β} (f : Option β → α → Option β) (hf : ∀ a, f none a = none) (l : List α) :
    l.foldl f none = none := by
  induction l with
  | nil => rfl
  | cons a l ih => simp [List.foldl_cons, hf, ih]

/-- the step of `helpArgsOfCmd` -/
def argStep (info : AlignInfo) (acc : Option Bytes) (a : ArgD) : Option Bytes :=
  match acc with
  | none => none
  | some out =>
    let argPrefix := B "  " ++ a.name ++ B ":"
    match repeatSp (((info.descriptionStart + 2 : Nat) : Int) - runeCount argPrefix) with
    | none => none
    | some pad =>
      some (out ++ argPrefix ++ pad ++
        wrapText a.desc ((info.cols : Int) - 1 - (info.descriptionStart + 2 : Nat)) (spaces (info.descriptionStart + 2)) ++ [0x0A])

theorem argStep_fold (info : AlignInfo) (l : List ArgD) :
    ∀ (acc t : Bytes), l.foldl (argStep info) (some acc) = some t →
      acc <+: t ∧ ∀ a ∈ l, (B "  " ++ a.name ++ B ":") <:+: t := by
  induction l with
  | nil =>
    intro acc t h
    simp only [List.foldl_nil, Option.some.injEq] at h
    subst h
    exact ⟨List.prefix_refl _, by simp⟩
  | cons a l ih =>
    intro acc t h
    simp only [List.foldl_cons] at h
    cases hs : argStep info (some acc) a with
    | none =>
      rw [hs, foldl_none (argStep info) (fun _ => rfl)] at h
      cases h
    | some acc' =>
      rw [hs] at h
      obtain ⟨hp, hall⟩ := ih acc' t h
      -- acc' extends acc by this argument's row
      have hacc' : ∃ rest, acc' = acc ++ (B "  " ++ a.name ++ B ":") ++ rest := by
        unfold argStep at hs
        simp only at hs
        split at hs
        · cases hs
        · next pad _ =>
          simp only [Option.some.injEq] at hs
          exact ⟨pad ++ wrapText a.desc ((info.cols : Int) - 1 - (info.descriptionStart + 2 : Nat)) (spaces (info.descriptionStart + 2)) ++ [0x0A],
            by rw [← hs]; simp [List.append_assoc]⟩
      obtain ⟨rest, hr⟩ := hacc'
      obtain ⟨tail, ht⟩ := hp
      refine ⟨⟨(B "  " ++ a.name ++ B ":") ++ rest ++ tail, by rw [← ht, hr]; simp [List.append_assoc]⟩, ?_⟩
      intro x hx
      rcases List.mem_cons.mp hx with rfl | hx
      · exact ⟨acc, rest ++ tail, by rw [← ht, hr]; simp [List.append_assoc]⟩
      · exact hall x hx

theorem helpArgsOfCmd_eq (P : Parser) (ci : Nat) (info : AlignInfo) :
    helpArgsOfCmd P ci info =
      (if ((P.cmd ci).args.filter fun a => a.desc ≠ []) = [] then some [] else
        ((P.cmd ci).args.filter fun a => a.desc ≠ []).foldl (argStep info)
          (some (if ci = 0 then B "\nArguments:\n" else B "\n[" ++ (P.cmd ci).name ++ B " command arguments]\n"))) := by
  unfold helpArgsOfCmd argStep
  rfl

/-- every described positional argument of a command has its row in that command's argument block -/
theorem described_argument_in_block (P : Parser) (ci : Nat) (info : AlignInfo) (t : Bytes) (a : ArgD)
    (h : helpArgsOfCmd P ci info = some t) (ha : a ∈ (P.cmd ci).args) (hd : a.desc ≠ []) :
    (B "  " ++ a.name ++ B ":") <:+: t := by
  rw [helpArgsOfCmd_eq] at h
  have hmem : a ∈ (P.cmd ci).args.filter fun a => a.desc ≠ [] := by
    simp [List.mem_filter, ha, hd]
  split at h
  · next hnil => rw [hnil] at hmem; simp at hmem
  · exact (argStep_fold info _ _ t h).2 a hmem



/-- the step of the loop over the active chain in `WriteHelp` -/
def bodyStep (P : Parser) (innermost : Nat) (acc : Option (Bytes × AlignInfo)) (ci : Nat) : Option (Bytes × AlignInfo) :=
  match acc with
  | none => none
  | some (out, info) =>
    match helpOptionsOfCmd P innermost ci info with
    | none => none
    | some (t, info) =>
      match helpArgsOfCmd P ci info with
      | none => none
      | some a => some (out ++ t ++ a, info)

theorem infix_of_infix_of_prefix {a b c : Bytes} (h1 : a <:+: b) (h2 : b <+: c) : a <:+: c := by
  obtain ⟨x, y, hxy⟩ := h1
  obtain ⟨z, hz⟩ := h2
  exact ⟨x, y ++ z, by rw [← hz, ← hxy]; simp [List.append_assoc]⟩

theorem bodyStep_fold (P : Parser) (innermost : Nat) (chain : List Nat) :
    ∀ (acc : Bytes) (info : AlignInfo) (t : Bytes) (info' : AlignInfo),
      chain.foldl (bodyStep P innermost) (some (acc, info)) = some (t, info') →
      acc <+: t ∧ ∀ ci ∈ chain, ∃ infoA infoO opts args, helpOptionsOfCmd P innermost ci infoO = some (opts, infoA) ∧
        helpArgsOfCmd P ci infoA = some args ∧ opts <:+: t ∧ args <:+: t := by
  induction chain with
  | nil =>
    intro acc info t info' h
    simp only [List.foldl_nil, Option.some.injEq, Prod.mk.injEq] at h
    obtain ⟨rfl, _⟩ := h
    exact ⟨List.prefix_refl _, by simp⟩
  | cons ci chain ih =>
    intro acc info t info' h
    simp only [List.foldl_cons] at h
    cases hs : bodyStep P innermost (some (acc, info)) ci with
    | none =>
      rw [hs, foldl_none (bodyStep P innermost) (fun _ => rfl)] at h
      cases h
    | some r =>
      obtain ⟨acc', info1⟩ := r
      rw [hs] at h
      obtain ⟨hp, hall⟩ := ih acc' info1 t info' h
      unfold bodyStep at hs
      simp only at hs
      cases ho : helpOptionsOfCmd P innermost ci info with
      | none => rw [ho] at hs; cases hs
      | some r2 =>
        obtain ⟨opts, infoA⟩ := r2
        rw [ho] at hs
        simp only at hs
        cases ha : helpArgsOfCmd P ci infoA with
        | none => rw [ha] at hs; cases hs
        | some args =>
          rw [ha] at hs
          simp only [Option.some.injEq, Prod.mk.injEq] at hs
          obtain ⟨hacc', _⟩ := hs
          have hpre : acc <+: acc' := ⟨opts ++ args, by rw [← hacc']; simp [List.append_assoc]⟩
          refine ⟨List.IsPrefix.trans hpre hp, ?_⟩
          intro x hx
          rcases List.mem_cons.mp hx with rfl | hx
          · refine ⟨infoA, info, opts, args, ho, ha, ?_, ?_⟩
            · exact infix_of_infix_of_prefix ⟨acc, args, by rw [← hacc']⟩ hp
            · exact infix_of_infix_of_prefix ⟨acc ++ opts, [], by rw [← hacc']; simp [List.append_assoc]⟩ hp
          · exact hall x hx

/-- **Every described positional argument of every command of the active chain is listed**: whenever
    `WriteHelp` produces a text, it contains the row `  name:` of each positional argument that has a
    description — whatever comes before it (described or not) in the declaration. -/
theorem every_described_argument_is_listed (P : Parser) (termCols : Int) (text : Bytes) (ci : Nat) (a : ArgD)
    (h : writeHelp P termCols = some text) (hc : ci ∈ P.activeChain)
    (ha : a ∈ (P.cmd ci).args) (hd : a.desc ≠ []) :
    (B "  " ++ a.name ++ B ":") <:+: text := by
  unfold writeHelp at h
  simp only at h
  split at h
  · cases h
  · next body info' hb =>
    simp only [Option.some.injEq] at h
    have hfold : P.activeChain.foldl (bodyStep P (P.activeChain.getLastD 0)) (some ([], getAlignmentInfo P termCols)) = some (body, info') := hb
    obtain ⟨_, hall⟩ := bodyStep_fold P _ P.activeChain [] _ body info' hfold
    obtain ⟨infoA, infoO, opts, args, _, hargs, _, hin⟩ := hall ci hc
    have hrow := described_argument_in_block P ci infoA args a hargs ha hd
    obtain ⟨x, y, hxy⟩ := hrow
    obtain ⟨u, v, huv⟩ := hin
    rw [← h]
    have hinb : (B "  " ++ a.name ++ B ":") <:+: body :=
      ⟨u ++ x, y ++ v, by rw [← huv, ← hxy]; simp [List.append_assoc]⟩
    exact List.infix_append_of_infix_left (List.infix_append_of_infix_right hinb)



theorem go_rows (P : Parser) (innermost ci : Nat) (c : Cmd) (g : Grp) (gi : Nat) (ois : List Nat) :
    ∀ (out : Bytes) (info : AlignInfo) (printcmd first : Bool) (out' : Bytes) (info' : AlignInfo) (pc' : Bool),
      helpOptionsOfCmd.go P innermost ci c g gi ois out info printcmd first = some (out', info', pc') →
      out <+: out' ∧ ∀ oi ∈ ois, (g.opts.getD oi {}).showInHelp = true →
        ∃ infoR row, writeHelpOption P ⟨ci, gi, oi⟩ infoR = some row ∧ row <:+: out' := by
  induction ois with
  | nil =>
    intro out info printcmd first out' info' pc' h
    unfold helpOptionsOfCmd.go at h
    simp only [Option.some.injEq, Prod.mk.injEq] at h
    obtain ⟨rfl, _, _⟩ := h
    exact ⟨List.prefix_refl _, by simp⟩
  | cons oi ois ih =>
    intro out info printcmd first out' info' pc' h
    unfold helpOptionsOfCmd.go at h
    simp only at h
    by_cases hshow : (g.opts.getD oi {}).showInHelp = true
    · simp only [hshow, Bool.not_true, Bool.false_eq_true, if_false] at h
      -- the headers that may be inserted first
      generalize hhdr : (if printcmd = true then (out ++ B "\n[" ++ c.name ++ B " command options]\n", ({ info with indent := true } : AlignInfo), false)
          else (out, info, printcmd)) = hd at h
      obtain ⟨out1, info1, pc1⟩ := hd
      simp only at h
      have hp1 : out <+: out1 := by
        split at hhdr
        · simp only [Prod.mk.injEq] at hhdr; rw [← hhdr.1]
          exact ⟨B "\n[" ++ c.name ++ B " command options]\n", by simp [List.append_assoc]⟩
        · simp only [Prod.mk.injEq] at hhdr; rw [← hhdr.1]; exact List.prefix_refl _
      generalize hhdr2 : (if (first && !(decide (ci = innermost) && decide (gi = 0))) = true then
          (out1 ++ B "\n" ++ (if info1.indent = true then B "    " else []) ++ g.shortDesc ++ B ":\n", false)
          else (out1, first)) = hd2 at h
      obtain ⟨out2, first2⟩ := hd2
      simp only at h
      have hp2 : out1 <+: out2 := by
        split at hhdr2
        · simp only [Prod.mk.injEq] at hhdr2; rw [← hhdr2.1]
          exact ⟨B "\n" ++ (if info1.indent = true then B "    " else []) ++ g.shortDesc ++ B ":\n", by simp [List.append_assoc]⟩
        · simp only [Prod.mk.injEq] at hhdr2; rw [← hhdr2.1]; exact List.prefix_refl _
      cases hw : writeHelpOption P ⟨ci, gi, oi⟩ info1 with
      | none => rw [hw] at h; cases h
      | some row =>
        rw [hw] at h
        simp only at h
        obtain ⟨hp3, hall⟩ := ih (out2 ++ row) info1 pc1 first2 out' info' pc' h
        refine ⟨(hp1.trans hp2).trans (List.IsPrefix.trans ⟨row, rfl⟩ hp3), ?_⟩
        intro x hx hsx
        rcases List.mem_cons.mp hx with rfl | hx
        · exact ⟨info1, row, hw, infix_of_infix_of_prefix ⟨out2, [], by simp⟩ hp3⟩
        · exact hall x hx hsx
    · have hs : (g.opts.getD oi {}).showInHelp = false := Bool.eq_false_iff.mpr hshow
      simp only [hs, Bool.not_false, if_true] at h
      obtain ⟨hp, hall⟩ := ih out info printcmd first out' info' pc' h
      refine ⟨hp, ?_⟩
      intro x hx hsx
      rcases List.mem_cons.mp hx with rfl | hx
      · rw [hs] at hsx; cases hsx
      · exact hall x hx hsx



/-- the step over the groups of one command in `helpOptionsOfCmd` -/
def grpStep (P : Parser) (innermost ci : Nat) (c : Cmd) (acc : Option (Bytes × AlignInfo × Bool)) (ggi : Grp × Nat) :
    Option (Bytes × AlignInfo × Bool) :=
  match acc with
  | none => none
  | some (out, info, printcmd) =>
    match ggi with
    | (g, gi) =>
      if (g.hidden || g.isBuiltinHelp && decide (ci ≠ 0)) = true then some (out, info, printcmd)
      else helpOptionsOfCmd.go P innermost ci c g gi (List.range g.opts.length) out info printcmd true

theorem grpStep_fold (P : Parser) (innermost ci : Nat) (c : Cmd) (l : List (Grp × Nat)) :
    ∀ (acc : Bytes) (info : AlignInfo) (pc : Bool) (out' : Bytes) (info' : AlignInfo) (pc' : Bool),
      l.foldl (grpStep P innermost ci c) (some (acc, info, pc)) = some (out', info', pc') →
      acc <+: out' ∧ ∀ ggi ∈ l, (ggi.1.hidden || ggi.1.isBuiltinHelp && decide (ci ≠ 0)) = false →
        ∀ oi, oi < ggi.1.opts.length → (ggi.1.opts.getD oi {}).showInHelp = true →
          ∃ infoR row, writeHelpOption P ⟨ci, ggi.2, oi⟩ infoR = some row ∧ row <:+: out' := by
  induction l with
  | nil =>
    intro acc info pc out' info' pc' h
    simp only [List.foldl_nil, Option.some.injEq, Prod.mk.injEq] at h
    obtain ⟨rfl, _, _⟩ := h
    exact ⟨List.prefix_refl _, by simp⟩
  | cons ggi l ih =>
    intro acc info pc out' info' pc' h
    simp only [List.foldl_cons] at h
    cases hs : grpStep P innermost ci c (some (acc, info, pc)) ggi with
    | none =>
      rw [hs, foldl_none (grpStep P innermost ci c) (fun _ => rfl)] at h
      cases h
    | some r =>
      obtain ⟨acc1, info1, pc1⟩ := r
      rw [hs] at h
      obtain ⟨hp, hall⟩ := ih acc1 info1 pc1 out' info' pc' h
      obtain ⟨g, gi⟩ := ggi
      unfold grpStep at hs
      simp only at hs
      by_cases hhid : (g.hidden || g.isBuiltinHelp && decide (ci ≠ 0)) = true
      · simp only [hhid, if_true, Option.some.injEq, Prod.mk.injEq] at hs
        obtain ⟨rfl, _, _⟩ := hs
        refine ⟨hp, ?_⟩
        intro x hx hnh
        rcases List.mem_cons.mp hx with rfl | hx
        · simp only at hnh; rw [hnh] at hhid; cases hhid
        · exact hall x hx hnh
      · simp only [hhid, if_false] at hs
        obtain ⟨hp0, hrows⟩ := go_rows P innermost ci c g gi _ acc info pc true acc1 info1 pc1 hs
        refine ⟨hp0.trans hp, ?_⟩
        intro x hx hnh
        rcases List.mem_cons.mp hx with rfl | hx
        · intro oi hoi hshow
          obtain ⟨infoR, row, hw, hin⟩ := hrows oi (List.mem_range.mpr hoi) hshow
          exact ⟨infoR, row, hw, infix_of_infix_of_prefix hin hp⟩
        · exact hall x hx hnh

theorem helpOptionsOfCmd_rows (P : Parser) (innermost ci : Nat) (info infoA : AlignInfo) (opts : Bytes)
    (h : helpOptionsOfCmd P innermost ci info = some (opts, infoA))
    (g : Grp) (gi : Nat) (hg : (g, gi) ∈ (P.cmd ci).groups.zipIdx)
    (hnh : (g.hidden || g.isBuiltinHelp && decide (ci ≠ 0)) = false)
    (oi : Nat) (hoi : oi < g.opts.length) (hshow : (g.opts.getD oi {}).showInHelp = true) :
    ∃ infoR row, writeHelpOption P ⟨ci, gi, oi⟩ infoR = some row ∧ row <:+: opts := by
  unfold helpOptionsOfCmd at h
  simp only at h
  have hfold : ∀ r, (P.cmd ci).groups.zipIdx.foldl (grpStep P innermost ci (P.cmd ci)) (some ([], info, decide (ci ≠ 0))) = r →
      (match r with | none => none | some (out, info, _) => some (out, info)) = some (opts, infoA) →
      ∃ infoR row, writeHelpOption P ⟨ci, gi, oi⟩ infoR = some row ∧ row <:+: opts := by
    intro r hr hm
    cases r with
    | none => cases hm
    | some r =>
      obtain ⟨out', info', pc'⟩ := r
      simp only [Option.some.injEq, Prod.mk.injEq] at hm
      obtain ⟨rfl, _⟩ := hm
      exact (grpStep_fold P innermost ci (P.cmd ci) _ [] info _ out' info' pc' hr).2 (g, gi) hg hnh oi hoi hshow
  exact hfold _ rfl h

/-- **Every non-hidden option of every non-hidden group along the active command chain has its row in
    the help text**: whenever `WriteHelp` produces a text, the row rendered for the option (padding,
    `-x`, `--namespaced-long`, `=VALUE[choices]`, description with default and environment variable:
    `visible_row_shows_names`, `description_shows_default_and_env`) is part of that text. -/
theorem every_visible_option_has_its_row (P : Parser) (termCols : Int) (text : Bytes) (ci : Nat)
    (h : writeHelp P termCols = some text) (hc : ci ∈ P.activeChain)
    (g : Grp) (gi : Nat) (hg : (g, gi) ∈ (P.cmd ci).groups.zipIdx)
    (hnh : (g.hidden || g.isBuiltinHelp && decide (ci ≠ 0)) = false)
    (oi : Nat) (hoi : oi < g.opts.length) (hshow : (g.opts.getD oi {}).showInHelp = true) :
    ∃ infoR row, writeHelpOption P ⟨ci, gi, oi⟩ infoR = some row ∧ row <:+: text := by
  unfold writeHelp at h
  simp only at h
  split at h
  · cases h
  · next body info' hb =>
    simp only [Option.some.injEq] at h
    have hfold : P.activeChain.foldl (bodyStep P (P.activeChain.getLastD 0)) (some ([], getAlignmentInfo P termCols)) = some (body, info') := hb
    obtain ⟨_, hall⟩ := bodyStep_fold P _ P.activeChain [] _ body info' hfold
    obtain ⟨infoA, infoO, opts, args, hopts, _, hin, _⟩ := hall ci hc
    obtain ⟨infoR, row, hw, hrow⟩ := helpOptionsOfCmd_rows P _ ci infoO infoA opts hopts g gi hg hnh oi hoi hshow
    refine ⟨infoR, row, hw, ?_⟩
    rw [← h]
    obtain ⟨x, y, hxy⟩ := hrow
    obtain ⟨u, v, huv⟩ := hin
    have hinb : row <:+: body := ⟨u ++ x, y ++ v, by rw [← huv, ← hxy]; simp [List.append_assoc]⟩
    exact List.infix_append_of_infix_left (List.infix_append_of_infix_right hinb)


end GoFlags.C16
