/-
  C04 — Parsing is total, contained and typed.

  Totality: `parseArgs` is a total function of the model (structural recursion on the fuel and
  on lists); the Go panic sites that used to be reachable from it (nil choice value D1,
  parameterless callback with a value D21, unformattable base D19) are repaired in the tree and
  the model has no partial operation left on these paths.  Typed: every rejection caused by an
  option token, a default, a required item or a command is a `*flags.Error` of the documented
  type.  Contained: output events are produced by `printError` alone.  Termination: the loop
  takes fuel in the model; `argument_loop_terminates` shows that, for every unknown-option handler
  that does not invent tokens, the fuel the model gives it is never what ends the loop — it ends
  by itself after at most one iteration per token.
-/
import GoFlags.Props.C04.Facts
import GoFlags.Lemmas.ParseLog

namespace GoFlags.C04
open GoFlags Bytes

def GoErr.isFlags : GoErr → Bool
  | .flags _ _ => true
  | _ => false

theorem wrapMarshal_flags (P : Parser) (r : ORef) (e : GoErr) : GoErr.isFlags (wrapMarshal P r e) = true := by
  cases e <;> rfl

theorem finishSet_err_flags (s : PS) (r : ORef) (res : Parser × List Event × Option GoErr) (e : GoErr)
    (h : (finishSet s r res).2 = some e) : GoErr.isFlags e = true := by
  unfold finishSet at h
  simp only [Option.map_eq_some_iff] at h
  obtain ⟨a, _, ha⟩ := h
  rw [← ha]; exact wrapMarshal_flags _ _ _

/-- Every rejection of an option occurrence is a `*flags.Error`: missing / option-looking /
    `--` argument ⇒ ErrExpectedArgument, argument for a flag ⇒ ErrNoArgumentForBool, bad quoting
    or unconvertible value ⇒ ErrMarshal, not a declared choice ⇒ ErrInvalidChoice, and whatever a
    callback returns that is not already a `*flags.Error` is wrapped as ErrMarshal. -/
theorem option_rejection_is_typed (E : Env) (help : HelpFn) (s : PS) (r : ORef) (canarg : Bool)
    (argument : Option Bytes) (e : GoErr) (h : (parseOption E help s r canarg argument).2 = some e) :
    GoErr.isFlags e = true := by
  unfold parseOption at h
  simp only at h
  split at h
  · split at h
    · simp at h; rw [← h]; rfl
    · exact finishSet_err_flags _ _ _ _ h
  · split at h
    · have ht : ∀ e', (takeArgument s r argument).2.2 = some e' → GoErr.isFlags e' = true := by
        intro e' he'
        unfold takeArgument at he'
        split at he'
        · simp at he'
        · simp only at he'
          split at he'
          · simp at he'; rw [← he']; rfl
          · split at he'
            · simp at he'; rw [← he']; rfl
            · simp at he'
      generalize takeArgument s r argument = ta at h ht
      obtain ⟨s1, a, e1⟩ := ta
      cases e1 with
      | some e1 => simp at h; rw [← h]; exact ht e1 rfl
      | none =>
        simp only at h
        split at h
        · simp at h; rw [← h]; rfl
        · exact finishSet_err_flags _ _ _ _ h
    · split at h
      · exact finishSet_err_flags _ _ _ _ h
      · simp at h; rw [← h]; rfl

/-- an unknown long option is ErrUnknownFlag naming it -/
theorem long_rejection_is_typed (E : Env) (help : HelpFn) (s : PS) (name : Bytes) (argument : Option Bytes)
    (e : GoErr) (h : (parseLong E help s name argument).2 = some e) : GoErr.isFlags e = true := by
  unfold parseLong at h
  split at h
  · exact option_rejection_is_typed _ _ _ _ _ _ _ h
  · simp at h; rw [← h]; rfl

theorem shortLoop_rejection_is_typed (E : Env) (help : HelpFn) (total fuel : Nat) (s : PS) (opt : Bytes) (i : Nat)
    (argument : Option Bytes) (e : GoErr)
    (h : (parseShortLoop E help total fuel s opt i argument).2 = some e) : GoErr.isFlags e = true := by
  fun_induction parseShortLoop E help total fuel s opt i argument with
  | case1 => simp at h
  | case2 => simp at h
  | case3 fuel s b rest i argument c w hd r hl canarg s' e' hp =>
    simp at h; rw [← h]
    exact option_rejection_is_typed E help s r canarg argument e' (by rw [hp])
  | case4 fuel s b rest i argument c w hd r hl canarg s' hp ih => exact ih h
  | case5 => simp at h; rw [← h]; rfl

theorem short_rejection_is_typed (E : Env) (help : HelpFn) (s : PS) (optname : Bytes) (argument : Option Bytes)
    (e : GoErr) (h : (parseShort E help s optname argument).2 = some e) : GoErr.isFlags e = true := by
  unfold parseShort at h
  exact shortLoop_rejection_is_typed _ _ _ _ _ _ _ _ _ h

/-- a missing required option or positional argument is ErrRequired -/
theorem required_rejection_is_typed (s : PS) (e : GoErr) (h0 : s.err = none)
    (h : (checkRequired s).err = some e) : ∃ m, e = .flags .required m := by
  unfold checkRequired at h
  simp only at h
  split at h
  · split at h
    · rw [h0] at h; simp at h
    · simp at h; exact ⟨_, h.symm⟩
    · simp at h; exact ⟨_, h.symm⟩
  · split at h
    · simp at h; exact ⟨_, h.symm⟩
    · simp at h; exact ⟨_, h.symm⟩

/-- a missing command is ErrCommandRequired, an unrecognised one ErrUnknownCommand -/
theorem command_rejection_is_typed (s : PS) :
    (∃ m, estimateCommand s = .flags .unknownCommand m ∧ s.retargs ≠ []) ∨
    (∃ m, estimateCommand s = .flags .commandRequired m ∧ s.retargs = []) := by
  unfold estimateCommand
  simp only
  split
  · left; exact ⟨_, rfl, by simp_all⟩
  · right; exact ⟨_, rfl, by simp_all⟩

/-- the policy switch wraps whatever is left into a `*flags.Error` (ErrUnknown) -/
theorem wrapError_flags (e : GoErr) : GoErr.isFlags (wrapError e) = true := by
  cases e <;> rfl

def Event.isOut : Event → Bool
  | .out _ _ => true
  | _ => false

/-- **Output discipline.** `ParseArgs` writes nothing unless PrintErrors is set and an error is
    returned; then it writes the error text and a newline exactly once — to standard output for
    ErrHelp, to standard error otherwise. -/
theorem output_discipline (E : Env) (help : HelpFn) (P : Parser) (argv : List Bytes)
    (hi : P.internalError = none) :
    let res := parseArgs E help P argv
    res.log.filter Event.isOut =
      match res.err with
      | some e => if res.P.opts.printErrors then [.out (!e.isHelp) (e.text ++ [0x0A])] else []
      | none => [] := by
  unfold parseArgs
  simp only [hi]
  generalize hs : parsePhase E help (prepare E P) argv = s
  have hno : s.log.filter Event.isOut = [] := by
    subst hs
    apply List.filter_eq_nil_iff.mpr
    intro ev hev
    have := parsePhase_log E help (prepare E P) argv ev hev
    cases ev <;> simp_all [Event.duringParse, Event.isOut]
  have hoc : (outcome s).2.filter Event.isOut = [] := by
    unfold outcome
    split
    · exact hno
    · unfold dispatch
      simp only
      split
      · exact hno
      · split
        · split <;> simp [List.filter_append, List.filter_cons, hno, Event.isOut]
        · split <;> simp [List.filter_append, List.filter_cons, hno, Event.isOut]
  unfold finishParse
  split
  · simp [hoc]
  · simp only
    split
    · simp [List.filter_append, List.filter_cons, hoc, Event.isOut]
    · simp [hoc]

/-- a setup error is returned as is, without output and without side effects -/
theorem setup_error_replayed (E : Env) (help : HelpFn) (P : Parser) (argv : List Bytes) (e : GoErr)
    (hi : P.internalError = some e) :
    (parseArgs E help P argv).err = some e ∧ (parseArgs E help P argv).log = [] ∧ (parseArgs E help P argv).P = P := by
  unfold parseArgs; simp [hi]

/-- **The argument loop terminates by itself**: for every declaration, option set and argument
    vector, and every unknown-option handler that does not invent tokens, the result of the loop is
    the same for every amount of fuel above the number of arguments — in particular for the fuel
    `parsePhase` uses.  (A handler that returns more tokens than it was given can keep the real
    loop running for ever; that is the handler's doing.) -/
theorem argument_loop_terminates (E : Env) (help : HelpFn) (P : Parser) (argv : List Bytes) (f : Nat)
    (hh : P.cfg.1.shrinks = true) (hf : argv.length < f) :
    parseLoop E help (4 * argv.length + 16) (({ P := P, args := argv } : PS).fill 0) =
      parseLoop E help f (({ P := P, args := argv } : PS).fill 0) := by
  apply parseLoop_fuel_irrelevant
  · exact hh
  · show argv.length < 4 * argv.length + 16
    omega
  · exact hf

end GoFlags.C04
