/-
  C15 — Outcomes are deterministic.

  Every operation of the model is a function of its inputs, so two evaluations agree.  What has
  to be *shown* is that the places where the Go code enumerates a map produce a result that does
  not depend on the enumeration order — in the model: that the result is invariant under
  permutation of what is enumerated.  After the repairs D6 (INI sections) and D7 (map rendering)
  every such place sorts, or applies effects on distinct keys.
-/
import GoFlags.Props.C15.Facts
import GoFlags.Ini
import GoFlags.Man
import GoFlags.Completion
import GoFlags.Lemmas.Sort
import GoFlags.Lemmas.Tables
import GoFlags.Props.C18

namespace GoFlags.C15
open GoFlags Bytes

/-- **Sorted output does not depend on the order of enumeration** (error messages listing
    required flags, command listings, INI map keys: all go through `sortStrings`). -/
theorem sorted_names_order_independent (l1 l2 : List Bytes) (h : l1.Perm l2) :
    sortStrings l1 = sortStrings l2 := sortStrings_order_independent l1 l2 h

/-- the required-flags message is built from the sorted names: enumerating the missing options in
    another order gives the same message -/
theorem required_message_order_independent (names1 names2 : List Bytes) (h : names1.Perm names2) :
    andList (sortStrings names1) = andList (sortStrings names2) := by
  rw [sortStrings_order_independent _ _ h]

/-- **Completion lists**: whatever order the long- and short-name tables are enumerated in, the
    sorted list has the same members (and is sorted, C18) — two sorted lists of the same items
    with distinct texts are equal. -/
theorem completion_members_order_independent (l1 l2 : List (Bytes × Bytes)) (h : l1.Perm l2) (y : Bytes × Bytes) :
    y ∈ l1.foldr insertItem [] ↔ y ∈ l2.foldr insertItem [] := by
  rw [C18.foldr_insertItem_mem, C18.foldr_insertItem_mem]
  exact h.mem_iff

/-- **INI sections are applied in file order** (after D6): the section list produced by the
    reader is a list — its order is the order of first appearance — and `iniApplySections` folds
    over it from the left; there is no map to enumerate. The global section is always first. -/
theorem global_section_first (file : Bytes) (text : Bytes) (f : IniFile) (h : readIni file text = .ok f) :
    ∃ vals rest, f = ([], vals) :: rest := by
  unfold readIni at h
  -- invariant of the line loop: the head of the section list stays the global section
  have inv : ∀ (ls : List Bytes) (n : Nat) (st : IniFile × Bytes) (f : IniFile),
      (∃ vals rest, st.1 = ([], vals) :: rest) → readIniLines file ls n st = .ok f → ∃ vals rest, f = ([], vals) :: rest := by
    intro ls
    induction ls with
    | nil => intro n st f hst h; simp [readIniLines] at h; rw [← h]; exact hst
    | cons l ls ih =>
      intro n st f hst h
      unfold readIniLines at h
      split at h
      · cases h
      · next st' hl =>
        apply ih (n + 1) st' f ?_ h
        obtain ⟨vals, rest, hs⟩ := hst
        obtain ⟨f0, cur⟩ := st
        simp only at hs
        subst hs
        unfold readIniLine at hl
        simp only at hl
        have hadd : ∀ sec v, ∃ vals' rest', iniAddEntry (([], vals) :: rest) sec v = ([], vals') :: rest' := by
          intro sec v; unfold iniAddEntry; split <;> exact ⟨_, _, rfl⟩
        split at hl
        · injection hl with hl; subst hl; exact ⟨_, _, rfl⟩
        · injection hl with hl; subst hl; exact ⟨_, _, rfl⟩
        · injection hl with hl; subst hl; exact ⟨_, _, rfl⟩
        · split at hl
          · cases hl
          · split at hl
            · cases hl
            · injection hl with hl; subst hl
              simp only
              split
              · exact ⟨_, _, rfl⟩
              · exact ⟨_, _, rfl⟩
        · split at hl
          · cases hl
          · split at hl
            · cases hl
            · split at hl
              · split at hl
                · injection hl with hl; subst hl; exact hadd _ _
                · cases hl
              · injection hl with hl; subst hl; exact hadd _ _
  exact inv _ 0 _ f ⟨[], [], rfl⟩ h

/-- **Map rendering** (help default literal, after D7): the entries are sorted by key text, so
    the text does not depend on the order in which the map's entries are held. Stated for the
    sorting step: two enumerations of the same entries render to the same joined text. -/
theorem map_rendering_order_independent (items1 items2 : List Bytes) (h : items1.Perm items2) :
    join (B ", ") (sortStrings items1) = join (B ", ") (sortStrings items2) := by
  rw [sortStrings_order_independent _ _ h]

/-- the quote bookkeeping of the INI reader (`quotesLookup`, a Go map ranged at the end) assigns
    one flag per option: assignments to distinct options commute, so the order in which that map
    is enumerated cannot matter -/
theorem quote_flags_commute (P : Parser) (r1 r2 : ORef) (q1 q2 : Bool) (h : r1 ≠ r2)
    (hv1 : r1.valid P) (hv2 : r2.valid P) (r : ORef) :
    (((P.modOpt r1 fun o => { o with iniQuote := q1 }).modOpt r2 fun o => { o with iniQuote := q2 }).opt r) =
    (((P.modOpt r2 fun o => { o with iniQuote := q2 }).modOpt r1 fun o => { o with iniQuote := q1 }).opt r) := by
  by_cases e1 : r = r1
  · subst e1
    rw [Parser.opt_modOpt_ne _ _ _ _ (fun e => h e.symm), Parser.opt_modOpt_same _ _ _ hv1,
      Parser.opt_modOpt_same _ _ _ (ORef.valid_modOpt _ _ _ _ hv1), Parser.opt_modOpt_ne _ _ _ _ (fun e => h e.symm)]
  · by_cases e2 : r = r2
    · subst e2
      rw [Parser.opt_modOpt_same _ _ _ (ORef.valid_modOpt _ _ _ _ hv2), Parser.opt_modOpt_ne _ _ _ _ h,
        Parser.opt_modOpt_ne _ _ _ _ h, Parser.opt_modOpt_same _ _ _ hv2]
    · rw [Parser.opt_modOpt_ne _ _ _ _ (fun e => e2 e.symm), Parser.opt_modOpt_ne _ _ _ _ (fun e => e1 e.symm),
        Parser.opt_modOpt_ne _ _ _ _ (fun e => e1 e.symm), Parser.opt_modOpt_ne _ _ _ _ (fun e => e2 e.symm)]

end GoFlags.C15
