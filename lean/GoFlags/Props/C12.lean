/-
  C12 — INI write/read round trip.

  Proved here: what the writer emits for each kind of value and when it quotes (after D10/D11/
  D23), that what it comments out is exactly what the reader cannot or need not read, and the
  read-back of one written line: `string_value_round_trip` — for EVERY byte string and every
  admissible key the written line reads back as that key and that value, using
  `Unquote (Quote s) = s` (Lemmas/Quote.lean) and the `TrimSpace` lemmas (Lemmas/Trim.lean); the
  only assumption is on the IsPrint oracle (no white-space character beyond U+00FF is printable),
  which the harness checks against Go on every run.  The round trip over whole generated
  declarations (all kinds, slices, maps, groups, commands) is exercised on every run by the
  harness: write, read into a fresh parser, compare every option.
-/
import GoFlags.Props.C12.Trans
import GoFlags.Lemmas.OneLine
import GoFlags.Props.C12.Facts
import GoFlags.Ini
import GoFlags.Lemmas.Trim
import GoFlags.Props.C11

namespace GoFlags.C12
open GoFlags Bytes

/-- **When a string is quoted.** Exactly when it would not survive the reader: not printable, a
    blank at either end, or a leading double quote. -/
theorem needs_quote_iff (E : Env) (s : Bytes) :
    iniNeedsQuote E s = true ↔
      isPrintStr E s = false ∨ s.head? = some 0x20 ∨ s.getLast? = some 0x20 ∨ s.head? = some 0x22 := by
  unfold iniNeedsQuote
  simp [Bool.or_eq_true, or_assoc]

/-- the line the writer emits for a scalar value -/
theorem written_line_shape (E : Env) (name value : Bytes) (isStr comment force : Bool) :
    writeOption E name isStr [] value comment force =
      (if comment then B "; " else []) ++ name ++ B " =" ++
        (let v := if force || (isStr && iniNeedsQuote E value) then quote E value else value
         if v ≠ [] then B " " ++ v else []) ++ [0x0A] := by
  unfold writeOption
  simp

/-- a value that needs no quoting is written verbatim -/
theorem plain_value_written_verbatim (E : Env) (name value : Bytes) (isStr : Bool)
    (h : iniNeedsQuote E value = false) (hne : value ≠ []) :
    writeOption E name isStr [] value false false = name ++ B " = " ++ value ++ [0x0A] := by
  unfold writeOption
  simp [h, hne]

/-- **What is commented out cannot mislead the reader**: a nil pointer, an empty slice and an
    empty map are written as comment lines (`; name =`), which the reader skips. -/
theorem nil_pointer_is_commented (E : Env) (o : Opt) (s : Sc) (io : IniOpts) (ht : o.ty = .ptr s) (hv : o.val = .ptr none)
    (hc : io.includeComments = false) :
    writeIniOption E o io = B "; " ++ optionIniName o ++ B " =" ++ [0x0A] ∨
    writeIniOption E o io = B "; " ++ optionIniName o ++ B " = " ++ quote E [] ++ [0x0A] := by
  unfold writeIniOption
  simp only [ht, hv, hc, Bool.false_and, Bool.false_eq_true, if_false]
  unfold writeOption
  by_cases hq : o.iniQuote = true
  · right; simp [hq, quote, quoteBody]
  · left
    simp [hq]

theorem empty_slice_is_commented (E : Env) (o : Opt) (s : Sc) (io : IniOpts) (n : Bool) (ht : o.ty = .slice s)
    (hv : o.val = .slice n []) (hc : io.includeComments = false) (hq : o.iniQuote = false) :
    writeIniOption E o io = B "; " ++ optionIniName o ++ B " =" ++ [0x0A] := by
  unfold writeIniOption
  simp only [ht, hv, hc, Bool.false_and, Bool.false_eq_true, if_false]
  unfold writeOption
  simp [hq, iniNeedsQuote, isPrintStr, runes]

/-- a comment line is skipped by the reader whatever it contains (C14.noise_line_is_skipped) -/
theorem comment_line_is_skipped (file : Bytes) (st : IniFile × Bytes) (n : Nat) (rest : Bytes)
    (h : trimSpace (B "; " ++ rest) = B "; " ++ rest ∨ (trimSpace (B "; " ++ rest)).head? = some 0x3B) :
    readIniLine file st n (B "; " ++ rest) = .ok st := by
  unfold readIniLine
  obtain ⟨f, cur⟩ := st
  simp only
  have hh : (trimSpace (B "; " ++ rest)).head? = some 0x3B := by
    rcases h with h | h
    · rw [h]; rfl
    · exact h
  cases ht : trimSpace (B "; " ++ rest) with
  | nil => rfl
  | cons c r => rw [ht] at hh; simp at hh; simp [hh]

/-- every line of a multi-line description is a comment line (D23) -/
theorem description_lines_are_comments (desc : Bytes) :
    (desc.flatMap fun b => if b = 0x0A then B "\n; " else [b]) =
      (desc.flatMap fun b => if b = 0x0A then [0x0A, 0x3B, 0x20] else [b]) := rfl

/-- **Read-back of one written line (partial)**: a line `name = value` whose parts the trimmer
    leaves alone is read as the entry (name, value), unquoted, at its line number. -/
theorem plain_line_reads_back_partial (file : Bytes) (f : IniFile) (cur name value : Bytes) (n : Nat)
    (hline : trimSpace (name ++ B " = " ++ value) = name ++ B " = " ++ value)
    (hname : trimSpace (name ++ B " ") = name) (hvalue : trimSpace (B " " ++ value) = value)
    (hn0 : name ≠ []) (hfirst : ∀ c r, name = c :: r → c ≠ 0x3B ∧ c ≠ 0x23 ∧ c ≠ 0x5B)
    (heq : 0x3D ∉ name) (hq : value.head? ≠ some 0x22) :
    readIniLine file (f, cur) n (name ++ B " = " ++ value) =
      .ok (iniAddEntry f cur ⟨name, value, false, n⟩, cur) := by
  have hcut : cut 0x3D (name ++ B " = " ++ value) = (name ++ B " ", some (B " " ++ value)) := by
    clear hline hname hn0 hfirst
    induction name with
    | nil => simp [cut]
    | cons a t ih =>
      have ha : a ≠ 0x3D := by intro e; apply heq; simp [e]
      have ht : 0x3D ∉ t := by intro e; apply heq; simp [e]
      have := ih ht
      simp only [List.cons_append, List.append_assoc, List.nil_append] at this ⊢
      simp only [cut, ha, if_false, this]
  unfold readIniLine
  simp only [hline]
  cases hnm : name with
  | nil => exact absurd hnm hn0
  | cons c r =>
    obtain ⟨h1, h2, h3⟩ := hfirst c r hnm
    rw [hnm] at hcut hname
    simp only [List.cons_append]
    split
    · next h => simp at h
    · next h => simp at h; exact absurd h.1 h1
    · next h => simp at h; exact absurd h.1 h2
    · next h => simp at h; exact absurd h.1 h3
    · simp only [List.cons_append] at hcut
      rw [hcut]
      have hname' : trimSpace (c :: (r ++ [32])) = c :: r := by simpa using hname
      have hvalue' : trimSpace (32 :: ([] ++ value)) = value := by simpa using hvalue
      simp only [hname', hvalue']
      have hne : (c :: r) ≠ [] := by simp
      simp only [hne, if_false]
      cases hv : value with
      | nil => rfl
      | cons v0 vr =>
        rw [hv] at hq
        have hv0 : v0 ≠ 0x22 := by intro e; apply hq; simp [e]
        split
        · next h => simp at h; exact absurd h.1 hv0
        · rfl

/-! ### The full round trip of one string value -/

/-- `strings.TrimSpace` leaves a string alone when both of its ends do -/
theorem trimSpace_fix (s : Bytes) (h1 : trimLeft s = s) (h2 : trimRight s = s) : trimSpace s = s := by
  unfold trimSpace; rw [h1, h2]

/-- a key as it can stand in an INI file: not empty, nothing to trim at either end, no `=`, and not
    starting a comment or a section -/
structure IniKeyOK (name : Bytes) : Prop where
  ne : name ≠ []
  left : trimLeft name = name
  right : trimRight name = name
  noEq : 0x3D ∉ name
  first : ∀ c r, name = c :: r → c ≠ 0x3B ∧ c ≠ 0x23 ∧ c ≠ 0x5B

theorem cut_eq_key (name rest : Bytes) (h : 0x3D ∉ name) : cut 0x3D (name ++ 0x3D :: rest) = (name, some rest) := by
  induction name with
  | nil => simp [cut]
  | cons a t ih =>
    have ha : a ≠ 0x3D := by intro e; apply h; simp [e]
    have ht : 0x3D ∉ t := by intro e; apply h; simp [e]
    simp only [List.cons_append, cut, ha, if_false, ih ht]

/-- the line `key = X` (X not empty, ending in a byte that is no white space) is read as the pair
    (key, trimmed X) -/
theorem readIniLine_key_value (file : Bytes) (f : IniFile) (cur name X : Bytes) (n : Nat) (hk : IniKeyOK name)
    (hX : trimLeft X = X) (hXr : trimRight (name ++ B " = " ++ X) = name ++ B " = " ++ X) (hXr' : trimRight X = X)
    (hXne : X ≠ []) :
    readIniLine file (f, cur) n (name ++ B " = " ++ X) =
      if X.head? = some 0x22 then
        match unquote X with
        | some u => .ok (iniAddEntry f cur ⟨name, u, true, n⟩, cur)
        | none => .error (.ini file n (B "invalid syntax"))
      else .ok (iniAddEntry f cur ⟨name, X, false, n⟩, cur) := by
  have hline : trimSpace (name ++ B " = " ++ X) = name ++ B " = " ++ X := by
    apply trimSpace_fix _ _ hXr
    have : name ++ B " = " ++ X = name ++ 0x20 :: (B "= " ++ X) := by simp
    rw [this]
    exact trimLeft_fix_append name 0x20 _ hk.ne hk.left (by decide)
  have hcut : cut 0x3D (name ++ B " = " ++ X) = (name ++ [0x20], some (0x20 :: X)) := by
    have : name ++ B " = " ++ X = (name ++ [0x20]) ++ 0x3D :: (0x20 :: X) := by simp
    rw [this]
    apply cut_eq_key
    intro hm
    rcases List.mem_append.mp hm with h | h
    · exact hk.noEq h
    · simp at h
  have hkey : trimSpace (name ++ [0x20]) = name := by
    unfold trimSpace
    have : trimLeft (name ++ [0x20]) = name ++ [0x20] := trimLeft_fix_append name 0x20 [] hk.ne hk.left (by decide)
    rw [this, trimRight_space, hk.right]
  have hval : trimSpace (0x20 :: X) = X := by
    unfold trimSpace
    rw [trimLeft_space, hX, hXr']
  unfold readIniLine
  simp only [hline]
  obtain ⟨c, r, hnm⟩ := List.exists_cons_of_ne_nil hk.ne
  obtain ⟨h1, h2, h3⟩ := hk.first c r hnm
  have hhead : name ++ B " = " ++ X = c :: (r ++ B " = " ++ X) := by rw [hnm]; simp
  rw [hhead]
  split
  · next h => simp at h
  · next h => simp at h; first | exact absurd h h1 | exact absurd h.1 h1
  · next h => simp at h; first | exact absurd h h2 | exact absurd h.1 h2
  · next h => simp at h; first | exact absurd h h3 | exact absurd h.1 h3
  · rw [← hhead, hcut]
    simp only [hkey, hval, hk.ne, if_false]
    cases X with
    | nil => exact absurd rfl hXne
    | cons x0 xr =>
      by_cases hq : x0 = 0x22
      · subst hq; simp only [List.head?_cons, if_true]; rfl
      · have : ¬ (x0 :: xr).head? = some 0x22 := by simp [hq]
        simp only [this, if_false]
        split
        · next h => simp at h; first | exact absurd h hq | exact absurd h.1 hq
        · rfl

theorem quote_shape (E : Env) (s : Bytes) : ∃ body, quote E s = 0x22 :: (body ++ [0x22]) := ⟨quoteBody E s, rfl⟩

/-- **Write / read round trip of one string value.**  For every byte string `value` (any bytes:
    control characters, quotes, blanks at the ends, invalid UTF-8, non-ASCII, empty) and every
    admissible key, the line the writer emits for `key = value` — quoted when the value needs it or
    when the option was read quoted before, verbatim otherwise — is read back as exactly that key
    and that value. -/
theorem string_value_round_trip (E : Env) (hE : E.spacesNotPrintable) (file : Bytes) (f : IniFile) (cur name value : Bytes)
    (n : Nat) (force : Bool) (hk : IniKeyOK name) (hb : ∀ b ∈ value, b < 256) :
    ∃ q, readIniLine file (f, cur) n (writeOption E name true [] value false force).dropLast =
      .ok (iniAddEntry f cur ⟨name, value, q, n⟩, cur) := by
  unfold writeOption
  simp only [Bool.true_and, List.nil_append, List.head?_nil, Bool.false_eq_true, if_false, ne_eq, not_true_eq_false]
  by_cases hq : (force || iniNeedsQuote E value) = true
  · -- quoted
    simp only [hq, if_true]
    obtain ⟨body, hbody⟩ := quote_shape E value
    have hne : quote E value ≠ [] := by rw [hbody]; simp
    simp only [hne, not_false_eq_true, if_true]
    have hline : (name ++ B " =" ++ (B " " ++ quote E value) ++ [0x0A]).dropLast = name ++ B " = " ++ quote E value := by
      rw [List.dropLast_concat]; simp
    rw [hline]
    have hX : trimLeft (quote E value) = quote E value := by
      rw [hbody]; exact trimLeft_ascii_nonspace _ _ (by decide) (by decide)
    have hXr' : trimRight (quote E value) = quote E value := by
      rw [hbody, show 0x22 :: (body ++ [0x22]) = (0x22 :: body) ++ [0x22] from rfl]
      exact trimRight_ascii_nonspace _ _ (by decide) (by decide)
    have hXr : trimRight (name ++ B " = " ++ quote E value) = name ++ B " = " ++ quote E value := by
      rw [hbody, show name ++ B " = " ++ 0x22 :: (body ++ [0x22]) = (name ++ B " = " ++ 0x22 :: body) ++ [0x22] by simp]
      exact trimRight_ascii_nonspace _ _ (by decide) (by decide)
    rw [readIniLine_key_value file f cur name (quote E value) n hk hX hXr hXr' hne]
    have hh : (quote E value).head? = some 0x22 := by rw [hbody]; rfl
    simp only [hh, if_true, unquote_quote E value hb]
    exact ⟨true, rfl⟩
  · -- verbatim
    simp only [hq, Bool.false_eq_true, if_false]
    simp only [Bool.or_eq_true, not_or, Bool.not_eq_true] at hq
    obtain ⟨_, hnq⟩ := hq
    unfold iniNeedsQuote at hnq
    simp only [Bool.or_eq_false_iff, Bool.not_eq_false', decide_eq_false_iff_not] at hnq
    obtain ⟨⟨⟨hprint, hh20⟩, hl20⟩, hh22⟩ := hnq
    by_cases hv : value = []
    · -- `key =`
      subst hv
      simp only [not_true_eq_false, if_false, List.append_nil]
      have hline : (name ++ B " =" ++ [0x0A]).dropLast = name ++ B " =" := by rw [List.dropLast_concat]
      rw [hline]
      have htrim : trimSpace (name ++ B " =") = name ++ B " =" := by
        apply trimSpace_fix
        · have : name ++ B " =" = name ++ 0x20 :: [0x3D] := by simp
          rw [this]; exact trimLeft_fix_append name 0x20 _ hk.ne hk.left (by decide)
        · have : name ++ B " =" = (name ++ [0x20]) ++ [0x3D] := by simp
          rw [this]; exact trimRight_ascii_nonspace _ _ (by decide) (by decide)
      have hcut : cut 0x3D (name ++ B " =") = (name ++ [0x20], some []) := by
        have : name ++ B " =" = (name ++ [0x20]) ++ 0x3D :: [] := by simp
        rw [this]
        apply cut_eq_key
        intro hm
        rcases List.mem_append.mp hm with h | h
        · exact hk.noEq h
        · simp at h
      have hkey : trimSpace (name ++ [0x20]) = name := by
        unfold trimSpace
        have : trimLeft (name ++ [0x20]) = name ++ [0x20] := trimLeft_fix_append name 0x20 [] hk.ne hk.left (by decide)
        rw [this, trimRight_space, hk.right]
      unfold readIniLine
      simp only [htrim]
      obtain ⟨c, r, hnm⟩ := List.exists_cons_of_ne_nil hk.ne
      obtain ⟨h1, h2, h3⟩ := hk.first c r hnm
      have hhead : name ++ B " =" = c :: (r ++ B " =") := by rw [hnm]; simp
      rw [hhead]
      split
      · next h => simp at h
      · next h => simp at h; first | exact absurd h h1 | exact absurd h.1 h1
      · next h => simp at h; first | exact absurd h h2 | exact absurd h.1 h2
      · next h => simp at h; first | exact absurd h h3 | exact absurd h.1 h3
      · rw [← hhead, hcut]
        have he : trimSpace [] = [] := by simp [trimSpace, trimLeft_nil, trimRight_nil]
        simp only [hkey, he, hk.ne, if_false]
        exact ⟨false, rfl⟩
    · simp only [hv, not_false_eq_true, if_true]
      have hline : (name ++ B " =" ++ (B " " ++ value) ++ [0x0A]).dropLast = name ++ B " = " ++ value := by
        rw [List.dropLast_concat]; simp
      rw [hline]
      have hX := trimLeft_printable E hE value hprint hh20
      have hXr' := trimRight_printable E hE value hprint hl20
      have hXr : trimRight (name ++ B " = " ++ value) = name ++ B " = " ++ value := by
        have := trimRight_printable_after E hE (name ++ B " = ") value (Or.inr ⟨name ++ B " =", by simp⟩) hprint hv hl20
        simpa using this
      rw [readIniLine_key_value file f cur name value n hk hX hXr hXr' hv]
      simp only [hh22, if_false]
      exact ⟨false, rfl⟩

/-! Non-vacuity: an admissible key, and an oracle that meets the assumption. -/
example : IniKeyOK (B "Key") :=
  ⟨by decide, trimLeft_ascii_nonspace _ _ (by decide) (by decide),
   trimRight_ascii_nonspace (B "Ke") 0x79 (by decide) (by decide), by decide,
   by intro c r h; cases h; decide⟩

example : ({ (default : Env) with isPrintHi := fun _ => false } : Env).spacesNotPrintable := fun _ _ _ => rfl


/-! ### Numbers: the written line reads back, the digits parse back -/


/-- a value whose first and last bytes are ASCII and no white space (numbers, booleans, durations
    as the writer renders them) -/
structure PlainEnds (X : Bytes) : Prop where
  ne : X ≠ []
  first : ∀ c r, X = c :: r → c < 0x80 ∧ isAsciiSpace c = false ∧ c ≠ 0x22
  last : ∀ i c, X = i ++ [c] → c < 0x80 ∧ isAsciiSpace c = false

/-- **Write / read round trip of a whole slice of strings.**  A `[]string` option is written as
    one line per element (each quoted when it needs it); for EVERY list of byte strings, of any
    length, reading those lines back — in order, from any line number on — adds exactly one entry
    per element, under the option's key, with the element's bytes, in the order written (which
    the reader then appends one by one: `C01.slice_appends`). -/
theorem string_slice_round_trip (E : Env) (hE : E.spacesNotPrintable) (file : Bytes) (cur name : Bytes)
    (force : Bool) (hk : IniKeyOK name) (vs : List Bytes) (hb : ∀ v ∈ vs, ∀ b ∈ v, b < 256) :
    ∀ (f : IniFile) (n : Nat), ∃ es : List IniVal,
      es.map (fun e => (e.name, e.value)) = vs.map (fun v => (name, v)) ∧
      readIniLines file (vs.map fun v => (writeOption E name true [] v false force).dropLast) n (f, cur) =
        .ok (es.foldl (fun f e => iniAddEntry f cur e) f) := by
  induction vs with
  | nil => intro f n; exact ⟨[], rfl, rfl⟩
  | cons v vs ih =>
    intro f n
    obtain ⟨q, hq⟩ := string_value_round_trip E hE file f cur name v (n + 1) force hk (hb v (by simp))
    obtain ⟨es, hes, hr⟩ := ih (fun v' hv' => hb v' (by simp [hv'])) (iniAddEntry f cur ⟨name, v, q, n + 1⟩) (n + 1)
    refine ⟨⟨name, v, q, n + 1⟩ :: es, by simp [hes], ?_⟩
    simp only [List.map_cons, readIniLines, hq, List.foldl_cons]
    exact hr

theorem writeOption_ends_with_newline (E : Env) (name key value : Bytes) (isStr comment force : Bool) :
    writeOption E name isStr key value comment force =
      (writeOption E name isStr key value comment force).dropLast ++ [0x0A] := by
  unfold writeOption
  simp only
  rw [List.dropLast_concat]

/-- **Write / read round trip of a whole slice of strings — at the level of the TEXT.**  The
    text the writer emits for a `[]string` option (one line per element, each closed by a line
    feed) is split by the reader into exactly those lines — no element can smuggle a line break
    into the file: a printable string contains none and `strconv.Quote` escapes it
    (`writeOption_is_one_line`, `iniLines_of_lines`) — and reading them adds one entry per
    element, in order, with the element's bytes. -/
theorem string_slice_text_round_trip (E : Env) (hE : E.spacesNotPrintable) (file : Bytes) (cur name : Bytes)
    (force : Bool) (hk : IniKeyOK name) (hn : 0x0A ∉ name) (vs : List Bytes) (hb : ∀ v ∈ vs, ∀ b ∈ v, b < 256)
    (f : IniFile) (n : Nat) :
    ∃ es : List IniVal,
      es.map (fun e => (e.name, e.value)) = vs.map (fun v => (name, v)) ∧
      readIniLines file (iniLines (vs.flatMap fun v => writeOption E name true [] v false force)) n (f, cur) =
        .ok (es.foldl (fun f e => iniAddEntry f cur e) f) := by
  have htext : (vs.flatMap fun v => writeOption E name true [] v false force) =
      (vs.map fun v => (writeOption E name true [] v false force).dropLast).flatMap fun l => l ++ [0x0A] := by
    induction vs with
    | nil => rfl
    | cons v vs ih =>
      simp only [List.flatMap_cons, List.map_cons]
      rw [ih (fun v' hv' => hb v' (by simp [hv'])), ← writeOption_ends_with_newline]
  rw [htext, iniLines_of_lines _ (by
    intro l hl
    simp only [List.mem_map] at hl
    obtain ⟨v, _, rfl⟩ := hl
    exact writeOption_is_one_line E name v force hn)]
  exact string_slice_round_trip E hE file cur name force hk vs hb f n

/-- **A value written verbatim reads back verbatim**: the line `key = X`, for any X with plain
    ends, is read as the entry (key, X), unquoted. -/
theorem plain_value_line_reads_back (file : Bytes) (f : IniFile) (cur name X : Bytes) (n : Nat)
    (hk : IniKeyOK name) (hX : PlainEnds X) :
    readIniLine file (f, cur) n (name ++ B " = " ++ X) = .ok (iniAddEntry f cur ⟨name, X, false, n⟩, cur) := by
  obtain ⟨c, r, hcr⟩ := List.exists_cons_of_ne_nil hX.ne
  obtain ⟨hc1, hc2, hc3⟩ := hX.first c r hcr
  obtain ⟨i, l, hil⟩ : ∃ i l, X = i ++ [l] := by
    rcases List.eq_nil_or_concat X with h | ⟨i, l, h⟩
    · exact absurd h hX.ne
    · exact ⟨i, l, by simpa using h⟩
  obtain ⟨hl1, hl2⟩ := hX.last i l hil
  have htl : trimLeft X = X := by rw [hcr]; exact trimLeft_ascii_nonspace c r hc1 hc2
  have htr : trimRight X = X := by rw [hil]; exact trimRight_ascii_nonspace i l hl1 hl2
  have htr2 : trimRight (name ++ B " = " ++ X) = name ++ B " = " ++ X := by
    rw [hil, ← List.append_assoc]; exact trimRight_ascii_nonspace _ l hl1 hl2
  rw [readIniLine_key_value file f cur name X n hk htl htr2 htr hX.ne]
  have : ¬ X.head? = some 0x22 := by rw [hcr]; simp [hc3]
  simp only [this, if_false]

theorem digitChar_plain (d : Nat) (h : d < 36) : digitChar d < 0x80 ∧ isAsciiSpace (digitChar d) = false ∧ digitChar d ≠ 0x22 := by
  unfold digitChar isAsciiSpace
  split <;> (refine ⟨by omega, ?_, by omega⟩; simp; omega)

theorem natToBase_plainEnds (base : Nat) (hb : 2 ≤ base ∧ base ≤ 36) (n : Nat) : PlainEnds (natToBase base n) := by
  have hmem : ∀ c ∈ natToBase base n, ∃ d, d < 36 ∧ c = digitChar d := by
    induction n using Nat.strongRecOn with
    | _ n ih =>
      rw [natToBase]
      have hnb : ¬ base < 2 := by omega
      simp only [hnb, dite_false]
      by_cases hlt : n < base
      · simp only [hlt, dite_true]
        intro c hc; simp at hc; exact ⟨n, by omega, hc⟩
      · simp only [hlt, dite_false]
        intro c hc
        rcases List.mem_append.mp hc with hc | hc
        · exact ih (n / base) (Nat.div_lt_self (by omega) (by omega)) c hc
        · simp at hc; exact ⟨n % base, by have := Nat.mod_lt n (show 0 < base by omega); omega, hc⟩
  have hne : natToBase base n ≠ [] := (C11.natToBase_spec base hb n).1
  refine ⟨hne, ?_, ?_⟩
  · intro c r h
    obtain ⟨d, hd, rfl⟩ := hmem c (by rw [h]; simp)
    exact digitChar_plain d hd
  · intro i c h
    obtain ⟨d, hd, rfl⟩ := hmem c (by rw [h]; simp)
    exact ⟨(digitChar_plain d hd).1, (digitChar_plain d hd).2.1⟩

/-- **Write / read round trip of one integer value**, in every base 2..36 and every bit size the
    value fits: the line the writer emits for `key = <digits>` reads back as that key with those
    digits, and the digits parse back to the value. -/
theorem uint_value_round_trip (E : Env) (file : Bytes) (f : IniFile) (cur name : Bytes) (n base bits v : Nat)
    (hk : IniKeyOK name) (hb : 2 ≤ base ∧ base ≤ 36) (hv : v < 2 ^ bits) :
    readIniLine file (f, cur) n (writeOption E name false [] (natToBase base v) false false).dropLast =
        .ok (iniAddEntry f cur ⟨name, natToBase base v, false, n⟩, cur) ∧
    parseUint (natToBase base v) (base : Int) bits = .ok v := by
  refine ⟨?_, C11.parseUint_format base bits v hb hv⟩
  have hpe := natToBase_plainEnds base hb v
  unfold writeOption
  simp only [Bool.false_and, Bool.or_self, Bool.false_eq_true, if_false, List.nil_append]
  have hne := hpe.ne
  simp only [ne_eq, hne, not_false_eq_true, if_true, not_true_eq_false]
  rw [if_neg (fun h => h)]
  have hline : (name ++ B " =" ++ (B " " ++ natToBase base v) ++ [0x0A]).dropLast = name ++ B " = " ++ natToBase base v := by
    rw [List.dropLast_concat]; simp
  rw [hline]
  exact plain_value_line_reads_back file f cur name _ n hk hpe

theorem intToBase_plainEnds (base : Nat) (hb : 2 ≤ base ∧ base ≤ 36) (v : Int) : PlainEnds (intToBase base v) := by
  have hp := natToBase_plainEnds base hb v.natAbs
  unfold intToBase
  split
  · refine ⟨by simp, ?_, ?_⟩
    · intro c r h
      have : c = 0x2D := by simp at h; exact h.1.symm
      subst this; decide
    · intro i c h
      cases i with
      | nil => simp at h; exact absurd h.2 hp.ne
      | cons x i' =>
        simp at h
        exact hp.last i' c h.2
  · exact hp

/-- the same for a signed value, sign included: `key = -<digits>` reads back as written and parses
    back to the value, in every base 2..36 and every bit size whose range holds it. -/
theorem int_value_round_trip (E : Env) (file : Bytes) (f : IniFile) (cur name : Bytes) (n base bits : Nat) (v : Int)
    (hk : IniKeyOK name) (hb : 2 ≤ base ∧ base ≤ 36) (hbits : 1 ≤ bits)
    (hlo : -(2 ^ (bits - 1) : Int) ≤ v) (hhi : v < 2 ^ (bits - 1)) :
    readIniLine file (f, cur) n (writeOption E name false [] (intToBase base v) false false).dropLast =
        .ok (iniAddEntry f cur ⟨name, intToBase base v, false, n⟩, cur) ∧
    parseInt (intToBase base v) (base : Int) bits = .ok v := by
  refine ⟨?_, C11.parseInt_format base bits v hb hbits hlo hhi⟩
  have hpe := intToBase_plainEnds base hb v
  unfold writeOption
  simp only [Bool.false_and, Bool.or_self, Bool.false_eq_true, if_false, List.nil_append]
  have hne := hpe.ne
  simp only [ne_eq, hne, not_false_eq_true, if_true, not_true_eq_false]
  rw [if_neg (fun h => h)]
  have hline : (name ++ B " =" ++ (B " " ++ intToBase base v) ++ [0x0A]).dropLast = name ++ B " = " ++ intToBase base v := by
    rw [List.dropLast_concat]; simp
  rw [hline]
  exact plain_value_line_reads_back file f cur name _ n hk hpe
end GoFlags.C12
