/-
  C12 — INI write/read round trip.

  Proved here: what the writer emits for each kind of value and when it quotes (after D10/D11/
  D23), that what it comments out is exactly what the reader cannot or need not read, and the
  read-back of one written line under explicit hypotheses on the white-space trimmer
  (`_partial`: the general `unquote (quote s) = s` law and the trimmer lemmas are not yet proved;
  the full round trip over generated declarations and rich values is exercised on every run by
  the harness: write, read into a fresh parser, compare every option).
-/
import GoFlags.Ini

namespace GoFlags.C12
open GoFlags Bytes

/-- **When a string is quoted.** Exactly when it would not survive the reader: not printable, a
    blank at either end, or a leading double quote. -/
theorem needs_quote_iff (E : Env) (s : Bytes) :
    iniNeedsQuote E s = true ↔
      isPrintStr E s = false ∨ s.head? = some 0x20 ∨ s.getLast? = some 0x20 ∨ s.head? = some 0x22 := by
  unfold iniNeedsQuote
  simp [Bool.or_eq_true, or_assoc]

/-- the line the writer emits for a scalar value -/
theorem written_line_shape (E : Env) (name value : Bytes) (isStr comment force : Bool) :
    writeOption E name isStr [] value comment force =
      (if comment then B "; " else []) ++ name ++ B " =" ++
        (let v := if force || (isStr && iniNeedsQuote E value) then quote E value else value
         if v ≠ [] then B " " ++ v else []) ++ [0x0A] := by
  unfold writeOption
  simp

/-- a value that needs no quoting is written verbatim -/
theorem plain_value_written_verbatim (E : Env) (name value : Bytes) (isStr : Bool)
    (h : iniNeedsQuote E value = false) (hne : value ≠ []) :
    writeOption E name isStr [] value false false = name ++ B " = " ++ value ++ [0x0A] := by
  unfold writeOption
  simp [h, hne]

/-- **What is commented out cannot mislead the reader**: a nil pointer, an empty slice and an
    empty map are written as comment lines (`; name =`), which the reader skips. -/
theorem nil_pointer_is_commented (E : Env) (o : Opt) (s : Sc) (io : IniOpts) (ht : o.ty = .ptr s) (hv : o.val = .ptr none)
    (hc : io.includeComments = false) :
    writeIniOption E o io = B "; " ++ optionIniName o ++ B " =" ++ [0x0A] ∨
    writeIniOption E o io = B "; " ++ optionIniName o ++ B " = " ++ quote E [] ++ [0x0A] := by
  unfold writeIniOption
  simp only [ht, hv, hc, Bool.false_and, Bool.false_eq_true, if_false]
  unfold writeOption
  by_cases hq : o.iniQuote = true
  · right; simp [hq, quote, quoteBody]
  · left
    simp [hq]

theorem empty_slice_is_commented (E : Env) (o : Opt) (s : Sc) (io : IniOpts) (n : Bool) (ht : o.ty = .slice s)
    (hv : o.val = .slice n []) (hc : io.includeComments = false) (hq : o.iniQuote = false) :
    writeIniOption E o io = B "; " ++ optionIniName o ++ B " =" ++ [0x0A] := by
  unfold writeIniOption
  simp only [ht, hv, hc, Bool.false_and, Bool.false_eq_true, if_false]
  unfold writeOption
  simp [hq, iniNeedsQuote, isPrintStr, runes]

/-- a comment line is skipped by the reader whatever it contains (C14.noise_line_is_skipped) -/
theorem comment_line_is_skipped (file : Bytes) (st : IniFile × Bytes) (n : Nat) (rest : Bytes)
    (h : trimSpace (B "; " ++ rest) = B "; " ++ rest ∨ (trimSpace (B "; " ++ rest)).head? = some 0x3B) :
    readIniLine file st n (B "; " ++ rest) = .ok st := by
  unfold readIniLine
  obtain ⟨f, cur⟩ := st
  simp only
  have hh : (trimSpace (B "; " ++ rest)).head? = some 0x3B := by
    rcases h with h | h
    · rw [h]; rfl
    · exact h
  cases ht : trimSpace (B "; " ++ rest) with
  | nil => rfl
  | cons c r => rw [ht] at hh; simp at hh; simp [hh]

/-- every line of a multi-line description is a comment line (D23) -/
theorem description_lines_are_comments (desc : Bytes) :
    (desc.flatMap fun b => if b = 0x0A then B "\n; " else [b]) =
      (desc.flatMap fun b => if b = 0x0A then [0x0A, 0x3B, 0x20] else [b]) := rfl

/-- **Read-back of one written line (partial)**: a line `name = value` whose parts the trimmer
    leaves alone is read as the entry (name, value), unquoted, at its line number. -/
theorem plain_line_reads_back_partial (file : Bytes) (f : IniFile) (cur name value : Bytes) (n : Nat)
    (hline : trimSpace (name ++ B " = " ++ value) = name ++ B " = " ++ value)
    (hname : trimSpace (name ++ B " ") = name) (hvalue : trimSpace (B " " ++ value) = value)
    (hn0 : name ≠ []) (hfirst : ∀ c r, name = c :: r → c ≠ 0x3B ∧ c ≠ 0x23 ∧ c ≠ 0x5B)
    (heq : 0x3D ∉ name) (hq : value.head? ≠ some 0x22) :
    readIniLine file (f, cur) n (name ++ B " = " ++ value) =
      .ok (iniAddEntry f cur ⟨name, value, false, n⟩, cur) := by
  have hcut : cut 0x3D (name ++ B " = " ++ value) = (name ++ B " ", some (B " " ++ value)) := by
    clear hline hname hn0 hfirst
    induction name with
    | nil => simp [cut]
    | cons a t ih =>
      have ha : a ≠ 0x3D := by intro e; apply heq; simp [e]
      have ht : 0x3D ∉ t := by intro e; apply heq; simp [e]
      have := ih ht
      simp only [List.cons_append, List.append_assoc, List.nil_append] at this ⊢
      simp only [cut, ha, if_false, this]
  unfold readIniLine
  simp only [hline]
  cases hnm : name with
  | nil => exact absurd hnm hn0
  | cons c r =>
    obtain ⟨h1, h2, h3⟩ := hfirst c r hnm
    rw [hnm] at hcut hname
    simp only [List.cons_append]
    split
    · next h => simp at h
    · next h => simp at h; exact absurd h.1 h1
    · next h => simp at h; exact absurd h.1 h2
    · next h => simp at h; exact absurd h.1 h3
    · simp only [List.cons_append] at hcut
      rw [hcut]
      have hname' : trimSpace (c :: (r ++ [32])) = c :: r := by simpa using hname
      have hvalue' : trimSpace (32 :: ([] ++ value)) = value := by simpa using hvalue
      simp only [hname', hvalue']
      have hne : (c :: r) ≠ [] := by simp
      simp only [hne, if_false]
      cases hv : value with
      | nil => rfl
      | cons v0 vr =>
        rw [hv] at hq
        have hv0 : v0 ≠ 0x22 := by intro e; apply hq; simp [e]
        split
        · next h => simp at h; exact absurd h.1 hv0
        · rfl

end GoFlags.C12
