/-
  C18 — Completion offers exactly the valid continuations.
-/
import GoFlags.Completion
import GoFlags.Lemmas.Sort
import GoFlags.Lemmas.Walk
import GoFlags.Lemmas.ShortWalk

namespace GoFlags.C18
open GoFlags Bytes

/-- sorted by item text -/
def SortedItems : List (Bytes × Bytes) → Prop
  | [] => True
  | [_] => True
  | a :: b :: r => bytesLe a.1 b.1 = true ∧ SortedItems (b :: r)

theorem SortedItems_tail {a : Bytes × Bytes} {l : List (Bytes × Bytes)} (h : SortedItems (a :: l)) : SortedItems l := by
  cases l with
  | nil => trivial
  | cons b r => exact h.2

theorem insertItem_sorted (x : Bytes × Bytes) (l : List (Bytes × Bytes)) (h : SortedItems l) :
    SortedItems (insertItem x l) := by
  induction l with
  | nil => trivial
  | cons y ys ih =>
    unfold insertItem
    by_cases hxy : bytesLe x.1 y.1 = true
    · simp only [hxy, if_true]; exact ⟨hxy, h⟩
    · simp only [hxy, if_false]
      have hyx : bytesLe y.1 x.1 = true := by
        rcases bytesLe_total x.1 y.1 with h' | h'
        · exact absurd h' hxy
        · exact h'
      have ih' := ih (SortedItems_tail h)
      cases hys : ys with
      | nil => simp [insertItem, SortedItems, hyx]
      | cons z zs =>
        rw [hys] at ih' h
        unfold insertItem at ih' ⊢
        by_cases hxz : bytesLe x.1 z.1 = true
        · simp only [hxz, if_true] at ih' ⊢
          exact ⟨hyx, ih'⟩
        · simp only [hxz, if_false] at ih' ⊢
          exact ⟨h.1, ih'⟩

theorem foldr_insertItem_sorted (l : List (Bytes × Bytes)) : SortedItems (l.foldr insertItem []) := by
  induction l with
  | nil => trivial
  | cons x xs ih => simp only [List.foldr_cons]; exact insertItem_sorted x _ ih

theorem insertItem_mem (x y : Bytes × Bytes) (l : List (Bytes × Bytes)) : y ∈ insertItem x l ↔ y = x ∨ y ∈ l := by
  induction l with
  | nil => simp [insertItem]
  | cons z zs ih =>
    unfold insertItem
    split
    · simp
    · simp [ih]; constructor
      · rintro (h | h | h) <;> simp [h]
      · rintro (h | h | h) <;> simp [h]

theorem foldr_insertItem_mem (y : Bytes × Bytes) (l : List (Bytes × Bytes)) : y ∈ l.foldr insertItem [] ↔ y ∈ l := by
  induction l with
  | nil => simp
  | cons x xs ih => simp only [List.foldr_cons, insertItem_mem, ih, List.mem_cons]

/-- **The list is sorted**, for every declaration and every argument vector. -/
theorem completion_list_is_sorted (P : Parser) (args : List Bytes) : SortedItems (complete P args) := by
  unfold complete
  simp only
  exact foldr_insertItem_sorted _

/-- **Nothing hidden is offered — options.** Every option name offered comes from an option of the
    current command context that is not hidden, and has the typed prefix. -/
theorem offered_long_names_are_visible (s : CS) (pfx m : Bytes) (it : Bytes × Bytes)
    (h : it ∈ completeOptionNames s pfx m false) :
    ∃ n r, it = (B "--" ++ n, (s.P.opt r).desc) ∧ s.P.lookupLong s.cmd n = some r ∧
           hasPrefix n m = true ∧ (s.P.opt r).hidden = false := by
  unfold completeOptionNames at h
  simp only [Bool.false_and, Bool.false_eq_true, if_false, Bool.not_false, if_true] at h
  simp only [List.mem_map, List.mem_filter, List.mem_filterMap, Bool.and_eq_true, Bool.not_eq_true'] at h
  obtain ⟨⟨n, r⟩, ⟨⟨n', _, hlook⟩, hp, hh⟩, rfl⟩ := h
  cases hl : s.P.lookupLong s.cmd n' with
  | none => simp [hl] at hlook
  | some r' =>
    simp [hl] at hlook
    obtain ⟨rfl, rfl⟩ := hlook
    exact ⟨n', r', rfl, hl, hp, hh⟩

/-- **Nothing hidden is offered — commands**: only non-hidden subcommands of the current command
    with the typed prefix (names, not aliases). -/
theorem offered_commands_are_visible (s : CS) (m : Bytes) (it : Bytes × Bytes) (h : it ∈ completeCommands s m) :
    ∃ c ∈ s.P.subs s.cmd, it = ((s.P.cmd c).name, (s.P.cmd c).shortDesc) ∧ (s.P.cmd c).hidden = false ∧
      hasPrefix (s.P.cmd c).name m = true := by
  unfold completeCommands at h
  simp only [List.mem_map, List.mem_filter, Bool.and_eq_true, Bool.not_eq_true'] at h
  obtain ⟨c, ⟨hc, hh, hp⟩, rfl⟩ := h
  exact ⟨c, hc, rfl, hh, hp⟩

/-- and conversely every such subcommand is offered -/
theorem every_visible_command_is_offered (s : CS) (m : Bytes) (c : Nat) (hc : c ∈ s.P.subs s.cmd)
    (hh : (s.P.cmd c).hidden = false) (hp : hasPrefix (s.P.cmd c).name m = true) :
    ((s.P.cmd c).name, (s.P.cmd c).shortDesc) ∈ completeCommands s m := by
  unfold completeCommands
  simp only [List.mem_map, List.mem_filter, Bool.and_eq_true, Bool.not_eq_true']
  exact ⟨c, ⟨hc, hh, hp⟩, rfl⟩

/-- **Offered options are accepted by the parser**: an offered long name resolves, in the same
    command context, through the parser's own lookup — `parseLong` goes on to apply the option
    instead of answering "unknown flag". -/
theorem offered_option_is_known_to_parser (E : Env) (help : HelpFn) (s : CS) (pfx m : Bytes) (it : Bytes × Bytes)
    (h : it ∈ completeOptionNames s pfx m false) (ps : PS) (hP : ps.P = s.P) (hc : ps.cmd = s.cmd) :
    ∃ n r, it.1 = B "--" ++ n ∧ ps.P.lookupLong ps.cmd n = some r ∧
      ∀ arg, parseLong E help ps n arg = parseOption E help ps r (!(ps.P.opt r).optionalArg) arg := by
  obtain ⟨n, r, rfl, hl, _, _⟩ := offered_long_names_are_visible s pfx m it h
  refine ⟨n, r, rfl, by rw [hP, hc]; exact hl, ?_⟩
  intro arg
  unfold parseLong
  rw [hP, hc, hl]

/-- value completions are the type's completions with the spelling prefix re-attached -/
theorem value_completions_reattach_prefix (t : Ty) (pfx m : Bytes) :
    completeValue t pfx m = (completerItems t m).map fun it => (pfx ++ it, []) := rfl

/-- the sorted list has exactly the candidates, nothing added or lost -/
theorem sorting_keeps_candidates (y : Bytes × Bytes) (l : List (Bytes × Bytes)) :
    y ∈ l.foldr insertItem [] ↔ y ∈ l := foldr_insertItem_mem y l

/-! ### Where the parser passes words through (D15) -/

/-- skipping pending positional arguments changes nothing else -/
theorem skipPositional_frame (n : Nat) : ∀ s : CS, (s.skipPositional n).cmd = s.cmd ∧ (s.skipPositional n).P = s.P ∧
    (s.skipPositional n).args = s.args ∧ (s.skipPositional n).restSeen = s.restSeen := by
  induction n with
  | zero => intro s; exact ⟨rfl, rfl, rfl, rfl⟩
  | succ n ih =>
    intro s
    unfold CS.skipPositional
    split
    · exact ⟨rfl, rfl, rfl, rfl⟩
    · split
      · exact ⟨rfl, rfl, rfl, rfl⟩
      · exact ih _

/-- a rest positional argument is never skipped -/
theorem skipPositional_keeps_rest (n : Nat) (s : CS) (p : Nat × Nat) (ps : List (Nat × Nat))
    (h : s.positional = p :: ps) (hr : (s.P.argAt p).isRemaining = true) : s.skipPositional n = s := by
  cases n with
  | zero => rfl
  | succ n => unfold CS.skipPositional; simp [h, hr]

/-- **The terminator ends the walk**: under PassDoubleDash a `--` among the already-typed words
    stops the walk with `terminated`, whatever follows, and in the command context reached so far. -/
theorem terminator_terminates (fuel : Nat) (s : CS) (opt : Option ORef) (w : Bytes) (rest : List Bytes)
    (hargs : s.args = B "--" :: w :: rest) (hp : s.P.opts.passDoubleDash = true) :
    (compWalk (fuel + 1) s opt).2.2 = true ∧ (compWalk (fuel + 1) s opt).2.1 = none ∧
    (compWalk (fuel + 1) s opt).1.cmd = s.cmd := by
  unfold compWalk
  simp [hargs, hp]
  exact (skipPositional_frame _ _).1

/-- **After the terminator nothing but positional values**: no option name and no command is
    offered for the last word; a pending positional argument's type still completes its value. -/
theorem terminated_offers_only_positional_values (s : CS) (last : Bytes) :
    completeLast s none true last =
      match s.positional with
      | p :: _ => completeValue (s.P.argAt p).ty [] last
      | [] => [] := by
  unfold completeLast
  simp
  cases s.positional <;> rfl

/-- **No command after a remaining argument**: once a word has gone to the remaining arguments
    the parser recognises no more commands (`len(s.retargs) == 0` in `parseNonOption`), and
    completion offers none. -/
theorem no_commands_after_remaining_argument (s : CS) (t : Bool) (last : Bytes)
    (hrest : s.restSeen = true) (hpos : s.positional = []) (hlast : argumentStartsOption last = false) :
    completeLast s none t last = [] := by
  unfold completeLast
  simp [hrest, hpos, hlast]

/-- a passed-through word never changes the command context -/
theorem passThrough_keeps_context (s : CS) : s.passThrough.cmd = s.cmd ∧ s.passThrough.P = s.P := by
  unfold CS.passThrough
  split
  · split <;> exact ⟨rfl, rfl⟩
  · exact ⟨rfl, rfl⟩

/-- **A command word after a remaining argument is an argument**: the walk does not switch to the
    subcommand's context (the parser would not either). -/
theorem command_word_after_rest_is_an_argument (fuel : Nat) (s : CS) (opt : Option ORef) (arg w : Bytes) (rest : List Bytes)
    (hargs : s.args = arg :: w :: rest) (hno : argumentIsOption arg = false)
    (hdd : (s.P.opts.passDoubleDash && arg = B "--") = false)
    (hpa : s.P.opts.passAfterNonOption = false) (hrest : s.restSeen = true) :
    compWalk (fuel + 1) s opt = compWalk fuel ({ s with args := w :: rest } : CS).passThrough none := by
  conv => lhs; unfold compWalk
  simp only [hargs]
  have hdd' : (s.P.opts.passDoubleDash = true ∧ arg = B "--") ↔ False := by
    simpa [Bool.and_eq_false_iff] using hdd
  simp [hno, hpa, hrest, hdd']
  cases s.P.lookupCmd s.cmd arg <;> rfl

/-- the parser's side of the same rule: with a remaining argument already there and no positional
    pending, a word that names a subcommand is added to the remaining arguments and the command
    context stays -/
theorem parser_command_word_after_rest (E : Env) (ps : PS)
    (hpos : ps.positional = []) (hret : ps.retargs ≠ []) :
    (parseNonOption E ps).1.cmd = ps.cmd ∧ (parseNonOption E ps).1.retargs = ps.retargs ++ [ps.arg] ∧
    (parseNonOption E ps).2 = false := by
  unfold parseNonOption
  simp [hpos, hret, PS.addArgs]

/-! ### The walk against the parser -/


/-- **The completion walk follows the parser** (command lines of plain words, long options and
    clusters of short options, with or without attached or separate arguments, terminators, unknown
    options; short clusters in well-formed UTF-8; no unknown-option handler).  Whenever the parser's own loop reads all of the already-typed words without an
    error, the completion walk over those words either reports that the rest of the line is
    passed through (a terminator was reached), or arrives — at the same point of the line — in a
    state that agrees with the parser's: same command context, same pending positional arguments,
    same "a remaining argument has been seen".  For command lines of any length.
 -/
theorem walk_follows_parser (E : Env) (help : HelpFn) (fuel : Nat) :
    ∀ (ps : PS) (cs : CS) (tail : List Bytes), Agree ps cs → cs.args = ps.args ++ tail → tail ≠ [] →
      ps.args.length < fuel → (∀ w ∈ ps.args, WalkWord w) → ps.P.handler = .none → ps.err = none →
      (parseLoop E help fuel ps).err = none → (parseLoop E help fuel ps).args = [] →
      (compWalk fuel cs none).2.2 = true ∨
      ∃ fuel' cs', compWalk fuel cs none = compWalk fuel' cs' none ∧ cs'.args = tail ∧
        Agree (parseLoop E help fuel ps) cs' := by
  induction fuel with
  | zero => intro ps cs tail _ _ _ hf; omega
  | succ f ih =>
    intro ps cs tail hag hargs htail hf hwords hnoh h0 herr hdone
    cases hpargs : ps.args with
    | nil =>
      -- nothing left to read: the walk is where the parser is
      right
      refine ⟨f + 1, cs, rfl, by rw [hargs, hpargs]; rfl, ?_⟩
      have : parseLoop E help (f + 1) ps = ps := by unfold parseLoop; simp [PS.eof, hpargs]
      rw [this]; exact hag
    | cons arg rest =>
      have hcargs : cs.args = arg :: (rest ++ tail) := by rw [hargs, hpargs]; rfl
      obtain ⟨x, xs, hrt⟩ : ∃ x xs, rest ++ tail = x :: xs := by
        cases hq : rest ++ tail with
        | nil => simp at hq; exact absurd hq.2 htail
        | cons x xs => exact ⟨x, xs, rfl⟩
      have hopts : cs.P.opts = ps.P.opts := hag.decl.opts.symm
      have hpop : ps.pop = ({ ps with arg := arg, args := rest }, arg) := by simp [PS.pop, hpargs]
      have heof : ps.eof = false := by simp [PS.eof, hpargs]
      let s1 : PS := { ps with arg := arg, args := rest }
      let cs0 : CS := { cs with args := rest ++ tail }
      have hag0 : Agree s1 cs0 := ⟨hag.decl, hag.cmd, hag.pos, hag.rest⟩
      have hw : WalkWord arg := hwords arg (by rw [hpargs]; simp)
      have hwrest : ∀ w ∈ rest, WalkWord w := fun w hw' => hwords w (by rw [hpargs]; simp [hw'])
      have hc0args : cs0.args = rest ++ tail := rfl
      have hcsargs : cs.args = arg :: x :: xs := by rw [hcargs, hrt]
      have hcs0 : ({ cs with args := x :: xs } : CS) = cs0 := by simp only [cs0, hrt]
      unfold parseLoop at herr hdone ⊢
      simp only [heof, Bool.false_eq_true, if_false, hpop] at herr hdone ⊢
      by_cases hdd : (ps.P.opts.passDoubleDash && arg = B "--") = true
      · -- the terminator
        left
        exact compWalk_terminator f cs none arg x xs hcsargs (by rw [hopts]; exact hdd)
      · have hdd' : (ps.P.opts.passDoubleDash && arg = B "--") = false := Bool.eq_false_iff.mpr hdd
        have hddc : (cs.P.opts.passDoubleDash && arg = B "--") = false := by rw [hopts]; exact hdd'
        simp only [hdd', Bool.false_eq_true, if_false] at herr hdone ⊢
        cases hio : argumentIsOption arg with
        | false =>
          simp only [hio, Bool.not_false, if_true] at herr hdone ⊢
          have hlc : ps.P.lookupCmd ps.cmd arg = cs.P.lookupCmd cs.cmd arg := by rw [hag.decl.lookupCmd, hag.cmd]
          by_cases hpa : (ps.P.opts.passAfterNonOption && (ps.P.lookupCmd ps.cmd arg).isNone) = true
          · left
            exact compWalk_passAfter f cs none arg x xs hcsargs hddc hio (by rw [hopts, ← hlc]; exact hpa)
          · have hpa' : (ps.P.opts.passAfterNonOption && (ps.P.lookupCmd ps.cmd arg).isNone) = false := Bool.eq_false_iff.mpr hpa
            simp only [hpa', Bool.false_eq_true, if_false] at herr hdone ⊢
            rw [compWalk_plain f cs none arg x xs hcsargs hddc hio (by rw [hopts, ← hlc]; exact hpa'), hcs0]
            have hstick := parseNonOption_err_sticky E s1
            have hpw := plainWord_agree E s1 cs0 hag0 h0
            have hdecl2 := parseNonOption_decl E s1
            generalize hpn : parseNonOption E s1 = res at herr hdone hstick hpw hdecl2 ⊢
            obtain ⟨s2, stop⟩ := res
            cases stop with
            | true =>
              simp only at herr hdone hpw ⊢
              obtain ⟨hag2, ha2, hca2⟩ := hpw herr
              right
              have hr0 : rest = [] := by
                have : s1.args = rest := rfl
                rw [← this, ← ha2]; exact hdone
              refine ⟨f, cs0.plainWord arg, rfl, ?_, hag2⟩
              rw [hca2, hc0args, hr0]; rfl
            | false =>
              simp only at herr hdone hpw hstick hdecl2 ⊢
              have he2 : s2.err = none := by rw [hstick.2 trivial]; exact h0
              obtain ⟨hag2, ha2, hca2⟩ := hpw he2
              have hnoh2 : s2.P.handler = .none := by rw [hdecl2.handler]; exact hnoh
              exact ih s2 (cs0.plainWord arg) tail hag2 (by rw [hca2, ha2]) htail
                (by rw [ha2]; rw [hpargs] at hf; simp at hf; omega) (by rw [ha2]; exact hwrest) hnoh2 he2 herr hdone
        | true =>
          simp only [hio, Bool.not_true, Bool.false_eq_true, if_false] at herr hdone ⊢
          generalize hso : stripOptionPrefix arg = so at herr hdone ⊢
          obtain ⟨pfx, name0, islong⟩ := so
          simp only at herr hdone ⊢
          generalize hsp : splitOption name0 islong = sp at herr hdone ⊢
          obtain ⟨name, split', argument⟩ := sp
          simp only at herr hdone ⊢
          rw [compWalk_option f cs none arg x xs pfx name0 name split' argument islong hcsargs hddc hio hso hsp, hcs0]
          have hlenrest : rest.length < f := by rw [hpargs] at hf; simp at hf; omega
          have hout := token_outcome E help s1 cs0 hag0.decl hag0.cmd arg pfx name0 name split' argument islong hw hio hso hsp
          generalize walkOpt cs0 name islong = wo at hout ⊢
          generalize (if islong = true then parseLong E help s1 name argument else parseShort E help s1 name argument) = res at herr hdone hout ⊢
          obtain ⟨s2, err⟩ := res
          obtain ⟨o, canarg⟩ := wo
          unfold ShortOutcome at hout
          cases err with
          | some e =>
            simp only at herr hdone hout ⊢
            cases hu : e.isUnknownFlag with
            | false =>
              have : unknownPolicyStops s2.P e = true := by unfold unknownPolicyStops; rw [hu]; rfl
              rw [this] at herr
              simp at herr
            | true =>
              obtain ⟨ho, hk⟩ := hout hu
              subst ho
              simp only
              have hh2 : s2.P.handler = .none := by rw [hk.decl.handler]; exact hnoh
              have ho2 : s2.P.opts = ps.P.opts := hk.decl.opts
              have hpol : unknownPolicyStops s2.P e = !ps.P.opts.ignoreUnknown := by
                simp [unknownPolicyStops, hu, hh2, ho2]
              cases hign : ps.P.opts.ignoreUnknown with
              | false =>
                rw [hpol, hign] at herr
                simp at herr
              | true =>
                rw [hpol, hign] at herr hdone ⊢
                have hign2 : s2.P.opts.ignoreUnknown = true := by rw [ho2]; exact hign
                simp only [Bool.not_true, Bool.false_eq_true, if_false, hign2, if_true] at herr hdone ⊢
                have hignc : cs.P.opts.ignoreUnknown = true := by rw [hopts]; exact hign
                simp only [hignc, if_true]
                have he2 : s2.err = none := by rw [hk.err]; exact h0
                have he3 : (s2.addArgs E [arg]).1.err = none := by
                  cases hq : (s2.addArgs E [arg]).1.err with
                  | none => rfl
                  | some e3 =>
                    exfalso
                    exact parseLoop_err_sticky E help f _ (by rw [hq]; simp) herr
                have hag2 : Agree s2 cs0 := ⟨hk.decl.trans hag.decl, hk.cmd.trans hag.cmd, hk.pos.trans hag.pos, by rw [hk.ret]; exact hag.rest⟩
                have ha2 : s2.args = rest := hk.args
                obtain ⟨hag3, ha3, hca3⟩ := passThrough_agree E s2 cs0 arg hag2 he2 he3
                have hnoh3 : (s2.addArgs E [arg]).1.P.handler = .none := by
                  rw [(addArgs_decl E s2 [arg]).handler]; exact hh2
                exact ih _ cs0.passThrough tail hag3 (by rw [hca3, ha3, ha2]) htail (by rw [ha3, ha2]; exact hlenrest)
                  (by rw [ha3, ha2]; exact hwrest) hnoh3 he3 herr hdone
          | none =>
            simp only at herr hdone hout ⊢
            obtain ⟨r, ho, hA⟩ := hout
            subst ho
            simp only
            have hnoh2 : s2.P.handler = .none := by rw [hA.decl.handler]; exact hnoh
            have he2 : s2.err = none := by rw [hA.err]; exact h0
            have hcs0P : cs0.P = cs.P := rfl
            rw [hcs0P] at hA
            cases htakes : (argument.isNone && (cs.P.opt r).ty.canArgument && !(cs.P.opt r).optionalArg && canarg) with
            | false =>
              simp only [Bool.false_eq_true, if_false]
              have ha2 : s2.args = rest := by have := hA.args; rw [htakes] at this; simpa using this
              have hag2 : Agree s2 cs0 := ⟨hA.decl.trans hag.decl, hA.cmd.trans hag.cmd, hA.pos.trans hag.pos, by rw [hA.ret]; exact hag.rest⟩
              exact ih s2 cs0 tail hag2 (by rw [ha2]) htail (by rw [ha2]; exact hlenrest) (by rw [ha2]; exact hwrest) hnoh2 he2 herr hdone
            | true =>
              simp only [if_true]
              have hne : rest ≠ [] := hA.avail htakes
              obtain ⟨r0, rest', hr'⟩ := List.exists_cons_of_ne_nil hne
              have hxs : xs = rest' ++ tail := by
                rw [hr'] at hrt
                simp only [List.cons_append] at hrt
                injection hrt with _ h2
                exact h2.symm
              have hxne : xs ≠ [] := by rw [hxs]; simp [htail]
              simp only [hxne, if_false]
              have ha2 : s2.args = rest' := by
                have := hA.args; rw [htakes] at this
                simp only [if_true] at this
                rw [this]; show rest.tail = rest'; rw [hr']; rfl
              have hag2 : Agree s2 ({ cs with args := xs } : CS) :=
                ⟨hA.decl.trans hag.decl, hA.cmd.trans hag.cmd, hA.pos.trans hag.pos, by rw [hA.ret]; exact hag.rest⟩
              exact ih s2 { cs with args := xs } tail hag2 (by rw [ha2]; exact hxs) htail
                (by rw [ha2]; rw [hr'] at hlenrest; simp at hlenrest; omega)
                (by rw [ha2]; intro w hw'; exact hwrest w (by rw [hr']; simp [hw'])) hnoh2 he2 herr hdone


/-- **Completion reaches the parser's command context.**  For a whole command line
    `typed words ++ [partial last word]`, when the parser's own loop reads the typed words without
    error, the walk of `completion.complete` over them ends either with "the rest is passed
    through" or with no option value pending and in the command context, with the pending
    positional arguments and the "remaining argument seen" state, that the parser reached. -/
theorem completion_reaches_parsers_context (E : Env) (help : HelpFn) (P : Parser) (typed : List Bytes) (last : Bytes)
    (hwords : ∀ w ∈ typed, WalkWord w) (hnoh : P.handler = .none)
    (herr : (parseLoop E help (typed.length + 2) (({ P := P, args := typed } : PS).fill 0)).err = none)
    (hdone : (parseLoop E help (typed.length + 2) (({ P := P, args := typed } : PS).fill 0)).args = []) :
    let w := compWalk ((typed ++ [last]).length + 1) (compStart P (typed ++ [last])) none
    let ps' := parseLoop E help (typed.length + 2) (({ P := P, args := typed } : PS).fill 0)
    w.2.2 = true ∨ (w.2.1 = none ∧ w.1.cmd = ps'.cmd ∧ w.1.positional = ps'.positional ∧
      (w.1.restSeen = true ↔ ps'.retargs ≠ [])) := by
  have hfuel : (typed ++ [last]).length + 1 = typed.length + 2 := by simp
  rw [hfuel]
  have hag : Agree (({ P := P, args := typed } : PS).fill 0) (compStart P (typed ++ [last])) :=
    ⟨SameDecl.refl _, rfl, rfl, by simp [compStart, CS.fill, PS.fill]⟩
  rcases walk_follows_parser E help (typed.length + 2) _ _ [last] hag rfl (by simp) (by simp [PS.fill]) hwords hnoh rfl herr hdone with h | ⟨fuel', cs', hw, hargs', hag'⟩
  · exact Or.inl h
  · right
    have hend : compWalk fuel' cs' none = (cs', none, false) := by
      cases fuel' with
      | zero => rfl
      | succ n => unfold compWalk; simp [hargs']
    rw [hw, hend]
    exact ⟨rfl, hag'.cmd.symm, hag'.pos.symm, hag'.rest⟩

theorem mem_dedupNat (l : List Nat) (x : Nat) (h : x ∈ l) :
    x ∈ l.foldl (fun acc x => if acc.contains x then acc else acc ++ [x]) [] := by
  suffices ∀ (l acc : List Nat), (x ∈ acc ∨ x ∈ l) →
      x ∈ l.foldl (fun acc x => if acc.contains x then acc else acc ++ [x]) acc from
    this l [] (Or.inr h)
  intro l
  induction l with
  | nil => intro acc h; simpa using h
  | cons y ys ih =>
    intro acc h
    simp only [List.foldl_cons]
    apply ih
    by_cases hc : acc.contains y = true
    · simp only [hc, if_true]
      rcases h with h | h
      · exact Or.inl h
      · rcases List.mem_cons.mp h with h | h
        · left; subst h; simpa using hc
        · exact Or.inr h
    · simp only [hc]
      rcases h with h | h
      · left; simp [h]
      · rcases List.mem_cons.mp h with h | h
        · left; simp [h]
        · exact Or.inr h

/-- **A bare dash leaves no reachable option out** (after the D28 repair).  An option of the command context
    that is not hidden and that a short name `x` of the context resolves to is offered for a bare dash: under
    that short name, or — when it was already offered by a long name — under a long name that resolves to that
    very option. -/
theorem bare_dash_offers_every_reachable_option (s : CS) (pfx : Bytes) (x : Nat) (r : ORef)
    (hx : x ∈ (((s.P.chain s.cmd).flatMap fun a => (s.P.cmd a).orefs a).filter fun r => (s.P.opt r).short ≠ 0).map
            fun r => (s.P.opt r).short)
    (hl : s.P.lookupShort s.cmd x = some r) (hv : (s.P.opt r).hidden = false) :
    (B "-" ++ encodeRune x, (s.P.opt r).desc) ∈ completeOptionNames s pfx [] true ∨
    ∃ n, s.P.lookupLong s.cmd n = some r ∧ (B "--" ++ n, (s.P.opt r).desc) ∈ completeOptionNames s pfx [] true := by
  unfold completeOptionNames
  simp only [ne_eq, not_true_eq_false, decide_false, Bool.and_false, Bool.false_eq_true, if_false, Bool.not_true]
  have hx' := mem_dedupNat _ x hx
  by_cases hrep : r ∈ (((dedup ((((s.P.chain s.cmd).flatMap fun a => (s.P.cmd a).orefs a).filter fun r => (s.P.opt r).long ≠ []).map s.P.longNS)).filterMap
        fun n => (s.P.lookupLong s.cmd n).map fun r => (n, r)).filter fun (n, r) => hasPrefix n [] && !(s.P.opt r).hidden).map fun (_, r) => r
  · right
    simp only [List.mem_map, List.mem_filter, List.mem_filterMap] at hrep
    obtain ⟨⟨n, r'⟩, ⟨⟨n', hn', hlook⟩, hf⟩, rfl⟩ := hrep
    cases hq : s.P.lookupLong s.cmd n' with
    | none => simp [hq] at hlook
    | some r'' =>
      simp [hq] at hlook
      obtain ⟨rfl, rfl⟩ := hlook
      refine ⟨n', hq, ?_⟩
      apply List.mem_append_left
      simp only [List.mem_map, List.mem_filter, List.mem_filterMap]
      exact ⟨(n', r''), ⟨⟨n', hn', by simp [hq]⟩, hf⟩, rfl⟩
  · left
    apply List.mem_append_right
    simp only [List.mem_map, List.mem_filter, List.mem_filterMap]
    refine ⟨(x, r), ⟨⟨x, hx', by simp [hl]⟩, ?_⟩, rfl⟩
    simp only [Bool.and_eq_true, Bool.not_eq_true', hv, and_true]
    refine ⟨?_, by cases (encodeRune x) <;> simp [hasPrefix]⟩
    cases hc : List.contains _ r with
    | false => rfl
    | true => exact absurd (List.contains_iff_mem.mp hc) hrep

end GoFlags.C18
