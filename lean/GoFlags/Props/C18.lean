/-
  C18 — Completion offers exactly the valid continuations.
-/
import GoFlags.Completion
import GoFlags.Lemmas.Sort

namespace GoFlags.C18
open GoFlags Bytes

/-- sorted by item text -/
def SortedItems : List (Bytes × Bytes) → Prop
  | [] => True
  | [_] => True
  | a :: b :: r => bytesLe a.1 b.1 = true ∧ SortedItems (b :: r)

theorem SortedItems_tail {a : Bytes × Bytes} {l : List (Bytes × Bytes)} (h : SortedItems (a :: l)) : SortedItems l := by
  cases l with
  | nil => trivial
  | cons b r => exact h.2

theorem insertItem_sorted (x : Bytes × Bytes) (l : List (Bytes × Bytes)) (h : SortedItems l) :
    SortedItems (insertItem x l) := by
  induction l with
  | nil => trivial
  | cons y ys ih =>
    unfold insertItem
    by_cases hxy : bytesLe x.1 y.1 = true
    · simp only [hxy, if_true]; exact ⟨hxy, h⟩
    · simp only [hxy, if_false]
      have hyx : bytesLe y.1 x.1 = true := by
        rcases bytesLe_total x.1 y.1 with h' | h'
        · exact absurd h' hxy
        · exact h'
      have ih' := ih (SortedItems_tail h)
      cases hys : ys with
      | nil => simp [insertItem, SortedItems, hyx]
      | cons z zs =>
        rw [hys] at ih' h
        unfold insertItem at ih' ⊢
        by_cases hxz : bytesLe x.1 z.1 = true
        · simp only [hxz, if_true] at ih' ⊢
          exact ⟨hyx, ih'⟩
        · simp only [hxz, if_false] at ih' ⊢
          exact ⟨h.1, ih'⟩

theorem foldr_insertItem_sorted (l : List (Bytes × Bytes)) : SortedItems (l.foldr insertItem []) := by
  induction l with
  | nil => trivial
  | cons x xs ih => simp only [List.foldr_cons]; exact insertItem_sorted x _ ih

theorem insertItem_mem (x y : Bytes × Bytes) (l : List (Bytes × Bytes)) : y ∈ insertItem x l ↔ y = x ∨ y ∈ l := by
  induction l with
  | nil => simp [insertItem]
  | cons z zs ih =>
    unfold insertItem
    split
    · simp
    · simp [ih]; constructor
      · rintro (h | h | h) <;> simp [h]
      · rintro (h | h | h) <;> simp [h]

theorem foldr_insertItem_mem (y : Bytes × Bytes) (l : List (Bytes × Bytes)) : y ∈ l.foldr insertItem [] ↔ y ∈ l := by
  induction l with
  | nil => simp
  | cons x xs ih => simp only [List.foldr_cons, insertItem_mem, ih, List.mem_cons]

/-- **The list is sorted**, for every declaration and every argument vector. -/
theorem completion_list_is_sorted (P : Parser) (args : List Bytes) : SortedItems (complete P args) := by
  unfold complete
  simp only
  exact foldr_insertItem_sorted _

/-- **Nothing hidden is offered — options.** Every option name offered comes from an option of the
    current command context that is not hidden, and has the typed prefix. -/
theorem offered_long_names_are_visible (s : CS) (pfx m : Bytes) (it : Bytes × Bytes)
    (h : it ∈ completeOptionNames s pfx m false) :
    ∃ n r, it = (B "--" ++ n, (s.P.opt r).desc) ∧ s.P.lookupLong s.cmd n = some r ∧
           hasPrefix n m = true ∧ (s.P.opt r).hidden = false := by
  unfold completeOptionNames at h
  simp only [Bool.false_and, Bool.false_eq_true, if_false, Bool.not_false, if_true] at h
  simp only [List.mem_map, List.mem_filter, List.mem_filterMap, Bool.and_eq_true, Bool.not_eq_true'] at h
  obtain ⟨⟨n, r⟩, ⟨⟨n', _, hlook⟩, hp, hh⟩, rfl⟩ := h
  cases hl : s.P.lookupLong s.cmd n' with
  | none => simp [hl] at hlook
  | some r' =>
    simp [hl] at hlook
    obtain ⟨rfl, rfl⟩ := hlook
    exact ⟨n', r', rfl, hl, hp, hh⟩

/-- **Nothing hidden is offered — commands**: only non-hidden subcommands of the current command
    with the typed prefix (names, not aliases). -/
theorem offered_commands_are_visible (s : CS) (m : Bytes) (it : Bytes × Bytes) (h : it ∈ completeCommands s m) :
    ∃ c ∈ s.P.subs s.cmd, it = ((s.P.cmd c).name, (s.P.cmd c).shortDesc) ∧ (s.P.cmd c).hidden = false ∧
      hasPrefix (s.P.cmd c).name m = true := by
  unfold completeCommands at h
  simp only [List.mem_map, List.mem_filter, Bool.and_eq_true, Bool.not_eq_true'] at h
  obtain ⟨c, ⟨hc, hh, hp⟩, rfl⟩ := h
  exact ⟨c, hc, rfl, hh, hp⟩

/-- and conversely every such subcommand is offered -/
theorem every_visible_command_is_offered (s : CS) (m : Bytes) (c : Nat) (hc : c ∈ s.P.subs s.cmd)
    (hh : (s.P.cmd c).hidden = false) (hp : hasPrefix (s.P.cmd c).name m = true) :
    ((s.P.cmd c).name, (s.P.cmd c).shortDesc) ∈ completeCommands s m := by
  unfold completeCommands
  simp only [List.mem_map, List.mem_filter, Bool.and_eq_true, Bool.not_eq_true']
  exact ⟨c, ⟨hc, hh, hp⟩, rfl⟩

/-- **Offered options are accepted by the parser**: an offered long name resolves, in the same
    command context, through the parser's own lookup — `parseLong` goes on to apply the option
    instead of answering "unknown flag". -/
theorem offered_option_is_known_to_parser (E : Env) (help : HelpFn) (s : CS) (pfx m : Bytes) (it : Bytes × Bytes)
    (h : it ∈ completeOptionNames s pfx m false) (ps : PS) (hP : ps.P = s.P) (hc : ps.cmd = s.cmd) :
    ∃ n r, it.1 = B "--" ++ n ∧ ps.P.lookupLong ps.cmd n = some r ∧
      ∀ arg, parseLong E help ps n arg = parseOption E help ps r (!(ps.P.opt r).optionalArg) arg := by
  obtain ⟨n, r, rfl, hl, _, _⟩ := offered_long_names_are_visible s pfx m it h
  refine ⟨n, r, rfl, by rw [hP, hc]; exact hl, ?_⟩
  intro arg
  unfold parseLong
  rw [hP, hc, hl]

/-- value completions are the type's completions with the spelling prefix re-attached -/
theorem value_completions_reattach_prefix (t : Ty) (pfx m : Bytes) :
    completeValue t pfx m = (completerItems t m).map fun it => (pfx ++ it, []) := rfl

/-- the sorted list has exactly the candidates, nothing added or lost -/
theorem sorting_keeps_candidates (y : Bytes × Bytes) (l : List (Bytes × Bytes)) :
    y ∈ l.foldr insertItem [] ↔ y ∈ l := foldr_insertItem_mem y l

/-! ### Where the parser passes words through (D15) -/

/-- **The terminator ends the walk**: under PassDoubleDash a `--` among the already-typed words
    stops the walk with `terminated`, whatever follows, and in the command context reached so far. -/
theorem terminator_terminates (fuel : Nat) (s : CS) (opt : Option ORef) (w : Bytes) (rest : List Bytes)
    (hargs : s.args = B "--" :: w :: rest) (hp : s.P.opts.passDoubleDash = true) :
    (compWalk (fuel + 1) s opt).2.2 = true ∧ (compWalk (fuel + 1) s opt).2.1 = none ∧
    (compWalk (fuel + 1) s opt).1.cmd = s.cmd := by
  unfold compWalk
  simp [hargs, hp, CS.skipPositional]

/-- **After the terminator nothing but positional values**: no option name and no command is
    offered for the last word; a pending positional argument's type still completes its value. -/
theorem terminated_offers_only_positional_values (s : CS) (last : Bytes) :
    completeLast s none true last =
      match s.positional with
      | p :: _ => completeValue (s.P.argAt p).ty [] last
      | [] => [] := by
  unfold completeLast
  simp
  cases s.positional <;> rfl

/-- **No command after a remaining argument**: once a word has gone to the remaining arguments
    the parser recognises no more commands (`len(s.retargs) == 0` in `parseNonOption`), and
    completion offers none. -/
theorem no_commands_after_remaining_argument (s : CS) (t : Bool) (last : Bytes)
    (hrest : s.restSeen = true) (hpos : s.positional = []) (hlast : argumentStartsOption last = false) :
    completeLast s none t last = [] := by
  unfold completeLast
  simp [hrest, hpos, hlast]

/-- a passed-through word never changes the command context -/
theorem passThrough_keeps_context (s : CS) : s.passThrough.cmd = s.cmd ∧ s.passThrough.P = s.P := by
  unfold CS.passThrough
  split
  · split <;> exact ⟨rfl, rfl⟩
  · exact ⟨rfl, rfl⟩

/-- **A command word after a remaining argument is an argument**: the walk does not switch to the
    subcommand's context (the parser would not either). -/
theorem command_word_after_rest_is_an_argument (fuel : Nat) (s : CS) (opt : Option ORef) (arg w : Bytes) (rest : List Bytes)
    (hargs : s.args = arg :: w :: rest) (hno : argumentIsOption arg = false)
    (hdd : (s.P.opts.passDoubleDash && arg = B "--") = false)
    (hpa : s.P.opts.passAfterNonOption = false) (hrest : s.restSeen = true) :
    compWalk (fuel + 1) s opt = compWalk fuel ({ s with args := w :: rest } : CS).passThrough none := by
  conv => lhs; unfold compWalk
  simp only [hargs]
  have hdd' : (s.P.opts.passDoubleDash = true ∧ arg = B "--") ↔ False := by
    simpa [Bool.and_eq_false_iff] using hdd
  simp [hno, hpa, hrest, hdd']
  cases s.P.lookupCmd s.cmd arg <;> rfl

/-- the parser's side of the same rule: with a remaining argument already there and no positional
    pending, a word that names a subcommand is added to the remaining arguments and the command
    context stays -/
theorem parser_command_word_after_rest (E : Env) (ps : PS)
    (hpos : ps.positional = []) (hret : ps.retargs ≠ []) :
    (parseNonOption E ps).1.cmd = ps.cmd ∧ (parseNonOption E ps).1.retargs = ps.retargs ++ [ps.arg] ∧
    (parseNonOption E ps).2 = false := by
  unfold parseNonOption
  simp [hpos, hret, PS.addArgs]

end GoFlags.C18
