/-
  C15, static facts: every place in the library where an incidental order could enter.
  The model has no permutation parameter because each of these places either sorts what it
  collected or applies effects that commute; a NEW place (a new `range` over a map, a new
  reflect map iteration) is outside what C15's theorems cover and makes this file fail.
-/
import GoFlags.Generated.Facts

namespace GoFlags.C15
open GoFlags

/-- `for … range` over a map occurs in three places: the INI reader marks quoted options
    (idempotent per-option writes: commute), completion collects the option names of the
    lookup tables (sorted afterwards: `completion_members_order_independent`). -/
theorem facts_map_ranges :
    Generated.mapRangeExprs = ["quotesLookup", "s.lookup.longNames", "s.lookup.shortNames"] := by decide

/-- reflect-level map iteration: rendering a map value (`convertToString`, sorted by key:
    `map_rendering_order_independent`) and the INI writer (keys sorted before writing). -/
theorem facts_reflect_map_iterations :
    Generated.reflectMapIterationCallees =
      ["reflect.Value.MapKeys", "reflect.Value.MapKeys", "reflect.Value.MapKeys"] := by decide

/-- the sorting steps the theorems of Props/C15 are about are all still there -/
theorem facts_sort_calls :
    Generated.sortCallees = ["sort.Slice", "sort.Sort", "sort.Sort", "sort.Strings", "sort.Strings"] := by decide

/-- no concurrency: no schedule to depend on -/
theorem facts_no_goroutines : Generated.goStatements = [] := by decide

end GoFlags.C15
