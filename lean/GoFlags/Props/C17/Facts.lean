/-
  C17, static facts: the two layout constants of help.go that `Help.lean` has as literals.
-/
import GoFlags.Generated.Facts

namespace GoFlags.C17
open GoFlags

theorem facts_layout_constants :
    Generated.intConsts.lookup "paddingBeforeOption" = some 2 ∧
    Generated.intConsts.lookup "distanceBetweenOptionAndDescription" = some 2 := by decide

end GoFlags.C17
