/-
  C14 — INI reading is robust and pinpoints errors.

  `readIni` and `iniApply` are total functions of the model over *all* byte strings (structural
  recursion on the list of lines / sections / entries); the one Go panic that was reachable from
  them (`name = key:` for a map option, D2; a func() option given a value, D21) is repaired in the
  tree.  The theorems below are about what the other lines mean and which line an error names.
-/
import GoFlags.Ini

namespace GoFlags.C14
open GoFlags Bytes

/-- a line is read through its trimmed text only: white space around it never matters -/
theorem surrounding_whitespace_irrelevant (file : Bytes) (st : IniFile × Bytes) (n : Nat) (a b : Bytes)
    (h : trimSpace a = trimSpace b) : readIniLine file st n a = readIniLine file st n b := by
  unfold readIniLine; rw [h]

/-- blank lines and `;` / `#` comment lines change nothing -/
theorem noise_line_is_skipped (file : Bytes) (st : IniFile × Bytes) (n : Nat) (raw : Bytes)
    (h : trimSpace raw = [] ∨ (trimSpace raw).head? = some 0x3B ∨ (trimSpace raw).head? = some 0x23) :
    readIniLine file st n raw = .ok st := by
  unfold readIniLine
  obtain ⟨f, cur⟩ := st
  simp only
  rcases h with h | h | h
  · rw [h]
  · cases ht : trimSpace raw with
    | nil => simp [ht] at h
    | cons c r => rw [ht] at h; simp at h; simp [h]
  · cases ht : trimSpace raw with
    | nil => simp [ht] at h
    | cons c r => rw [ht] at h; simp at h; simp [h]

/-- every error of the line reader carries exactly the line number it was given -/
theorem line_error_carries_its_number (file : Bytes) (st : IniFile × Bytes) (n : Nat) (raw : Bytes) (e : GoErr)
    (h : readIniLine file st n raw = .error e) : ∃ msg, e = .ini file n msg := by
  unfold readIniLine at h
  obtain ⟨f, cur⟩ := st
  simp only at h
  split at h
  · cases h
  · cases h
  · cases h
  · split at h
    · injection h with h; exact ⟨_, h.symm⟩
    · split at h
      · injection h with h; exact ⟨_, h.symm⟩
      · cases h
  · split at h
    · injection h with h; exact ⟨_, h.symm⟩
    · split at h
      · injection h with h; exact ⟨_, h.symm⟩
      · split at h
        · split at h
          · cases h
          · injection h with h; exact ⟨_, h.symm⟩
        · cases h

/-- every entry the line reader records carries exactly the line number it was given -/
theorem entry_carries_its_number (file : Bytes) (f : IniFile) (cur : Bytes) (n : Nat) (raw : Bytes)
    (f' : IniFile) (cur' : Bytes) (h : readIniLine file (f, cur) n raw = .ok (f', cur')) :
    f' = f ∨ (∃ name, f' = f ++ [(name, [])]) ∨ (∃ v, v.line = n ∧ f' = iniAddEntry f cur v) := by
  unfold readIniLine at h
  simp only at h
  split at h
  · injection h with h; injection h with h1 h2; left; exact h1.symm
  · injection h with h; injection h with h1 h2; left; exact h1.symm
  · injection h with h; injection h with h1 h2; left; exact h1.symm
  · split at h
    · cases h
    · split at h
      · cases h
      · injection h with h; injection h with h1 h2
        split at h1
        · left; exact h1.symm
        · right; left; exact ⟨_, h1.symm⟩
  · split at h
    · cases h
    · split at h
      · cases h
      · split at h
        · split at h
          · injection h with h; injection h with h1 h2
            right; right; exact ⟨_, rfl, h1.symm⟩
          · cases h
        · injection h with h; injection h with h1 h2
          right; right; exact ⟨_, rfl, h1.symm⟩

/-- **Errors name the physical line.** When reading fails, the error is an `IniError` whose line
    number is the 1-based position of the first line that could not be read; all lines before
    it were read. -/
theorem first_bad_line_is_reported (file : Bytes) (ls : List Bytes) (k : Nat) (st : IniFile × Bytes) (e : GoErr)
    (h : readIniLines file ls k st = .error e) :
    ∃ i msg, i < ls.length ∧ e = .ini file (k + i + 1) msg := by
  induction ls generalizing k st with
  | nil => simp [readIniLines] at h
  | cons l ls ih =>
    unfold readIniLines at h
    split at h
    · next e' he =>
      injection h with h; subst h
      obtain ⟨msg, hm⟩ := line_error_carries_its_number file st (k + 1) l e' he
      exact ⟨0, msg, by simp, by simpa using hm⟩
    · next st' _ =>
      obtain ⟨i, msg, hi, he⟩ := ih (k + 1) st' h
      exact ⟨i + 1, msg, by simp; omega, by rw [he]; congr 1; omega⟩

/-- unknown option: an `IniError` at the entry's line — or, under IgnoreUnknown, skipped with the
    state untouched -/
theorem unknown_option (E : Env) (help : HelpFn) (asd : Bool) (file : Bytes) (groups : List (Nat × Nat))
    (st : IniState) (v : IniVal) (hnone : iniFindOption E st.P groups v.name = none) :
    (st.P.opts.ignoreUnknown = true → iniApplyEntry E help asd file groups st v = (st, none)) ∧
    (st.P.opts.ignoreUnknown = false →
      iniApplyEntry E help asd file groups st v = (st, some (.ini file v.line (B "unknown option: " ++ v.name)))) := by
  unfold iniApplyEntry
  simp only [hnone]
  constructor <;> intro h <;> simp [h]

/-- unknown section: `ErrUnknownGroup` — or, under IgnoreUnknown, skipped and the rest applied -/
theorem unknown_section (E : Env) (help : HelpFn) (asd : Bool) (file : Bytes) (name : Bytes) (vals : List IniVal)
    (rest : IniFile) (st : IniState) (hnone : st.P.matchingGroups E name = []) :
    (st.P.opts.ignoreUnknown = true →
      iniApplySections E help asd file ((name, vals) :: rest) st = iniApplySections E help asd file rest st) ∧
    (st.P.opts.ignoreUnknown = false →
      iniApplySections E help asd file ((name, vals) :: rest) st =
        (st, some (.flags .unknownGroup (B "could not find option group `" ++ name ++ B "'")))) := by
  constructor <;> intro h
  · conv => lhs; unfold iniApplySections
    simp [hnone, h]
  · conv => lhs; unfold iniApplySections
    simp [hnone, h]

theorem entry_value_error_line (file : Bytes) (o : Opt) (v : IniVal) (e : GoErr)
    (h : iniEntryValue file o v = .error e) : e = .ini file v.line (B "invalid syntax") := by
  unfold iniEntryValue at h
  split at h
  · cases h
  · split at h
    · split at h
      · split at h
        · cases h
        · injection h with h; exact h.symm
      · cases h
    · cases h

/-- an unconvertible value, a rejected choice or bad quoting inside a map entry is an `IniError`
    at the entry's line -/
theorem apply_error_carries_entry_line (E : Env) (help : HelpFn) (asd : Bool) (file : Bytes)
    (groups : List (Nat × Nat)) (st : IniState) (v : IniVal) (e : GoErr)
    (h : (iniApplyEntry E help asd file groups st v).2 = some e) : ∃ msg, e = .ini file v.line msg := by
  unfold iniApplyEntry at h
  split at h
  · split at h
    · simp at h
    · simp at h; exact ⟨_, h.symm⟩
  · split at h
    · simp at h
    · split at h
      · next e' hp =>
        simp at h; subst h
        exact ⟨_, entry_value_error_line _ _ _ _ hp⟩
      · simp only at h
        split at h
        · simp at h; exact ⟨_, h.symm⟩
        · simp at h

/-! Non-vacuity: the hypotheses of the theorems are plain equations; e.g. a line whose trimmed
    text starts with ';'. -/
example (raw : Bytes) (h : trimSpace raw = [0x3B, 0x20, 0x68]) :
    readIniLine [] ([([], [])], []) 7 raw = .ok ([([], [])], []) :=
  noise_line_is_skipped _ _ _ _ (Or.inr (Or.inl (by rw [h]; rfl)))

end GoFlags.C14
