/-
  C14 — INI reading is robust and pinpoints errors.

  `readIni` and `iniApply` are total functions of the model over *all* byte strings (structural
  recursion on the list of lines / sections / entries); the one Go panic that was reachable from
  them (`name = key:` for a map option, D2; a func() option given a value, D21) is repaired in the
  tree.  The theorems below are about what the other lines mean and which line an error names.
-/
import GoFlags.Ini
import GoFlags.Lemmas.Trim

namespace GoFlags.C14
open GoFlags Bytes

/-- a line is read through its trimmed text only: white space around it never matters -/
theorem surrounding_whitespace_irrelevant (file : Bytes) (st : IniFile × Bytes) (n : Nat) (a b : Bytes)
    (h : trimSpace a = trimSpace b) : readIniLine file st n a = readIniLine file st n b := by
  unfold readIniLine; rw [h]

/-- blank lines and `;` / `#` comment lines change nothing -/
theorem noise_line_is_skipped (file : Bytes) (st : IniFile × Bytes) (n : Nat) (raw : Bytes)
    (h : trimSpace raw = [] ∨ (trimSpace raw).head? = some 0x3B ∨ (trimSpace raw).head? = some 0x23) :
    readIniLine file st n raw = .ok st := by
  unfold readIniLine
  obtain ⟨f, cur⟩ := st
  simp only
  rcases h with h | h | h
  · rw [h]
  · cases ht : trimSpace raw with
    | nil => simp [ht] at h
    | cons c r => rw [ht] at h; simp at h; simp [h]
  · cases ht : trimSpace raw with
    | nil => simp [ht] at h
    | cons c r => rw [ht] at h; simp at h; simp [h]

/-- every error of the line reader carries exactly the line number it was given -/
theorem line_error_carries_its_number (file : Bytes) (st : IniFile × Bytes) (n : Nat) (raw : Bytes) (e : GoErr)
    (h : readIniLine file st n raw = .error e) : ∃ msg, e = .ini file n msg := by
  unfold readIniLine at h
  obtain ⟨f, cur⟩ := st
  simp only at h
  split at h
  · cases h
  · cases h
  · cases h
  · split at h
    · injection h with h; exact ⟨_, h.symm⟩
    · split at h
      · injection h with h; exact ⟨_, h.symm⟩
      · cases h
  · split at h
    · injection h with h; exact ⟨_, h.symm⟩
    · split at h
      · injection h with h; exact ⟨_, h.symm⟩
      · split at h
        · split at h
          · cases h
          · injection h with h; exact ⟨_, h.symm⟩
        · cases h

/-- every entry the line reader records carries exactly the line number it was given -/
theorem entry_carries_its_number (file : Bytes) (f : IniFile) (cur : Bytes) (n : Nat) (raw : Bytes)
    (f' : IniFile) (cur' : Bytes) (h : readIniLine file (f, cur) n raw = .ok (f', cur')) :
    f' = f ∨ (∃ name, f' = f ++ [(name, [])]) ∨ (∃ v, v.line = n ∧ f' = iniAddEntry f cur v) := by
  unfold readIniLine at h
  simp only at h
  split at h
  · injection h with h; injection h with h1 h2; left; exact h1.symm
  · injection h with h; injection h with h1 h2; left; exact h1.symm
  · injection h with h; injection h with h1 h2; left; exact h1.symm
  · split at h
    · cases h
    · split at h
      · cases h
      · injection h with h; injection h with h1 h2
        split at h1
        · left; exact h1.symm
        · right; left; exact ⟨_, h1.symm⟩
  · split at h
    · cases h
    · split at h
      · cases h
      · split at h
        · split at h
          · injection h with h; injection h with h1 h2
            right; right; exact ⟨_, rfl, h1.symm⟩
          · cases h
        · injection h with h; injection h with h1 h2
          right; right; exact ⟨_, rfl, h1.symm⟩

/-- **Errors name the physical line.** When reading fails, the error is an `IniError` whose line
    number is the 1-based position of the first line that could not be read; all lines before
    it were read. -/
theorem first_bad_line_is_reported (file : Bytes) (ls : List Bytes) (k : Nat) (st : IniFile × Bytes) (e : GoErr)
    (h : readIniLines file ls k st = .error e) :
    ∃ i msg, i < ls.length ∧ e = .ini file (k + i + 1) msg := by
  induction ls generalizing k st with
  | nil => simp [readIniLines] at h
  | cons l ls ih =>
    unfold readIniLines at h
    split at h
    · next e' he =>
      injection h with h; subst h
      obtain ⟨msg, hm⟩ := line_error_carries_its_number file st (k + 1) l e' he
      exact ⟨0, msg, by simp, by simpa using hm⟩
    · next st' _ =>
      obtain ⟨i, msg, hi, he⟩ := ih (k + 1) st' h
      exact ⟨i + 1, msg, by simp; omega, by rw [he]; congr 1; omega⟩

/-- unknown option: an `IniError` at the entry's line — or, under IgnoreUnknown, skipped with the
    state untouched -/
theorem unknown_option (E : Env) (help : HelpFn) (asd : Bool) (file : Bytes) (groups : List (Nat × Nat))
    (st : IniState) (v : IniVal) (hnone : iniFindOption E st.P groups v.name = none) :
    (st.P.opts.ignoreUnknown = true → iniApplyEntry E help asd file groups st v = (st, none)) ∧
    (st.P.opts.ignoreUnknown = false →
      iniApplyEntry E help asd file groups st v = (st, some (.ini file v.line (B "unknown option: " ++ v.name)))) := by
  unfold iniApplyEntry
  simp only [hnone]
  constructor <;> intro h <;> simp [h]

/-- unknown section: `ErrUnknownGroup` — or, under IgnoreUnknown, skipped and the rest applied -/
theorem unknown_section (E : Env) (help : HelpFn) (asd : Bool) (file : Bytes) (name : Bytes) (vals : List IniVal)
    (rest : IniFile) (st : IniState) (hnone : st.P.matchingGroups E name = []) :
    (st.P.opts.ignoreUnknown = true →
      iniApplySections E help asd file ((name, vals) :: rest) st = iniApplySections E help asd file rest st) ∧
    (st.P.opts.ignoreUnknown = false →
      iniApplySections E help asd file ((name, vals) :: rest) st =
        (st, some (.flags .unknownGroup (B "could not find option group `" ++ name ++ B "'")))) := by
  constructor <;> intro h
  · conv => lhs; unfold iniApplySections
    simp [hnone, h]
  · conv => lhs; unfold iniApplySections
    simp [hnone, h]

theorem entry_value_error_line (file : Bytes) (o : Opt) (v : IniVal) (e : GoErr)
    (h : iniEntryValue file o v = .error e) : e = .ini file v.line (B "invalid syntax") := by
  unfold iniEntryValue at h
  split at h
  · cases h
  · split at h
    · split at h
      · split at h
        · cases h
        · injection h with h; exact h.symm
      · cases h
    · cases h

/-- an unconvertible value, a rejected choice or bad quoting inside a map entry is an `IniError`
    at the entry's line -/
theorem apply_error_carries_entry_line (E : Env) (help : HelpFn) (asd : Bool) (file : Bytes)
    (groups : List (Nat × Nat)) (st : IniState) (v : IniVal) (e : GoErr)
    (h : (iniApplyEntry E help asd file groups st v).2 = some e) : ∃ msg, e = .ini file v.line msg := by
  unfold iniApplyEntry at h
  split at h
  · split at h
    · simp at h
    · simp at h; exact ⟨_, h.symm⟩
  · split at h
    · simp at h
    · split at h
      · next e' hp =>
        simp at h; subst h
        exact ⟨_, entry_value_error_line _ _ _ _ hp⟩
      · simp only at h
        split at h
        · simp at h; exact ⟨_, h.symm⟩
        · simp at h

/-! Non-vacuity: the hypotheses of the theorems are plain equations; e.g. a line whose trimmed
    text starts with ';'. -/
example (raw : Bytes) (h : trimSpace raw = [0x3B, 0x20, 0x68]) :
    readIniLine [] ([([], [])], []) 7 raw = .ok ([([], [])], []) :=
  noise_line_is_skipped _ _ _ _ (Or.inr (Or.inl (by rw [h]; rfl)))

/-! ### Noise lines, anywhere in the file -/


/-- an entry / a file without the line numbers -/
def forgetV (v : IniVal) : IniVal := { v with line := 0 }
def forgetF (f : IniFile) : IniFile := f.map fun p => (p.1, p.2.map forgetV)

/-- two results that differ at most in line numbers (of entries, or of the error) -/
def SameMeaning : Except GoErr (IniFile × Bytes) → Except GoErr (IniFile × Bytes) → Prop
  | .ok a, .ok b => forgetF a.1 = forgetF b.1 ∧ a.2 = b.2
  | .error _, .error _ => True
  | _, _ => False

def SameMeaningF : Except GoErr IniFile → Except GoErr IniFile → Prop
  | .ok a, .ok b => forgetF a = forgetF b
  | .error _, .error _ => True
  | _, _ => False

theorem forgetF_hasSection (f g : IniFile) (h : forgetF f = forgetF g) (name : Bytes) :
    iniHasSection f name = iniHasSection g name := by
  have : (forgetF f).map (·.1) = (forgetF g).map (·.1) := by rw [h]
  unfold forgetF at this
  simp only [List.map_map, Function.comp_def] at this
  unfold iniHasSection
  have hf : f.any (fun p => decide (p.1 = name)) = (f.map (·.1)).any (fun n => decide (n = name)) := by
    simp [List.any_map, Function.comp_def]
  have hg : g.any (fun p => decide (p.1 = name)) = (g.map (·.1)).any (fun n => decide (n = name)) := by
    simp [List.any_map, Function.comp_def]
  rw [hf, hg, this]

theorem forgetF_append (f g : IniFile) (h : forgetF f = forgetF g) (x : Bytes × List IniVal) :
    forgetF (f ++ [x]) = forgetF (g ++ [x]) := by
  unfold forgetF at *; simp [h]

theorem forgetF_addEntry (f g : IniFile) (h : forgetF f = forgetF g) (sec : Bytes) (v w : IniVal) (hv : forgetV v = forgetV w) :
    forgetF (iniAddEntry f sec v) = forgetF (iniAddEntry g sec w) := by
  induction f generalizing g with
  | nil =>
    cases g with
    | nil => simp [iniAddEntry, forgetF, hv]
    | cons _ _ => simp [forgetF] at h
  | cons p f ih =>
    cases g with
    | nil => simp [forgetF] at h
    | cons q g =>
      obtain ⟨pn, pv⟩ := p
      obtain ⟨qn, qv⟩ := q
      simp only [forgetF, List.map_cons, List.cons.injEq, Prod.mk.injEq] at h
      obtain ⟨⟨hn, hvs⟩, ht⟩ := h
      subst hn
      unfold iniAddEntry
      split
      · simp only [forgetF, List.map_cons, List.map_append, List.map_nil, hvs, hv]
        congr 1
      · simp only [forgetF, List.map_cons, hvs]
        congr 1
        exact ih g ht

/-- **A line means the same wherever it stands**: its effect on the file read so far does not
    depend on its line number, nor on the line numbers recorded before. -/
theorem readIniLine_meaning (file : Bytes) (f g : IniFile) (cur : Bytes) (n m : Nat) (raw : Bytes)
    (h : forgetF f = forgetF g) :
    SameMeaning (readIniLine file (f, cur) n raw) (readIniLine file (g, cur) m raw) := by
  unfold readIniLine
  simp only
  split
  · exact ⟨h, rfl⟩
  · exact ⟨h, rfl⟩
  · exact ⟨h, rfl⟩
  · split
    · trivial
    · split
      · trivial
      · rw [forgetF_hasSection f g h]
        split
        · exact ⟨h, rfl⟩
        · exact ⟨forgetF_append f g h _, rfl⟩
  · split
    · trivial
    · split
      · trivial
      · split
        · split
          · exact ⟨forgetF_addEntry f g h cur _ _ rfl, rfl⟩
          · trivial
        · exact ⟨forgetF_addEntry f g h cur _ _ rfl, rfl⟩

theorem readIniLines_meaning (file : Bytes) (ls : List Bytes) : ∀ (n m : Nat) (f g : IniFile) (cur : Bytes),
    forgetF f = forgetF g → SameMeaningF (readIniLines file ls n (f, cur)) (readIniLines file ls m (g, cur)) := by
  induction ls with
  | nil => intro n m f g cur h; exact h
  | cons l ls ih =>
    intro n m f g cur h
    have h1 := readIniLine_meaning file f g cur (n + 1) (m + 1) l h
    unfold readIniLines
    cases ha : readIniLine file (f, cur) (n + 1) l with
    | error e =>
      cases hb : readIniLine file (g, cur) (m + 1) l with
      | error e' => trivial
      | ok b => rw [ha, hb] at h1; exact h1.elim
    | ok a =>
      cases hb : readIniLine file (g, cur) (m + 1) l with
      | error e' => rw [ha, hb] at h1; exact h1.elim
      | ok b =>
        rw [ha, hb] at h1
        obtain ⟨hf, hc⟩ := h1
        obtain ⟨af, ac⟩ := a
        obtain ⟨bf, bc⟩ := b
        simp only at hf hc
        subst hc
        exact ih (n + 1) (m + 1) af bf ac hf

/-- **Blank lines and comments are ignored, wherever they stand**: inserting a blank line or a
    `;` / `#` comment line anywhere in a file changes nothing but line numbers — the sections, the
    entries, their order, and whether the file is rejected are the same. -/
theorem noise_line_changes_nothing (file : Bytes) (before after : List Bytes) (noise : Bytes)
    (hn : trimSpace noise = [] ∨ (trimSpace noise).head? = some 0x3B ∨ (trimSpace noise).head? = some 0x23) :
    ∀ (k : Nat) (st : IniFile × Bytes),
      SameMeaningF (readIniLines file (before ++ noise :: after) k st) (readIniLines file (before ++ after) k st) := by
  induction before with
  | nil =>
    intro k st
    simp only [List.nil_append]
    conv => lhs; unfold readIniLines
    rw [noise_line_is_skipped file st (k + 1) noise hn]
    obtain ⟨f, cur⟩ := st
    exact readIniLines_meaning file after (k + 1) k f f cur rfl
  | cons l ls ih =>
    intro k st
    simp only [List.cons_append]
    unfold readIniLines
    cases readIniLine file st (k + 1) l with
    | error e => trivial
    | ok st' => exact ih (k + 1) st'

/-! ### CRLF line ends -/

theorem trimRight_cr (s : Bytes) : trimRight (s ++ [0x0D]) = trimRight s := by
  unfold trimRight trimRev
  simp only [List.reverse_append, List.reverse_cons, List.reverse_nil, List.nil_append, List.cons_append,
    List.length_cons, List.length_reverse]
  conv => lhs; unfold trimRevFuel
  simp [trimRevStep, isAsciiSpace]

/-- trimming on the left, with one more ASCII byte behind the string -/
theorem trimLeft_append_ascii (x : Nat) (hx : x < 0x80) : ∀ (n : Nat) (a : Bytes), a.length ≤ n →
    trimLeft (a ++ [x]) = if trimLeft a = [] then trimLeft [x] else trimLeft a ++ [x] := by
  have hxc : isCont x = false := by simp [isCont]; omega
  intro n
  induction n with
  | zero =>
    intro a hl
    cases a with
    | nil => simp [trimLeft_nil]
    | cons _ _ => simp at hl
  | succ n ih =>
    intro a hl
    cases a with
    | nil => simp [trimLeft_nil]
    | cons b t =>
      rw [show (b :: t) ++ [x] = b :: (t ++ [x]) from rfl, trimLeft_cons]
      rw [show b :: (t ++ [x]) = (b :: t) ++ x :: [] from rfl, decodeRune_append_noncont (b :: t) x [] (by simp) hxc]
      rw [trimLeft_cons b t]
      have hw := decodeRune_width_le (b :: t)
      have hpos := decodeRune_width_pos (b :: t) (by simp)
      cases hsp : isSpaceRune (decodeRune (b :: t)).1 with
      | true =>
        simp only [if_true]
        rw [List.drop_append_of_le_length hw]
        apply ih
        simp only [List.length_drop, List.length_cons] at hl ⊢
        omega
      | false => simp

/-- **A carriage return at the end of a line (CRLF line ends) changes nothing**: the line is read
    through its trimmed text, and the trimmed text is the same. -/
theorem trimSpace_cr (l : Bytes) : trimSpace (l ++ [0x0D]) = trimSpace l := by
  unfold trimSpace
  rw [trimLeft_append_ascii 0x0D (by decide) l.length l (Nat.le_refl _)]
  split
  · next h =>
    rw [h]
    have : trimLeft [0x0D] = [] := by
      rw [trimLeft_cons]; simp [decodeRune, isSpaceRune, trimLeft_nil]
    rw [this]
  · exact trimRight_cr _

theorem crlf_line_end_is_irrelevant (file : Bytes) (st : IniFile × Bytes) (n : Nat) (l : Bytes) :
    readIniLine file st n (l ++ [0x0D]) = readIniLine file st n l :=
  surrounding_whitespace_irrelevant file st n _ _ (trimSpace_cr l)

/-- … for whole files: every line may or may not end in a carriage return -/
theorem crlf_file_reads_like_lf_file (file : Bytes) (ls : List (Bytes × Bool)) :
    ∀ (n : Nat) (st : IniFile × Bytes),
      readIniLines file (ls.map fun p => if p.2 then p.1 ++ [0x0D] else p.1) n st =
        readIniLines file (ls.map (·.1)) n st := by
  induction ls with
  | nil => intro n st; rfl
  | cons p ls ih =>
    intro n st
    simp only [List.map_cons, readIniLines]
    have hline : readIniLine file st (n + 1) (if p.2 = true then p.1 ++ [0x0D] else p.1) = readIniLine file st (n + 1) p.1 := by
      cases p.2
      · rfl
      · exact crlf_line_end_is_irrelevant file st (n + 1) p.1
    rw [hline]
    cases readIniLine file st (n + 1) p.1 with
    | error e => rfl
    | ok st' => exact ih (n + 1) st'

end GoFlags.C14
