/-
  C19 — Declarations are read faithfully or rejected at setup.
-/
import GoFlags.Props.C19.Trans
import GoFlags.Props.C19.Facts
import GoFlags.Scan
import GoFlags.Lemmas.TagScan

namespace GoFlags.C19
open GoFlags Bytes

/-- **Never a panic, always typed**: the scanner is a total function over all byte strings and
    every failure it reports is `ErrTag` (the model's `tagErr`). -/
theorem scan_error_is_ErrTag (tag : Bytes) (e : TagErr) : ∃ m, tagErr tag e = .flags .tag m := ⟨_, rfl⟩

/-- repeated keys keep all their values, in order of appearance … -/
theorem getMany_keeps_order (kvs : Tag) (k v : Bytes) (rest : Tag) :
    tagGetMany ((k, v) :: rest) k = v :: tagGetMany rest k := by
  simp [tagGetMany]

theorem getMany_skips_other_keys (k k' v : Bytes) (rest : Tag) (h : k' ≠ k) :
    tagGetMany ((k', v) :: rest) k = tagGetMany rest k := by
  simp [tagGetMany, h]

/-- … and `Get` answers the last one (the empty string when the key is absent) -/
theorem get_is_last (kvs : Tag) (k : Bytes) : tagGet kvs k = (tagGetMany kvs k).getLastD [] := rfl

theorem get_absent (kvs : Tag) (k : Bytes) (h : ∀ p ∈ kvs, p.1 ≠ k) : tagGet kvs k = [] := by
  unfold tagGet tagGetMany
  have : kvs.filter (fun p => p.1 = k) = [] := by
    apply List.filter_eq_nil_iff.mpr
    intro p hp; simpa using h p hp
  simp [this]

/-- **Every attribute is the stated projection of the tag.** For a field that becomes an option: -/
theorem attributes_reflect_tag (name : Bytes) (mt : Tag) (t : Ty) (init : Val) (cb : Nat) (o : Opt)
    (h : mkOption name mt t init cb = .ok (some o)) :
    o.field = name ∧ o.long = tagGet mt (B "long") ∧ o.desc = tagGet mt (B "description") ∧
    o.dflt = tagGetMany mt (B "default") ∧ o.choices = tagGetMany mt (B "choice") ∧
    o.optionalValue = tagGetMany mt (B "optional-value") ∧
    o.envKey = tagGet mt (B "env") ∧ o.envDelim = tagGet mt (B "env-delim") ∧
    o.valueName = tagGet mt (B "value-name") ∧ o.defaultMask = tagGet mt (B "default-mask") ∧
    o.required = !isStringFalsy (tagGet mt (B "required")) ∧ o.hidden = !isStringFalsy (tagGet mt (B "hidden")) ∧
    o.optionalArg = !isStringFalsy (tagGet mt (B "optional")) ∧ o.ty = t ∧ o.val = init := by
  unfold mkOption at h
  simp only at h
  split at h
  · cases h
  · split at h
    · cases h
    · split at h
      · cases h
      · injection h with h; injection h with h; subst h
        simp

/-- the short name is the single character of the `short` tag (none when the tag is empty) -/
theorem short_is_the_single_rune (name : Bytes) (mt : Tag) (t : Ty) (init : Val) (cb : Nat) (o : Opt)
    (h : mkOption name mt t init cb = .ok (some o)) :
    o.short = (if runeCount (tagGet mt (B "short")) = 1 then (decodeRune (tagGet mt (B "short"))).1 else 0) := by
  unfold mkOption at h
  simp only at h
  split at h
  · cases h
  · split at h
    · cases h
    · split at h
      · cases h
      · injection h with h; injection h with h; subst h
        simp

/-- **A short name longer than one character is rejected with ErrShortNameTooLong.** -/
theorem short_name_too_long (name : Bytes) (mt : Tag) (t : Ty) (init : Val) (cb : Nat)
    (h : runeCount (tagGet mt (B "short")) > 1) :
    ∃ m, mkOption name mt t init cb = .error (.flags .shortNameTooLong m) := by
  unfold mkOption
  simp only
  have hne : tagGet mt (B "short") ≠ [] := by
    intro e; rw [e] at h; simp [runeCount, runes] at h
  simp [hne, h]

/-- **A default on a boolean flag is rejected with ErrInvalidTag.** -/
theorem default_on_flag_rejected (name : Bytes) (mt : Tag) (t : Ty) (init : Val) (cb : Nat)
    (hb : t.isBool = true) (hd : mt.any (·.1 = B "default") = true)
    (hs : ¬ runeCount (tagGet mt (B "short")) > 1)
    (hn : ¬(tagGet mt (B "long") = [] ∧ tagGet mt (B "short") = [] ∧ tagGet mt (B "ini-name") = [])) :
    ∃ m, mkOption name mt t init cb = .error (.flags .invalidTag m) := by
  unfold mkOption
  simp only
  have hcond : (tagGet mt (B "long") = [] && tagGet mt (B "short") = [] && tagGet mt (B "ini-name") = []) = false := by
    by_cases a : tagGet mt (B "long") = [] <;> by_cases b : tagGet mt (B "short") = [] <;>
      by_cases c : tagGet mt (B "ini-name") = [] <;> simp_all
  simp only [hcond, Bool.false_eq_true, if_false, hs, hb, hd, Bool.and_self, if_true]
  exact ⟨_, rfl⟩

/-- the truthiness of `required` / `hidden` / `optional`: everything except "", "false", "no", "0" -/
theorem falsy_strings (s : Bytes) :
    isStringFalsy s = true ↔ s = [] ∨ s = B "false" ∨ s = B "no" ∨ s = B "0" := by
  unfold isStringFalsy; simp [Bool.or_eq_true, or_assoc]

/-- **Duplicates are detected with namespaces applied**: within one group, a second option whose
    namespaced long name equals that of an earlier one yields ErrDuplicatedFlag. -/
theorem duplicate_long_detected (delim : Bytes) (path : List Bytes) (o : Opt) (os : List Opt) (st : DupState)
    (other : Bytes) (hl : o.long ≠ [])
    (hseen : st.longs.lookup (join delim (path ++ [o.long])) = some other) :
    ∃ m, (dupGroup delim path (o :: os) st).err = some (.flags .duplicatedFlag m) := by
  unfold dupGroup
  simp [hl, hseen]

theorem duplicate_short_detected (delim : Bytes) (path : List Bytes) (o : Opt) (os : List Opt) (st : DupState)
    (other : Bytes) (hl : o.long = []) (hs : o.short ≠ 0)
    (hseen : st.shorts.lookup o.short = some other) :
    ∃ m, (dupGroup delim path (o :: os) st).err = some (.flags .duplicatedFlag m) := by
  unfold dupGroup
  simp [hl, hs, hseen]

/-- an option is registered under its namespaced long name, so a later option of the same
    declaration — in any group of it — meets it in the table -/
theorem long_name_is_registered (delim : Bytes) (path : List Bytes) (o : Opt) (st : DupState)
    (hl : o.long ≠ []) (hnew : st.longs.lookup (join delim (path ++ [o.long])) = none)
    (hs : o.short = 0) :
    (dupGroup delim path [o] st).longs = st.longs ++ [(join delim (path ++ [o.long]), optStr delim path o)] := by
  unfold dupGroup
  simp [hl, hnew, hs, dupGroup]

/-- a field without `long`, `short` and `ini-name` is no option -/
theorem untagged_is_skipped (name : Bytes) (mt : Tag) (t : Ty) (init : Val) (cb : Nat)
    (h1 : tagGet mt (B "long") = []) (h2 : tagGet mt (B "short") = []) (h3 : tagGet mt (B "ini-name") = []) :
    mkOption name mt t init cb = .ok none := by
  simp [mkOption, h1, h2, h3]

/-- positional `required:"N-M"` is read as the pair (N, M); a bare `N` as (N, -1); any other
    non-empty text as (1, -1) -/
theorem positional_range (E : Env) (lo hi : Bytes) (n m : Int) (hlo : 0x2D ∉ lo)
    (h1 : parseInt lo 10 32 = .ok n) (h2 : parseInt hi 10 32 = .ok m) (hne : lo ++ 0x2D :: hi ≠ []) :
    parseArgRequired E (lo ++ 0x2D :: hi) = (n, m) := by
  unfold parseArgRequired
  have hcut : cut 0x2D (lo ++ 0x2D :: hi) = (lo, some hi) := by
    clear h1 hne
    induction lo with
    | nil => simp [cut]
    | cons a t ih =>
      have ha : a ≠ 0x2D := by intro e; apply hlo; simp [e]
      have ht : 0x2D ∉ t := by intro e; apply hlo; simp [e]
      have := ih ht
      simp [cut, ha, this]
  simp [hne, hcut, h1, h2]

/-- a setup error is replayed by every later ParseArgs (see C04.setup_error_replayed) -/
theorem scan_tag_total (tag : Bytes) : (∃ kvs, scanTag tag = .ok kvs) ∨ (∃ e, scanTag tag = .error e) := by
  cases h : scanTag tag with
  | ok kvs => exact Or.inl ⟨kvs, rfl⟩
  | error e => exact Or.inr ⟨e, rfl⟩

/-! ### The scanner reads back what a declaration says -/

/-- the scanner reads a value written with `strconv.Quote` up to its closing quote, whatever the
    value (quotes, backslashes, control characters, invalid UTF-8) and whatever follows -/
theorem scanner_reads_a_quoted_value (E : Env) (v rest : Bytes) :
    scanVal (quoteBody E v ++ 0x22 :: rest) = .ok (quoteBody E v) rest := scanVal_quoteBody E v rest

/-- **Declarations are read faithfully**: for every list of keys (not empty, without blank, colon or
    quote) and ARBITRARY byte-string values, scanning the conventional rendering
    `key:"quoted value" key:"…"` of a struct tag yields exactly those pairs, in order — so
    `Get` / `GetMany`, and with them every attribute of the public model, see exactly what was
    declared. -/
theorem scan_reads_back_the_declared_pairs (E : Env) (kvs : List (Bytes × Bytes)) (hk : ∀ p ∈ kvs, TagKeyOK p.1)
    (hb : ∀ p ∈ kvs, ∀ b ∈ p.2, b < 256) : scanTag (renderTag E kvs) = .ok kvs :=
  scanTag_reads_back E kvs hk hb

/-- non-vacuity: the tag `long:"name" description:"say \"hi\""` -/
example : TagKeyOK (B "long") ∧ TagKeyOK (B "description") := by
  constructor <;> exact ⟨by decide, by decide⟩

end GoFlags.C19
