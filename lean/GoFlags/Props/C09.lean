/-
  C09 — Commands run exactly once and only after a fully successful parse.
-/
import GoFlags.Lemmas.ParseLog

namespace GoFlags.C09
open GoFlags Bytes

/-- an execution: `Commander.Execute` or the `CommandHandler` -/
def Event.isRun : Event → Bool
  | .exec _ _ => true
  | .cmdHandler _ _ => true
  | _ => false

theorem duringParse_not_run (ev : Event) (h : ev.duringParse = true) : Event.isRun ev = false := by
  cases ev <;> simp_all [Event.duringParse, Event.isRun]

/-- the parse phase (argument loop, defaults, required check) executes nothing -/
theorem nothing_runs_while_parsing (E : Env) (help : HelpFn) (P : Parser) (argv : List Bytes) :
    ∀ ev ∈ (parsePhase E help P argv).log, Event.isRun ev = false :=
  fun ev h => duringParse_not_run ev (parsePhase_log E help P argv ev h)

/-- `printError` adds output events only -/
theorem finishParse_runs (s : PS) (oc : Option GoErr × List Event) (ev : Event)
    (h : ev ∈ (finishParse s oc).log) (hr : Event.isRun ev = true) : ev ∈ oc.2 := by
  unfold finishParse at h
  split at h
  · exact h
  · simp only at h
    split at h
    · rcases List.mem_append.mp h with h | h
      · exact h
      · simp at h; subst h; simp [Event.isRun] at hr
    · exact h

/-- **No execution on any parse error.** If the parse phase ended with an error (unknown
    option, bad or missing value, missing required item, help request, …) or a required
    command is missing/unknown, then neither `Execute` nor the `CommandHandler` was invoked. -/
theorem no_run_on_parse_error (E : Env) (help : HelpFn) (P : Parser) (argv : List Bytes)
    (hpre : let s := parsePhase E help (prepare E P) argv
            s.err ≠ none ∨ ((s.P.subs s.cmd) ≠ [] ∧ (s.P.cmd s.cmd).subOpt = false)) :
    ∀ ev ∈ (parseArgs E help P argv).log, Event.isRun ev = false := by
  intro ev hev
  cases hrun : Event.isRun ev with
  | false => rfl
  | true =>
    exfalso
    unfold parseArgs at hev
    split at hev
    · simp at hev
    · have hoc := finishParse_runs _ _ ev hev hrun
      have hno := nothing_runs_while_parsing E help (prepare E P) argv ev
      simp only at hpre
      unfold outcome at hoc
      split at hoc
      · simp only at hoc; rw [hno hoc] at hrun; exact Bool.noConfusion hrun
      · next herr =>
        rcases hpre with h | ⟨h1, h2⟩
        · exact h herr
        · unfold dispatch at hoc
          simp [h1, h2] at hoc
          rw [hno hoc] at hrun; exact Bool.noConfusion hrun

/-- **At most one invocation of each kind, for the innermost active command, with the
    returned arguments.** Every execution event of `ParseArgs` is one of the (at most two)
    events `dispatch` appends: `Execute` of the innermost command, and/or the `CommandHandler`,
    both with the remaining arguments. -/
theorem runs_are_dispatch (E : Env) (help : HelpFn) (P : Parser) (argv : List Bytes) (ev : Event)
    (hev : ev ∈ (parseArgs E help P argv).log) (hrun : Event.isRun ev = true) :
    let s := parsePhase E help (prepare E P) argv
    s.err = none ∧
    (ev = .exec s.cmd s.retargs ∨ ev = .cmdHandler (some s.cmd) s.retargs ∨ ev = .cmdHandler none s.retargs) := by
  unfold parseArgs at hev
  split at hev
  · simp at hev
  · have hoc := finishParse_runs _ _ ev hev hrun
    have hno := nothing_runs_while_parsing E help (prepare E P) argv ev
    simp only
    unfold outcome at hoc
    split at hoc
    · simp only at hoc; rw [hno hoc] at hrun; exact Bool.noConfusion hrun
    · next herr =>
      refine ⟨herr, ?_⟩
      unfold dispatch at hoc
      simp only at hoc
      split at hoc
      · rw [hno hoc] at hrun; exact Bool.noConfusion hrun
      · split at hoc
        · split at hoc
          · simp only [List.mem_append, List.mem_cons, List.not_mem_nil, or_false] at hoc
            rcases hoc with h | h | h
            · rw [hno h] at hrun; exact Bool.noConfusion hrun
            · right; left; exact h
            · left; exact h
          · simp only [List.mem_append, List.mem_cons, List.not_mem_nil, or_false] at hoc
            rcases hoc with h | h
            · rw [hno h] at hrun; exact Bool.noConfusion hrun
            · left; exact h
        · split at hoc
          · simp only [List.mem_append, List.mem_cons, List.not_mem_nil, or_false] at hoc
            rcases hoc with h | h
            · rw [hno h] at hrun; exact Bool.noConfusion hrun
            · right; right; exact h
          · rw [hno hoc] at hrun; exact Bool.noConfusion hrun

def Event.isExec : Event → Bool
  | .exec _ _ => true
  | _ => false

theorem dispatch_exec_count (s : PS) (h : s.log.filter Event.isExec = []) :
    ((dispatch s).2.filter Event.isExec).length ≤ 1 := by
  unfold dispatch
  simp only
  split
  · simp [h]
  · split
    · split <;> simp [List.filter_append, List.filter_cons, h, Event.isExec]
    · split <;> simp [List.filter_append, List.filter_cons, h, Event.isExec]

theorem finishParse_exec_count (s : PS) (oc : Option GoErr × List Event) :
    (finishParse s oc).log.filter Event.isExec = oc.2.filter Event.isExec := by
  unfold finishParse
  split
  · rfl
  · simp only
    split
    · simp [List.filter_append, Event.isExec]
    · rfl

/-- the number of `Execute` events is at most one -/
theorem at_most_one_execute (E : Env) (help : HelpFn) (P : Parser) (argv : List Bytes) :
    ((parseArgs E help P argv).log.filter Event.isExec).length ≤ 1 := by
  unfold parseArgs
  split
  · simp
  · simp only
    rw [finishParse_exec_count]
    have hno := nothing_runs_while_parsing E help (prepare E P) argv
    have hfilter : (parsePhase E help (prepare E P) argv).log.filter Event.isExec = [] := by
      apply List.filter_eq_nil_iff.mpr
      intro ev hev
      have := hno ev hev
      cases ev <;> simp_all [Event.isRun, Event.isExec]
    unfold outcome
    split
    · simp [hfilter]
    · exact dispatch_exec_count _ hfilter

/-- When a command runs, `ParseArgs` returns exactly the command's error (or none). -/
theorem run_error_returned_unchanged (s : PS) (h : s.err = none)
    (hcmd : ((s.P.subs s.cmd) ≠ [] && !(s.P.cmd s.cmd).subOpt) = false)
    (hc : (s.P.cmd s.cmd).commander ≠ 0) :
    (finishParse s (outcome s)).err = executeResult s.P s.cmd := by
  have hd : (dispatch s).1 = executeResult s.P s.cmd := by
    unfold dispatch
    simp only [hcmd, hc, Bool.false_eq_true, if_false, ne_eq, not_false_eq_true, if_true]
    split <;> rfl
  unfold outcome
  simp only [h]
  unfold finishParse
  rw [hd]
  cases executeResult s.P s.cmd <;> rfl

/-! Non-vacuity: the hypotheses of `no_run_on_parse_error` are met by a concrete parser whose
    only option is unknown on the command line — see the harness corpus; here the classifier. -/
example : Event.isRun (.exec 1 []) = true := rfl
example : Event.isRun (.cb ⟨0, 0, 0⟩ none) = false := rfl

end GoFlags.C09
