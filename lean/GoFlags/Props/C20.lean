/-
  C20 — Unknown-command diagnostics name the truly nearest command.

  Property theorems only (helper lemmas live in GoFlags/Lemmas).  The spec `ed` is the
  textbook Levenshtein recursion (GoFlags/Lemmas/EditDistance.lean, 6 lines).
-/
import GoFlags.Props.C20.Trans
import GoFlags.Lemmas.Closest
import GoFlags.Lemmas.Sort
import GoFlags.Parse

namespace GoFlags.C20
open GoFlags Bytes

/-- The library's distance is the true Levenshtein distance over characters, for all strings
    (any lengths, any bytes; "characters" are what Go's `range` over the string yields). -/
theorem lev_is_levenshtein (s t : Bytes) : levenshtein s t = ed (runes s) (runes t) := by
  unfold levenshtein; exact levRunes_eq_ed _ _

/-- symmetric -/
theorem lev_symm (s t : Bytes) : levenshtein s t = levenshtein t s := by
  rw [lev_is_levenshtein, lev_is_levenshtein, ed_symm]

/-- zero exactly for equal character sequences -/
theorem lev_eq_zero_iff (s t : Bytes) : levenshtein s t = 0 ↔ runes s = runes t := by
  rw [lev_is_levenshtein, ed_eq_zero]

/-- never more than the longer of the two lengths (in characters) -/
theorem lev_le_max (s t : Bytes) : levenshtein s t ≤ max (runeCount s) (runeCount t) := by
  rw [lev_is_levenshtein]; exact ed_le_max _ _

theorem closestLoop_spec (w : Bytes) (cs : List Bytes) (best : Bytes) (d : Nat)
    (hd : d = levenshtein w best) :
    let r := closestLoop w cs best d
    (r.1 = best ∨ r.1 ∈ cs) ∧ r.2 = levenshtein w r.1 ∧ r.2 ≤ d ∧ ∀ m ∈ cs, r.2 ≤ levenshtein w m := by
  induction cs generalizing best d with
  | nil => simp [closestLoop, hd]
  | cons c cs ih =>
    simp only [closestLoop]
    split
    · next hlt =>
      have := ih c (levenshtein w c) rfl
      simp only at this ⊢
      obtain ⟨h1, h2, h3, h4⟩ := this
      refine ⟨?_, h2, by omega, ?_⟩
      · rcases h1 with h | h
        · right; simp [h]
        · right; simp [h]
      · intro m hm
        rcases List.mem_cons.mp hm with rfl | hm
        · exact h3
        · exact h4 m hm
    · next hge =>
      have := ih best d hd
      simp only at this ⊢
      obtain ⟨h1, h2, h3, h4⟩ := this
      refine ⟨?_, h2, h3, ?_⟩
      · rcases h1 with h | h
        · left; exact h
        · right; simp [h]
      · intro m hm
        rcases List.mem_cons.mp hm with rfl | hm
        · omega
        · exact h4 m hm

/-- `closestChoice` returns a listed name at minimum distance, with that distance. -/
theorem closest_is_minimum (w : Bytes) (names : List Bytes) (hne : names ≠ []) :
    let r := closestChoice w names
    r.1 ∈ names ∧ r.2 = levenshtein w r.1 ∧ ∀ m ∈ names, r.2 ≤ levenshtein w m := by
  cases names with
  | nil => exact absurd rfl hne
  | cons c cs =>
    have := closestLoop_spec w cs c (levenshtein w c) rfl
    simp only [closestChoice] at this ⊢
    obtain ⟨h1, h2, h3, h4⟩ := this
    refine ⟨?_, h2, ?_⟩
    · rcases h1 with h | h <;> simp [h]
    · intro m hm
      rcases List.mem_cons.mp hm with rfl | hm
      · exact h3
      · exact h4 m hm

/-- no names ⇒ empty suggestion with distance 0 (what the caller's length test relies on) -/
theorem closest_nil (w : Bytes) : closestChoice w [] = ([], 0) := rfl

/-! Non-vacuity: the theorems above have no hypotheses except `names ≠ []`; concrete values
    (rune lists; "x" vs "abc" and "é" vs "e" are the witnesses of the repaired defect D5). -/
example : levRunes [0x78] [0x61, 0x62, 0x63] = 3 := by decide
example : levRunes [0xE9] [0x65] = 1 := by decide
example : levRunes [0x6B, 0x69, 0x74, 0x74, 0x65, 0x6E] [0x73, 0x69, 0x74, 0x74, 0x69, 0x6E, 0x67] = 3 := by decide

/-- **Suggest or enumerate — the threshold.**  For an unrecognised word the message suggests the
    nearest visible command exactly when twice the distance is less than the length of that name
    (`float32(l)/float32(len(c)) < 0.5`, with no name at all: no suggestion); otherwise it
    enumerates the sorted visible names.  The error type is ErrUnknownCommand either way. -/
theorem unknown_command_message (s : PS) (first : Bytes) (rest : List Bytes) (h : s.retargs = first :: rest) :
    let names := sortedVisibleNames s.P s.cmd
    let c := (closestChoice first names).1
    let l := (closestChoice first names).2
    estimateCommand s = .flags .unknownCommand
      (if c.length ≠ 0 && 2 * l < c.length then
         B "Unknown command `" ++ first ++ B "'" ++ B ", did you mean `" ++ c ++ B "'?"
       else match names with
         | [] => B "Unknown command `" ++ first ++ B "'"
         | [one] => B "Unknown command `" ++ first ++ B "'" ++ B ". You should use the " ++ one ++ B " command"
         | many => B "Unknown command `" ++ first ++ B "'" ++ B ". Please specify one command of: " ++ orList many) := by
  simp only
  unfold estimateCommand
  simp only [h]
  split <;> rfl

/-- a missing command: ErrCommandRequired, enumerating the sorted visible names -/
theorem missing_command_message (s : PS) (h : s.retargs = []) :
    estimateCommand s = .flags .commandRequired
      (match sortedVisibleNames s.P s.cmd with
       | [] => []
       | [one] => B "Please specify the " ++ one ++ B " command"
       | many => B "Please specify one command of: " ++ orList many) := by
  unfold estimateCommand
  simp only [h]
  rfl

/-- **Hidden commands are never suggested or enumerated**: the names the diagnostics draw from are
    names of non-hidden subcommands of the current command, all of them, … -/
theorem diagnostic_names_are_the_visible_ones (P : Parser) (ci : Nat) (n : Bytes) :
    n ∈ sortedVisibleNames P ci ↔ ∃ s ∈ P.subs ci, (P.cmd s).hidden = false ∧ (P.cmd s).name = n := by
  unfold sortedVisibleNames
  rw [(sortStrings_perm' _).mem_iff]
  simp [List.mem_map, List.mem_filter, and_assoc]

/-- … in sorted order -/
theorem diagnostic_names_are_sorted (P : Parser) (ci : Nat) : SortedB (sortedVisibleNames P ci) :=
  sortStrings_sorted _

/-- the suggested name is a visible command at minimum distance from the word -/
theorem suggestion_is_nearest_visible (P : Parser) (ci : Nat) (w : Bytes) (hne : sortedVisibleNames P ci ≠ []) :
    let r := closestChoice w (sortedVisibleNames P ci)
    (∃ s ∈ P.subs ci, (P.cmd s).hidden = false ∧ (P.cmd s).name = r.1) ∧
    r.2 = levenshtein w r.1 ∧ ∀ m ∈ sortedVisibleNames P ci, r.2 ≤ levenshtein w m := by
  have h := closest_is_minimum w (sortedVisibleNames P ci) hne
  simp only at h ⊢
  exact ⟨(diagnostic_names_are_the_visible_ones P ci _).mp h.1, h.2.1, h.2.2⟩

/-- **A word that spells a visible command is its own nearest name** (it reaches the diagnostic only where it
    selects nothing, e.g. behind the terminator): the distance reported for it is 0, and the name suggested has the
    same characters. -/
theorem a_visible_name_is_its_own_nearest (w : Bytes) (names : List Bytes) (h : w ∈ names) :
    (closestChoice w names).2 = 0 ∧ runes (closestChoice w names).1 = runes w := by
  have hne : names ≠ [] := by intro e; subst e; simp at h
  obtain ⟨_, h2, h3⟩ := closest_is_minimum w names hne
  have h0 : levenshtein w w = 0 := (lev_eq_zero_iff w w).mpr rfl
  have hle := h3 w h
  rw [h0] at hle
  have hz : (closestChoice w names).2 = 0 := Nat.le_zero.mp hle
  refine ⟨hz, ?_⟩
  have := (lev_eq_zero_iff w (closestChoice w names).1).mp (by rw [← h2]; exact hz)
  exact this.symm

/-- … so the message for it is the suggestion of that name, never the enumeration (a name of at least one byte) -/
theorem a_visible_name_is_suggested (s : PS) (first : Bytes) (rest : List Bytes) (h : s.retargs = first :: rest)
    (hv : first ∈ sortedVisibleNames s.P s.cmd) (hn : (closestChoice first (sortedVisibleNames s.P s.cmd)).1 ≠ []) :
    estimateCommand s = .flags .unknownCommand
      (B "Unknown command `" ++ first ++ B "'" ++ B ", did you mean `" ++
        (closestChoice first (sortedVisibleNames s.P s.cmd)).1 ++ B "'?") := by
  have := unknown_command_message s first rest h
  simp only at this
  rw [this]
  have hz := (a_visible_name_is_its_own_nearest first _ hv).1
  have hl : (closestChoice first (sortedVisibleNames s.P s.cmd)).1.length ≠ 0 := by
    intro e; exact hn (List.length_eq_zero_iff.mp e)
  simp [hz, hl]

end GoFlags.C20
