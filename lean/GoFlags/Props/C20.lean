/-
  C20 — Unknown-command diagnostics name the truly nearest command.

  Property theorems only (helper lemmas live in GoFlags/Lemmas).  The spec `ed` is the
  textbook Levenshtein recursion (GoFlags/Lemmas/EditDistance.lean, 6 lines).
-/
import GoFlags.Lemmas.Closest

namespace GoFlags.C20
open GoFlags Bytes

/-- The library's distance is the true Levenshtein distance over characters, for all strings
    (any lengths, any bytes; "characters" are what Go's `range` over the string yields). -/
theorem lev_is_levenshtein (s t : Bytes) : levenshtein s t = ed (runes s) (runes t) := by
  unfold levenshtein; exact levRunes_eq_ed _ _

/-- symmetric -/
theorem lev_symm (s t : Bytes) : levenshtein s t = levenshtein t s := by
  rw [lev_is_levenshtein, lev_is_levenshtein, ed_symm]

/-- zero exactly for equal character sequences -/
theorem lev_eq_zero_iff (s t : Bytes) : levenshtein s t = 0 ↔ runes s = runes t := by
  rw [lev_is_levenshtein, ed_eq_zero]

/-- never more than the longer of the two lengths (in characters) -/
theorem lev_le_max (s t : Bytes) : levenshtein s t ≤ max (runeCount s) (runeCount t) := by
  rw [lev_is_levenshtein]; exact ed_le_max _ _

theorem closestLoop_spec (w : Bytes) (cs : List Bytes) (best : Bytes) (d : Nat)
    (hd : d = levenshtein w best) :
    let r := closestLoop w cs best d
    (r.1 = best ∨ r.1 ∈ cs) ∧ r.2 = levenshtein w r.1 ∧ r.2 ≤ d ∧ ∀ m ∈ cs, r.2 ≤ levenshtein w m := by
  induction cs generalizing best d with
  | nil => simp [closestLoop, hd]
  | cons c cs ih =>
    simp only [closestLoop]
    split
    · next hlt =>
      have := ih c (levenshtein w c) rfl
      simp only at this ⊢
      obtain ⟨h1, h2, h3, h4⟩ := this
      refine ⟨?_, h2, by omega, ?_⟩
      · rcases h1 with h | h
        · right; simp [h]
        · right; simp [h]
      · intro m hm
        rcases List.mem_cons.mp hm with rfl | hm
        · exact h3
        · exact h4 m hm
    · next hge =>
      have := ih best d hd
      simp only at this ⊢
      obtain ⟨h1, h2, h3, h4⟩ := this
      refine ⟨?_, h2, h3, ?_⟩
      · rcases h1 with h | h
        · left; exact h
        · right; simp [h]
      · intro m hm
        rcases List.mem_cons.mp hm with rfl | hm
        · omega
        · exact h4 m hm

/-- `closestChoice` returns a listed name at minimum distance, with that distance. -/
theorem closest_is_minimum (w : Bytes) (names : List Bytes) (hne : names ≠ []) :
    let r := closestChoice w names
    r.1 ∈ names ∧ r.2 = levenshtein w r.1 ∧ ∀ m ∈ names, r.2 ≤ levenshtein w m := by
  cases names with
  | nil => exact absurd rfl hne
  | cons c cs =>
    have := closestLoop_spec w cs c (levenshtein w c) rfl
    simp only [closestChoice] at this ⊢
    obtain ⟨h1, h2, h3, h4⟩ := this
    refine ⟨?_, h2, ?_⟩
    · rcases h1 with h | h <;> simp [h]
    · intro m hm
      rcases List.mem_cons.mp hm with rfl | hm
      · exact h3
      · exact h4 m hm

/-- no names ⇒ empty suggestion with distance 0 (what the caller's length test relies on) -/
theorem closest_nil (w : Bytes) : closestChoice w [] = ([], 0) := rfl

/-! Non-vacuity: the theorems above have no hypotheses except `names ≠ []`; concrete values
    (rune lists; "x" vs "abc" and "é" vs "e" are the witnesses of the repaired defect D5). -/
example : levRunes [0x78] [0x61, 0x62, 0x63] = 3 := by decide
example : levRunes [0xE9] [0x65] = 1 := by decide
example : levRunes [0x6B, 0x69, 0x74, 0x74, 0x65, 0x6E] [0x73, 0x69, 0x74, 0x74, 0x69, 0x6E, 0x67] = 3 := by decide

end GoFlags.C20
