/-
  C12, static facts: the INI write-option bits the cases are written in.
-/
import GoFlags.Generated.Facts

namespace GoFlags.C12
open GoFlags

theorem facts_ini_option_bits :
    Generated.consts_IniOptions = [("IniNone", 0)] ∧
    Generated.intConsts.lookup "IniIncludeDefaults" = some 2 ∧
    Generated.intConsts.lookup "IniCommentDefaults" = some 4 ∧
    Generated.intConsts.lookup "IniIncludeComments" = some 8 ∧
    Generated.intConsts.lookup "IniDefault" = some 8 := by decide

end GoFlags.C12
