/-
  C12, translation tie: the quoting helpers of convert.go / ini.go, TRANSLATED from /repo's source
  on every check (tools/golean -> Generated/Trans.lean), never panic and compute exactly what the
  model's functions compute.
-/
import GoFlags.Generated.Trans
import GoFlags.Ini
import GoFlags.Lemmas.GoSem

namespace GoFlags.C12
open GoFlags Bytes Generated

theorem trans_isPrint (E : Env) (s : Bytes) : go_isPrint E s = some (isPrintStr E s) := by
  unfold go_isPrint Go.forRangeStr
  rw [Go.forRangeFrom_all (fun (q : Int × Nat) => isPrintRune E q.2)]
  · have h2 : (Go.runeSteps s.length s 0).all (fun q => isPrintRune E q.2) = isPrintStr E s := by
      unfold isPrintStr
      rw [← Go.runeSteps_runes s.length s 0 (Nat.le_refl _), List.all_map]
      rfl
    rw [h2]
    cases isPrintStr E s <;> rfl
  · intro i x st
    cases h : isPrintRune E x.2 <;> simp [go_isPrint_loop1, h]

theorem trans_quoteIfNeeded (E : Env) (s : Bytes) : go_quoteIfNeeded E s = some (quoteIfNeeded E s) := by
  unfold go_quoteIfNeeded quoteIfNeeded
  rw [trans_isPrint]
  cases isPrintStr E s <;> simp [Go.strconvQuote]

theorem trans_formatBase (base : Int) : go_formatBase base = some ((fmtBase base : Nat) : Int) := by
  unfold go_formatBase fmtBase
  by_cases h1 : base < 2 <;> by_cases h2 : base > 36 <;> simp [h1, h2] <;> split <;> omega

theorem trans_unquoteIfPossible (s : Bytes) :
    go_unquoteIfPossible s = some (match unquoteIfPossible s with | some v => (v, none) | none => ([], some ())) := by
  match s with
  | [] => simp [go_unquoteIfPossible, Go.len, unquoteIfPossible]
  | a :: r =>
    by_cases h : a = 34
    · subst h; simp [go_unquoteIfPossible, Go.len, Go.idx, unquoteIfPossible, Go.strconvUnquote]
      have : ¬ ((r.length : Int) + 1 = 0) := by omega
      simp [this]
      cases unquote (34 :: r) <;> rfl
    · simp [go_unquoteIfPossible, Go.len, Go.idx, unquoteIfPossible, h]


/-- what `iniNeedsQuote` computes, as the Go text states it -/
theorem trans_iniNeedsQuote_text (E : Env) (s : Bytes) :
    go_iniNeedsQuote E s = some (!isPrintStr E s || decide (s ≠ trimSpace s) || hasPrefix s [0x22]) := by
  unfold go_iniNeedsQuote
  rw [trans_isPrint]
  rfl

theorem trans_quoteV (E : Env) (s : List Bytes) : go_quoteV E s = some (s.map (quote E)) := by
  unfold go_quoteV Go.make
  have h0 : (0:Int) ≤ Go.len s := by simp [Go.len]
  simp only [h0, if_true, bind, Option.bind, pure]
  rw [Go.forRange_fill (quote E)]
  intro i x st
  unfold go_quoteV_loop1
  cases Go.setIdx st i (quote E x) <;> rfl

theorem trans_quoteIfNeededV (E : Env) (s : List Bytes) :
    go_quoteIfNeededV E s = some (s.map (quoteIfNeeded E)) := by
  unfold go_quoteIfNeededV Go.make
  have h0 : (0:Int) ≤ Go.len s := by simp [Go.len]
  simp only [h0, if_true, bind, Option.bind, pure]
  rw [Go.forRange_fill (quoteIfNeeded E)]
  intro i x st
  unfold go_quoteIfNeededV_loop1
  rw [trans_quoteIfNeeded]
  cases h : Go.setIdx st i (quoteIfNeeded E x) <;> simp [h]

/-- ... and that is the model's `iniNeedsQuote` (whose form is "not printable, or a blank at either
    end, or a leading quote") under the one assumption on the IsPrint oracle -/
theorem trans_iniNeedsQuote (E : Env) (hE : E.spacesNotPrintable) (s : Bytes) :
    go_iniNeedsQuote E s = some (iniNeedsQuote E s) := by
  rw [trans_iniNeedsQuote_text]
  unfold iniNeedsQuote
  cases hp : isPrintStr E s with
  | false => simp
  | true =>
    rw [printable_trimSpace_ne_iff E hE s hp]
    cases s with
    | nil => simp [hasPrefix]
    | cons a r => by_cases h : a = 34 <;> simp [hasPrefix, h]

end GoFlags.C12
