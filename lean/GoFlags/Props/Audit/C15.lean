import GoFlags.Props.C15
#print axioms GoFlags.C15.sorted_names_order_independent
#print axioms GoFlags.C15.required_message_order_independent
#print axioms GoFlags.C15.completion_members_order_independent
#print axioms GoFlags.C15.global_section_first
#print axioms GoFlags.C15.map_rendering_order_independent
#print axioms GoFlags.C15.quote_flags_commute
#print axioms GoFlags.C15.facts_map_ranges
#print axioms GoFlags.C15.facts_reflect_map_iterations
#print axioms GoFlags.C15.facts_sort_calls
#print axioms GoFlags.C15.facts_no_goroutines
