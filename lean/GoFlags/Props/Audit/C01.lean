import GoFlags.Props.C01
#print axioms GoFlags.C01.call_leaves_parser
#print axioms GoFlags.C01.set_touches_only_its_option
#print axioms GoFlags.C01.markSet_fields
#print axioms GoFlags.C01.markSet_val
#print axioms GoFlags.C01.set_stores_conversion
#print axioms GoFlags.C01.set_rejects_non_choice
#print axioms GoFlags.C01.scalar_last_wins
#print axioms GoFlags.C01.slice_appends
#print axioms GoFlags.C01.map_inserts
#print axioms GoFlags.C01.mapInsert_lookup
#print axioms GoFlags.C01.flag_becomes_true
#print axioms GoFlags.C01.callback_runs_once
#print axioms GoFlags.C01.untagged_field_is_no_option
