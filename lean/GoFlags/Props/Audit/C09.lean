import GoFlags.Props.C09
#print axioms GoFlags.C09.duringParse_not_run
#print axioms GoFlags.C09.nothing_runs_while_parsing
#print axioms GoFlags.C09.finishParse_runs
#print axioms GoFlags.C09.no_run_on_parse_error
#print axioms GoFlags.C09.runs_are_dispatch
#print axioms GoFlags.C09.dispatch_exec_count
#print axioms GoFlags.C09.finishParse_exec_count
#print axioms GoFlags.C09.at_most_one_execute
#print axioms GoFlags.C09.run_error_returned_unchanged
