import GoFlags.Props.C17
#print axioms GoFlags.C17.repeatSp_some_iff
#print axioms GoFlags.C17.help_row_panics_iff
#print axioms GoFlags.C17.undescribed_row_never_panics
#print axioms GoFlags.C17.updateLen_is_max
#print axioms GoFlags.C17.updateLen_monotone
#print axioms GoFlags.C17.descriptionStart_ge
#print axioms GoFlags.C17.wrap_width_at_least_10
#print axioms GoFlags.C17.fitting_line_is_kept
#print axioms GoFlags.C17.only_hard_breaks_insert
#print axioms GoFlags.C17.continuation_lines_get_prefix
#print axioms GoFlags.C17.break_search_window
#print axioms GoFlags.C17.wrapSegs_width
#print axioms GoFlags.C17.wrapSegs_preserves
#print axioms GoFlags.C17.wrapLine_pieces
#print axioms GoFlags.C17.runeCount_append_spaces
#print axioms GoFlags.C17.description_column_is_common
#print axioms GoFlags.C17.facts_layout_constants
