import GoFlags.Props.C02
#print axioms GoFlags.C02.indexByte_append_of_not_mem
#print axioms GoFlags.C02.short_eq_splits
#print axioms GoFlags.C02.long_eq_splits
#print axioms GoFlags.C02.shortLoop_single
#print axioms GoFlags.C02.long_eq_same_as_short_eq
#print axioms GoFlags.C02.attached_same_as_short_eq
#print axioms GoFlags.C02.separate_same_as_inline
#print axioms GoFlags.C02.quoted_same_as_plain
#print axioms GoFlags.C02.option_looking_argument_rejected
#print axioms GoFlags.C02.negative_number_accepted
#print axioms GoFlags.C02.parseOption_flag
#print axioms GoFlags.C02.parseShortLoop_cluster
#print axioms GoFlags.C02.flatMap_encodeRune_length
#print axioms GoFlags.C02.cluster_is_its_flags_in_order
#print axioms GoFlags.C02.facts_option_style
#print axioms GoFlags.C02.facts_model_uses_the_delimiters
