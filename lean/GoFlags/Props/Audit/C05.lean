import GoFlags.Props.C05
#print axioms GoFlags.C05.closed_option_ignores_defaults
#print axioms GoFlags.C05.occurrence_closes_option
#print axioms GoFlags.C05.ini_entry_closes_option
#print axioms GoFlags.C05.env_beats_default_tags
#print axioms GoFlags.C05.default_tags_without_env
#print axioms GoFlags.C05.empty_env_is_a_value
#print axioms GoFlags.C05.env_key_with_namespaces
#print axioms GoFlags.C05.defaults_start_from_empty
#print axioms GoFlags.C05.first_occurrence_discards_contents
#print axioms GoFlags.C05.as_defaults_never_overrides_closed_option
#print axioms GoFlags.C05.optSetDefault_other
#print axioms GoFlags.C05.setDefaults_other
#print axioms GoFlags.C05.optClearDefault_other
#print axioms GoFlags.C05.closed_option_survives_defaults_phase
