import GoFlags.Props.C19
#print axioms GoFlags.C19.scan_error_is_ErrTag
#print axioms GoFlags.C19.getMany_keeps_order
#print axioms GoFlags.C19.getMany_skips_other_keys
#print axioms GoFlags.C19.get_is_last
#print axioms GoFlags.C19.get_absent
#print axioms GoFlags.C19.attributes_reflect_tag
#print axioms GoFlags.C19.short_is_the_single_rune
#print axioms GoFlags.C19.short_name_too_long
#print axioms GoFlags.C19.default_on_flag_rejected
#print axioms GoFlags.C19.falsy_strings
#print axioms GoFlags.C19.duplicate_long_detected
#print axioms GoFlags.C19.duplicate_short_detected
#print axioms GoFlags.C19.long_name_is_registered
#print axioms GoFlags.C19.untagged_is_skipped
#print axioms GoFlags.C19.positional_range
#print axioms GoFlags.C19.scan_tag_total
