import GoFlags.Props.C10
#print axioms GoFlags.C10.word_fills_next_field
#print axioms GoFlags.C10.slice_field_absorbs
#print axioms GoFlags.C10.extra_words_remain
#print axioms GoFlags.C10.conversion_error_stops
#print axioms GoFlags.C10.option_keeps_queue
#print axioms GoFlags.C10.after_terminator_everything_is_positional
#print axioms GoFlags.C10.queue_is_declaration_order
#print axioms GoFlags.C10.argAt_modArg_same
#print axioms GoFlags.C10.argAt_modArg_ne
#print axioms GoFlags.C10.ArgValid_modArg
#print axioms GoFlags.C10.words_fill_fields_in_order
#print axioms GoFlags.C10.rest_slice_absorbs_all
#print axioms GoFlags.C10.interleaved_options_do_not_disturb_binding
