import GoFlags.Props.C14
#print axioms GoFlags.C14.surrounding_whitespace_irrelevant
#print axioms GoFlags.C14.noise_line_is_skipped
#print axioms GoFlags.C14.line_error_carries_its_number
#print axioms GoFlags.C14.entry_carries_its_number
#print axioms GoFlags.C14.first_bad_line_is_reported
#print axioms GoFlags.C14.unknown_option
#print axioms GoFlags.C14.unknown_section
#print axioms GoFlags.C14.entry_value_error_line
#print axioms GoFlags.C14.apply_error_carries_entry_line
#print axioms GoFlags.C14.forgetF_hasSection
#print axioms GoFlags.C14.forgetF_append
#print axioms GoFlags.C14.forgetF_addEntry
#print axioms GoFlags.C14.readIniLine_meaning
#print axioms GoFlags.C14.readIniLines_meaning
#print axioms GoFlags.C14.noise_line_changes_nothing
