import GoFlags.Props.C06
#print axioms GoFlags.C06.checkRequired_eq
#print axioms GoFlags.C06.passes_iff
#print axioms GoFlags.C06.fails_with_ErrRequired
#print axioms GoFlags.C06.insertSorted_perm
#print axioms GoFlags.C06.sortStrings_perm
#print axioms GoFlags.C06.message_names_exactly_missing
#print axioms GoFlags.C06.only_active_chain_is_demanded
#print axioms GoFlags.C06.supplied_is_not_missing
#print axioms GoFlags.C06.nothing_executed
#print axioms GoFlags.C06.successful_parse_has_every_required_item
