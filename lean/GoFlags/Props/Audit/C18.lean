import GoFlags.Props.C18
#print axioms GoFlags.C18.SortedItems_tail
#print axioms GoFlags.C18.insertItem_sorted
#print axioms GoFlags.C18.foldr_insertItem_sorted
#print axioms GoFlags.C18.insertItem_mem
#print axioms GoFlags.C18.foldr_insertItem_mem
#print axioms GoFlags.C18.completion_list_is_sorted
#print axioms GoFlags.C18.offered_long_names_are_visible
#print axioms GoFlags.C18.offered_commands_are_visible
#print axioms GoFlags.C18.every_visible_command_is_offered
#print axioms GoFlags.C18.offered_option_is_known_to_parser
#print axioms GoFlags.C18.value_completions_reattach_prefix
#print axioms GoFlags.C18.sorting_keeps_candidates
