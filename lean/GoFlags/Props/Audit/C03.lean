import GoFlags.Props.C03
#print axioms GoFlags.C03.foldl_modOpt_cfg
#print axioms GoFlags.C03.addHelpGroups_cfg
#print axioms GoFlags.C03.clearDefaultsAll_retargs
#print axioms GoFlags.C03.checkRequired_retargs
#print axioms GoFlags.C03.prepare_cfg
#print axioms GoFlags.C03.parsePhase_retargs_sublist
#print axioms GoFlags.C03.finishParse_ret_of_ok
#print axioms GoFlags.C03.remaining_args_sublist
#print axioms GoFlags.C03.passthrough_is_suffix
#print axioms GoFlags.C03.passthrough_verbatim
#print axioms GoFlags.C03.dispatch_passes_retargs
#print axioms GoFlags.C03.remaining_are_exactly_the_words
#print axioms GoFlags.C03.addArgs_append
#print axioms GoFlags.C03.everything_behind_the_terminator_is_passed_through
#print axioms GoFlags.C03.remaining_are_the_words_and_everything_behind_the_terminator
#print axioms GoFlags.C03.first_plain_word_passes_everything_behind_it
