import GoFlags.Props.C12
#print axioms GoFlags.C12.needs_quote_iff
#print axioms GoFlags.C12.written_line_shape
#print axioms GoFlags.C12.plain_value_written_verbatim
#print axioms GoFlags.C12.nil_pointer_is_commented
#print axioms GoFlags.C12.empty_slice_is_commented
#print axioms GoFlags.C12.comment_line_is_skipped
#print axioms GoFlags.C12.description_lines_are_comments
#print axioms GoFlags.C12.plain_line_reads_back_partial
#print axioms GoFlags.C12.trimSpace_fix
#print axioms GoFlags.C12.cut_eq_key
#print axioms GoFlags.C12.readIniLine_key_value
#print axioms GoFlags.C12.quote_shape
#print axioms GoFlags.C12.string_value_round_trip
