import GoFlags.Props.C08
#print axioms GoFlags.C08.innermost_wins
#print axioms GoFlags.C08.ancestor_options_stay_in_scope
#print axioms GoFlags.C08.command_lookup_sound
#print axioms GoFlags.C08.command_lookup_complete
#print axioms GoFlags.C08.unknown_word
#print axioms GoFlags.C08.known_word_activates
#print axioms GoFlags.C08.command_required_error
#print axioms GoFlags.C08.unknown_command_error
