import GoFlags.Props.C20
open GoFlags.C20
#print axioms lev_is_levenshtein
#print axioms lev_symm
#print axioms lev_eq_zero_iff
#print axioms lev_le_max
#print axioms closest_is_minimum
#print axioms closest_nil
