import GoFlags.Props.C20
#print axioms GoFlags.C20.lev_is_levenshtein
#print axioms GoFlags.C20.lev_symm
#print axioms GoFlags.C20.lev_eq_zero_iff
#print axioms GoFlags.C20.lev_le_max
#print axioms GoFlags.C20.closestLoop_spec
#print axioms GoFlags.C20.closest_is_minimum
#print axioms GoFlags.C20.closest_nil
