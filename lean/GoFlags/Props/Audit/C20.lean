import GoFlags.Props.C20
#print axioms GoFlags.C20.lev_is_levenshtein
#print axioms GoFlags.C20.lev_symm
#print axioms GoFlags.C20.lev_eq_zero_iff
#print axioms GoFlags.C20.lev_le_max
#print axioms GoFlags.C20.closestLoop_spec
#print axioms GoFlags.C20.closest_is_minimum
#print axioms GoFlags.C20.closest_nil
#print axioms GoFlags.C20.unknown_command_message
#print axioms GoFlags.C20.missing_command_message
#print axioms GoFlags.C20.diagnostic_names_are_the_visible_ones
#print axioms GoFlags.C20.diagnostic_names_are_sorted
#print axioms GoFlags.C20.suggestion_is_nearest_visible
#print axioms GoFlags.C20.ccLoop
#print axioms GoFlags.C20.trans_closestChoice_partial
