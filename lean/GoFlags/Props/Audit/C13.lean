import GoFlags.Props.C13
#print axioms GoFlags.C13.modOpt_val
#print axioms GoFlags.C13.modOpt_isSet
#print axioms GoFlags.C13.markRead_keeps_values
#print axioms GoFlags.C13.entry_is_option_set
#print axioms GoFlags.C13.flag_is_option_set
#print axioms GoFlags.C13.entry_same_as_flag
#print axioms GoFlags.C13.empty_flag_entry_is_bare_flag
#print axioms GoFlags.C13.foldl_max_ge
#print axioms GoFlags.C13.selected_has_best_priority
#print axioms GoFlags.C13.global_section_is_all_groups
