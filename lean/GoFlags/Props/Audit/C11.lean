import GoFlags.Props.C11
#print axioms GoFlags.C11.horner_ge
#print axioms GoFlags.C11.uintLoop_spec
#print axioms GoFlags.C11.parseUint_spec
#print axioms GoFlags.C11.parseInt_spec
#print axioms GoFlags.C11.int_kind_uses_its_bits
#print axioms GoFlags.C11.uint_kind_uses_its_bits
#print axioms GoFlags.C11.bool_spellings
#print axioms GoFlags.C11.string_verbatim
#print axioms GoFlags.C11.map_splits_at_first_colon
#print axioms GoFlags.C11.map_without_colon
#print axioms GoFlags.C11.failed_conversion_keeps_slice
#print axioms GoFlags.C11.digitVal_digitChar
#print axioms GoFlags.C11.horner_append
#print axioms GoFlags.C11.natToBase_spec
#print axioms GoFlags.C11.parseUint_format
#print axioms GoFlags.C11.parseInt_format
