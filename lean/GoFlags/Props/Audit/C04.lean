import GoFlags.Props.C04
#print axioms GoFlags.C04.wrapMarshal_flags
#print axioms GoFlags.C04.finishSet_err_flags
#print axioms GoFlags.C04.option_rejection_is_typed
#print axioms GoFlags.C04.long_rejection_is_typed
#print axioms GoFlags.C04.shortLoop_rejection_is_typed
#print axioms GoFlags.C04.short_rejection_is_typed
#print axioms GoFlags.C04.required_rejection_is_typed
#print axioms GoFlags.C04.command_rejection_is_typed
#print axioms GoFlags.C04.wrapError_flags
#print axioms GoFlags.C04.output_discipline
#print axioms GoFlags.C04.setup_error_replayed
#print axioms GoFlags.C04.argument_loop_terminates
