import GoFlags.Props.C07
#print axioms GoFlags.C07.long_lookup_exact
#print axioms GoFlags.C07.short_lookup_exact
#print axioms GoFlags.C07.out_of_scope_is_unknown
#print axioms GoFlags.C07.unknown_long_rejected
#print axioms GoFlags.C07.unknown_short_rejected
#print axioms GoFlags.C07.default_policy_stops
#print axioms GoFlags.C07.other_errors_always_stop
#print axioms GoFlags.C07.handler_result_is_parsed_next
#print axioms GoFlags.C07.handler_events_only
#print axioms GoFlags.C07.ignored_unknown_options_pass_through_in_place
