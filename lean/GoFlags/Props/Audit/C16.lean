import GoFlags.Props.C16
#print axioms GoFlags.C16.help_row_independent_of_masked_default
#print axioms GoFlags.C16.man_entry_independent_of_masked_default
#print axioms GoFlags.C16.dash_mask_shows_no_default
#print axioms GoFlags.C16.hidden_option_has_no_help_row
#print axioms GoFlags.C16.man_lists_only_visible_options
#print axioms GoFlags.C16.hidden_group_not_shown
#print axioms GoFlags.C16.visible_commands_are_not_hidden
#print axioms GoFlags.C16.insertCmdSorted_mem
#print axioms GoFlags.C16.sorted_visible_commands_same_members
#print axioms GoFlags.C16.visible_row_shows_names
#print axioms GoFlags.C16.visible_row_shows_short
#print axioms GoFlags.C16.description_shows_default_and_env
#print axioms GoFlags.C16.man_recurses_over_visible_commands
