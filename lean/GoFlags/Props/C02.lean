/-
  C02 — All documented spellings of an option occurrence are interchangeable.

  Each theorem equates what the parser does for two spellings of the same occurrence, from an
  arbitrary parse state (hence at every position of every surrounding argument vector) and for
  an arbitrary declaration.  Short names are arbitrary runes — the multi-byte case is where the
  tree was wrong (D9) — and values are arbitrary bytes.
-/
import GoFlags.Props.C02.Trans
import GoFlags.Props.C02.Facts
import GoFlags.Parse
import GoFlags.Lemmas.ParseBasics
import GoFlags.Lemmas.Utf8

namespace GoFlags.C02
open GoFlags Bytes

theorem indexByte_append_of_not_mem (c : Nat) (p s : Bytes) (h : c ∉ p) :
    indexByte c (p ++ c :: s) = some p.length := by
  induction p with
  | nil => simp [indexByte]
  | cons a t ih =>
    have ha : a ≠ c := by intro e; apply h; simp [e]
    have ht : c ∉ t := by intro e; apply h; simp [e]
    simp [indexByte, ha, ih ht]

/-- `-x=V` splits into the short name `x` and the argument `V` for **every** rune `x`
    (1 to 4 bytes) other than `=`, and every value `V`. -/
theorem short_eq_splits (x : Nat) (hx : validRune x = true) (hne : x ≠ 0x3D) (V : Bytes) :
    splitOption (encodeRune x ++ 0x3D :: V) false = (encodeRune x, [0x3D], some V) := by
  unfold splitOption
  have hidx := indexByte_append_of_not_mem 0x3D (encodeRune x) V (encodeRune_no_ascii x 0x3D (by omega) hne)
  rw [hidx]
  simp only [Bool.false_eq_true, false_or]
  rw [decodeRune_encodeRune x hx]
  simp

/-- `--name=V` splits at the first `=` -/
theorem long_eq_splits (name V : Bytes) (h : 0x3D ∉ name) :
    splitOption (name ++ 0x3D :: V) true = (name, [0x3D], some V) := by
  unfold splitOption
  rw [indexByte_append_of_not_mem 0x3D name V h]
  simp

/-- a one-rune short token is one `parseOption` -/
theorem shortLoop_single (E : Env) (help : HelpFn) (total fuel : Nat) (s : PS) (b : Nat) (rest : Bytes) (i : Nat)
    (arg : Option Bytes) (x : Nat) (r : ORef)
    (hdec : decodeRune (b :: rest) = (x, (b :: rest).length)) (hs : s.P.lookupShort s.cmd x = some r) :
    parseShortLoop E help total (fuel + 1) s (b :: rest) i arg =
      parseOption E help s r (decide (i + runeLen x = total) && !(s.P.opt r).optionalArg) arg := by
  unfold parseShortLoop
  simp only [hdec, hs]
  generalize parseOption E help s r (decide (i + runeLen x = total) && !(s.P.opt r).optionalArg) arg = res
  obtain ⟨s', e⟩ := res
  cases e with
  | some e => rfl
  | none =>
    simp only [List.drop_length]
    cases fuel <;> simp [parseShortLoop]

/-- With an inline argument the option is applied the same way whichever name found it:
    `--name=V` and `-x=V` do exactly the same to the parse state. -/
theorem long_eq_same_as_short_eq (E : Env) (help : HelpFn) (s : PS) (name : Bytes) (x : Nat) (r : ORef) (V : Bytes)
    (hx : validRune x = true)
    (hl : s.P.lookupLong s.cmd name = some r) (hs : s.P.lookupShort s.cmd x = some r) :
    parseLong E help s name (some V) = parseShort E help s (encodeRune x) (some V) := by
  unfold parseLong parseShort
  simp only [hl, Option.isNone_some, Bool.false_eq_true, if_false]
  have hlen := encodeRune_length_pos x
  cases hen : encodeRune x with
  | nil => rw [hen] at hlen; simp at hlen
  | cons b rest =>
    have hdec : decodeRune (b :: rest) = (x, (b :: rest).length) := by
      have := decodeRune_encodeRune x hx []
      rw [hen] at this; simpa using this
    rw [shortLoop_single E help _ _ s b rest 0 (some V) x r hdec hs]
    -- with an inline argument `canarg` is irrelevant
    unfold parseOption; simp

/-- The attached form `-xV` (V non-empty) is read as the short name `x` with argument `V` —
    the same as `-x=V` — whenever `x` names an argument-taking option. -/
theorem attached_same_as_short_eq (s : PS) (x : Nat) (r : ORef) (V : Bytes) (hx : validRune x = true) (hV : V ≠ [])
    (hs : s.P.lookupShort s.cmd x = some r) (hc : (s.P.opt r).ty.canArgument = true) :
    splitShortConcatArg s (encodeRune x ++ V) = (encodeRune x, some V) := by
  unfold splitShortConcatArg
  rw [decodeRune_encodeRune x hx V]
  have : (encodeRune x).length ≠ (encodeRune x ++ V).length := by
    simp; exact hV
  simp [this, hs, hc, hV]

/-- The separate-token form: taking the next token as the argument does to the parser exactly
    what the inline form does once that token is consumed — provided the token is admissible as
    an argument (no option syntax except a negative number for a signed numeric option, not the
    terminator under PassDoubleDash, accepted by a custom validator). -/
theorem separate_same_as_inline (E : Env) (help : HelpFn) (s : PS) (r : ORef) (V : Bytes) (rest : List Bytes)
    (hargs : s.args = V :: rest)
    (hc : (s.P.opt r).ty.canArgument = true)
    (hvalid : isValidValue s.P r V = none)
    (hdd : (s.P.opts.passDoubleDash && V = B "--") = false) :
    parseOption E help s r true none = parseOption E help { s with arg := V, args := rest } r true (some V) := by
  unfold parseOption
  simp only [hc, Bool.not_true, Bool.false_eq_true, if_false, Option.isSome_none, Bool.false_or, Bool.true_and,
    Option.isSome_some, Bool.true_or, if_true]
  have heof : s.eof = false := by simp [PS.eof, hargs]
  simp only [heof, Bool.not_false, if_true]
  have htake : takeArgument s r none = ({ s with arg := V, args := rest }, V, none) := by
    unfold takeArgument
    simp only [PS.pop, hargs, hvalid]
    simp only [hdd, Bool.false_eq_true, if_false]
  rw [htake]
  simp [takeArgument]

/-- A double-quoted Go literal is read as the string it denotes: if `q` unquotes to `V` then
    giving `q` is the same as giving `V` (for a `V` that does not itself begin with a quote). -/
theorem quoted_same_as_plain (E : Env) (help : HelpFn) (s : PS) (r : ORef) (c : Bool) (q V : Bytes)
    (hc : (s.P.opt r).ty.canArgument = true)
    (hu : tagGet (s.P.opt r).tag (B "unquote") ≠ B "false")
    (hq : unquoteIfPossible q = some V) (hV : unquoteIfPossible V = some V) :
    parseOption E help s r c (some q) = parseOption E help s r c (some V) := by
  unfold parseOption
  simp only [hc, Bool.not_true, Bool.false_eq_true, if_false, Option.isSome_some, Bool.true_or, if_true, takeArgument,
    hu, ne_eq, not_false_eq_true, hq, hV]

/-- the documented exception: an option-looking token is not taken as a separate argument … -/
theorem option_looking_argument_rejected (s : PS) (r : ORef) (V : Bytes)
    (hv : (s.P.opt r).ty.isValidator = false) (hopt : argumentIsOption V = true)
    (hneg : (s.P.opt r).ty.isSignedNumber = false) :
    ∃ m, isValidValue s.P r V = some m := by
  unfold isValidValue
  simp only [hv, Bool.false_eq_true, if_false, hopt, hneg]
  split <;> simp

/-- … except a negative number for a signed numeric option -/
theorem negative_number_accepted (s : PS) (r : ORef) (d : Nat) (t : Bytes)
    (hv : (s.P.opt r).ty.isValidator = false) (hs : (s.P.opt r).ty.isSignedNumber = true)
    (hd : 0x30 ≤ d ∧ d ≤ 0x39) :
    isValidValue s.P r (0x2D :: d :: t) = none := by
  unfold isValidValue
  simp [hv, hs, hd.1, hd.2]

/-! Non-vacuity: "é" (U+00E9, two bytes) and "日" (U+65E5, three bytes) are valid short names. -/
example : splitOption ([0xC3, 0xA9] ++ 0x3D :: [0x56]) false = ([0xC3, 0xA9], [0x3D], some [0x56]) := by
  have := short_eq_splits 0xE9 (by decide) (by decide) [0x56]
  simpa [encodeRune] using this

/-! ### Clusters -/

/-- a flag occurrence: `Option.Set(nil)` on an option that takes no argument -/
def applyFlag (E : Env) (help : HelpFn) (s : PS) (r : ORef) : PS × Option GoErr :=
  finishSet s r (optSet E help s.P r none s.log)

theorem parseOption_flag (E : Env) (help : HelpFn) (s : PS) (r : ORef) (canarg : Bool)
    (h : (s.P.opt r).ty.canArgument = false) : parseOption E help s r canarg none = applyFlag E help s r := by
  unfold parseOption applyFlag
  simp [h]

/-- the flags of a cluster, applied one after the other; stops at the first rejection -/
def applyFlags (E : Env) (help : HelpFn) : PS → List Nat → PS × Option GoErr
  | s, [] => (s, none)
  | s, x :: xs =>
    match s.P.lookupShort s.cmd x with
    | some r =>
      match applyFlag E help s r with
      | (s', none) => applyFlags E help s' xs
      | (s', some e) => (s', some e)
    | none => (s, some (.flags .unknownFlag (B "unknown flag `" ++ encodeRune x ++ B "'")))

/-- every character of the cluster names an option that takes no argument (in the state it is
    reached in: the names resolve through the declarations, which the flags before it do not change) -/
def AllFlags (E : Env) (help : HelpFn) : PS → List Nat → Prop
  | _, [] => True
  | s, x :: xs =>
    validRune x = true ∧ ∃ r, s.P.lookupShort s.cmd x = some r ∧ (s.P.opt r).ty.canArgument = false ∧
      AllFlags E help (applyFlag E help s r).1 xs

/-- **A cluster is its flags one after the other**: `parseShort` on the concatenated characters
    applies exactly the flags, in order, whatever the offsets. -/
theorem parseShortLoop_cluster (E : Env) (help : HelpFn) (total : Nat) (xs : List Nat) :
    ∀ (fuel : Nat) (s : PS) (i : Nat), xs.length < fuel → AllFlags E help s xs →
      parseShortLoop E help total fuel s (xs.flatMap encodeRune) i none = applyFlags E help s xs := by
  induction xs with
  | nil =>
    intro fuel s i hf _
    cases fuel with
    | zero => simp at hf
    | succ f => simp [parseShortLoop, applyFlags]
  | cons x xs ih =>
    intro fuel s i hf hall
    obtain ⟨hv, r, hl, hca, hrest⟩ := hall
    cases fuel with
    | zero => simp at hf
    | succ f =>
      simp only [List.flatMap_cons]
      have hne := encodeRune_length_pos x
      cases he : encodeRune x with
      | nil => simp [he] at hne
      | cons b t =>
        have hdec : decodeRune ((b :: t) ++ xs.flatMap encodeRune) = (x, (b :: t).length) := by
          rw [← he]; exact decodeRune_encodeRune x hv _
        simp only [List.cons_append] at hdec ⊢
        unfold parseShortLoop
        simp only [hdec, hl]
        rw [parseOption_flag E help s r _ hca]
        unfold applyFlags
        simp only [hl]
        cases hres : applyFlag E help s r with
        | mk s' e =>
          cases e with
          | some e => rfl
          | none =>
            simp only
            have hdrop : (b :: (t ++ xs.flatMap encodeRune)).drop (b :: t).length = xs.flatMap encodeRune := by
              have : b :: (t ++ xs.flatMap encodeRune) = (b :: t) ++ xs.flatMap encodeRune := rfl
              rw [this, List.drop_left]
            rw [hdrop]
            rw [hres] at hrest
            exact ih f s' _ (by simp at hf; omega) hrest

theorem flatMap_encodeRune_length (xs : List Nat) : xs.length ≤ (xs.flatMap encodeRune).length := by
  induction xs with
  | nil => simp
  | cons x xs ih =>
    have := encodeRune_length_pos x
    simp only [List.flatMap_cons, List.length_append, List.length_cons]
    omega

/-- **`-abc` is `-a -b -c`** at the level of options: `parseShort` on a cluster whose characters
    all name options that take no argument applies exactly those flags, in the order typed — the
    same `Option.Set(nil)` calls the separate tokens `-a`, `-b`, `-c` make (each of which is the
    one-character case of this theorem). -/
theorem cluster_is_its_flags_in_order (E : Env) (help : HelpFn) (s : PS) (xs : List Nat)
    (hall : AllFlags E help s xs) :
    parseShort E help s (xs.flatMap encodeRune) none = applyFlags E help s xs := by
  unfold parseShort
  simp only [Option.isNone_none, if_true]
  have hsplit : splitShortConcatArg s (xs.flatMap encodeRune) = (xs.flatMap encodeRune, none) := by
    unfold splitShortConcatArg
    cases xs with
    | nil => simp [decodeRune]
    | cons x rest =>
      obtain ⟨hv, r, hl, hca, _⟩ := hall
      simp only [List.flatMap_cons]
      rw [decodeRune_encodeRune x hv]
      simp only
      split
      · rfl
      · simp only [hl, hca, Bool.false_eq_true, if_false]
  rw [hsplit]
  simp only
  exact parseShortLoop_cluster E help _ xs _ s 0 (by have := flatMap_encodeRune_length xs; omega) hall
/-- **An attached argument is the argument — the empty one too.**  For an option that takes an argument, whatever its
    `optional` mark and its `optional-value` say: `--name=` (an attached, EMPTY argument) hands the empty text to
    `Option.Set`, where it is converted and checked like any other text; the optional value is for the bare option. -/
theorem attached_empty_argument_is_handed_to_set (E : Env) (help : HelpFn) (s : PS) (r : ORef) (canarg : Bool)
    (hc : (s.P.opt r).ty.canArgument = true) :
    parseOption E help s r canarg (some []) = finishSet s r (optSet E help s.P r (some []) s.log) := by
  unfold parseOption
  simp [hc, takeArgument, unquoteIfPossible]

/-- … and so is every attached argument that does not start with a double quote -/
theorem attached_argument_is_handed_to_set (E : Env) (help : HelpFn) (s : PS) (r : ORef) (canarg : Bool)
    (c : Nat) (a : Bytes) (hq : c ≠ 0x22) (hc : (s.P.opt r).ty.canArgument = true) :
    parseOption E help s r canarg (some (c :: a)) = finishSet s r (optSet E help s.P r (some (c :: a)) s.log) := by
  unfold parseOption
  simp [hc, takeArgument, unquoteIfPossible, hq]


end GoFlags.C02
