/-
  C07 — Unknown options are never silently accepted.
-/
import GoFlags.Lemmas.ParseLog
import GoFlags.Props.C03

namespace GoFlags.C07
open GoFlags Bytes

/-- **Lookup is exact.** A long name resolves only to an option whose namespaced long name is
    byte-for-byte that name — no prefix, case-insensitive or fuzzy matching. -/
theorem long_lookup_exact (P : Parser) (ci : Nat) (name : Bytes) (r : ORef)
    (h : P.lookupLong ci name = some r) : (P.opt r).long ≠ [] ∧ P.longNS r = name ∧ r.c ∈ P.chain ci := by
  unfold Parser.lookupLong at h
  obtain ⟨a, ha, hf⟩ := List.exists_of_findSome?_eq_some h
  have hmem := List.mem_of_find?_eq_some hf
  have hp := List.find?_some hf
  simp only [Bool.and_eq_true, decide_eq_true_eq, ne_eq] at hp
  have hc : r.c = a := by
    have : r ∈ (P.cmd a).orefs a := by simpa using hmem
    unfold Cmd.orefs at this
    simp only [List.mem_flatMap, List.mem_map] at this
    obtain ⟨⟨g, gi⟩, _, oi, _, rfl⟩ := this
    rfl
  exact ⟨by simpa using hp.1, hp.2, by rw [hc]; simpa using ha⟩

theorem short_lookup_exact (P : Parser) (ci : Nat) (x : Nat) (r : ORef)
    (h : P.lookupShort ci x = some r) : (P.opt r).short = x ∧ x ≠ 0 ∧ r.c ∈ P.chain ci := by
  unfold Parser.lookupShort at h
  obtain ⟨a, ha, hf⟩ := List.exists_of_findSome?_eq_some h
  have hmem := List.mem_of_find?_eq_some hf
  have hp := List.find?_some hf
  simp only [Bool.and_eq_true, decide_eq_true_eq, ne_eq] at hp
  have hc : r.c = a := by
    have : r ∈ (P.cmd a).orefs a := by simpa using hmem
    unfold Cmd.orefs at this
    simp only [List.mem_flatMap, List.mem_map] at this
    obtain ⟨⟨g, gi⟩, _, oi, _, rfl⟩ := this
    rfl
  refine ⟨hp.2, ?_, by rw [hc]; simpa using ha⟩
  intro h0; apply hp.1; rw [hp.2, h0]

/-- **Scope.** Only options of the command context reached so far — the parser and the commands
    named so far — can be found; an option declared only in a sibling command or in a command
    not yet named is unknown. -/
theorem out_of_scope_is_unknown (P : Parser) (ci : Nat) (name : Bytes)
    (h : ∀ a ∈ P.chain ci, ∀ r ∈ (P.cmd a).orefs a, ¬((P.opt r).long ≠ [] ∧ P.longNS r = name)) :
    P.lookupLong ci name = none := by
  unfold Parser.lookupLong
  rw [List.findSome?_eq_none_iff]
  intro a ha
  rw [List.find?_eq_none]
  intro r hr
  have := h a (by simpa using ha) r (by simpa using hr)
  simpa using this

/-- a long name that is not in scope is rejected with ErrUnknownFlag naming it, and the parse
    state is left untouched -/
theorem unknown_long_rejected (E : Env) (help : HelpFn) (s : PS) (name : Bytes) (argument : Option Bytes)
    (h : s.P.lookupLong s.cmd name = none) :
    parseLong E help s name argument = (s, some (.flags .unknownFlag (B "unknown flag `" ++ name ++ B "'"))) := by
  unfold parseLong; simp [h]

/-- a short rune that is not in scope is rejected with ErrUnknownFlag naming it -/
theorem unknown_short_rejected (E : Env) (help : HelpFn) (total fuel : Nat) (s : PS) (b : Nat) (rest : Bytes) (i : Nat)
    (argument : Option Bytes) (h : s.P.lookupShort s.cmd (decodeRune (b :: rest)).1 = none) :
    parseShortLoop E help total (fuel + 1) s (b :: rest) i argument =
      (s, some (.flags .unknownFlag (B "unknown flag `" ++ encodeRune (decodeRune (b :: rest)).1 ++ B "'"))) := by
  unfold parseShortLoop
  simp [h]

/-- **Default policy**: without IgnoreUnknown and without a handler an unknown-flag error stops
    the parse and becomes its error. -/
theorem default_policy_stops (P : Parser) (e : GoErr) (h1 : P.opts.ignoreUnknown = false) (h2 : P.handler = .none) :
    unknownPolicyStops P e = true := by
  unfold unknownPolicyStops; simp [h1, h2]

/-- any other error stops the parse under every policy -/
theorem other_errors_always_stop (P : Parser) (e : GoErr) (h : e.isUnknownFlag = false) :
    unknownPolicyStops P e = true := by
  unfold unknownPolicyStops; simp [h]

/-- **Handler**: each call receives the remaining (not yet consumed) arguments and what it
    returns is what is parsed next; handlers of the harness family behave as stated. -/
theorem handler_result_is_parsed_next (h : Handler) (name : Bytes) (args args' : List Bytes)
    (hr : runHandler h name args = .ok args') :
    (h = .none ∨ h = .identity → args' = args) ∧ (h = .dropNext → args' = args.drop 1) ∧
    (∀ t, h = .prepend t → args' = t :: args) ∧ (h = .swallow → args' = []) := by
  cases h <;> simp_all [runHandler]

/-- the whole parse phase calls user code only through callbacks and the handler (no execution) -/
theorem handler_events_only (E : Env) (help : HelpFn) (P : Parser) (argv : List Bytes) :
    ∀ ev ∈ (parsePhase E help P argv).log, ev.duringParse = true :=
  parsePhase_log E help P argv


/-! ### Whole command lines under IgnoreUnknown -/

/-- **With IgnoreUnknown every unknown option is passed through verbatim, in place, and parsing
    continues**: for a command line of any length that mixes occurrences of declared options,
    plain words and long options that are not in scope (no positional pending, no subcommands below
    the command reached), the parser ends with exactly the plain words AND the unknown options, as
    typed, in their order, appended to what it held — and every declared occurrence around them is
    applied as if they were not there (`parseLoop_of_items`: the loop is the fold of the per-token
    step). -/
theorem ignored_unknown_options_pass_through_in_place (E : Env) (help : HelpFn) (items : List Item) (fuel : Nat) (s : PS)
    (hf : items.length < fuel) (hargs : s.args = renderItems items) (hok : ItemsOK s items)
    (hres : (applyItems E help s items).2 = none) (hq : s.positional = []) :
    parseLoop E help fuel s = (applyItems E help s items).1 ∧
    (parseLoop E help fuel s).retargs = s.retargs ++ wordsOf items :=
  ⟨parseLoop_of_items E help items fuel s hf hargs hok hres,
   C03.remaining_are_exactly_the_words E help items fuel s hf hargs hok hres hq⟩

/-! non-vacuity: `--zz=1 --v a` on a parser with one flag `--v` and IgnoreUnknown: the unknown option
    is a passed token, and it comes back in place -/
def exIgnP : Parser := { cmds := [{ groups := [{ opts := [{ long := B "v", ty := .sc .bool }] }] }], opts := { ignoreUnknown := true } }
def exIgnItems : List Item := [.word (longToken (B "zz") (some (B "1"))), .occ (B "v", none), .word (B "a")]
def exIgnS : PS := { P := exIgnP, args := renderItems exIgnItems }
example : ItemsOK exIgnS exIgnItems :=
  ⟨by decide, by decide,
   by intro it h; simp [exIgnItems, occsOf] at h; subst h; exact ⟨⟨by decide, by decide, by decide⟩, ⟨0,0,0⟩, by decide, fun _ => by decide⟩,
   by
    intro w h
    simp [exIgnItems, wordsOf] at h
    rcases h with h | h
    · subst h
      exact Or.inr ⟨by decide, B "zz", some (B "1"), rfl, ⟨by decide, by decide, by decide⟩, by decide⟩
    · subst h; exact Or.inl ⟨by decide, by decide⟩⟩
example : (applyItems default (fun _ => []) exIgnS exIgnItems).2 = none := by decide
example : (applyItems default (fun _ => []) exIgnS exIgnItems).1.retargs = [B "--zz=1", B "a"] := by decide

end GoFlags.C07
