/-
  C01 — Option fields hold exactly what the command line denotes.

  Two layers.  Props/C01/Step.lean: what ONE occurrence does (`Option.Set`: which option it
  writes, what it stores, clearing rule, choices, callbacks).  This file: WHOLE command lines, of
  any length — the argument loop over a list of occurrences is the fold of the per-occurrence
  step (`parseLoop_of_occurrences`), that fold is one `Option.Set` after the other on the options
  the names resolve to (`applyOccs_is_setAll`), and from there the denotation: a scalar holds the
  conversion of its last occurrence's argument, a slice one element per occurrence in order, a
  map the insert-or-replace of its occurrences' pairs (hence the last value per key), a flag is
  true iff it occurred, options that are not named are not touched.  (Occurrences are taken in the spelling `--name=V`
  / `--flag`; C02 proves that the other spellings reach the same `parseOption` call.)
-/
import GoFlags.Props.C01.Step
import GoFlags.Lemmas.Occurrences

namespace GoFlags.C01
open GoFlags Bytes

/-- **The argument loop over a whole command line of option occurrences is the fold of the
    per-occurrence step**: for every list of occurrences `--name=V` / `--flag` of options in scope,
    of any length, if no occurrence is rejected then the loop ends in exactly the state reached by
    applying the occurrences one after the other, with nothing left over. -/
theorem parseLoop_of_occurrences (E : Env) (help : HelpFn) (items : List Occ) :
    ∀ (fuel : Nat) (s : PS), items.length < fuel → s.args = renderOccs items →
      (∀ it ∈ items, OccOK s.P s.cmd it) → (applyOccs E help s items).2 = none →
      parseLoop E help fuel s = (applyOccs E help s items).1 := by
  induction items with
  | nil =>
    intro fuel s hf hargs _ _
    cases fuel with
    | zero => simp at hf
    | succ fuel =>
      unfold parseLoop
      simp [PS.eof, hargs, renderOccs, applyOccs]
  | cons it rest ih =>
    intro fuel s hf hargs hok hres
    cases fuel with
    | zero => simp at hf
    | succ fuel =>
      obtain ⟨ht, r, hl, hc⟩ := hok it (by simp)
      have hargs' : s.args = longToken it.1 it.2 :: renderOccs rest := by simpa [renderOccs] using hargs
      rw [parseLoop_long_token E help fuel s it.1 it.2 (renderOccs rest) ht hargs']
      unfold applyOccs at hres ⊢
      have hk := parseLong_keeps E help { s with arg := longToken it.1 it.2, args := renderOccs rest } it.1 it.2 (by
        cases h2 : it.2 with
        | some V => left; rfl
        | none =>
          right
          intro r' hr'
          simp only at hr'
          rw [hl] at hr'
          cases hr'
          exact hc h2)
      generalize parseLong E help { s with arg := longToken it.1 it.2, args := renderOccs rest } it.1 it.2 = res at hk hres ⊢
      obtain ⟨s', e⟩ := res
      cases e with
      | some e => simp at hres
      | none =>
        simp only at hres ⊢
        apply ih fuel s' (by simp at hf; omega) hk.args
        · intro it' hit'
          rw [hk.cmd]
          exact OccOK_of_sameDecl hk.decl.symm _ _ (hok it' (by simp [hit']))
        · exact hres

theorem applyOccs_is_setAll (E : Env) (help : HelpFn) (items : List Occ) :
    ∀ s : PS, (∀ it ∈ items, OccOK s.P s.cmd it) → (applyOccs E help s items).2 = none →
      (applyOccs E help s items).1.P = (setAll E help s.cmd s.P s.log items).1 ∧
      (applyOccs E help s items).1.log = (setAll E help s.cmd s.P s.log items).2 ∧
      (applyOccs E help s items).1.cmd = s.cmd ∧ (applyOccs E help s items).1.retargs = s.retargs ∧
      (applyOccs E help s items).1.err = s.err := by
  induction items with
  | nil => intro s _ _; simp [applyOccs, setAll]
  | cons it rest ih =>
    intro s hok hres
    obtain ⟨ht, r, hl, hc⟩ := hok it (by simp)
    unfold applyOccs at hres ⊢
    unfold setAll
    let s0 : PS := { s with arg := longToken it.1 it.2, args := renderOccs rest }
    have hk := parseLong_keeps E help s0 it.1 it.2 (by
      cases h2 : it.2 with
      | some V => left; rfl
      | none =>
        right; intro r' hr'
        have : s0.P.lookupLong s0.cmd it.1 = some r := hl
        rw [this] at hr'; cases hr'; exact hc h2)
    have hacc := fun h => parseLong_accepted E help s0 it.1 it.2 r hl hc h
    change (match parseLong E help s0 it.1 it.2 with | (s', none) => applyOccs E help s' rest | (s', some e) => (s', some e)).2 = none at hres
    change (match parseLong E help s0 it.1 it.2 with | (s', none) => applyOccs E help s' rest | (s', some e) => (s', some e)).1.P = _ ∧ _
    generalize hpl : parseLong E help s0 it.1 it.2 = res at hk hres hacc ⊢
    obtain ⟨s', e⟩ := res
    cases e with
    | some e => simp at hres
    | none =>
      simp only at hres hk hacc ⊢
      obtain ⟨v, hv, _, hs'⟩ := hacc trivial
      simp only [hl, hv]
      have hs'P : s'.P = (optSet E help s.P r v s.log).1 := by rw [hs']
      have hs'log : s'.log = (optSet E help s.P r v s.log).2.1 := by rw [hs']
      have hok' : ∀ it' ∈ rest, OccOK s'.P s'.cmd it' := by
        intro it' hit'
        rw [hk.cmd]
        exact OccOK_of_sameDecl hk.decl.symm _ _ (hok it' (by simp [hit']))
      obtain ⟨h1, h2, h3, h4, h5⟩ := ih s' hok' hres
      have hv' : occArg s.P r it.2 = some v := hv
      have hcmd : s'.cmd = s.cmd := hk.cmd
      have hret : s'.retargs = s.retargs := hk.ret
      have herr : s'.err = s.err := hk.err
      simp only [hv']
      refine ⟨?_, ?_, ?_, ?_, ?_⟩
      · rw [h1, hs'P, hs'log, hcmd]
      · rw [h2, hs'P, hs'log, hcmd]
      · rw [h3, hcmd]
      · rw [h4, hret]
      · rw [h5, herr]

/-- **Options no occurrence names are not touched**, whatever else is on the command line. -/
theorem options_not_named_are_untouched (E : Env) (help : HelpFn) (ci : Nat) (r0 : ORef) (items : List Occ) :
    ∀ (P : Parser) (log : List Event), (∀ it ∈ items, P.lookupLong ci it.1 ≠ some r0) →
      (setAll E help ci P log items).1.opt r0 = P.opt r0 := by
  induction items with
  | nil => intro P log _; rfl
  | cons it rest ih =>
    intro P log hno
    unfold setAll
    split
    · next r hr =>
      split
      · next v hv =>
        have hne : r ≠ r0 := by intro e; apply hno it (by simp); rw [hr, e]
        rw [ih _ _ (by
          intro it' hit'
          rw [(optSet_decl E help P r v log).lookupLong]
          exact hno it' (by simp [hit']))]
        exact C01.set_touches_only_its_option E help P r r0 v log hne
      · rfl
    · rfl

/-- **A scalar option holds the conversion of its last occurrence's argument**, whatever comes
    before it (earlier occurrences of the same option included) and whatever other options come
    after it, for command lines of any length. -/
theorem scalar_holds_last_occurrence (E : Env) (help : HelpFn) (ci : Nat) (P : Parser) (log : List Event)
    (pre post : List Occ) (n V : Bytes) (r : ORef) (sc : Sc)
    (hacc : Accepted E help ci P log (pre ++ (n, some V) :: post))
    (hl : P.lookupLong ci n = some r) (hr : r.valid P) (hty : (P.opt r).ty = .sc sc)
    (hpost : ∀ it ∈ post, P.lookupLong ci it.1 ≠ some r) :
    ∃ a v', occArg P r (some V) = some (some a) ∧ convertSc E (P.opt r).tag a sc = .ok v' ∧
      ((setAll E help ci P log (pre ++ (n, some V) :: post)).1.opt r).val = .sc v' := by
  obtain ⟨hpre, hrest⟩ := Accepted_append E help ci pre _ P log hacc
  rw [setAll_append E help ci pre _ P log hpre]
  generalize hP1 : (setAll E help ci P log pre).1 = P1 at hrest ⊢
  generalize (setAll E help ci P log pre).2 = log1 at hrest ⊢
  have hd1 : SameDecl P1 P := by rw [← hP1]; exact setAll_decl E help ci pre P log
  obtain ⟨r', v, hl', hv, he, hpostacc⟩ := hrest
  have hl1 : P1.lookupLong ci n = some r := by rw [hd1.lookupLong]; exact hl
  have hrr : r' = r := by
    have : P1.lookupLong ci n = some r' := hl'
    rw [hl1] at this; cases this; rfl
  subst hrr
  have hopt : (P1.opt r').decl = (P.opt r').decl := hd1.opt r'
  have hty1 : (P1.opt r').ty = .sc sc := by
    have : (P1.opt r').decl.ty = (P.opt r').decl.ty := by rw [hopt]
    exact this.trans hty
  have htag1 : (P1.opt r').tag = (P.opt r').tag := by
    have : (P1.opt r').decl.tag = (P.opt r').decl.tag := by rw [hopt]
    exact this
  have hca : (P1.opt r').ty.canArgument = (P.opt r').ty.canArgument := by rw [hty1, hty]
  -- the argument handed to Set
  have hv' : occArg P r' (some V) = some v := by
    have : occArg P1 r' (some V) = some v := hv
    unfold occArg at this ⊢
    simp only [hca, htag1] at this
    exact this
  unfold setAll
  simp only [hl1]
  have hv1 : occArg P1 r' (some V) = some v := hv
  simp only [hv1]
  -- v is `some a`
  have hvsome : ∃ a, v = some a := by
    unfold occArg at hv1
    simp only at hv1
    split at hv1
    · cases hq : (if tagGet (P1.opt r').tag (B "unquote") ≠ B "false" then unquoteIfPossible V else some V) with
      | none => rw [hq] at hv1; simp at hv1
      | some a => rw [hq] at hv1; simp at hv1; exact ⟨a, hv1.symm⟩
    · simp at hv1
  obtain ⟨a, rfl⟩ := hvsome
  have hr1 : r'.valid P1 := hd1.symm.valid r' hr
  have hfun : (P1.opt r').ty.isFunc = false := by rw [hty1]; rfl
  obtain ⟨v', hconv, hval⟩ := optSet_accepted_val E help P1 r' hr1 a log1 hfun he
  rw [hty1] at hconv
  simp only [convert] at hconv
  cases hcs : convertSc E (P1.opt r').tag a sc with
  | error m => rw [hcs] at hconv; simp [Except.map] at hconv
  | ok sv =>
    rw [hcs] at hconv
    simp [Except.map] at hconv
    refine ⟨a, sv, hv', by rw [← htag1]; exact hcs, ?_⟩
    rw [options_not_named_are_untouched E help ci r' post _ _ (by
      intro it hit
      rw [((optSet_decl E help P1 r' (some a) log1).trans hd1).lookupLong]
      exact hpost it hit)]
    rw [hval, ← hconv]

/-- **A slice option holds one element per occurrence, in command-line order**: after any accepted
    command line on which every occurrence of the option carries an argument, the option's
    elements are those it started from (none, at the first occurrence after a parse has begun)
    followed by the conversions of the arguments of its occurrences, in the order they were typed;
    other options' occurrences in between do not matter. -/
theorem slice_holds_every_occurrence_in_order (E : Env) (help : HelpFn) (ci : Nat) (r : ORef) (sc : Sc) (items : List Occ) :
    ∀ (P : Parser) (log : List Event), Accepted E help ci P log items → r.valid P → (P.opt r).ty = .slice sc →
      (∀ it ∈ items, P.lookupLong ci it.1 = some r → it.2 ≠ none) →
      ∃ vs, ConvAll E (P.opt r).tag sc (argsOf P ci r items) vs ∧
        ((setAll E help ci P log items).1.opt r).val =
          (if argsOf P ci r items = [] then (P.opt r).val
           else .slice false (sliceElems (C01.startValue (P.opt r)) ++ vs)) := by
  induction items with
  | nil =>
    intro P log _ _ _ _
    exact ⟨[], by simp [argsOf, ConvAll], by simp [argsOf, setAll]⟩
  | cons it rest ih =>
    intro P log hacc hr hty hargd
    obtain ⟨r', v, hl, hv, he, hrest⟩ := hacc
    have hd1 := optSet_decl E help P r' v log
    have hr1 : r.valid (optSet E help P r' v log).1 := hd1.symm.valid r hr
    have hopt1 : ((optSet E help P r' v log).1.opt r).decl = (P.opt r).decl := hd1.opt r
    have hty1 : ((optSet E help P r' v log).1.opt r).ty = .slice sc := by
      have : ((optSet E help P r' v log).1.opt r).decl.ty = (P.opt r).decl.ty := by rw [hopt1]
      exact this.trans hty
    have htag1 : ((optSet E help P r' v log).1.opt r).tag = (P.opt r).tag := by
      have : ((optSet E help P r' v log).1.opt r).decl.tag = (P.opt r).decl.tag := by rw [hopt1]
      exact this
    have hargd1 : ∀ it' ∈ rest, (optSet E help P r' v log).1.lookupLong ci it'.1 = some r → it'.2 ≠ none := by
      intro it' hit' hl'
      rw [hd1.lookupLong] at hl'
      exact hargd it' (by simp [hit']) hl'
    obtain ⟨vs, hfa, hval⟩ := ih _ _ hrest hr1 hty1 hargd1
    rw [argsOf_sameDecl hd1] at hfa hval
    rw [htag1] at hfa
    have hstep : setAll E help ci P log (it :: rest) =
        setAll E help ci (optSet E help P r' v log).1 (optSet E help P r' v log).2.1 rest := by
      conv => lhs; unfold setAll
      simp only [hl, hv]
    rw [hstep]
    by_cases hrr : r' = r
    · subst hrr
      -- this occurrence names r, and carries an argument
      have hfun : (P.opt r').ty.isFunc = false := by rw [hty]; rfl
      have hne := hargd it (by simp) hl
      obtain ⟨V, hV⟩ := Option.ne_none_iff_exists'.mp hne
      have hvs : ∃ a, v = some a := by
        rw [hV] at hv
        unfold occArg at hv
        simp only at hv
        split at hv
        · cases hq : (if tagGet (P.opt r').tag (B "unquote") ≠ B "false" then unquoteIfPossible V else some V) with
          | none => rw [hq] at hv; simp at hv
          | some a => rw [hq] at hv; simp at hv; exact ⟨a, hv.symm⟩
        · simp at hv
      obtain ⟨a, rfl⟩ := hvs
      obtain ⟨v', hconv, hnew⟩ := optSet_accepted_val E help P r' hr a log hfun he
      have hnewclr : ((optSet E help P r' (some a) log).1.opt r').clearRef = false := by
        have hcv : convert E (P.opt r').tag a (P.opt r').ty (C01.startValue (P.opt r')) = .ok v' := hconv
        have hbad : (P.opt r').choices = [] ∨ a ∈ (P.opt r').choices := by
          -- accepted, so the choice test passed
          obtain ⟨_, _, hch, _, _⟩ := C01.markSet_fields (P.opt r')
          by_cases hc0 : (P.opt r').choices = []
          · exact Or.inl hc0
          · right
            unfold optSet at he
            simp only at he
            cases hb : choiceRejected (P.opt r').markSet (some a) with
            | true => simp [hb] at he
            | false =>
              unfold choiceRejected at hb
              rw [hch] at hb
              simpa [hc0] using hb
        exact (C01.set_stores_conversion E help P r' hr a log v' hfun hbad hcv).2.2.2
      -- the conversion appended one element
      rw [hty] at hconv
      have hconv' : ∃ sv, convertSc E (P.opt r').tag a sc = .ok sv ∧
          v' = .slice false (sliceElems (C01.startValue (P.opt r')) ++ [sv]) := by
        simp only [convert] at hconv
        cases hcs : convertSc E (P.opt r').tag a sc with
        | error m => rw [hcs] at hconv; simp [bind, Except.bind] at hconv
        | ok sv =>
          rw [hcs] at hconv
          simp only [bind, Except.bind] at hconv
          refine ⟨sv, rfl, ?_⟩
          cases hsv : C01.startValue (P.opt r') <;> rw [hsv] at hconv <;> simp [sliceElems] at hconv ⊢ <;> exact hconv.symm
      obtain ⟨sv, hcs, hv'⟩ := hconv'
      have hargs : argsOf P ci r' (it :: rest) = a :: argsOf P ci r' rest := by
        simp [argsOf, hl, hv]
      rw [hargs]
      have hstart1 : C01.startValue ((optSet E help P r' (some a) log).1.opt r') = v' := by
        rw [startValue_of_not_clearRef _ hnewclr, hnew]
      refine ⟨sv :: vs, ⟨hcs, hfa⟩, ?_⟩
      rw [hval]
      simp only [List.cons_ne_nil, if_false]
      split
      · next hnil =>
        rw [hnil] at hfa
        cases vs with
        | nil => rw [hnew, hv']
        | cons _ _ => simp [ConvAll] at hfa
      · rw [hstart1, hv']
        simp [sliceElems]
    · -- another option's occurrence: r is not touched
      have hsame : (optSet E help P r' v log).1.opt r = P.opt r :=
        C01.set_touches_only_its_option E help P r' r v log hrr
      have hargs : argsOf P ci r (it :: rest) = argsOf P ci r rest := by
        unfold argsOf
        simp only [List.filterMap_cons, hl]
        simp [hrr]
      rw [hargs]
      rw [hsame] at hval
      exact ⟨vs, hfa, hval⟩

/-- what an accepted bare `Set` (no argument) leaves in a plain bool option -/
theorem optSet_flag_val (E : Env) (help : HelpFn) (P : Parser) (r : ORef) (hr : r.valid P) (log : List Event)
    (hty : (P.opt r).ty = .sc .bool) (hacc : (optSet E help P r none log).2.2 = none) :
    ((optSet E help P r none log).1.opt r).val = .sc (.bool true) := by
  obtain ⟨hty', htag, hch, hset, hclr⟩ := markSet_fields (P.opt r)
  have hfun : (P.opt r).ty.isFunc = false := by rw [hty]; rfl
  have hval := markSet_val (P.opt r) hfun
  unfold optSet at hacc ⊢
  simp only at hacc ⊢
  have hbad : choiceRejected (P.opt r).markSet none = false := rfl
  simp only [hbad, hty', hfun, htag, hval, Option.getD_none, Bool.false_eq_true, if_false] at hacc ⊢
  rw [hty] at hacc ⊢
  have hc : convert E (P.opt r).tag [] (.sc .bool) (startValue (P.opt r)) = .ok (.sc (.bool true)) :=
    flag_becomes_true E _ _
  simp only [hc] at hacc ⊢
  simp only [Parser.opt_modOpt_modOpt_same _ _ _ _ hr]

/-- **A flag is true iff it occurred**: after any accepted command line, a plain bool option that
    is named by at least one occurrence holds `true`; one that is named by none holds what it held. -/
theorem flag_true_iff_occurred (E : Env) (help : HelpFn) (ci : Nat) (r : ORef) (items : List Occ) :
    ∀ (P : Parser) (log : List Event), Accepted E help ci P log items → r.valid P → (P.opt r).ty = .sc .bool →
      ((setAll E help ci P log items).1.opt r).val =
        (if ∃ it ∈ items, P.lookupLong ci it.1 = some r then .sc (.bool true) else (P.opt r).val) := by
  induction items with
  | nil => intro P log _ _ _; simp [setAll]
  | cons it rest ih =>
    intro P log hacc hr hty
    obtain ⟨r', v, hl, hv, he, hrest⟩ := hacc
    have hd1 := optSet_decl E help P r' v log
    have hr1 : r.valid (optSet E help P r' v log).1 := hd1.symm.valid r hr
    have hty1 : ((optSet E help P r' v log).1.opt r).ty = .sc .bool := by
      have : ((optSet E help P r' v log).1.opt r).decl.ty = (P.opt r).decl.ty := by rw [hd1.opt r]
      exact this.trans hty
    have hih := ih _ _ hrest hr1 hty1
    have hstep : setAll E help ci P log (it :: rest) =
        setAll E help ci (optSet E help P r' v log).1 (optSet E help P r' v log).2.1 rest := by
      conv => lhs; unfold setAll
      simp only [hl, hv]
    rw [hstep, hih]
    have hlk : ∀ it' : Occ, (optSet E help P r' v log).1.lookupLong ci it'.1 = P.lookupLong ci it'.1 :=
      fun it' => hd1.lookupLong ci it'.1
    simp only [hlk]
    by_cases hrr : r' = r
    · subst hrr
      -- this occurrence names the flag: bool options take no argument, so v = none
      have hca : (P.opt r').ty.canArgument = false := by rw [hty]; rfl
      have hvn : v = none := by
        unfold occArg at hv
        cases h2 : it.2 with
        | none => rw [h2] at hv; simpa using hv.symm
        | some V => rw [h2] at hv; simp [hca] at hv
      subst hvn
      have hnew := optSet_flag_val E help P r' hr log hty he
      have hex : ∃ it' ∈ it :: rest, P.lookupLong ci it'.1 = some r' := ⟨it, by simp, hl⟩
      simp only [hex, if_true]
      split
      · rfl
      · exact hnew
    · have hsame : (optSet E help P r' v log).1.opt r = P.opt r :=
        set_touches_only_its_option E help P r' r v log hrr
      rw [hsame]
      have hiff : (∃ it' ∈ it :: rest, P.lookupLong ci it'.1 = some r) ↔ (∃ it' ∈ rest, P.lookupLong ci it'.1 = some r) := by
        constructor
        · rintro ⟨it', hm, hl'⟩
          rcases List.mem_cons.mp hm with rfl | hm
          · rw [hl] at hl'; injection hl' with e; exact absurd e hrr
          · exact ⟨it', hm, hl'⟩
        · rintro ⟨it', hm, hl'⟩; exact ⟨it', List.mem_cons_of_mem _ hm, hl'⟩
      simp only [hiff]

/-- the entries a map value holds -/
def mapElems : Val → List (SVal × SVal)
  | .map _ kvs => kvs
  | _ => []

/-- element-wise conversion of `key:value` arguments (split at the first colon) -/
def ConvPairs (E : Env) (tag : Tag) (ks vs : Sc) : List Bytes → List (SVal × SVal) → Prop
  | [], [] => True
  | a :: as, p :: ps =>
    convertSc E tag (cut 0x3A a).1 ks = .ok p.1 ∧ convertSc E tag ((cut 0x3A a).2.getD []) vs = .ok p.2 ∧
      ConvPairs E tag ks vs as ps
  | _, _ => False

theorem convert_map (E : Env) (tag : Tag) (a : Bytes) (ks vs : Sc) (cur v' : Val)
    (h : convert E tag a (.map ks vs) cur = .ok v') :
    ∃ k v, convertSc E tag (cut 0x3A a).1 ks = .ok k ∧ convertSc E tag ((cut 0x3A a).2.getD []) vs = .ok v ∧
      v' = .map false (mapInsert k v (mapElems cur)) := by
  simp only [convert, bind, Except.bind] at h
  cases hk : convertSc E tag (cut 0x3A a).1 ks with
  | error m => rw [hk] at h; simp at h
  | ok k =>
    rw [hk] at h
    simp only at h
    cases hv : convertSc E tag ((cut 0x3A a).2.getD []) vs with
    | error m => rw [hv] at h; simp at h
    | ok v =>
      rw [hv] at h
      simp only at h
      refine ⟨k, v, rfl, rfl, ?_⟩
      cases cur <;> simp [mapElems, mapInsert] at h ⊢ <;> exact h.symm

/-- **A map option holds the entries of all its occurrences, later ones replacing earlier ones of
    the same key**: after any accepted command line on which every occurrence of the option carries
    an argument, the option's entries are those it started from (none, at the first occurrence
    after a parse has begun) with the `key:value` pairs of its occurrences inserted one after the
    other in command-line order (insert-or-replace). -/
theorem map_holds_every_occurrence (E : Env) (help : HelpFn) (ci : Nat) (r : ORef) (ks vs : Sc) (items : List Occ) :
    ∀ (P : Parser) (log : List Event), Accepted E help ci P log items → r.valid P → (P.opt r).ty = .map ks vs →
      (∀ it ∈ items, P.lookupLong ci it.1 = some r → it.2 ≠ none) →
      ∃ pairs, ConvPairs E (P.opt r).tag ks vs (argsOf P ci r items) pairs ∧
        ((setAll E help ci P log items).1.opt r).val =
          (if argsOf P ci r items = [] then (P.opt r).val
           else .map false (pairs.foldl (fun acc p => mapInsert p.1 p.2 acc) (mapElems (startValue (P.opt r))))) := by
  induction items with
  | nil =>
    intro P log _ _ _ _
    exact ⟨[], by simp [argsOf, ConvPairs], by simp [argsOf, setAll]⟩
  | cons it rest ih =>
    intro P log hacc hr hty hargd
    obtain ⟨r', v, hl, hv, he, hrest⟩ := hacc
    have hd1 := optSet_decl E help P r' v log
    have hr1 : r.valid (optSet E help P r' v log).1 := hd1.symm.valid r hr
    have hopt1 : ((optSet E help P r' v log).1.opt r).decl = (P.opt r).decl := hd1.opt r
    have hty1 : ((optSet E help P r' v log).1.opt r).ty = .map ks vs := by
      have : ((optSet E help P r' v log).1.opt r).decl.ty = (P.opt r).decl.ty := by rw [hopt1]
      exact this.trans hty
    have htag1 : ((optSet E help P r' v log).1.opt r).tag = (P.opt r).tag := by
      have : ((optSet E help P r' v log).1.opt r).decl.tag = (P.opt r).decl.tag := by rw [hopt1]
      exact this
    have hargd1 : ∀ it' ∈ rest, (optSet E help P r' v log).1.lookupLong ci it'.1 = some r → it'.2 ≠ none := by
      intro it' hit' hl'
      rw [hd1.lookupLong] at hl'
      exact hargd it' (by simp [hit']) hl'
    obtain ⟨ps, hfa, hval⟩ := ih _ _ hrest hr1 hty1 hargd1
    rw [argsOf_sameDecl hd1] at hfa hval
    rw [htag1] at hfa
    have hstep : setAll E help ci P log (it :: rest) =
        setAll E help ci (optSet E help P r' v log).1 (optSet E help P r' v log).2.1 rest := by
      conv => lhs; unfold setAll
      simp only [hl, hv]
    rw [hstep]
    by_cases hrr : r' = r
    · subst hrr
      have hfun : (P.opt r').ty.isFunc = false := by rw [hty]; rfl
      have hne := hargd it (by simp) hl
      obtain ⟨V, hV⟩ := Option.ne_none_iff_exists'.mp hne
      have hvs : ∃ a, v = some a := by
        rw [hV] at hv
        unfold occArg at hv
        simp only at hv
        split at hv
        · cases hq : (if tagGet (P.opt r').tag (B "unquote") ≠ B "false" then unquoteIfPossible V else some V) with
          | none => rw [hq] at hv; simp at hv
          | some a => rw [hq] at hv; simp at hv; exact ⟨a, hv.symm⟩
        · simp at hv
      obtain ⟨a, rfl⟩ := hvs
      obtain ⟨v', hconv, hnew⟩ := optSet_accepted_val E help P r' hr a log hfun he
      have hnewclr : ((optSet E help P r' (some a) log).1.opt r').clearRef = false := by
        have hbad : (P.opt r').choices = [] ∨ a ∈ (P.opt r').choices := by
          obtain ⟨_, _, hch, _, _⟩ := markSet_fields (P.opt r')
          by_cases hc0 : (P.opt r').choices = []
          · exact Or.inl hc0
          · right
            unfold optSet at he
            simp only at he
            cases hb : choiceRejected (P.opt r').markSet (some a) with
            | true => simp [hb] at he
            | false =>
              unfold choiceRejected at hb
              rw [hch] at hb
              simpa [hc0] using hb
        exact (set_stores_conversion E help P r' hr a log v' hfun hbad hconv).2.2.2
      rw [hty] at hconv
      obtain ⟨k, vv, hk, hvv, hv'⟩ := convert_map E _ a ks vs _ v' hconv
      have hargs : argsOf P ci r' (it :: rest) = a :: argsOf P ci r' rest := by
        simp [argsOf, hl, hv]
      rw [hargs]
      have hstart1 : startValue ((optSet E help P r' (some a) log).1.opt r') = v' := by
        rw [startValue_of_not_clearRef _ hnewclr, hnew]
      refine ⟨(k, vv) :: ps, ⟨hk, hvv, hfa⟩, ?_⟩
      rw [hval]
      simp only [List.cons_ne_nil, if_false, List.foldl_cons]
      split
      · next hnil =>
        rw [hnil] at hfa
        cases ps with
        | nil => rw [hnew, hv']; rfl
        | cons _ _ => simp [ConvPairs] at hfa
      · rw [hstart1, hv']
        rfl
    · have hsame : (optSet E help P r' v log).1.opt r = P.opt r :=
        set_touches_only_its_option E help P r' r v log hrr
      have hargs : argsOf P ci r (it :: rest) = argsOf P ci r rest := by
        unfold argsOf
        simp only [List.filterMap_cons, hl]
        simp [hrr]
      rw [hargs]
      rw [hsame] at hval
      exact ⟨ps, hfa, hval⟩

/-- what a key is bound to after a sequence of insert-or-replace steps: the value of the LAST pair
    with that key, or what the key was bound to before -/
theorem lookup_foldl_mapInsert (pairs base : List (SVal × SVal)) (k : SVal) :
    (pairs.foldl (fun acc p => mapInsert p.1 p.2 acc) base).lookup k =
      match pairs.reverse.find? (fun p => p.1 == k) with
      | some p => some p.2
      | none => base.lookup k := by
  have hother : ∀ (k' v' : SVal) (l : List (SVal × SVal)), k' ≠ k → (mapInsert k' v' l).lookup k = l.lookup k := by
    intro k' v' l hne
    induction l with
    | nil => simp [mapInsert, List.lookup]; intro h; exact absurd h.symm hne
    | cons q t ih =>
      obtain ⟨qk, qv⟩ := q
      unfold mapInsert
      split
      · next hq =>
        subst hq
        have : (k == qk) = false := by simp; exact fun h => hne h.symm
        simp [List.lookup, this]
      · simp only [List.lookup]
        split <;> simp_all
  induction pairs generalizing base with
  | nil => simp
  | cons p ps ih =>
    simp only [List.foldl_cons, List.reverse_cons, List.find?_append]
    rw [ih]
    cases hf : ps.reverse.find? (fun q => q.1 == k) with
    | some q => simp
    | none =>
      simp only [Option.none_or, List.find?_cons, List.find?_nil]
      by_cases hpk : p.1 = k
      · simp [hpk, mapInsert_lookup]
      · have : (p.1 == k) = false := by simpa using hpk
        simp [this, hother p.1 p.2 base hpk]

/-! ### Callbacks over whole command lines -/


/-- the arguments with which the callback of option `r` has run, in order, according to the log -/
def cbArgs (r : ORef) (log : List Event) : List (Option SVal) :=
  log.filterMap fun e => match e with
    | .cb r' a => if r' = r then some a else none
    | _ => none

theorem cbArgs_append (r : ORef) (l1 l2 : List Event) : cbArgs r (l1 ++ l2) = cbArgs r l1 ++ cbArgs r l2 := by
  simp [cbArgs, List.filterMap_append]

/-- `Option.Set` appends to the log nothing but runs of that option's own callback -/
theorem optSet_log (E : Env) (help : HelpFn) (P : Parser) (r' : ORef) (v : Option Bytes) (log : List Event) :
    ∃ evs, (optSet E help P r' v log).2.1 = log ++ evs ∧ ∀ e ∈ evs, ∃ a, e = .cb r' a := by
  unfold optSet
  simp only
  split
  · exact ⟨[], by simp, by simp⟩
  · split
    · unfold optCall
      simp only
      split
      · split
        · exact ⟨[], by simp, by simp⟩
        · split
          · exact ⟨[], by simp, by simp⟩
          · exact ⟨[_], rfl, by intro e he; simp at he; exact ⟨_, he⟩⟩
      · split
        · exact ⟨[], by simp, by simp⟩
        · exact ⟨[_], rfl, by intro e he; simp at he; exact ⟨_, he⟩⟩
    · split
      · exact ⟨[], by simp, by simp⟩
      · exact ⟨[], by simp, by simp⟩

theorem optSet_cbArgs_other (E : Env) (help : HelpFn) (P : Parser) (r' r : ORef) (v : Option Bytes) (log : List Event)
    (h : r' ≠ r) : cbArgs r (optSet E help P r' v log).2.1 = cbArgs r log := by
  obtain ⟨evs, he, hall⟩ := optSet_log E help P r' v log
  rw [he, cbArgs_append]
  have : cbArgs r evs = [] := by
    unfold cbArgs
    rw [List.filterMap_eq_nil_iff]
    intro e hmem
    obtain ⟨a, rfl⟩ := hall e hmem
    simp [h]
  rw [this]; simp

theorem markSet_cb (o : Opt) : o.markSet.cb = o.cb := by
  unfold Opt.markSet Opt.empty
  simp only
  split <;> (try split) <;> rfl

/-- an accepted occurrence of a callback option with an argument runs the callback exactly once,
    with the converted argument -/
theorem optSet_cbArgs_self (E : Env) (help : HelpFn) (P : Parser) (r : ORef) (hr : r.valid P) (a : Bytes) (log : List Event)
    (s : Sc) (e : Bool) (hty : (P.opt r).ty = .func (some s) e) (hcb : (P.opt r).cb ≠ 1)
    (hacc : (optSet E help P r (some a) log).2.2 = none) :
    ∃ sv, convertSc E (P.opt r).tag a s = .ok sv ∧
      cbArgs r (optSet E help P r (some a) log).2.1 = cbArgs r log ++ [some sv] := by
  obtain ⟨hty', htag, hch, _, _⟩ := markSet_fields (P.opt r)
  have hcb' := markSet_cb (P.opt r)
  unfold optSet at hacc ⊢
  simp only at hacc ⊢
  cases hrej : choiceRejected (P.opt r).markSet (some a) with
  | true => simp [hrej] at hacc
  | false =>
    simp only [hrej, Bool.false_eq_true, if_false] at hacc ⊢
    have hfun : (P.opt r).markSet.ty.isFunc = true := by rw [hty', hty]; rfl
    simp only [hfun, if_true] at hacc ⊢
    have hopt1 : (P.modOpt r fun _ => (P.opt r).markSet).opt r = (P.opt r).markSet := Parser.opt_modOpt_same P r _ hr
    unfold optCall at hacc ⊢
    simp only [hopt1, hty', hty, htag, hcb'] at hacc ⊢
    cases hc : convertSc E (P.opt r).tag a s with
    | error m => simp [hc] at hacc
    | ok sv =>
      simp only [hc, hcb, if_false] at hacc ⊢
      exact ⟨sv, rfl, by rw [cbArgs_append]; simp [cbArgs]⟩

/-- **A callback has run once per occurrence, in order, with the converted argument**: after any
    accepted command line of any length, the runs of the callback of option `r` recorded in the log
    are those recorded before, followed by one run per occurrence of `r`, in the order the
    occurrences were typed, each with the conversion of that occurrence's argument; occurrences of
    other options (callbacks or not) in between add none. -/
theorem callback_runs_once_per_occurrence_in_order (E : Env) (help : HelpFn) (ci : Nat) (r : ORef) (s : Sc) (e : Bool)
    (items : List Occ) :
    ∀ (P : Parser) (log : List Event), Accepted E help ci P log items → r.valid P →
      (P.opt r).ty = .func (some s) e → (P.opt r).cb ≠ 1 →
      (∀ it ∈ items, P.lookupLong ci it.1 = some r → it.2 ≠ none) →
      ∃ vs, ConvAll E (P.opt r).tag s (argsOf P ci r items) vs ∧
        cbArgs r (setAll E help ci P log items).2 = cbArgs r log ++ vs.map some := by
  induction items with
  | nil =>
    intro P log _ _ _ _ _
    exact ⟨[], by simp [argsOf, ConvAll], by simp [setAll]⟩
  | cons it rest ih =>
    intro P log hacc hr hty hcb hargd
    obtain ⟨r', v, hl, hv, he, hrest⟩ := hacc
    have hd1 := optSet_decl E help P r' v log
    have hr1 : r.valid (optSet E help P r' v log).1 := hd1.symm.valid r hr
    have hopt1 : ((optSet E help P r' v log).1.opt r).decl = (P.opt r).decl := hd1.opt r
    have hty1 : ((optSet E help P r' v log).1.opt r).ty = .func (some s) e := by
      have : ((optSet E help P r' v log).1.opt r).decl.ty = (P.opt r).decl.ty := by rw [hopt1]
      exact this.trans hty
    have htag1 : ((optSet E help P r' v log).1.opt r).tag = (P.opt r).tag := by
      have : ((optSet E help P r' v log).1.opt r).decl.tag = (P.opt r).decl.tag := by rw [hopt1]
      exact this
    have hcb1 : ((optSet E help P r' v log).1.opt r).cb ≠ 1 := by
      have : ((optSet E help P r' v log).1.opt r).decl.cb = (P.opt r).decl.cb := by rw [hopt1]
      have h2 : ((optSet E help P r' v log).1.opt r).cb = (P.opt r).cb := this
      rw [h2]; exact hcb
    have hargd1 : ∀ it' ∈ rest, (optSet E help P r' v log).1.lookupLong ci it'.1 = some r → it'.2 ≠ none := by
      intro it' hit' hl'
      rw [hd1.lookupLong] at hl'
      exact hargd it' (by simp [hit']) hl'
    obtain ⟨vs, hfa, hlog⟩ := ih _ _ hrest hr1 hty1 hcb1 hargd1
    rw [argsOf_sameDecl hd1] at hfa
    rw [htag1] at hfa
    have hstep : setAll E help ci P log (it :: rest) =
        setAll E help ci (optSet E help P r' v log).1 (optSet E help P r' v log).2.1 rest := by
      conv => lhs; unfold setAll
      simp only [hl, hv]
    rw [hstep, hlog]
    by_cases hrr : r' = r
    · subst hrr
      have hne := hargd it (by simp) hl
      obtain ⟨V, hV⟩ := Option.ne_none_iff_exists'.mp hne
      have hvs : ∃ a, v = some a := by
        rw [hV] at hv
        unfold occArg at hv
        simp only at hv
        split at hv
        · cases hq : (if tagGet (P.opt r').tag (B "unquote") ≠ B "false" then unquoteIfPossible V else some V) with
          | none => rw [hq] at hv; simp at hv
          | some a => rw [hq] at hv; simp at hv; exact ⟨a, hv.symm⟩
        · simp at hv
      obtain ⟨a, rfl⟩ := hvs
      obtain ⟨sv, hcs, hself⟩ := optSet_cbArgs_self E help P r' hr a log s e hty hcb he
      have hargs : argsOf P ci r' (it :: rest) = a :: argsOf P ci r' rest := by
        simp [argsOf, hl, hv]
      rw [hargs, hself]
      exact ⟨sv :: vs, ⟨hcs, hfa⟩, by simp⟩
    · have hargs : argsOf P ci r (it :: rest) = argsOf P ci r rest := by
        unfold argsOf
        simp only [List.filterMap_cons, hl]
        simp [hrr]
      rw [hargs, optSet_cbArgs_other E help P r' r v log hrr]
      exact ⟨vs, hfa, rfl⟩


/-! ### Non-vacuity -/

/-- a parser with one string option `--n` and one string-slice option `--l` -/
def exP : Parser :=
  { cmds := [{ groups := [{ opts := [{ long := B "n", ty := .sc .str }, { long := B "l", ty := .slice .str, clearRef := true }] }] }] }

def exHelp : HelpFn := fun _ => []

example : exP.lookupLong 0 (B "n") = some ⟨0, 0, 0⟩ := by decide
example : exP.lookupLong 0 (B "l") = some ⟨0, 0, 1⟩ := by decide

/-- non-vacuity of the whole-command-line theorems: the command line `--n=a --l=x --n=b` is
    accepted by this parser (every hypothesis of `scalar_holds_last_occurrence` is met with
    pre = [--n=a, --l=x], the occurrence --n=b, post = []) -/
example : Accepted default exHelp 0 exP [] [(B "n", some (B "a")), (B "l", some (B "x")), (B "n", some (B "b"))] := by
  refine ⟨⟨0,0,0⟩, some (B "a"), by decide, rfl, rfl, ?_⟩
  refine ⟨⟨0,0,1⟩, some (B "x"), ?_, rfl, rfl, ?_⟩
  · rw [(optSet_decl ..).lookupLong]; decide
  refine ⟨⟨0,0,0⟩, some (B "b"), ?_, rfl, rfl, trivial⟩
  rw [((optSet_decl ..).trans (optSet_decl ..)).lookupLong]; decide

example : TypableLong (B "n") := ⟨by decide, by decide, by decide⟩
end GoFlags.C01
