/-
  C19, static facts: the tag keys the library's scanners consult are exactly the ones
  `Scan.lean` reads.  A key the library starts to read (a new attribute) or stops reading is a
  part of the declaration language the model — and so every theorem on faithful reading — does
  not speak about.
-/
import GoFlags.Generated.Facts

namespace GoFlags.C19
open GoFlags

/-- the keys read by the three scanners (option fields, nested groups, commands and positional
    arguments) and, later, from the stored tag: base (conversion), unquote (parseOption), no-ini /
    ini-name / _read-ini-name (INI) — and no others anywhere -/
theorem facts_all_tag_keys :
    Generated.tagKeys =
      ["_read-ini-name", "alias", "base", "choice", "command", "default", "default-mask", "description", "env",
       "env-delim", "env-namespace", "group", "hidden", "ini-name", "long", "long-description", "namespace",
       "no-flag", "no-ini", "optional", "optional-value", "positional-arg-name", "positional-args", "required",
       "short", "subcommands-optional", "unquote", "value-name"] := by decide

end GoFlags.C19
