/-
  C19, translation tie: `isStringFalsy` (group.go), TRANSLATED from /repo's source on every check
  (tools/golean -> Generated/Trans.lean), is the model's function.
-/
import GoFlags.Generated.Trans
import GoFlags.Scan

namespace GoFlags.C19
open GoFlags Bytes Generated

theorem trans_isStringFalsy (s : Bytes) : go_isStringFalsy s = some (isStringFalsy s) := by
  simp [go_isStringFalsy, isStringFalsy]

end GoFlags.C19
