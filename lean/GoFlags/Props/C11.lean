/-
  C11 — Values are converted exactly or rejected.

  The integer theorems speak about unbounded `Nat`/`Int`, so "never wrapped, truncated or
  clamped" is literal: the stored number *is* the number the text denotes.
-/
import GoFlags.Value

namespace GoFlags.C11
open GoFlags Bytes

/-- every byte is a digit of the base (letters in either case for digits ≥ 10) -/
def allDigits (base : Nat) (s : Bytes) : Prop := ∀ c ∈ s, ∃ d, digitVal c = some d ∧ d < base

/-- the number a digit string denotes, most significant digit first (Horner), starting from `acc` -/
def horner (base : Nat) : Nat → Bytes → Nat
  | acc, [] => acc
  | acc, c :: s => horner base (acc * base + (digitVal c).getD 0) s

theorem horner_ge (base : Nat) (hb : 1 ≤ base) (acc : Nat) (s : Bytes) : acc ≤ horner base acc s := by
  induction s generalizing acc with
  | nil => simp [horner]
  | cons c s ih =>
    simp only [horner]
    have h1 : acc ≤ acc * base := Nat.le_mul_of_pos_right acc hb
    exact Nat.le_trans (by omega) (ih _)

/-- The digit loop (fixed base, no underscores): it succeeds exactly when every byte is a digit of
    the base and the denoted number fits, and then returns that number. -/
theorem uintLoop_spec (base M : Nat) (hb : 1 ≤ base) (s : Bytes) (acc n : Nat) (us : Bool) (hacc : acc ≤ M) :
    uintLoop base false M s acc false = .ok (n, us) ↔
      allDigits base s ∧ horner base acc s = n ∧ n ≤ M ∧ us = false := by
  induction s generalizing acc with
  | nil =>
    simp only [uintLoop, horner, allDigits]
    constructor
    · intro h; injection h with h; injection h with h1 h2
      exact ⟨by simp, h1, by omega, h2.symm⟩
    · rintro ⟨_, h1, _, h2⟩; rw [h1, h2]
  | cons c s ih =>
    unfold uintLoop
    simp only [Bool.and_false, Bool.false_eq_true, if_false]
    cases hd : digitVal c with
    | none =>
      simp only
      constructor
      · intro h; cases h
      · rintro ⟨had, _⟩
        obtain ⟨d, hd', _⟩ := had c (by simp)
        rw [hd] at hd'; cases hd'
    | some d =>
      simp only
      by_cases hdb : d ≥ base
      · simp only [hdb, if_true]
        constructor
        · intro h; cases h
        · rintro ⟨had, _⟩
          obtain ⟨d', hd', hlt⟩ := had c (by simp)
          rw [hd] at hd'; injection hd' with hd'; omega
      · simp only [hdb, if_false]
        by_cases hov : acc * base + d > M
        · simp only [hov, if_true]
          constructor
          · intro h; cases h
          · rintro ⟨_, hh, hle, _⟩
            simp only [horner, hd, Option.getD_some] at hh
            have := horner_ge base hb (acc * base + d) s
            omega
        · simp only [hov, if_false]
          rw [ih (acc * base + d) (by omega)]
          simp only [horner, hd, Option.getD_some, allDigits]
          constructor
          · rintro ⟨h1, h2, h3, h4⟩
            refine ⟨?_, h2, h3, h4⟩
            intro c' hc'
            rcases List.mem_cons.mp hc' with rfl | hc'
            · exact ⟨d, hd, by omega⟩
            · exact h1 c' hc'
          · rintro ⟨h1, h2, h3, h4⟩
            exact ⟨fun c' hc' => h1 c' (List.mem_cons_of_mem _ hc'), h2, h3, h4⟩

/-- **Unsigned integers.** For a base 2..36 the text is accepted iff it is a non-empty string of
    digits of that base whose value fits in `bits` bits; the result is exactly that value. -/
theorem parseUint_spec (s : Bytes) (base : Nat) (bits n : Nat) (hb : 2 ≤ base ∧ base ≤ 36) :
    parseUint s (base : Int) bits = .ok n ↔ s ≠ [] ∧ allDigits base s ∧ horner base 0 s = n ∧ n < 2 ^ bits := by
  unfold parseUint
  by_cases hs : s = []
  · simp [hs]
  · have hb' : (2 : Int) ≤ (base : Int) ∧ (base : Int) ≤ 36 := by omega
    simp only [hs, if_false, hb'.1, hb'.2, decide_true, Bool.and_self, if_true, Int.toNat_natCast]
    have hpow : 1 ≤ 2 ^ bits := Nat.one_le_two_pow
    constructor
    · intro h
      cases hl : uintLoop base false (2 ^ bits - 1) s 0 false with
      | error e => rw [hl] at h; cases h
      | ok p =>
        obtain ⟨m, us⟩ := p
        rw [hl] at h
        have hsp := (uintLoop_spec base (2 ^ bits - 1) (by omega) s 0 m us (by omega)).mp hl
        obtain ⟨h1, h2, h3, h4⟩ := hsp
        subst h4
        simp only [Bool.false_and, Bool.false_eq_true, if_false] at h
        injection h with h
        subst h
        exact ⟨by simpa using hs, h1, h2, by omega⟩
    · rintro ⟨_, h1, h2, h3⟩
      have := (uintLoop_spec base (2 ^ bits - 1) (by omega) s 0 n false (by omega)).mpr ⟨h1, h2, by omega, rfl⟩
      rw [this]; simp

/-- **Signed integers.** Accepted iff an optional sign is followed by a non-empty digit string of
    the base and the denoted integer lies in `[-2^(bits-1), 2^(bits-1))`; the result is exactly
    the denoted integer. -/
theorem parseInt_spec (s : Bytes) (base : Nat) (bits : Nat) (v : Int) (hb : 2 ≤ base ∧ base ≤ 36) (hbits : 1 ≤ bits) :
    parseInt s (base : Int) bits = .ok v ↔
      (splitSign s).2 ≠ [] ∧ allDigits base (splitSign s).2 ∧
      v = (if (splitSign s).1 then -(horner base 0 (splitSign s).2 : Int) else (horner base 0 (splitSign s).2 : Int)) ∧
      -(2 ^ (bits - 1) : Int) ≤ v ∧ v < 2 ^ (bits - 1) := by
  have hpow : (2 : Nat) ^ bits = 2 * 2 ^ (bits - 1) := by
    cases bits with
    | zero => omega
    | succ k => simp [Nat.pow_succ, Nat.mul_comm]
  have hcast : ((2 ^ (bits - 1) : Nat) : Int) = (2 : Int) ^ (bits - 1) := by norm_cast
  unfold parseInt
  by_cases hs : s = []
  · subst hs; simp [splitSign]
  · simp only [hs, if_false]
    generalize hsp : splitSign s = sp
    obtain ⟨neg, body⟩ := sp
    simp only
    cases hp : parseUint body (base : Int) bits with
    | error e =>
      simp only
      constructor
      · intro h; cases h
      · rintro ⟨h1, h2, h3, h4, h5⟩
        have : parseUint body (base : Int) bits = .ok (horner base 0 body) := by
          apply (parseUint_spec body base bits _ hb).mpr
          refine ⟨h1, h2, rfl, ?_⟩
          cases neg <;> simp at h3 <;> omega
        rw [hp] at this; cases this
    | ok un =>
      obtain ⟨h1, h2, h3, h4⟩ := (parseUint_spec body base bits un hb).mp hp
      simp only
      cases neg with
      | true =>
        simp only [Bool.not_true, Bool.false_and, Bool.false_eq_true, if_false, Bool.true_and, decide_eq_true_eq, if_true]
        by_cases hgt : un > 2 ^ (bits - 1)
        · simp only [hgt, if_true]
          constructor
          · intro h; cases h
          · rintro ⟨_, _, hv, hlo, _⟩; rw [h3] at hv; omega
        · simp only [hgt, if_false]
          constructor
          · intro h; injection h with h
            refine ⟨h1, h2, by rw [h3]; exact h.symm, ?_, ?_⟩ <;> omega
          · rintro ⟨_, _, hv, _, _⟩; rw [h3] at hv; rw [hv]
      | false =>
        simp only [Bool.not_false, Bool.true_and, decide_eq_true_eq, Bool.false_and, Bool.false_eq_true, if_false]
        by_cases hge : un ≥ 2 ^ (bits - 1)
        · simp only [hge, if_true]
          constructor
          · intro h; cases h
          · rintro ⟨_, _, hv, _, hhi⟩; rw [h3] at hv; omega
        · simp only [hge, if_false]
          constructor
          · intro h; injection h with h
            refine ⟨h1, h2, by rw [h3]; exact h.symm, ?_, ?_⟩ <;> omega
          · rintro ⟨_, _, hv, _, _⟩; rw [h3] at hv; rw [hv]

/-- the integer kinds convert with their own bit size (int/uint are 64 bits here) and the
    declared base -/
theorem int_kind_uses_its_bits (E : Env) (tag : List (Bytes × Bytes)) (val : Bytes) (bits : Nat) (plat : Bool) (base : Int)
    (hbase : getBase E tag = .ok base) :
    convertSc E tag val (.int bits plat) =
      match parseInt val base bits with
      | .ok v => .ok (.int v)
      | .error e => .error (numErrorText E (B "ParseInt") val e) := by
  simp [convertSc, hbase]; rfl

theorem uint_kind_uses_its_bits (E : Env) (tag : List (Bytes × Bytes)) (val : Bytes) (bits : Nat) (plat : Bool) (base : Int)
    (hbase : getBase E tag = .ok base) :
    convertSc E tag val (.uint bits plat) =
      match parseUint val base bits with
      | .ok v => .ok (.uint v)
      | .error e => .error (numErrorText E (B "ParseUint") val e) := by
  simp [convertSc, hbase]; rfl

/-- booleans: exactly the twelve `strconv.ParseBool` spellings, plus the empty string (true) -/
theorem bool_spellings (E : Env) (tag : List (Bytes × Bytes)) (val : Bytes) (b : Bool) :
    convertSc E tag val .bool = .ok (.bool b) ↔
      (val = [] ∧ b = true) ∨ (val ≠ [] ∧ parseBool val = some b) := by
  unfold convertSc
  by_cases h : val = []
  · simp [h]
  · simp only [h, if_false]
    cases hp : parseBool val <;> simp [h]

/-- strings are stored verbatim -/
theorem string_verbatim (E : Env) (tag : List (Bytes × Bytes)) (val : Bytes) : convertSc E tag val .str = .ok (.str val) := rfl

/-- a map value is split at the first ':' only: the key is what precedes it, the value
    everything after it (further ':' included); without ':' the value text is empty -/
theorem map_splits_at_first_colon (k v : Bytes) (h : 0x3A ∉ k) : cut 0x3A (k ++ 0x3A :: v) = (k, some v) := by
  induction k with
  | nil => simp [cut]
  | cons a t ih =>
    have ha : a ≠ 0x3A := by intro e; apply h; simp [e]
    have ht : 0x3A ∉ t := by intro e; apply h; simp [e]
    have := ih ht
    simp [cut, ha, this]

theorem map_without_colon (k : Bytes) (h : 0x3A ∉ k) : cut 0x3A k = (k, none) := by
  induction k with
  | nil => simp [cut]
  | cons a t ih =>
    have ha : a ≠ 0x3A := by intro e; apply h; simp [e]
    have ht : 0x3A ∉ t := by intro e; apply h; simp [e]
    simp [cut, ha, ih ht]

/-- a failed conversion leaves a slice or map as it was -/
theorem failed_conversion_keeps_slice (t : Ty) (cur : Val) (h : ∀ s, t ≠ .ptr s) : convertFailState t cur = cur := by
  unfold convertFailState
  split
  · next s => exact absurd rfl (h s)
  · rfl

/-! Non-vacuity -/
example : parseInt [0x2D, 0x31, 0x32, 0x38] 10 8 = .ok (-128) := by rfl
example : parseInt [0x31, 0x32, 0x38] 10 8 = .error .range := by rfl
example : parseUint [0x66, 0x46] 16 8 = .ok 255 := by rfl


/-! ### Formatting and parsing are inverse (every base, every size) -/


theorem digitVal_digitChar (d : Nat) (h : d < 36) : digitVal (digitChar d) = some d := by
  unfold digitChar digitVal lower
  by_cases h1 : d < 10
  · have a : (decide (0x30 ≤ 0x30 + d) && decide (0x30 + d ≤ 0x39)) = true := by simp; omega
    simp only [h1, if_true, a]; congr 1; omega
  · simp only [h1, if_false]
    have a : (decide (0x30 ≤ 0x61 + (d - 10)) && decide (0x61 + (d - 10) ≤ 0x39)) = false := by simp; omega
    have b : (decide (0x41 ≤ 0x61 + (d - 10)) && decide (0x61 + (d - 10) ≤ 0x5A)) = false := by simp; omega
    simp only [a, b, Bool.false_eq_true, if_false]
    have c : (decide (0x61 ≤ 0x61 + (d - 10)) && decide (0x61 + (d - 10) ≤ 0x7A)) = true := by simp; omega
    simp only [c, if_true]; congr 1; omega

theorem horner_append (base acc : Nat) (s : Bytes) (c : Nat) :
    horner base acc (s ++ [c]) = horner base acc s * base + (digitVal c).getD 0 := by
  induction s generalizing acc with
  | nil => simp [horner]
  | cons x xs ih => simp only [List.cons_append, horner]; exact ih _

/-- the digits `FormatUint` writes are digits of the base, and they denote the number -/
theorem natToBase_spec (base : Nat) (hb : 2 ≤ base ∧ base ≤ 36) (n : Nat) :
    natToBase base n ≠ [] ∧ allDigits base (natToBase base n) ∧ horner base 0 (natToBase base n) = n := by
  induction n using Nat.strongRecOn with
  | _ n ih =>
    rw [natToBase]
    have hnb : ¬ base < 2 := by omega
    simp only [hnb, dite_false]
    by_cases hlt : n < base
    · simp only [hlt, dite_true]
      refine ⟨by simp, ?_, ?_⟩
      · intro c hc; simp at hc; subst hc
        exact ⟨n, digitVal_digitChar n (by omega), hlt⟩
      · simp [horner, digitVal_digitChar n (by omega)]
    · simp only [hlt, dite_false]
      have hdiv : n / base < n := Nat.div_lt_self (by omega) (by omega)
      obtain ⟨h1, h2, h3⟩ := ih (n / base) hdiv
      have hmod : n % base < base := Nat.mod_lt _ (by omega)
      refine ⟨by simp, ?_, ?_⟩
      · intro c hc
        rcases List.mem_append.mp hc with hc | hc
        · exact h2 c hc
        · simp at hc; subst hc
          exact ⟨n % base, digitVal_digitChar _ (by omega), hmod⟩
      · rw [horner_append, h3, digitVal_digitChar _ (by omega)]
        simp only [Option.getD_some]
        exact Nat.div_add_mod' n base

/-- **Formatting then parsing an unsigned number gives it back**, in every base 2..36 and for
    every bit size the number fits in. -/
theorem parseUint_format (base bits n : Nat) (hb : 2 ≤ base ∧ base ≤ 36) (hn : n < 2 ^ bits) :
    parseUint (natToBase base n) (base : Int) bits = .ok n := by
  obtain ⟨h1, h2, h3⟩ := natToBase_spec base hb n
  exact (parseUint_spec _ base bits n hb).mpr ⟨h1, h2, h3, hn⟩

/-- **Formatting then parsing a signed number gives it back**, in every base 2..36 and for every
    bit size whose range contains it. -/
theorem parseInt_format (base bits : Nat) (v : Int) (hb : 2 ≤ base ∧ base ≤ 36) (hbits : 1 ≤ bits)
    (hlo : -(2 ^ (bits - 1) : Int) ≤ v) (hhi : v < 2 ^ (bits - 1)) :
    parseInt (intToBase base v) (base : Int) bits = .ok v := by
  obtain ⟨h1, h2, h3⟩ := natToBase_spec base hb v.natAbs
  rw [parseInt_spec _ base bits v hb hbits]
  unfold intToBase
  by_cases hneg : v < 0
  · simp only [hneg, if_true, splitSign]
    refine ⟨h1, h2, ?_, hlo, hhi⟩
    simp only [if_true, h3]
    omega
  · simp only [hneg, if_false]
    -- the first digit is not a sign
    have hsplit : splitSign (natToBase base v.natAbs) = (false, natToBase base v.natAbs) := by
      cases hq : natToBase base v.natAbs with
      | nil => exact absurd hq h1
      | cons c t =>
        have hc := h2 c (by rw [hq]; simp)
        obtain ⟨d, hd, _⟩ := hc
        unfold splitSign
        split
        · next h => simp at h; rw [h.1] at hd; simp [digitVal, lower] at hd
        · next h => simp at h; rw [h.1] at hd; simp [digitVal, lower] at hd
        · rfl
    rw [hsplit]
    refine ⟨h1, h2, ?_, hlo, hhi⟩
    simp only [Bool.false_eq_true, if_false, h3]
    omega
end GoFlags.C11
