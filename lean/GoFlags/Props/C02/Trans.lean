/-
  C02, translation tie: the token classification and name / argument splitting functions of
  optstyle_other.go, TRANSLATED from /repo's source on every check (tools/golean ->
  Generated/Trans.lean), never panic and compute exactly what the model's functions compute.
-/
import GoFlags.Generated.Trans
import GoFlags.Optstyle
import GoFlags.Lemmas.GoSem

namespace GoFlags.C02
open GoFlags Bytes Generated

theorem trans_argumentStartsOption (arg : Bytes) :
    go_argumentStartsOption arg = some (argumentStartsOption arg) := by
  cases arg with
  | nil => simp [go_argumentStartsOption, Go.len, argumentStartsOption]
  | cons a r =>
    by_cases h : a = 45 <;> simp [go_argumentStartsOption, Go.len, Go.idx, argumentStartsOption, h]

theorem trans_argumentIsOption (arg : Bytes) :
    go_argumentIsOption arg = some (argumentIsOption arg) := by
  match arg with
  | [] => simp [go_argumentIsOption, Go.len, argumentIsOption]
  | [a] => by_cases h : a = 45 <;> simp [go_argumentIsOption, Go.len, Go.idx, argumentIsOption, h]
  | [a, b] =>
    by_cases h : a = 45 <;> by_cases h2 : b = 45 <;>
      simp [go_argumentIsOption, Go.len, Go.idx, argumentIsOption, h, h2]
  | a :: b :: c :: r =>
    by_cases h : a = 45 <;> by_cases h2 : b = 45 <;> by_cases h3 : c = 45 <;>
      simp [go_argumentIsOption, Go.len, Go.idx, argumentIsOption, h, h2, h3] <;> (try (split <;> first | omega | simp_all))

theorem trans_stripOptionPrefix (optname : Bytes) :
    go_stripOptionPrefix optname = some (stripOptionPrefix optname) := by
  match optname with
  | [] => simp [go_stripOptionPrefix, Go.stringsHasPrefix, hasPrefix, stripOptionPrefix]
  | [a] => by_cases h : a = 45 <;> simp [go_stripOptionPrefix, Go.stringsHasPrefix, hasPrefix, stripOptionPrefix, Go.sliceFrom, Go.len, h]
  | a :: b :: r =>
    by_cases h : a = 45 <;> by_cases h2 : b = 45 <;>
      simp [go_stripOptionPrefix, Go.stringsHasPrefix, hasPrefix, stripOptionPrefix, Go.sliceFrom, Go.len, h, h2] <;> (try (first | omega | (split <;> first | omega | simp_all)))

theorem trans_splitOption (pfx option : Bytes) (islong : Bool) :
    go_splitOption pfx option islong = some (splitOption option islong) := by
  unfold go_splitOption splitOption
  simp only [Go.stringsIndex_single]
  cases h : indexByte 0x3D option with
  | none => simp
  | some p =>
    have hp := Go.indexByte_lt _ _ _ h
    have h1 : (0:Int) ≤ ↑p + 1 ∧ (↑p + 1 : Int) ≤ ↑(List.length option) := by omega
    have h2 : p ≤ List.length option := by omega
    have h3 : p = option.decodeRune.snd → 0 < p := by
      intro e; rw [e]; apply decodeRune_width_pos; intro hn; subst hn; simp [indexByte] at h
    cases islong <;> simp [Go.sliceFrom, Go.sliceTo, Go.len, h1, h2]
    by_cases e : p = option.decodeRune.snd
    · have := h3 e
      simp [← e, this]
    · have : ¬ ((p:Int) = ↑option.decodeRune.snd) := by omega
      simp [e, this]

end GoFlags.C02
