/-
  C02, static facts: the option-style constants `Optstyle.lean` has as byte literals, and the
  option style the build selects.
-/
import GoFlags.Generated.Facts
import GoFlags.Optstyle

namespace GoFlags.C02
open GoFlags

theorem facts_option_style :
    Generated.intConsts.lookup "defaultShortOptDelimiter" = some 0x2D ∧
    Generated.stringConsts.lookup "defaultLongOptDelimiter" = some "--" ∧
    Generated.intConsts.lookup "defaultNameArgDelimiter" = some 0x3D ∧
    "optstyle_other.go" ∈ Generated.sourceFiles := by decide

/-- the model's prefix stripping uses those delimiters -/
theorem facts_model_uses_the_delimiters :
    stripOptionPrefix [0x2D, 0x2D, 0x61, 0x62] = ([0x2D, 0x2D], [0x61, 0x62], true) ∧
    stripOptionPrefix [0x2D, 0x61, 0x62] = ([0x2D], [0x61, 0x62], false) ∧
    (splitOption [0x61, 0x3D, 0x62] true).2.1 = [0x3D] := by decide

end GoFlags.C02
