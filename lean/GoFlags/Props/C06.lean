/-
  C06 — Required options and argument counts are enforced.
-/
import GoFlags.Lemmas.ParseLog
import GoFlags.Props.C09

namespace GoFlags.C06
open GoFlags Bytes

/-- the options the required check demands: declared on the parser or on a command of the
    active chain, marked required, and not set (by any source: command line in any spelling,
    INI, environment, default tag) -/
def missing (s : PS) : List ORef :=
  (s.P.activeChain.flatMap fun ci => (s.P.cmd ci).orefs ci).filter fun r =>
    !(s.P.opt r).isSet && (s.P.opt r).required

/-- the text naming an unmet positional constraint, if the argument has one -/
def unmetText (s : PS) (p : Nat × Nat) : Option Bytes :=
  let a := s.P.argAt p
  let argRequired := (!a.isRemaining && (s.P.cmd s.cmd).argsRequired) || a.required != -1 || a.requiredMax != -1
  if !argRequired then none
  else if a.isRemaining then
    let len : Int := match a.val with | .slice _ xs => xs.length | _ => 0
    if len < a.required then
      some (B "`" ++ a.name ++ B " (at least " ++ intToDec a.required ++ B " " ++
        (if a.required > 1 then B "arguments, but got only " ++ intToDec len else B "argument") ++ B ")`")
    else if a.requiredMax != -1 && len > a.requiredMax then
      if a.requiredMax = 0 then some (B "`" ++ a.name ++ B " (zero arguments)`")
      else some (B "`" ++ a.name ++ B " (at most " ++ intToDec a.requiredMax ++ B " " ++
        (if a.requiredMax > 1 then B "arguments, but got " ++ intToDec len else B "argument") ++ B ")`")
    else none
  else some (B "`" ++ a.name ++ B "`")

def unmet (s : PS) : List Bytes := s.positional.filterMap (unmetText s)

theorem checkRequired_eq (s : PS) :
    checkRequired s =
      if missing s = [] then
        match unmet s with
        | [] => s
        | [one] => { s with err := some (.flags .required (B "the required argument " ++ one ++ B " was not provided")) }
        | many => { s with err := some (.flags .required (B "the required arguments " ++ andList many ++ B " were not provided")) }
      else
        match sortStrings ((missing s).map fun r => B "`" ++ s.P.optString r ++ B "'") with
        | [one] => { s with err := some (.flags .required (B "the required flag " ++ one ++ B " was not specified")) }
        | many => { s with err := some (.flags .required (B "the required flags " ++ andList many ++ B " were not specified")) } := by
  unfold checkRequired missing unmet unmetText
  rfl

/-- **The check passes iff nothing is missing and every count constraint is met.** -/
theorem passes_iff (s : PS) (h0 : s.err = none) :
    (checkRequired s).err = none ↔ missing s = [] ∧ unmet s = [] := by
  rw [checkRequired_eq]
  constructor
  · intro h
    split at h
    · next hm =>
      refine ⟨hm, ?_⟩
      split at h
      · assumption
      · simp at h
      · simp at h
    · split at h <;> simp at h
  · rintro ⟨hm, hu⟩
    simp [hm, hu, h0]

/-- otherwise the error is ErrRequired -/
theorem fails_with_ErrRequired (s : PS) (h0 : s.err = none) (h : ¬(missing s = [] ∧ unmet s = [])) :
    ∃ m, (checkRequired s).err = some (.flags .required m) := by
  rw [checkRequired_eq]
  split
  · next hm =>
    split
    · next hu => exact absurd ⟨hm, hu⟩ h
    · exact ⟨_, rfl⟩
    · exact ⟨_, rfl⟩
  · split <;> exact ⟨_, rfl⟩

theorem insertSorted_perm (x : Bytes) (l : List Bytes) : (insertSorted x l).Perm (x :: l) := by
  induction l with
  | nil => simp [insertSorted]
  | cons y ys ih =>
    unfold insertSorted
    split
    · exact List.Perm.refl _
    · exact (List.Perm.cons y ih).trans (List.Perm.swap x y ys)

/-- sorting only reorders -/
theorem sortStrings_perm (l : List Bytes) : (sortStrings l).Perm l := by
  induction l with
  | nil => simp [sortStrings]
  | cons x xs ih =>
    unfold sortStrings
    simp only [List.foldr_cons]
    exact (insertSorted_perm x _).trans (List.Perm.cons x ih)

/-- **The message names exactly the missing options**: it is built from the display names of
    the missing options — each once, no other — in sorted order. -/
theorem message_names_exactly_missing (s : PS) (hm : missing s ≠ []) :
    ∃ names, names.Perm ((missing s).map fun r => B "`" ++ s.P.optString r ++ B "'") ∧
      ((checkRequired s).err = some (.flags .required (B "the required flag " ++ names.headD [] ++ B " was not specified")) ∧ names.length = 1
       ∨ (checkRequired s).err = some (.flags .required (B "the required flags " ++ andList names ++ B " were not specified"))) := by
  refine ⟨sortStrings ((missing s).map fun r => B "`" ++ s.P.optString r ++ B "'"), sortStrings_perm _, ?_⟩
  rw [checkRequired_eq]
  simp only [hm, if_false]
  split
  · next one h => left; rw [h]; exact ⟨rfl, rfl⟩
  · right; rfl

/-- **Options of commands that were not selected are never demanded.** -/
theorem only_active_chain_is_demanded (s : PS) (r : ORef) (h : r ∈ missing s) :
    r.c ∈ s.P.activeChain := by
  unfold missing at h
  simp only [List.mem_filter, List.mem_flatMap] at h
  obtain ⟨⟨ci, hci, hr⟩, _⟩ := h
  unfold Cmd.orefs at hr
  simp only [List.mem_flatMap, List.mem_map] at hr
  obtain ⟨⟨g, gi⟩, _, oi, _, rfl⟩ := hr
  exact hci

/-- an option that was supplied (marked set) is never reported -/
theorem supplied_is_not_missing (s : PS) (r : ORef) (h : (s.P.opt r).isSet = true) : r ∉ missing s := by
  unfold missing
  simp [h]

/-- **Nothing is executed when the check fails** (instance of C09). -/
theorem nothing_executed (E : Env) (help : HelpFn) (P : Parser) (argv : List Bytes)
    (h : (parsePhase E help (prepare E P) argv).err ≠ none) :
    ∀ ev ∈ (parseArgs E help P argv).log, C09.Event.isRun ev = false :=
  C09.no_run_on_parse_error E help P argv (Or.inl h)


/-! ### End to end: what a successful parse guarantees -/

/-- **A parse succeeds only if every required option was supplied and every count constraint is
    met — for EVERY argument vector, declaration and option set.**  Whenever the whole parse
    phase (argument loop, defaults phase, required check) ends without an error, the state it
    ends in has no required option of the parser or of a command of the active chain that is
    unset (by any source), and no pending positional argument with an unmet constraint: there
    is no way through `ParseArgs` around the required check. -/
theorem successful_parse_has_every_required_item (E : Env) (help : HelpFn) (P : Parser) (argv : List Bytes)
    (hok : (parsePhase E help P argv).err = none) :
    let fin := parsePhase E help P argv
    (∀ ci ∈ fin.P.activeChain, ∀ r ∈ (fin.P.cmd ci).orefs ci, (fin.P.opt r).required = true → (fin.P.opt r).isSet = true) ∧
    unmet fin = [] := by
  simp only
  unfold parsePhase at hok ⊢
  simp only at hok ⊢
  split at hok
  · next hloop =>
    simp only [hloop, if_true]
    generalize clearDefaultsAll E help _ _ = X at hok ⊢
    rw [checkRequired_eq] at hok ⊢
    by_cases hm : missing X = []
    · simp only [hm, if_true] at hok ⊢
      have hu : unmet X = [] := by
        cases hu : unmet X with
        | nil => rfl
        | cons a t =>
          rw [hu] at hok
          cases t <;> simp at hok
      simp only [hu]
      refine ⟨?_, trivial⟩
      intro ci hci r hr hreq
      cases hset : (X.P.opt r).isSet with
      | true => rfl
      | false =>
        exfalso
        have : r ∈ missing X := by
          unfold missing
          simp only [List.mem_filter, List.mem_flatMap]
          exact ⟨⟨ci, hci, hr⟩, by simp [hset, hreq]⟩
        rw [hm] at this
        cases this
    · simp only [hm, if_false] at hok
      split at hok <;> simp at hok
  · next hloop =>
    -- the loop itself ended with an error: the phase's error is that error
    exact absurd (by simp [hok]) hloop

end GoFlags.C06
