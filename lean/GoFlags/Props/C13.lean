/-
  C13 — An INI entry means the same as the corresponding command-line flag.

  Both paths end in the same function of the model, `Option.Set` (`optSet`), with the same
  arguments; what differs is bookkeeping that does not touch the value (closing the option for
  defaults, remembering the name read).  Name resolution follows the documented priority.
-/
import GoFlags.Ini
import GoFlags.Lemmas.Tables

namespace GoFlags.C13
open GoFlags Bytes

theorem modOpt_val (P : Parser) (r r' : ORef) (f : Opt → Opt) (hf : ∀ o, (f o).val = o.val) :
    ((P.modOpt r f).opt r').val = (P.opt r').val :=
  Parser.modOpt_preserves P r r' f (fun o => o.val) hf

theorem modOpt_isSet (P : Parser) (r r' : ORef) (f : Opt → Opt) (hf : ∀ o, (f o).isSet = o.isSet) :
    ((P.modOpt r f).opt r').isSet = (P.opt r').isSet :=
  Parser.modOpt_preserves P r r' f (fun o => o.isSet) hf

/-- bookkeeping after a read entry never changes any option's value or set-flag -/
theorem markRead_keeps_values (asd : Bool) (P : Parser) (r r' : ORef) (name : Bytes) :
    ((iniMarkRead asd P r name).opt r').val = (P.opt r').val ∧
    ((iniMarkRead asd P r name).opt r').isSet = (P.opt r').isSet := by
  unfold iniMarkRead
  have h1 : ∀ o, (Opt.closeForDefaults o).val = o.val ∧ (Opt.closeForDefaults o).isSet = o.isSet := fun _ => ⟨rfl, rfl⟩
  have h2 : ∀ o, (Opt.rememberIniName name o).val = o.val ∧ (Opt.rememberIniName name o).isSet = o.isSet := fun _ => ⟨rfl, rfl⟩
  split
  · exact ⟨modOpt_val _ _ _ (Opt.rememberIniName name) (fun o => (h2 o).1), modOpt_isSet _ _ _ (Opt.rememberIniName name) (fun o => (h2 o).2)⟩
  · constructor
    · rw [modOpt_val _ _ _ (Opt.rememberIniName name) (fun o => (h2 o).1), modOpt_val _ _ _ Opt.closeForDefaults (fun o => (h1 o).1)]
    · rw [modOpt_isSet _ _ _ (Opt.rememberIniName name) (fun o => (h2 o).2), modOpt_isSet _ _ _ Opt.closeForDefaults (fun o => (h1 o).2)]

/-- **A normally read entry is `Option.Set` of its value** — for the option the name selects,
    with exactly the text of the entry (empty value of a flag: no value). -/
theorem entry_is_option_set (E : Env) (help : HelpFn) (file : Bytes) (groups : List (Nat × Nat))
    (st : IniState) (v : IniVal) (r : ORef) (pv : Option Bytes) (q : Bool)
    (hfind : iniFindOption E st.P groups v.name = some r)
    (hval : iniEntryValue file (st.P.opt r) v = .ok (pv, q))
    (hok : (optSet E help st.P r pv st.log).2.2 = none) :
    (iniApplyEntry E help false file groups st v).2 = none ∧
    ∀ r', (((iniApplyEntry E help false file groups st v).1.P).opt r').val =
          (((optSet E help st.P r pv st.log).1).opt r').val := by
  unfold iniApplyEntry
  simp only [hfind, hval, Bool.false_and, Bool.false_eq_true, if_false, hok]
  exact ⟨trivial, fun r' => (markRead_keeps_values false _ r r' v.name).1⟩

/-- **The flag form is `Option.Set` of the same value**: `--name=value` (inline argument, value not
    a quoted literal) applies `optSet` with that very text. -/
theorem flag_is_option_set (E : Env) (help : HelpFn) (s : PS) (r : ORef) (c : Bool) (a : Bytes)
    (hc : (s.P.opt r).ty.canArgument = true) (hq : unquoteIfPossible a = some a) :
    parseOption E help s r c (some a) = finishSet s r (optSet E help s.P r (some a) s.log) := by
  unfold parseOption
  simp only [hc, Bool.not_true, Bool.false_eq_true, if_false, Option.isSome_some, Bool.true_or, if_true, takeArgument]
  split <;> simp_all

/-- hence: same parser, same option, same value text ⇒ the same stored values everywhere -/
theorem entry_same_as_flag (E : Env) (help : HelpFn) (file : Bytes) (groups : List (Nat × Nat))
    (st : IniState) (s : PS) (v : IniVal) (r : ORef) (q c : Bool)
    (hP : s.P = st.P) (hlog : s.log = st.log)
    (hfind : iniFindOption E st.P groups v.name = some r)
    (hcan : (st.P.opt r).ty.canArgument = true)
    (hval : iniEntryValue file (st.P.opt r) v = .ok (some v.value, q))
    (hplain : unquoteIfPossible v.value = some v.value)
    (hok : (optSet E help st.P r (some v.value) st.log).2.2 = none) :
    ∀ r', (((iniApplyEntry E help false file groups st v).1.P).opt r').val =
          (((parseOption E help s r c (some v.value)).1.P).opt r').val := by
  intro r'
  rw [(entry_is_option_set E help file groups st v r (some v.value) q hfind hval hok).2 r']
  rw [flag_is_option_set E help s r c v.value (by rw [hP]; exact hcan) hplain]
  simp [finishSet, hP, hlog]

/-- a flag entry with an empty value is the bare flag (no value handed to `Set`) -/
theorem empty_flag_entry_is_bare_flag (file : Bytes) (o : Opt) (v : IniVal)
    (hc : o.ty.canArgument = false) (he : v.value = []) : iniEntryValue file o v = .ok (none, v.quoted) := by
  unfold iniEntryValue; simp [hc, he]

/-- **Name priority.** `optionByName` answers with an option of the best priority present:
    ini-name (case-insensitive) 4 > field name 3 > namespaced long name 2 > short name 1; an
    option that matches in no way is never selected. -/
def namePrio (E : Env) (P : Parser) (name : Bytes) (r : ORef) : Nat :=
  let o := P.opt r
  if toLower E (tagGet o.tag (B "ini-name")) = toLower E name then 4
  else if name = o.field then 3
  else if name = P.longNS r then 2
  else if o.short ≠ 0 && name = encodeRune o.short then 1
  else 0

theorem foldl_max_ge (l : List Nat) (a : Nat) : a ≤ l.foldl max a ∧ ∀ x ∈ l, x ≤ l.foldl max a := by
  induction l generalizing a with
  | nil => simp
  | cons y ys ih =>
    simp only [List.foldl_cons]
    obtain ⟨h1, h2⟩ := ih (max a y)
    refine ⟨by omega, ?_⟩
    intro x hx
    rcases List.mem_cons.mp hx with rfl | hx
    · omega
    · exact h2 x hx

theorem selected_has_best_priority (E : Env) (P : Parser) (ci gi : Nat) (name : Bytes) (r : ORef)
    (h : P.optionByName E ci gi name = some r) :
    0 < namePrio E P name r ∧
    ∀ r' ∈ ((P.cmd ci).subtree gi).flatMap (fun j => (List.range ((P.cmd ci).groups.getD j {}).opts.length).map fun oi => (⟨ci, j, oi⟩ : ORef)),
      namePrio E P name r' ≤ namePrio E P name r := by
  unfold Parser.optionByName at h
  simp only at h
  split at h
  · cases h
  · next hbest =>
    have hp := List.find?_some h
    simp only [decide_eq_true_eq] at hp
    have hmax := foldl_max_ge (List.map (fun r => namePrio E P name r)
      (((P.cmd ci).subtree gi).flatMap fun j => (List.range ((P.cmd ci).groups.getD j {}).opts.length).map fun oi => (⟨ci, j, oi⟩ : ORef))) 0
    unfold namePrio at hmax ⊢
    constructor
    · rw [hp]; omega
    · intro r' hr'
      rw [hp]
      exact hmax.2 _ (List.mem_map_of_mem hr')

/-- entries before any section header address all of the parser's own groups -/
theorem global_section_is_all_groups (P : Parser) (E : Env) :
    P.matchingGroups E [] = (List.range (P.cmd 0).groups.length).map fun g => (0, g) := by
  unfold Parser.matchingGroups; simp

end GoFlags.C13
