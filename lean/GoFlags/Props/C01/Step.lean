/-
  C01 — Option fields hold exactly what the command line denotes.

  What one occurrence does to the parser (`Option.Set` in the model), for every declaration,
  state and value: it writes the occurrence's own option as the property prescribes for the
  field's kind, and writes no other option.  Plain fields are outside the option tables
  altogether (`untagged_field_is_no_option`).
-/
import GoFlags.Parse
import GoFlags.Lemmas.Tables

namespace GoFlags.C01
open GoFlags Bytes

/-- a callback never writes the parser -/
theorem call_leaves_parser (E : Env) (help : HelpFn) (P : Parser) (r : ORef) (v : Option Bytes) (log : List Event) :
    (optCall E help P r v log).1 = P := by
  unfold optCall
  simp only
  split
  · split
    · rfl
    · split <;> rfl
  · split <;> rfl

/-- An occurrence of option `r` never changes any other option's value or flags. -/
theorem set_touches_only_its_option (E : Env) (help : HelpFn) (P : Parser) (r r' : ORef)
    (v : Option Bytes) (log : List Event) (h : r ≠ r') :
    (optSet E help P r v log).1.opt r' = P.opt r' := by
  unfold optSet
  simp only
  cases h1 : choiceRejected (P.opt r).markSet v
  · simp only [Bool.false_eq_true, if_false]
    cases h2 : (P.opt r).markSet.ty.isFunc
    · simp only [Bool.false_eq_true, if_false]
      cases convert E (P.opt r).markSet.tag (v.getD []) (P.opt r).markSet.ty (P.opt r).markSet.val <;>
        simp only [Parser.opt_modOpt_ne _ _ _ _ h]
    · simp only [if_true]; rw [call_leaves_parser]; simp only [Parser.opt_modOpt_ne _ _ _ _ h]
  · simp only [if_true, Parser.opt_modOpt_ne _ _ _ _ h]

/-- the field content an occurrence starts from: previous contents of a slice or map are
    discarded at the first occurrence after a parse starts (`clearReferenceBeforeSet`) -/
def startValue (o : Opt) : Val :=
  if o.ty.isRef && o.clearRef then o.ty.emptyValue else o.val

theorem markSet_fields (o : Opt) :
    o.markSet.ty = o.ty ∧ o.markSet.tag = o.tag ∧ o.markSet.choices = o.choices ∧
    o.markSet.isSet = true ∧ o.markSet.clearRef = false := by
  unfold Opt.markSet Opt.empty
  simp only
  split <;> (try split) <;> simp

theorem markSet_val (o : Opt) (hfun : o.ty.isFunc = false) : o.markSet.val = startValue o := by
  unfold Opt.markSet Opt.empty startValue
  simp only [hfun]
  split <;> simp

/-- What an accepted occurrence stores (non-callback option whose value passes the choice test
    and converts): the conversion of this occurrence's argument applied to `startValue`; the
    option is marked set and stops clearing. -/
theorem set_stores_conversion (E : Env) (help : HelpFn) (P : Parser) (r : ORef) (hr : r.valid P)
    (arg : Bytes) (log : List Event) (v' : Val)
    (hfun : (P.opt r).ty.isFunc = false)
    (hchoice : (P.opt r).choices = [] ∨ arg ∈ (P.opt r).choices)
    (hconv : convert E (P.opt r).tag arg (P.opt r).ty (startValue (P.opt r)) = .ok v') :
    (optSet E help P r (some arg) log).2.2 = none ∧
    ((optSet E help P r (some arg) log).1.opt r).val = v' ∧
    ((optSet E help P r (some arg) log).1.opt r).isSet = true ∧
    ((optSet E help P r (some arg) log).1.opt r).clearRef = false := by
  obtain ⟨hty, htag, hch, hset, hclr⟩ := markSet_fields (P.opt r)
  have hval := markSet_val (P.opt r) hfun
  have hbad : choiceRejected (P.opt r).markSet (some arg) = false := by
    unfold choiceRejected; rw [hch]
    rcases hchoice with h | h <;> simp [h]
  unfold optSet
  simp only [hbad, hty, hfun, htag, hval, hconv, Option.getD_some, Bool.false_eq_true, if_false]
  simp only [Parser.opt_modOpt_modOpt_same _ _ _ _ hr]
  simp [hset, hclr]

/-- An occurrence whose value is not one of the declared choices is rejected with
    ErrInvalidChoice, whatever the value. -/
theorem set_rejects_non_choice (E : Env) (help : HelpFn) (P : Parser) (r : ORef) (arg : Bytes) (log : List Event)
    (hne : (P.opt r).choices ≠ []) (hnot : arg ∉ (P.opt r).choices) :
    ∃ msg, (optSet E help P r (some arg) log).2.2 = some (.flags .invalidChoice msg) := by
  obtain ⟨_, _, hch, _, _⟩ := markSet_fields (P.opt r)
  have hbad : choiceRejected (P.opt r).markSet (some arg) = true := by
    unfold choiceRejected; rw [hch]; simp [hne, hnot]
  unfold optSet
  simp only [hbad, if_true]
  exact ⟨_, rfl⟩

/-- scalar: the field holds the conversion of *this* (hence, after a sequence, the last) occurrence -/
theorem scalar_last_wins (E : Env) (tag : Tag) (arg : Bytes) (s : Sc) (cur cur' : Val) :
    convert E tag arg (.sc s) cur = convert E tag arg (.sc s) cur' := by
  simp [convert]

/-- slice: one more element, appended at the end, earlier elements and their order kept -/
theorem slice_appends (E : Env) (tag : Tag) (arg : Bytes) (s : Sc) (nil : Bool) (xs : List SVal) (v : SVal)
    (h : convertSc E tag arg s = .ok v) :
    convert E tag arg (.slice s) (.slice nil xs) = .ok (.slice false (xs ++ [v])) := by
  simp [convert, h]; rfl

/-- map: `key:value` stores `value` under `key`, replacing an earlier value for that key -/
theorem map_inserts (E : Env) (tag : Tag) (k v : Bytes) (ks vs : Sc) (nil : Bool) (kvs : List (SVal × SVal))
    (kv vv : SVal) (hk : 0x3A ∉ k) (h1 : convertSc E tag k ks = .ok kv) (h2 : convertSc E tag v vs = .ok vv) :
    convert E tag (k ++ 0x3A :: v) (.map ks vs) (.map nil kvs) = .ok (.map false (mapInsert kv vv kvs)) := by
  have hcut : cut 0x3A (k ++ 0x3A :: v) = (k, some v) := by
    clear h1
    induction k with
    | nil => simp [cut]
    | cons a t ih =>
      have ha : a ≠ 0x3A := by intro h; apply hk; simp [h]
      have ht : 0x3A ∉ t := by intro h; apply hk; simp [h]
      have := ih ht
      simp [cut, ha, this]
  simp [convert, hcut, h1, h2]; rfl

theorem mapInsert_lookup (k v : SVal) (kvs : List (SVal × SVal)) :
    (mapInsert k v kvs).lookup k = some v := by
  induction kvs with
  | nil => simp [mapInsert, List.lookup]
  | cons p t ih =>
    obtain ⟨k', v'⟩ := p
    unfold mapInsert
    by_cases h : k' = k
    · simp [h, List.lookup]
    · have : (k == k') = false := by simp [Ne.symm h]
      simp [h, List.lookup, this, ih]

/-- flag: an occurrence (no argument) makes it true -/
theorem flag_becomes_true (E : Env) (tag : Tag) (cur : Val) :
    convert E tag [] (.sc .bool) cur = .ok (.sc (.bool true)) := by
  simp [convert, convertSc]; rfl

/-- callback: runs once per occurrence with the converted argument, field untouched -/
theorem callback_runs_once (E : Env) (help : HelpFn) (P : Parser) (r : ORef) (arg : Bytes) (s : Sc) (e : Bool)
    (a : SVal) (log : List Event) (hty : (P.opt r).ty = .func (some s) e) (hcb : (P.opt r).cb ≠ 1)
    (hconv : convertSc E (P.opt r).tag arg s = .ok a) :
    (optCall E help P r (some arg) log).2.1 = log ++ [.cb r (some a)] ∧ (optCall E help P r (some arg) log).1 = P := by
  unfold optCall
  simp [hty, hconv, hcb]

/-- Plain fields: a field without `long`, `short` and `ini-name` yields no option at all, so no
    transition of the model can address it. -/
theorem untagged_field_is_no_option (name : Bytes) (mt : Tag) (t : Ty) (init : Val) (cb : Nat)
    (h1 : tagGet mt (B "long") = []) (h2 : tagGet mt (B "short") = []) (h3 : tagGet mt (B "ini-name") = []) :
    mkOption name mt t init cb = .ok none := by
  simp [mkOption, h1, h2, h3]

/-! Non-vacuity: a concrete slice option receives two occurrences. -/
example : convert default [] [0x61] (.slice .str) (.slice true []) = .ok (.slice false [.str [0x61]]) := rfl
example : convert default [] [0x62] (.slice .str) (.slice false [.str [0x61]]) =
    .ok (.slice false [.str [0x61], .str [0x62]]) := rfl

end GoFlags.C01
