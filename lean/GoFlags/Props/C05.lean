/-
  C05 — Defaults and value-source precedence.
-/
import GoFlags.Lemmas.AllRefs
import GoFlags.Props.C01
import GoFlags.Lemmas.ActivePath
import GoFlags.Ini
import GoFlags.Lemmas.Tables

import GoFlags.Props.C01.Step
import GoFlags.Lemmas.Occurrences

namespace GoFlags.C05
open GoFlags Bytes

/-- **An explicitly given option ignores every lower-ranked source.** Once an option is closed
    (`preventDefault`: it occurred on the command line, or a normally read INI file set it),
    `clearDefault` — environment variable, default tags — does nothing at all. -/
theorem closed_option_ignores_defaults (E : Env) (help : HelpFn) (P : Parser) (r : ORef) (log : List Event)
    (h : (P.opt r).preventDefault = true) : optClearDefault E help P r log = (P, log, none) := by
  unfold optClearDefault; simp [h]

/-- every occurrence closes its option, whatever happens to the value afterwards -/
theorem occurrence_closes_option (E : Env) (help : HelpFn) (P : Parser) (r : ORef) (hr : r.valid P)
    (v : Option Bytes) (log : List Event) :
    ((optSet E help P r v log).1.opt r).preventDefault = true := by
  have hm : (P.opt r).markSet.preventDefault = true := by
    unfold Opt.markSet; rfl
  unfold optSet
  simp only
  cases choiceRejected (P.opt r).markSet v
  · simp only [Bool.false_eq_true, if_false]
    cases (P.opt r).markSet.ty.isFunc
    · simp only [Bool.false_eq_true, if_false]
      cases convert E (P.opt r).markSet.tag (v.getD []) (P.opt r).markSet.ty (P.opt r).markSet.val <;>
        simp only [Parser.opt_modOpt_modOpt_same _ _ _ _ hr, hm]
    · simp only [if_true]
      rw [optCall_parser_eq, Parser.opt_modOpt_same _ _ _ hr]; exact hm
  · simp only [if_true, Parser.opt_modOpt_same _ _ _ hr, hm]
where
  optCall_parser_eq {E : Env} {help : HelpFn} {P : Parser} {r : ORef} {v : Option Bytes} {log : List Event} :
      (optCall E help P r v log).1 = P := by
    unfold optCall
    simp only
    split
    · split
      · rfl
      · split <;> rfl
    · split <;> rfl

/-- a normally read INI entry closes the option as well (INI ranks above env and default tags) -/
theorem ini_entry_closes_option (P : Parser) (r : ORef) (hr : r.valid P) (name : Bytes) :
    ((iniMarkRead false P r name).opt r).preventDefault = true := by
  unfold iniMarkRead
  simp only [Bool.false_eq_true, if_false]
  rw [Parser.opt_modOpt_modOpt_same _ _ _ _ hr]
  rfl

/-- **Environment over default tags**: with an env key whose variable is set, the defaults that
    will be applied are the variable's value (split on env-delim when there is one) and the
    default tags are not consulted; with the variable unset (or no env key) they are the tags. -/
theorem env_beats_default_tags (E : Env) (P : Parser) (r : ORef) (v : Bytes)
    (hk : P.envKeyNS r ≠ []) (hv : E.getenv (P.envKeyNS r) = some v) :
    usedDefault E P r = if (P.opt r).envDelim ≠ [] then splitStr v (P.opt r).envDelim else [v] := by
  unfold usedDefault; simp [hk, hv]

theorem default_tags_without_env (E : Env) (P : Parser) (r : ORef)
    (h : P.envKeyNS r = [] ∨ E.getenv (P.envKeyNS r) = none) : usedDefault E P r = (P.opt r).dflt := by
  unfold usedDefault
  rcases h with h | h
  · simp [h]
  · by_cases hk : P.envKeyNS r = []
    · simp [hk]
    · simp [hk, h]

/-- a variable that is set but empty is a value (one empty string), not "unset" -/
theorem empty_env_is_a_value (E : Env) (P : Parser) (r : ORef)
    (hk : P.envKeyNS r ≠ []) (hv : E.getenv (P.envKeyNS r) = some []) (hd : (P.opt r).envDelim = []) :
    usedDefault E P r = [[]] := by
  unfold usedDefault; simp [hk, hv, hd]

/-- the variable's name: the env key prefixed by the enclosing groups' env-namespaces, outermost
    first, joined by the parser's EnvNamespaceDelimiter -/
theorem env_key_with_namespaces (P : Parser) (r : ORef) (h : (P.opt r).envKey ≠ []) :
    P.envKeyNS r = join P.envNsDelim (P.nsPath r.c r.g (·.envNs) ++ [(P.opt r).envKey]) := by
  unfold Parser.envKeyNS; simp [h]

/-- **Defaults replace, never extend**: when a default source provides values, the field is
    emptied first and then receives exactly those values, in order. -/
theorem defaults_start_from_empty (E : Env) (help : HelpFn) (P : Parser) (r : ORef) (log : List Event)
    (hp : (P.opt r).preventDefault = false) (hu : usedDefault E P r ≠ []) :
    optClearDefault E help P r log =
      setDefaults E help r (usedDefault E P r)
        ((P.modOpt r fun o => { o with isSetDefault := true }).modOpt r Opt.empty) log := by
  unfold optClearDefault; simp [hp, hu]

/-- an occurrence on the command line replaces — never extends — what a slice or map held from
    any earlier source: the first occurrence after a parse starts discards the contents -/
theorem first_occurrence_discards_contents (o : Opt) (h : o.ty.isRef = true) (hc : o.clearRef = true)
    (hf : o.ty.isFunc = false) : o.markSet.val = o.ty.emptyValue := by
  unfold Opt.markSet Opt.empty; simp [h, hc, hf]

/-- **As-defaults INI below the command line**: an entry for an option that is already closed is
    skipped entirely (so reading the file after parsing the command line cannot override it). -/
theorem as_defaults_never_overrides_closed_option (E : Env) (help : HelpFn) (file : Bytes)
    (groups : List (Nat × Nat)) (st : IniState) (v : IniVal) (r : ORef)
    (hfind : iniFindOption E st.P groups v.name = some r) (hp : (st.P.opt r).preventDefault = true) :
    iniApplyEntry E help true file groups st v = (st, none) := by
  unfold iniApplyEntry; simp [hfind, hp]

/-! ### The whole defaults phase -/

theorem optSetDefault_other (E : Env) (help : HelpFn) (P : Parser) (r r' : ORef) (v : Option Bytes) (log : List Event)
    (h : r ≠ r') : (optSetDefault E help P r v log).1.opt r' = P.opt r' := by
  unfold optSetDefault
  split
  · rfl
  · have h1 := C01.set_touches_only_its_option E help P r r' v log h
    generalize optSet E help P r v log = res at h1
    obtain ⟨P', log', e⟩ := res
    cases e with
    | some e => exact h1
    | none =>
      simp only at h1 ⊢
      rw [Parser.opt_modOpt_ne _ _ _ _ h]; exact h1

theorem setDefaults_other (E : Env) (help : HelpFn) (r r' : ORef) (ds : List Bytes) (P : Parser) (log : List Event)
    (h : r ≠ r') : (setDefaults E help r ds P log).1.opt r' = P.opt r' := by
  induction ds generalizing P log with
  | nil => rfl
  | cons d ds ih =>
    unfold setDefaults
    have h1 := optSetDefault_other E help P r r' (some d) log h
    generalize optSetDefault E help P r (some d) log = res at h1
    obtain ⟨P', log', e⟩ := res
    cases e with
    | some e => exact h1
    | none => simp only; rw [ih]; exact h1

theorem optClearDefault_other (E : Env) (help : HelpFn) (P : Parser) (r r' : ORef) (log : List Event)
    (h : r ≠ r') : (optClearDefault E help P r log).1.opt r' = P.opt r' := by
  unfold optClearDefault
  split
  · rfl
  · simp only
    split
    · rw [setDefaults_other E help r r' _ _ _ h, Parser.opt_modOpt_ne _ _ _ _ h, Parser.opt_modOpt_ne _ _ _ _ h]
    · split
      · rw [Parser.opt_modOpt_ne _ _ _ _ h, Parser.opt_modOpt_ne _ _ _ _ h]
      · rw [Parser.opt_modOpt_ne _ _ _ _ h]

/-- **A closed option goes through the whole defaults phase untouched.**  Whatever the
    environment holds and whatever default tags it and every other option declare: after defaults
    have been applied to ALL options of the parser (in any order), an option that was closed
    before — it occurred on the command line or a normally read INI file set it — is exactly as it
    was: value, marks and all. -/
theorem closed_option_survives_defaults_phase (E : Env) (help : HelpFn) (r : ORef) (rs : List ORef) :
    ∀ s : PS, (s.P.opt r).preventDefault = true → (clearDefaultsAll E help rs s).P.opt r = s.P.opt r := by
  induction rs with
  | nil => intro s _; rfl
  | cons r' rs ih =>
    intro s hclosed
    unfold clearDefaultsAll
    by_cases hrr : r' = r
    · subst hrr
      rw [closed_option_ignores_defaults E help s.P r' s.log hclosed]
      simp only
      exact ih _ hclosed
    · have hother := optClearDefault_other E help s.P r' r s.log hrr
      generalize optClearDefault E help s.P r' s.log = res at hother
      obtain ⟨P', log', e⟩ := res
      simp only at hother
      cases e with
      | none =>
        simp only
        rw [ih _ (by simp only; rw [hother]; exact hclosed)]
        exact hother
      | some e =>
        simp only
        rw [ih _ (by simp only; rw [hother]; exact hclosed)]
        exact hother

/-! ### The defaults phase, option by option -/


/-- two parsers with the same declarations that hold the same record for option `r` -/
structure AgreeAt (r : ORef) (P Q : Parser) : Prop where
  decl : SameDecl P Q
  opt : P.opt r = Q.opt r
  validP : r.valid P
  validQ : r.valid Q

theorem SameDecl.envKeyNS {P Q : Parser} (h : SameDecl P Q) (r : ORef) : P.envKeyNS r = Q.envKeyNS r := by
  rw [← Parser.decl_envKeyNS P, ← Parser.decl_envKeyNS Q, h]

theorem optCall_isSome_congr (E : Env) (help : HelpFn) (P Q : Parser) (r : ORef) (v : Option Bytes) (l1 l2 : List Event)
    (h : P.opt r = Q.opt r) :
    (optCall E help P r v l1).2.2.isSome = (optCall E help Q r v l2).2.2.isSome := by
  unfold optCall
  simp only [h]
  have cb : ∀ a, (callbackResult help P (Q.opt r).cb a).isSome = (callbackResult help Q (Q.opt r).cb a).isSome := by
    intro a; unfold callbackResult; split <;> rfl
  split
  · split
    · rfl
    · split <;> exact cb _
  · split <;> exact cb _

/-- `Option.Set` reads the parser only through the option's own record and the declarations -/
theorem optSet_congr (E : Env) (help : HelpFn) (P Q : Parser) (r : ORef) (v : Option Bytes) (l1 l2 : List Event)
    (h : AgreeAt r P Q) :
    AgreeAt r (optSet E help P r v l1).1 (optSet E help Q r v l2).1 ∧
    (optSet E help P r v l1).2.2.isSome = (optSet E help Q r v l2).2.2.isSome := by
  have hdP := optSet_decl E help P r v l1
  have hdQ := optSet_decl E help Q r v l2
  have hvP : r.valid (optSet E help P r v l1).1 := hdP.symm.valid r h.validP
  have hvQ : r.valid (optSet E help Q r v l2).1 := hdQ.symm.valid r h.validQ
  have hdecl : SameDecl (optSet E help P r v l1).1 (optSet E help Q r v l2).1 := (hdP.trans h.decl).trans hdQ.symm
  suffices hs : (optSet E help P r v l1).1.opt r = (optSet E help Q r v l2).1.opt r ∧
      (optSet E help P r v l1).2.2.isSome = (optSet E help Q r v l2).2.2.isSome from
    ⟨⟨hdecl, hs.1, hvP, hvQ⟩, hs.2⟩
  unfold optSet
  simp only [h.opt]
  have e1 : (P.modOpt r fun _ => (Q.opt r).markSet).opt r = (Q.opt r).markSet := Parser.opt_modOpt_same P r _ h.validP
  have e2 : (Q.modOpt r fun _ => (Q.opt r).markSet).opt r = (Q.opt r).markSet := Parser.opt_modOpt_same Q r _ h.validQ
  split
  · exact ⟨e1.trans e2.symm, rfl⟩
  · split
    · rw [C01.call_leaves_parser, C01.call_leaves_parser]
      exact ⟨e1.trans e2.symm, optCall_isSome_congr E help _ _ r v l1 l2 (e1.trans e2.symm)⟩
    · split
      · simp only [Parser.opt_modOpt_modOpt_same _ _ _ _ h.validP, Parser.opt_modOpt_modOpt_same _ _ _ _ h.validQ]
        exact ⟨trivial, trivial⟩
      · simp only [Parser.opt_modOpt_modOpt_same _ _ _ _ h.validP, Parser.opt_modOpt_modOpt_same _ _ _ _ h.validQ]
        exact ⟨trivial, trivial⟩

theorem modOpt_agree (P Q : Parser) (r : ORef) (f : Opt → Opt) (hf : ∀ o, (f o).decl = o.decl) (h : AgreeAt r P Q) :
    AgreeAt r (P.modOpt r f) (Q.modOpt r f) := by
  have d1 := Parser.decl_modOpt P r f hf
  have d2 := Parser.decl_modOpt Q r f hf
  refine ⟨(d1.trans h.decl).trans d2.symm, ?_, d1.symm.valid r h.validP, d2.symm.valid r h.validQ⟩
  rw [Parser.opt_modOpt_same P r f h.validP, Parser.opt_modOpt_same Q r f h.validQ, h.opt]

theorem optSetDefault_congr (E : Env) (help : HelpFn) (P Q : Parser) (r : ORef) (v : Option Bytes) (l1 l2 : List Event)
    (h : AgreeAt r P Q) :
    AgreeAt r (optSetDefault E help P r v l1).1 (optSetDefault E help Q r v l2).1 ∧
    (optSetDefault E help P r v l1).2.2.isSome = (optSetDefault E help Q r v l2).2.2.isSome := by
  unfold optSetDefault
  rw [h.opt]
  split
  · exact ⟨h, rfl⟩
  · obtain ⟨ha, he⟩ := optSet_congr E help P Q r v l1 l2 h
    generalize optSet E help P r v l1 = rp at ha he
    generalize optSet E help Q r v l2 = rq at ha he
    obtain ⟨P', lp, ep⟩ := rp
    obtain ⟨Q', lq, eq⟩ := rq
    simp only at ha he
    cases ep with
    | some e1 =>
      cases eq with
      | some e2 => exact ⟨ha, rfl⟩
      | none => simp at he
    | none =>
      cases eq with
      | some e2 => simp at he
      | none => exact ⟨modOpt_agree P' Q' r _ (fun o => rfl) ha, rfl⟩

theorem setDefaults_congr (E : Env) (help : HelpFn) (r : ORef) (ds : List Bytes) :
    ∀ (P Q : Parser) (l1 l2 : List Event), AgreeAt r P Q →
      AgreeAt r (setDefaults E help r ds P l1).1 (setDefaults E help r ds Q l2).1 := by
  induction ds with
  | nil => intro P Q l1 l2 h; exact h
  | cons d ds ih =>
    intro P Q l1 l2 h
    unfold setDefaults
    obtain ⟨ha, he⟩ := optSetDefault_congr E help P Q r (some d) l1 l2 h
    generalize optSetDefault E help P r (some d) l1 = rp at ha he
    generalize optSetDefault E help Q r (some d) l2 = rq at ha he
    obtain ⟨P', lp, ep⟩ := rp
    obtain ⟨Q', lq, eq⟩ := rq
    simp only at ha he
    cases ep with
    | some e1 =>
      cases eq with
      | some e2 => exact ha
      | none => simp at he
    | none =>
      cases eq with
      | some e2 => simp at he
      | none => exact ih P' Q' lp lq ha

theorem usedDefault_congr (E : Env) (P Q : Parser) (r : ORef) (h : AgreeAt r P Q) : usedDefault E P r = usedDefault E Q r := by
  unfold usedDefault
  rw [h.opt, SameDecl.envKeyNS h.decl]

theorem optClearDefault_congr (E : Env) (help : HelpFn) (P Q : Parser) (r : ORef) (l1 l2 : List Event) (h : AgreeAt r P Q) :
    AgreeAt r (optClearDefault E help P r l1).1 (optClearDefault E help Q r l2).1 := by
  unfold optClearDefault
  rw [h.opt, usedDefault_congr E P Q r h]
  split
  · exact h
  · simp only
    have h1 := modOpt_agree P Q r (fun o => { o with isSetDefault := true }) (fun o => rfl) h
    have h2 := modOpt_agree _ _ r Opt.empty Opt.empty_decl h1
    split
    · exact setDefaults_congr E help r _ _ _ _ _ h2
    · split
      · exact h2
      · exact h1

/-- **What the defaults phase leaves in an option is decided by that option alone**: after defaults
    have been applied to all options of the parser (each once, in any order), an option holds
    exactly what `clearDefault` makes of ITS OWN record as it stood before the phase — its
    environment variable when set, else its default tags, else what it held — whatever the other
    options declare, hold or receive. -/
theorem defaults_phase_is_per_option (E : Env) (help : HelpFn) (r : ORef) (rs : List ORef) :
    ∀ (s : PS) (P0 : Parser) (l0 : List Event), rs.Nodup → r ∈ rs → AgreeAt r s.P P0 →
      (clearDefaultsAll E help rs s).P.opt r = (optClearDefault E help P0 r l0).1.opt r := by
  induction rs with
  | nil => intro s P0 l0 _ hm; simp at hm
  | cons r' rs ih =>
    intro s P0 l0 hnd hm hag
    have hnd' := (List.nodup_cons.mp hnd).2
    have hnotin := (List.nodup_cons.mp hnd).1
    unfold clearDefaultsAll
    by_cases hrr : r' = r
    · subst hrr
      -- its turn: afterwards nothing touches it
      have hc := optClearDefault_congr E help s.P P0 r' s.log l0 hag
      have hrest : ∀ (t : PS), (clearDefaultsAll E help rs t).P.opt r' = t.P.opt r' := by
        intro t
        have : ∀ (rs' : List ORef), r' ∉ rs' → ∀ t : PS, (clearDefaultsAll E help rs' t).P.opt r' = t.P.opt r' := by
          intro rs'
          induction rs' with
          | nil => intro _ t; rfl
          | cons x xs ihx =>
            intro hx t
            have hxr : x ≠ r' := by intro e; apply hx; simp [e]
            have hxs : r' ∉ xs := by intro e; apply hx; simp [e]
            unfold clearDefaultsAll
            have ho := optClearDefault_other E help t.P x r' t.log hxr
            generalize optClearDefault E help t.P x t.log = res at ho
            obtain ⟨P', l', e⟩ := res
            cases e <;> (simp only; rw [ihx hxs]; exact ho)
        exact this rs hnotin t
      generalize optClearDefault E help s.P r' s.log = res at hc
      obtain ⟨P', l', e⟩ := res
      cases e <;> (simp only; rw [hrest]; exact hc.opt)
    · have hm' : r ∈ rs := by
        rcases List.mem_cons.mp hm with h | h
        · exact absurd h.symm hrr
        · exact h
      have ho := optClearDefault_other E help s.P r' r s.log hrr
      have hd := optClearDefault_decl E help s.P r' s.log
      generalize optClearDefault E help s.P r' s.log = res at ho hd
      obtain ⟨P', l', e⟩ := res
      simp only at ho hd
      have hag' : AgreeAt r P' P0 := ⟨hd.trans hag.decl, ho.trans hag.opt, hd.symm.valid r hag.validP, hag.validQ⟩
      cases e <;> (simp only; exact ih _ P0 l0 hnd' hm' hag')

/-! ### End to end: the whole of `ParseArgs` on a command line that does not name the option -/

/-- **An option that does not occur on the command line ends with the value of its own
    highest-ranked source — through the whole parse.**  For a command line of any length made of
    occurrences of OTHER options (whatever they are, however often): after the argument loop, the
    defaults phase over every option of the parser and the required check, the option holds
    exactly what `clearDefault` makes of ITS record as the parse found it — its environment
    variable when set, else its default tags, else what the program stored — untouched by every
    occurrence and by the defaults of every other option. -/
theorem option_that_does_not_occur_ends_with_its_own_sources (E : Env) (help : HelpFn) (P : Parser)
    (items : List Occ) (r0 : ORef) (l0 : List Event)
    (hok : ∀ it ∈ items, OccOK P 0 it)
    (hno : ∀ it ∈ items, P.lookupLong 0 it.1 ≠ some r0)
    (hv : r0.valid P)
    (hres : (applyOccs E help (({ P := P, args := renderOccs items } : PS).fill 0) items).2 = none) :
    (parsePhase E help P (renderOccs items)).P.opt r0 = (optClearDefault E help P r0 l0).1.opt r0 := by
  unfold parsePhase
  simp only
  have hlen : (renderOccs items).length = items.length := by simp [renderOccs]
  have hloop := C01.parseLoop_of_occurrences E help items (4 * (renderOccs items).length + 16)
    (({ P := P, args := renderOccs items } : PS).fill 0) (by rw [hlen]; omega) rfl hok hres
  rw [hloop]
  obtain ⟨hP, _, _, _, herr⟩ := C01.applyOccs_is_setAll E help items (({ P := P, args := renderOccs items } : PS).fill 0) hok hres
  generalize (applyOccs E help (({ P := P, args := renderOccs items } : PS).fill 0) items).1 = s1 at hP herr
  have herr' : s1.err = none := by rw [herr]; rfl
  simp only [herr', Option.isNone_none, if_true]
  rw [(checkRequired_act _).1]
  have hP' : s1.P = (setAll E help 0 P [] items).1 := hP
  have hdecl : SameDecl s1.P P := by rw [hP']; exact setAll_decl E help 0 items P []
  have hopt : s1.P.opt r0 = P.opt r0 := by
    rw [hP']; exact C01.options_not_named_are_untouched E help 0 r0 items P [] hno
  have hv1 : r0.valid s1.P := hdecl.symm.valid r0 hv
  exact defaults_phase_is_per_option E help r0 s1.P.allORefs s1 P l0 (Parser.allORefs_nodup _)
    ((Parser.mem_allORefs _ _).mpr hv1) ⟨hdecl, hopt, hv1, hv⟩

/-- an option that some occurrence of the line names — or that was closed before — is closed when
    the line has been read -/
theorem applyOccs_closes_named (E : Env) (help : HelpFn) (r0 : ORef) (items : List Occ) :
    ∀ s : PS, (∀ it ∈ items, OccOK s.P s.cmd it) → (applyOccs E help s items).2 = none → r0.valid s.P →
      ((∃ it ∈ items, s.P.lookupLong s.cmd it.1 = some r0) ∨ (s.P.opt r0).preventDefault = true) →
      ((applyOccs E help s items).1.P.opt r0).preventDefault = true := by
  induction items with
  | nil =>
    intro s _ _ _ h
    rcases h with ⟨it, hit, _⟩ | h
    · simp at hit
    · simpa [applyOccs] using h
  | cons it rest ih =>
    intro s hok hres hv hnamed
    obtain ⟨ht, r, hl, hc⟩ := hok it (by simp)
    unfold applyOccs at hres ⊢
    let s0 : PS := { s with arg := longToken it.1 it.2, args := renderOccs rest }
    have hk := parseLong_keeps E help s0 it.1 it.2 (by
      cases h2 : it.2 with
      | some V => left; rfl
      | none =>
        right; intro r' hr'
        have : s0.P.lookupLong s0.cmd it.1 = some r := hl
        rw [this] at hr'; cases hr'; exact hc h2)
    have hacc := fun h => parseLong_accepted E help s0 it.1 it.2 r hl hc h
    change (match parseLong E help s0 it.1 it.2 with | (s', none) => applyOccs E help s' rest | (s', some e) => (s', some e)).2 = none at hres
    change ((match parseLong E help s0 it.1 it.2 with | (s', none) => applyOccs E help s' rest | (s', some e) => (s', some e)).1.P.opt r0).preventDefault = true
    generalize hpl : parseLong E help s0 it.1 it.2 = res at hk hres hacc ⊢
    obtain ⟨s', e⟩ := res
    cases e with
    | some e => simp at hres
    | none =>
      simp only at hres hk hacc ⊢
      obtain ⟨v, _, _, hs'⟩ := hacc trivial
      have hs'P : s'.P = (optSet E help s.P r v s.log).1 := by rw [hs']
      have hdecl : SameDecl s'.P s.P := hk.decl
      have hok' : ∀ it' ∈ rest, OccOK s'.P s'.cmd it' := by
        intro it' hit'
        rw [hk.cmd]
        exact OccOK_of_sameDecl hdecl.symm _ _ (hok it' (by simp [hit']))
      have hv' : r0.valid s'.P := hdecl.symm.valid r0 hv
      apply ih s' hok' hres hv'
      by_cases hr : r = r0
      · right; rw [hs'P, hr]; exact occurrence_closes_option E help s.P r0 hv v s.log
      · have hsame : s'.P.opt r0 = s.P.opt r0 := by
          rw [hs'P]; exact C01.set_touches_only_its_option E help s.P r r0 v s.log hr
        rcases hnamed with ⟨it', hit', hl'⟩ | hclosed
        · rcases List.mem_cons.mp hit' with rfl | hin
          · rw [hl] at hl'; cases hl'; exact absurd rfl hr
          · left; exact ⟨it', hin, by rw [hk.cmd, hdecl.lookupLong]; exact hl'⟩
        · right; rw [hsame]; exact hclosed

/-- **An option that does occur ignores every other source — through the whole parse.**  For a
    command line of any length of option occurrences: an option that one of them names leaves the
    parse (argument loop, defaults phase over ALL options, required check) holding exactly what
    its occurrences stored — no environment variable, default tag or stored value is consulted
    for it any more. -/
theorem option_that_occurs_keeps_what_its_occurrences_stored (E : Env) (help : HelpFn) (P : Parser)
    (items : List Occ) (r0 : ORef)
    (hok : ∀ it ∈ items, OccOK P 0 it)
    (hnamed : ∃ it ∈ items, P.lookupLong 0 it.1 = some r0)
    (hv : r0.valid P)
    (hres : (applyOccs E help (({ P := P, args := renderOccs items } : PS).fill 0) items).2 = none) :
    (parsePhase E help P (renderOccs items)).P.opt r0 = (setAll E help 0 P [] items).1.opt r0 := by
  unfold parsePhase
  simp only
  have hlen : (renderOccs items).length = items.length := by simp [renderOccs]
  have hloop := C01.parseLoop_of_occurrences E help items (4 * (renderOccs items).length + 16)
    (({ P := P, args := renderOccs items } : PS).fill 0) (by rw [hlen]; omega) rfl hok hres
  rw [hloop]
  obtain ⟨hP, _, _, _, herr⟩ := C01.applyOccs_is_setAll E help items (({ P := P, args := renderOccs items } : PS).fill 0) hok hres
  have hclosed := applyOccs_closes_named E help r0 items (({ P := P, args := renderOccs items } : PS).fill 0) hok hres hv (Or.inl hnamed)
  generalize (applyOccs E help (({ P := P, args := renderOccs items } : PS).fill 0) items).1 = s1 at hP herr hclosed
  have herr' : s1.err = none := by rw [herr]; rfl
  simp only [herr', Option.isNone_none, if_true]
  rw [(checkRequired_act _).1, closed_option_survives_defaults_phase E help r0 _ s1 hclosed]
  have hP' : s1.P = (setAll E help 0 P [] items).1 := hP
  rw [hP']

/-! non-vacuity: `--v` on a parser with the flag `--v` and a string option `--name` that declares
    `default:"d"`: every hypothesis holds, and `--name` ends with "d" -/
def exP : Parser := { cmds := [{ groups := [{ opts := [{ long := B "v", ty := .sc .bool },
  { long := B "name", ty := .sc .str, val := .sc (.str []), dflt := [B "d"] }] }] }] }
def exOccs : List Occ := [(B "v", none)]
example : ∀ it ∈ exOccs, OccOK exP 0 it := by
  intro it h; simp [exOccs] at h; subst h
  exact ⟨⟨by decide, by decide, by decide⟩, ⟨0, 0, 0⟩, by decide, fun _ => by decide⟩
example : ∀ it ∈ exOccs, exP.lookupLong 0 it.1 ≠ some ⟨0, 0, 1⟩ := by
  intro it h; simp [exOccs] at h; subst h; decide
example : (⟨0, 0, 1⟩ : ORef).valid exP := by unfold ORef.valid; decide
example : (applyOccs default (fun _ => []) (({ P := exP, args := renderOccs exOccs } : PS).fill 0) exOccs).2 = none := by decide
example : ((parsePhase default (fun _ => []) exP (renderOccs exOccs)).P.opt ⟨0, 0, 1⟩).val = .sc (.str (B "d")) := by decide

end GoFlags.C05
