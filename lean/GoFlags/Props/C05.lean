/-
  C05 — Defaults and value-source precedence.
-/
import GoFlags.Ini
import GoFlags.Lemmas.Tables

import GoFlags.Props.C01.Step

namespace GoFlags.C05
open GoFlags Bytes

/-- **An explicitly given option ignores every lower-ranked source.** Once an option is closed
    (`preventDefault`: it occurred on the command line, or a normally read INI file set it),
    `clearDefault` — environment variable, default tags — does nothing at all. -/
theorem closed_option_ignores_defaults (E : Env) (help : HelpFn) (P : Parser) (r : ORef) (log : List Event)
    (h : (P.opt r).preventDefault = true) : optClearDefault E help P r log = (P, log, none) := by
  unfold optClearDefault; simp [h]

/-- every occurrence closes its option, whatever happens to the value afterwards -/
theorem occurrence_closes_option (E : Env) (help : HelpFn) (P : Parser) (r : ORef) (hr : r.valid P)
    (v : Option Bytes) (log : List Event) :
    ((optSet E help P r v log).1.opt r).preventDefault = true := by
  have hm : (P.opt r).markSet.preventDefault = true := by
    unfold Opt.markSet; rfl
  unfold optSet
  simp only
  cases choiceRejected (P.opt r).markSet v
  · simp only [Bool.false_eq_true, if_false]
    cases (P.opt r).markSet.ty.isFunc
    · simp only [Bool.false_eq_true, if_false]
      cases convert E (P.opt r).markSet.tag (v.getD []) (P.opt r).markSet.ty (P.opt r).markSet.val <;>
        simp only [Parser.opt_modOpt_modOpt_same _ _ _ _ hr, hm]
    · simp only [if_true]
      rw [optCall_parser_eq, Parser.opt_modOpt_same _ _ _ hr]; exact hm
  · simp only [if_true, Parser.opt_modOpt_same _ _ _ hr, hm]
where
  optCall_parser_eq {E : Env} {help : HelpFn} {P : Parser} {r : ORef} {v : Option Bytes} {log : List Event} :
      (optCall E help P r v log).1 = P := by
    unfold optCall
    simp only
    split
    · split
      · rfl
      · split <;> rfl
    · split <;> rfl

/-- a normally read INI entry closes the option as well (INI ranks above env and default tags) -/
theorem ini_entry_closes_option (P : Parser) (r : ORef) (hr : r.valid P) (name : Bytes) :
    ((iniMarkRead false P r name).opt r).preventDefault = true := by
  unfold iniMarkRead
  simp only [Bool.false_eq_true, if_false]
  rw [Parser.opt_modOpt_modOpt_same _ _ _ _ hr]
  rfl

/-- **Environment over default tags**: with an env key whose variable is set, the defaults that
    will be applied are the variable's value (split on env-delim when there is one) and the
    default tags are not consulted; with the variable unset (or no env key) they are the tags. -/
theorem env_beats_default_tags (E : Env) (P : Parser) (r : ORef) (v : Bytes)
    (hk : P.envKeyNS r ≠ []) (hv : E.getenv (P.envKeyNS r) = some v) :
    usedDefault E P r = if (P.opt r).envDelim ≠ [] then splitStr v (P.opt r).envDelim else [v] := by
  unfold usedDefault; simp [hk, hv]

theorem default_tags_without_env (E : Env) (P : Parser) (r : ORef)
    (h : P.envKeyNS r = [] ∨ E.getenv (P.envKeyNS r) = none) : usedDefault E P r = (P.opt r).dflt := by
  unfold usedDefault
  rcases h with h | h
  · simp [h]
  · by_cases hk : P.envKeyNS r = []
    · simp [hk]
    · simp [hk, h]

/-- a variable that is set but empty is a value (one empty string), not "unset" -/
theorem empty_env_is_a_value (E : Env) (P : Parser) (r : ORef)
    (hk : P.envKeyNS r ≠ []) (hv : E.getenv (P.envKeyNS r) = some []) (hd : (P.opt r).envDelim = []) :
    usedDefault E P r = [[]] := by
  unfold usedDefault; simp [hk, hv, hd]

/-- the variable's name: the env key prefixed by the enclosing groups' env-namespaces, outermost
    first, joined by the parser's EnvNamespaceDelimiter -/
theorem env_key_with_namespaces (P : Parser) (r : ORef) (h : (P.opt r).envKey ≠ []) :
    P.envKeyNS r = join P.envNsDelim (P.nsPath r.c r.g (·.envNs) ++ [(P.opt r).envKey]) := by
  unfold Parser.envKeyNS; simp [h]

/-- **Defaults replace, never extend**: when a default source provides values, the field is
    emptied first and then receives exactly those values, in order. -/
theorem defaults_start_from_empty (E : Env) (help : HelpFn) (P : Parser) (r : ORef) (log : List Event)
    (hp : (P.opt r).preventDefault = false) (hu : usedDefault E P r ≠ []) :
    optClearDefault E help P r log =
      setDefaults E help r (usedDefault E P r)
        ((P.modOpt r fun o => { o with isSetDefault := true }).modOpt r Opt.empty) log := by
  unfold optClearDefault; simp [hp, hu]

/-- an occurrence on the command line replaces — never extends — what a slice or map held from
    any earlier source: the first occurrence after a parse starts discards the contents -/
theorem first_occurrence_discards_contents (o : Opt) (h : o.ty.isRef = true) (hc : o.clearRef = true)
    (hf : o.ty.isFunc = false) : o.markSet.val = o.ty.emptyValue := by
  unfold Opt.markSet Opt.empty; simp [h, hc, hf]

/-- **As-defaults INI below the command line**: an entry for an option that is already closed is
    skipped entirely (so reading the file after parsing the command line cannot override it). -/
theorem as_defaults_never_overrides_closed_option (E : Env) (help : HelpFn) (file : Bytes)
    (groups : List (Nat × Nat)) (st : IniState) (v : IniVal) (r : ORef)
    (hfind : iniFindOption E st.P groups v.name = some r) (hp : (st.P.opt r).preventDefault = true) :
    iniApplyEntry E help true file groups st v = (st, none) := by
  unfold iniApplyEntry; simp [hfind, hp]

/-! ### The whole defaults phase -/

theorem optSetDefault_other (E : Env) (help : HelpFn) (P : Parser) (r r' : ORef) (v : Option Bytes) (log : List Event)
    (h : r ≠ r') : (optSetDefault E help P r v log).1.opt r' = P.opt r' := by
  unfold optSetDefault
  split
  · rfl
  · have h1 := C01.set_touches_only_its_option E help P r r' v log h
    generalize optSet E help P r v log = res at h1
    obtain ⟨P', log', e⟩ := res
    cases e with
    | some e => exact h1
    | none =>
      simp only at h1 ⊢
      rw [Parser.opt_modOpt_ne _ _ _ _ h]; exact h1

theorem setDefaults_other (E : Env) (help : HelpFn) (r r' : ORef) (ds : List Bytes) (P : Parser) (log : List Event)
    (h : r ≠ r') : (setDefaults E help r ds P log).1.opt r' = P.opt r' := by
  induction ds generalizing P log with
  | nil => rfl
  | cons d ds ih =>
    unfold setDefaults
    have h1 := optSetDefault_other E help P r r' (some d) log h
    generalize optSetDefault E help P r (some d) log = res at h1
    obtain ⟨P', log', e⟩ := res
    cases e with
    | some e => exact h1
    | none => simp only; rw [ih]; exact h1

theorem optClearDefault_other (E : Env) (help : HelpFn) (P : Parser) (r r' : ORef) (log : List Event)
    (h : r ≠ r') : (optClearDefault E help P r log).1.opt r' = P.opt r' := by
  unfold optClearDefault
  split
  · rfl
  · simp only
    split
    · rw [setDefaults_other E help r r' _ _ _ h, Parser.opt_modOpt_ne _ _ _ _ h, Parser.opt_modOpt_ne _ _ _ _ h]
    · split
      · rw [Parser.opt_modOpt_ne _ _ _ _ h, Parser.opt_modOpt_ne _ _ _ _ h]
      · rw [Parser.opt_modOpt_ne _ _ _ _ h]

/-- **A closed option goes through the whole defaults phase untouched.**  Whatever the
    environment holds and whatever default tags it and every other option declare: after defaults
    have been applied to ALL options of the parser (in any order), an option that was closed
    before — it occurred on the command line or a normally read INI file set it — is exactly as it
    was: value, marks and all. -/
theorem closed_option_survives_defaults_phase (E : Env) (help : HelpFn) (r : ORef) (rs : List ORef) :
    ∀ s : PS, (s.P.opt r).preventDefault = true → (clearDefaultsAll E help rs s).P.opt r = s.P.opt r := by
  induction rs with
  | nil => intro s _; rfl
  | cons r' rs ih =>
    intro s hclosed
    unfold clearDefaultsAll
    by_cases hrr : r' = r
    · subst hrr
      rw [closed_option_ignores_defaults E help s.P r' s.log hclosed]
      simp only
      exact ih _ hclosed
    · have hother := optClearDefault_other E help s.P r' r s.log hrr
      generalize optClearDefault E help s.P r' s.log = res at hother
      obtain ⟨P', log', e⟩ := res
      simp only at hother
      cases e with
      | none =>
        simp only
        rw [ih _ (by simp only; rw [hother]; exact hclosed)]
        exact hother
      | some e =>
        simp only
        rw [ih _ (by simp only; rw [hother]; exact hclosed)]
        exact hother
end GoFlags.C05
